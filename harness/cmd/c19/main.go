// vh c19: correspondence streams + property oracle for the web UI (C19).
//
// Compared with the Lean model (one line each):
//
//	cl <hostHex>                          checkLocal via VerifCheckLocal   -> ok | 400 | 403
//	he <hex>                              html.EscapeString                -> <hex>
//	pu <compHex>*                         pathUrl via VerifPathUrl         -> ok <hex> | panic
//	m3u <hostHex> <hash20Hex> <compHex>*  m3uentry via VerifM3uEntry       -> ok <hex> | panic
//
// Oracle only (the model answers "x"):
//
//	x route <method> <routeIdx> <hostIdx>     the real handlers through VerifMux
//	x inject <field> <markerHex> <payloadHex> hostile string through one field, every page fetched
package main

import (
	"bufio"
	"bytes"
	"context"
	"errors"
	"fmt"
	stdhtml "html"
	"io"
	"log"
	"net"
	"net/http"
	"net/http/httptest"
	"net/netip"
	"net/url"
	"sort"
	"strconv"
	"strings"
	"time"

	xhtml "golang.org/x/net/html"

	"github.com/jech/storrent/config"
	"github.com/jech/storrent/hash"
	shttp "github.com/jech/storrent/http"
	"github.com/jech/storrent/known"
	"github.com/jech/storrent/path"
	"github.com/jech/storrent/peer"
	"github.com/jech/storrent/tor"
	"github.com/jech/storrent/tracker"

	"verifharness/nsgen"
	"verifharness/vhlib"
)

var mux *http.ServeMux
var bg = context.Background()

// at most two reports per violation kind, so that one noisy shape cannot use up the
// report's capacity and hide a different failure
var kindCount = map[string]int{}

func violate(c *vhlib.Ctx, kind, detail string, ops []string) {
	kindCount[kind]++
	if kindCount[kind] <= 2 {
		c.Violate(kind, detail, ops)
	}
}

// ---------------------------------------------------------------- torrents

func addTorrentBytes(data []byte) (*tor.Torrent, error) {
	t, err := tor.ReadTorrent("", bytes.NewReader(data))
	if err != nil {
		return nil, err
	}
	return startTorrent(t)
}

func startTorrent(t *tor.Torrent) (*tor.Torrent, error) {
	t.Log.SetOutput(io.Discard)
	_, err := tor.AddTorrent(bg, t)
	if err != nil {
		return nil, err
	}
	return t, nil
}

func kill(t *tor.Torrent) {
	if t == nil {
		return
	}
	ctx, cancel := context.WithTimeout(bg, 10*time.Second)
	defer cancel()
	t.Kill(ctx)
	select {
	case <-t.Deleted:
	case <-time.After(10 * time.Second):
	}
}

func killAll() {
	var ts []*tor.Torrent
	tor.Range(func(h hash.Hash, t *tor.Torrent) bool { ts = append(ts, t); return true })
	for _, t := range ts {
		kill(t)
	}
}

// snapshot of everything a request could read or change
func snapshot() string {
	var rows []string
	tor.Range(func(h hash.Hash, t *tor.Torrent) bool {
		conf, err := t.GetConf()
		rows = append(rows, fmt.Sprintf("%v|%q|%v|%v|%v|%v", t.Hash, t.Name, conf.DhtMode, conf.UseTrackers, conf.UseWebseeds, err))
		return true
	})
	sort.Strings(rows)
	return fmt.Sprintf("n=%d up=%v idle=%v %s", len(rows), config.UploadRate(), config.IdleRate(), strings.Join(rows, ";"))
}

// ---------------------------------------------------------------- requests

type response struct {
	code  int
	hdr   http.Header
	body  string
	panic string
}

// extra request attributes besides method, target and Host
type reqAttrs struct {
	hdr     http.Header
	urlHost string // r.URL.Host (as in an absolute-form request URI), r.Host is still the Host header
	remote  string // r.RemoteAddr
}

// browserTarget turns a link as an HTML/playlist parser hands it over into the request
// target a browser would send: ASCII tab/CR/LF are removed (URL standard), other bytes that
// cannot appear in a request line are percent-encoded.  It never fails.
func browserTarget(t string) string {
	var b strings.Builder
	for i := 0; i < len(t); i++ {
		ch := t[i]
		switch {
		case ch == '\t' || ch == '\n' || ch == '\r':
		case ch <= 0x20 || ch >= 0x7f || strings.IndexByte("\"<>`{}|\\^", ch) >= 0:
			fmt.Fprintf(&b, "%%%02X", ch)
		default:
			b.WriteByte(ch)
		}
	}
	return b.String()
}

// newRequest builds a server-side request without going through a parser that panics on
// malformed input.
func newRequest(method, target, host string, body io.Reader) *http.Request {
	target = browserTarget(target)
	pathPart, query := target, ""
	if i := strings.IndexByte(target, '?'); i >= 0 {
		pathPart, query = target[:i], target[i+1:]
	}
	u := &url.URL{Path: pathPart, RawQuery: query}
	if dec, err := url.PathUnescape(pathPart); err == nil {
		u.Path, u.RawPath = dec, pathPart
	}
	if body == nil {
		body = http.NoBody
	}
	return &http.Request{Method: method, URL: u, Proto: "HTTP/1.1", ProtoMajor: 1, ProtoMinor: 1,
		Header: http.Header{}, Body: io.NopCloser(body), Host: host, RequestURI: target, RemoteAddr: "127.0.0.1:54321"}
}

func do(method, target, host string, form url.Values) response {
	return doWith(method, target, host, form, nil)
}

func doWith(method, target, host string, form url.Values, at *reqAttrs) response {
	var body io.Reader
	if form != nil {
		body = strings.NewReader(form.Encode())
	}
	req := newRequest(method, target, host, body)
	// reading file contents would wait for peers: bound every request
	rctx, cancel := context.WithTimeout(bg, 150*time.Millisecond)
	defer cancel()
	req = req.WithContext(rctx)
	if form != nil {
		req.Header.Set("Content-Type", "application/x-www-form-urlencoded")
		req.ContentLength = int64(len(form.Encode()))
	}
	if at != nil {
		for k, vs := range at.hdr {
			for _, v := range vs {
				req.Header.Add(k, v)
			}
		}
		if at.urlHost != "" {
			req.URL.Scheme, req.URL.Host = "http", at.urlHost
		}
		if at.remote != "" {
			req.RemoteAddr = at.remote
		}
	}
	rec := httptest.NewRecorder()
	var r response
	done := make(chan struct{})
	go func() {
		defer close(done)
		r.panic = vhlib.Recover(func() { mux.ServeHTTP(rec, req) })
	}()
	select {
	case <-done:
	case <-time.After(20 * time.Second):
		r.panic = "handler hung (20 s watchdog)"
		return r
	}
	r.code = rec.Code
	r.hdr = rec.Header()
	r.body = rec.Body.String()
	return r
}

// ---------------------------------------------------------------- route × method × host

var hosts = []struct {
	name, host string
	class      string // refuse: a DNS name other than localhost; local: must be served; either
}{
	{"localhost:p", "localhost:8088", "local"},
	{"127.0.0.1:p", "127.0.0.1:8088", "local"},
	{"[::1]:p", "[::1]:8088", "local"},
	{"evil.com:p", "evil.com:8088", "refuse"},
	{"localhost.evil.com:p", "localhost.evil.com:8088", "refuse"},
	{"evil.com", "evil.com", "refuse"},
	{"empty", "", "either"},
	{"localhost", "localhost", "either"},
	{"1.2.3.4.evil.com:p", "1.2.3.4.evil.com:8088", "refuse"},
	{"LOCALHOST.:p", "localhost.:8088", "refuse"},
	{"evil.com:p:q", "evil.com:80:8088", "refuse"},
	{"127.0.0.1.evil.com:p", "127.0.0.1.evil.com:8088", "refuse"},
}

var methods = []string{"GET", "HEAD", "POST", "PUT", "DELETE"}

type routeT struct {
	name   string
	target func(h, h2 string) string
	form   func(h, h2 string) url.Values
}

var routes = []routeT{
	{"root", func(h, _ string) string { return "/" }, nil},
	{"peers", func(h, _ string) string { return "/?q=peers&hash=" + h }, nil},
	{"add-magnet", func(_, h2 string) string {
		return "/?q=add&url=" + url.QueryEscape("magnet:?xt=urn:btih:"+h2+"&dn=added")
	}, nil},
	{"add-magnet-form", func(_, _ string) string { return "/?q=add" }, func(_, h2 string) url.Values {
		return url.Values{"url": {"magnet:?xt=urn:btih:" + h2 + "&dn=added"}}
	}},
	{"delete", func(h, _ string) string { return "/?q=delete&hash=" + h }, nil},
	{"delete-form", func(_, _ string) string { return "/?q=delete" }, func(h, _ string) url.Values { return url.Values{"hash": {h}} }},
	{"set", func(_, _ string) string { return "/?q=set&upload=12345&idle=777" }, nil},
	{"set-torrent", func(h, _ string) string {
		return "/?q=set-torrent&hash=" + h + "&dht-mode=passive&use-trackers=1&use-webseeds=1"
	}, nil},
	{"bogus-q", func(_, _ string) string { return "/?q=bogus" }, nil},
	{"hash-redirect", func(h, _ string) string { return "/" + h }, nil},
	{"torrent-file", func(h, _ string) string { return "/" + h + ".torrent" }, nil},
	{"playlist", func(h, _ string) string { return "/" + h + ".m3u" }, nil},
	{"directory", func(h, _ string) string { return "/" + h + "/" }, nil},
	{"subdirectory", func(h, _ string) string { return "/" + h + "/dir/" }, nil},
	{"file", func(h, _ string) string { return "/" + h + "/dir/a.txt" }, nil},
	{"dir-playlist", func(h, _ string) string { return "/" + h + "/dir/?playlist" }, nil},
	{"absent-file", func(h, _ string) string { return "/" + h + "/nope" }, nil},
	{"nonsense", func(_, _ string) string { return "/nonsense" }, nil},
	{"unclean", func(h, _ string) string { return "/" + h + "/dir/../dir/a.txt" }, nil},
}

var baseMeta = &nsgen.Meta{
	Name: "baseline torrent", PieceLength: 16384,
	Files:     []nsgen.File{{Path: []string{"dir", "a.txt"}, Length: 5}, {Path: []string{"dir", "b.txt"}, Length: 20000}, {Path: []string{"top"}, Length: 3}},
	AnnounceL: [][]string{{"http://tracker.example/announce"}}, URLList: []string{"http://seed.example/"},
}

const addedHash = "00112233445566778899aabbccddeeff00112233"

func ensureBaseline() *tor.Torrent {
	config.SetUploadRate(512 * 1024)
	config.SetIdleRate(64 * 1024)
	h := baseMeta.InfoHash()
	var extra []*tor.Torrent
	tor.Range(func(k hash.Hash, t *tor.Torrent) bool {
		if !bytes.Equal(k, h) {
			extra = append(extra, t)
		}
		return true
	})
	for _, t := range extra {
		kill(t)
	}
	if t := tor.Get(h); t != nil {
		conf, err := t.GetConf()
		if err == nil && conf.DhtMode == config.DhtNone && !conf.UseTrackers && !conf.UseWebseeds {
			return t
		}
		kill(t)
	}
	t, err := addTorrentBytes(baseMeta.Torrent())
	if err != nil {
		panic("baseline torrent: " + err.Error())
	}
	return t
}

func runRoute(c *vhlib.Ctx, method string, ri, hi int) {
	op := fmt.Sprintf("x route %s %d %d", method, ri, hi)
	if ri < 0 || ri >= len(routes) || hi < 0 || hi >= len(hosts) {
		c.Emit(op, "x")
		return
	}
	t := ensureBaseline()
	hs := t.Hash.String()
	rt := routes[ri]
	hst := hosts[hi]
	target := rt.target(hs, addedHash)
	var form url.Values
	if rt.form != nil && (method == "POST" || method == "PUT") {
		form = rt.form(hs, addedHash)
	}
	before := snapshot()
	r := do(method, target, hst.host, form)
	after := snapshot()
	c.Emit(op, "x")
	shape := rt.name + ":" + method + ":" + hst.name
	c.Count("route:"+hst.class+":"+strconv.Itoa(r.code), shape, true)
	if r.panic != "" {
		violate(c, "panic:route:"+rt.name, fmt.Sprintf("%s %s Host=%q: %s", method, target, hst.host, r.panic), []string{op})
		return
	}
	if hst.class == "refuse" {
		refused := r.code == http.StatusForbidden || r.code == http.StatusBadRequest
		// the mux itself redirects unclean paths before any handler runs; that reads nothing
		if !refused && rt.name == "unclean" && r.code/100 == 3 && !strings.Contains(r.hdr.Get("Location"), "?") {
			refused = true
		}
		if !refused {
			violate(c, "not-refused:"+rt.name+":"+method, fmt.Sprintf("%s %s with Host %q answered %d, not refused", method, target, hst.host, r.code), []string{op})
		}
		if before != after {
			violate(c, "refused-but-changed:"+rt.name+":"+method, fmt.Sprintf("%s %s with Host %q changed the state: %s -> %s", method, target, hst.host, before, after), []string{op})
		}
		// (a redirect issued by the mux itself only echoes the request's own path)
		if r.code/100 != 3 && (strings.Contains(r.body, hs) || strings.Contains(r.body, "baseline") || strings.Contains(r.body, "tracker.example")) {
			violate(c, "refused-but-read:"+rt.name+":"+method, fmt.Sprintf("%s %s with Host %q: the reply shows torrent data", method, target, hst.host), []string{op})
		}
	}
	if hst.class == "either" && (r.code == http.StatusForbidden || r.code == http.StatusBadRequest) && before != after {
		violate(c, "refused-but-changed:"+rt.name+":"+method, fmt.Sprintf("%s %s with Host %q changed the state", method, target, hst.host), []string{op})
	}
}

// ---------------------------------------------------------------- nothing but r.Host decides

// Request attributes a page in the user's browser (or anything in front of the server) can
// set, with a value that looks local and one that looks foreign.  The decision of
// checkLocal must depend on r.Host alone: a foreign Host stays refused whatever these say,
// a local Host is answered as without them.
type attrT struct {
	name string
	mk   func(v string) *reqAttrs // v is "host:port"-like
	qs   func(v string) string    // extra query string, if the attribute is a parameter
}

func hdrAttr(k string, f func(v string) string) func(string) *reqAttrs {
	return func(v string) *reqAttrs { return &reqAttrs{hdr: http.Header{k: {f(v)}}} }
}

var attrs = []attrT{
	{"origin", hdrAttr("Origin", func(v string) string { return "http://" + v }), nil},
	{"origin-noport", hdrAttr("Origin", func(v string) string { return "http://" + strings.SplitN(strings.TrimSuffix(v, ":8088"), "]:", 2)[0] }), nil},
	{"referer", hdrAttr("Referer", func(v string) string { return "http://" + v + "/" }), nil},
	{"x-forwarded-host", hdrAttr("X-Forwarded-Host", func(v string) string { return v }), nil},
	{"x-forwarded-for", hdrAttr("X-Forwarded-For", func(v string) string { return strings.TrimSuffix(v, ":8088") }), nil},
	{"forwarded", hdrAttr("Forwarded", func(v string) string { return "for=" + strings.TrimSuffix(v, ":8088") + ";host=" + v + ";proto=http" }), nil},
	{"x-real-ip", hdrAttr("X-Real-Ip", func(v string) string { return strings.TrimSuffix(v, ":8088") }), nil},
	{"x-host", hdrAttr("X-Host", func(v string) string { return v }), nil},
	{"x-original-host", hdrAttr("X-Original-Host", func(v string) string { return v }), nil},
	{"x-http-method-override", func(string) *reqAttrs {
		return &reqAttrs{hdr: http.Header{"X-Http-Method-Override": {"GET"}, "X-Method-Override": {"GET"}}}
	}, nil},
	{"cookie", hdrAttr("Cookie", func(v string) string { return "host=" + v + "; local=1; origin=http://" + v }), nil},
	{"authorization", hdrAttr("Authorization", func(v string) string { return "Basic bG9jYWxob3N0OmxvY2FsaG9zdA==" }), nil},
	{"host-header-copy", func(v string) *reqAttrs { return &reqAttrs{hdr: http.Header{"Host": {v}}} }, nil},
	{"url-host", func(v string) *reqAttrs { return &reqAttrs{urlHost: v} }, nil},
	{"remote-addr", func(v string) *reqAttrs {
		if strings.HasPrefix(v, "localhost") {
			return &reqAttrs{remote: "127.0.0.1:4444"}
		}
		return &reqAttrs{remote: "203.0.113.9:4444"}
	}, nil},
	{"query", func(string) *reqAttrs { return &reqAttrs{} }, func(v string) string {
		return "host=" + url.QueryEscape(v) + "&Host=" + url.QueryEscape(v) + "&origin=" + url.QueryEscape("http://"+v) + "&local=1&_method=GET"
	}},
	{"all", func(v string) *reqAttrs {
		return &reqAttrs{urlHost: v, hdr: http.Header{"Origin": {"http://" + v}, "Referer": {"http://" + v + "/"}, "X-Forwarded-Host": {v},
			"Forwarded": {"host=" + v}, "Host": {v}, "Cookie": {"host=" + v}}}
	}, nil},
}

var attrValues = map[string][]string{
	"refuse": {"localhost:8088", "127.0.0.1:8088", "[::1]:8088"}, // make a foreign Host look local
	"local":  {"evil.com:8088"},                                  // a local Host with foreign-looking attributes
}

func runAttr(c *vhlib.Ctx, method string, ri, hi, ai, vi int) {
	op := fmt.Sprintf("x attr %s %d %d %d %d", method, ri, hi, ai, vi)
	c.Emit(op, "x")
	if ri < 0 || ri >= len(routes) || hi < 0 || hi >= len(hosts) || ai < 0 || ai >= len(attrs) {
		return
	}
	hst := hosts[hi]
	vals := attrValues[hst.class]
	if vi < 0 || vi >= len(vals) {
		return
	}
	rt, at := routes[ri], attrs[ai]
	mkreq := func(with bool) (response, string, string) {
		t := ensureBaseline()
		hs := t.Hash.String()
		target := rt.target(hs, addedHash)
		var form url.Values
		if rt.form != nil && (method == "POST" || method == "PUT") {
			form = rt.form(hs, addedHash)
		}
		var ra *reqAttrs
		if with {
			ra = at.mk(vals[vi])
			if at.qs != nil {
				if strings.Contains(target, "?") {
					target += "&" + at.qs(vals[vi])
				} else {
					target += "?" + at.qs(vals[vi])
				}
			}
		}
		before := snapshot()
		r := doWith(method, target, hst.host, form, ra)
		return r, before, snapshot()
	}
	r, before, after := mkreq(true)
	c.Count("attr:"+hst.class+":"+at.name+":"+strconv.Itoa(r.code), op, true)
	label := at.name + ":" + rt.name + ":" + method
	if r.panic != "" {
		violate(c, "panic:route:"+rt.name, fmt.Sprintf("%s %s Host=%q with %s=%q: %s", method, rt.name, hst.host, at.name, vals[vi], r.panic), []string{op})
		return
	}
	switch hst.class {
	case "refuse":
		refused := r.code == http.StatusForbidden || r.code == http.StatusBadRequest ||
			rt.name == "unclean" && r.code/100 == 3
		if !refused {
			violate(c, "not-refused:attr:"+label, fmt.Sprintf("%s %s with the foreign Host %q and %s = %q answered %d, not refused", method, rt.name, hst.host, at.name, vals[vi], r.code), []string{op})
		}
		if before != after {
			violate(c, "refused-but-changed:attr:"+label, fmt.Sprintf("%s %s with the foreign Host %q and %s = %q changed the state: %s -> %s", method, rt.name, hst.host, at.name, vals[vi], before, after), []string{op})
		}
	case "local":
		// the property says local hosts work: the answer must be the one given without the attribute
		base, _, _ := mkreq(false)
		if base.panic == "" && base.code != r.code && at.qs == nil {
			violate(c, "local-host-affected:attr:"+label, fmt.Sprintf("%s %s with the local Host %q answers %d, but %d when %s = %q is added", method, rt.name, hst.host, base.code, r.code, at.name, vals[vi]), []string{op})
		}
	}
}

// ---------------------------------------------------------------- the real server

// The server that storrent really runs: http.Serve(addr) registers the handlers on
// http.DefaultServeMux and serves that mux.  Whatever any linked package registered on the
// default mux is reachable here (and only here: VerifMux builds a mux of its own).  Serve
// may be called once per process.
var realAddr string
var realErr error

func startReal() {
	if realAddr != "" || realErr != nil {
		return
	}
	l, err := net.Listen("tcp", "127.0.0.1:0")
	if err != nil {
		realErr = err
		return
	}
	addr := l.Addr().String()
	l.Close()
	if err := shttp.Serve(addr); err != nil {
		realErr = err
		return
	}
	realAddr = addr
}

// doReal sends one request over TCP with exactly the given Host header.
func doReal(method, target, host string) response { return doRealH(method, target, host, nil) }

func doRealH(method, target, host string, hdr http.Header) response {
	var r response
	conn, err := net.DialTimeout("tcp", realAddr, 5*time.Second)
	if err != nil {
		r.panic = "dial: " + err.Error()
		return r
	}
	defer conn.Close()
	conn.SetDeadline(time.Now().Add(5 * time.Second))
	extra := ""
	for k, vs := range hdr {
		if k == "Host" {
			continue // a second Host line makes net/http reject the request before any handler
		}
		for _, v := range vs {
			extra += k + ": " + v + "\r\n"
		}
	}
	fmt.Fprintf(conn, "%s %s HTTP/1.1\r\nHost: %s\r\n%sConnection: close\r\nContent-Length: 0\r\n\r\n", method, browserTarget(target), host, extra)
	resp, err := http.ReadResponse(bufio.NewReader(conn), &http.Request{Method: method})
	if err != nil {
		r.panic = "read: " + err.Error()
		return r
	}
	defer resp.Body.Close()
	body, _ := io.ReadAll(io.LimitReader(resp.Body, 1<<20))
	r.code, r.hdr, r.body = resp.StatusCode, resp.Header, string(body)
	return r
}

// well-known paths of handlers that packages register on the default mux as a side effect
var probePaths = []string{"/debug/pprof/", "/debug/pprof/cmdline", "/debug/pprof/heap", "/debug/pprof/goroutine?debug=2", "/debug/pprof/symbol",
	"/debug/vars", "/debug/requests", "/debug/events", "/metrics", "/favicon.ico", "/robots.txt", "/debug/", "/debug"}

func runReal(c *vhlib.Ctx, method, target string, hi int, label string) {
	op := fmt.Sprintf("x real %s %s %d %s", method, vhlib.Hex([]byte(target)), hi, label)
	c.Emit(op, "x")
	if hi < 0 || hi >= len(hosts) {
		return
	}
	startReal()
	if realErr != nil {
		c.Note("the real server could not be started: " + realErr.Error())
		c.Count("real:unavailable", label, false)
		return
	}
	ensureBaseline()
	hst := hosts[hi]
	before := snapshot()
	r := doReal(method, target, hst.host)
	after := snapshot()
	c.Count("real:"+hst.class+":"+strconv.Itoa(r.code), method+" "+target+" "+hst.name, true)
	if r.panic != "" {
		violate(c, "real-server-error:"+label, fmt.Sprintf("%s %s Host=%q: %s", method, target, hst.host, r.panic), []string{op})
		return
	}
	if hst.class == "refuse" {
		if r.code != http.StatusForbidden && r.code != http.StatusBadRequest {
			violate(c, "not-refused:defaultmux:"+label, fmt.Sprintf("%s %s with Host %q answered %d through the real server (http.DefaultServeMux), not refused: %q", method, target, hst.host, r.code, trunc(r.body, 120)), []string{op})
		}
		if before != after {
			violate(c, "refused-but-changed:defaultmux:"+label, fmt.Sprintf("%s %s with Host %q changed the state", method, target, hst.host), []string{op})
		}
	}
}

// runRealAttr: a foreign Host plus a local-looking header, over TCP through the real server
func runRealAttr(c *vhlib.Ctx, method string, ri, hi, ai, vi int) {
	op := fmt.Sprintf("x realattr %s %d %d %d %d", method, ri, hi, ai, vi)
	c.Emit(op, "x")
	if ri < 0 || ri >= len(routes) || hi < 0 || hi >= len(hosts) || ai < 0 || ai >= len(attrs) || hosts[hi].class != "refuse" ||
		vi < 0 || vi >= len(attrValues["refuse"]) {
		return
	}
	startReal()
	if realErr != nil {
		c.Count("real:unavailable", op, false)
		return
	}
	t := ensureBaseline()
	rt, at, hst := routes[ri], attrs[ai], hosts[hi]
	ra := at.mk(attrValues["refuse"][vi])
	if ra.hdr == nil {
		return
	}
	target := rt.target(t.Hash.String(), addedHash)
	before := snapshot()
	r := doRealH(method, target, hst.host, ra.hdr)
	after := snapshot()
	c.Count("realattr:"+at.name+":"+strconv.Itoa(r.code), op, true)
	if r.panic != "" {
		violate(c, "real-server-error:attr:"+at.name, fmt.Sprintf("%s %s: %s", method, target, r.panic), []string{op})
		return
	}
	if r.code != http.StatusForbidden && r.code != http.StatusBadRequest {
		violate(c, "not-refused:defaultmux:attr:"+at.name+":"+rt.name+":"+method, fmt.Sprintf("%s %s with the foreign Host %q and %s = %q answered %d through the real server", method, rt.name, hst.host, at.name, attrValues["refuse"][vi], r.code), []string{op})
	}
	if before != after {
		violate(c, "refused-but-changed:defaultmux:attr:"+at.name+":"+rt.name+":"+method, "state changed", []string{op})
	}
}

// ---------------------------------------------------------------- injection

var fields = []string{"name", "name-single", "name-magnet", "filepath", "dirpath", "dir-first", "dir-middle", "dir-last", "dir-twice", "file-siblings", "tracker-url", "tracker-error",
	"webseed-url", "httpseed-url", "known-version", "known-id", "peer-version", "peer-id"}

// payload templates; %M is the marker
var payloads = []string{
	`<script>alert("%M")</script>`,
	`"><img src=x onerror=%M>`,
	`'%M' onmouseover='x`,
	`a&b&lt;%M&amp;&#60;`,
	"%M\r\nINJECTED-%M",
	"%M\nhttp://evil.example/%M",
	`%M,with,commas,`,
	`</td></tr></table><h1>%M</h1>`,
	`%M<!-- `,
	`</title><b id=%M>`,
	`%M</a><a href="javascript:%M">`,
	"%M\r#EXTINF:0,%M",
	// the same without '/', which the metadata validation refuses in names and path components
	`<script>alert("%M")<script>`,
	`<svg onload=%M>`,
	`<textarea><title>%M<b id=%M>`,
	// every dangerous byte once more percent-encoded (upper/lower case hex, doubly encoded),
	// entity-encoded, and as Unicode look-alikes / overlong UTF-8: a decoder applied after a
	// sanitiser (or a second decoding step somewhere) turns these back into the real thing
	"%M%0Ahttp:%2F%2Fevil.example%2F%M.mp3",
	"%M%0d%0a#EXTINF:-1%2C%M%0d%0ahttp:%2F%2Fevil.example%2Fx",
	"%M%250A%M%252C%2525",
	"%M%3Cscript%3Ealert(1)%3C%2Fscript%3E%M",
	"%M%22%3E%3Cimg%20src=x%20onerror=%M%3E%27%26",
	"%M&#10;%M&#13;&#x3c;b&#62;&#34;&#39;",
	"%M&amp;lt;b&amp;gt;%M&quot;&lt;i&gt;&amp;amp;",
	"%M\u2028%M\u2029\uff1cb\uff1e\uff02",
	"%M\xc0\x8a%M\xc0\xbcb\xc0\xbe\xe0\x80\x8a",
	"%M%c0%8a%M%C0%BC%e2%80%a8",
	"%M%u000a%M%%0A%0",
	"%M%20%23%3F%2c%M%3c%3e",
	// each dangerous byte ALONE in an otherwise plain name (a fast path for "plain" strings
	// must not let it through)
	"%M\nx%M", "%M\rx%M", "%M<x%M", "%M>x%M", "%M\"x%M", "%M'x%M", "%M&x%M", "%M x%M", "%M,x%M", "%Mx%%M", "%M?x%M", "%M#x%M", "%M\tx%M", "%M\x00x%M", "%M\x7fx%M", "%M;x%M", "%M\\x%M",
}

// encoded forms of the dangerous bytes, spliced into generated strings
var encTokens = []string{"%0A", "%0a", "%0D", "%0d", "%0D%0A", "%2C", "%2c", "%3C", "%3c", "%3E", "%22", "%27", "%26", "%25", "%20", "%2F", "%2f",
	"%3F", "%23", "%250A", "%250a", "%252C", "%2525", "%25250A", "&#10;", "&#13;", "&#x0a;", "&lt;", "&gt;", "&amp;", "&amp;lt;", "&quot;", "&#39;", "&#x3c;",
	"\u2028", "\u2029", "\u0085", "\uff1c", "\uff1e", "\uff0c", "\xc0\x8a", "\xc0\xbc", "\xe0\x80\xbc", "%c0%8a", "%C0%BC", "%e2%80%a8", "%u000a", "%", "%%", "%0", "%zz"}

func layout(paths ...[]string) []nsgen.File {
	var fs []nsgen.File
	for i, p := range paths {
		fs = append(fs, nsgen.File{Path: p, Length: int64(3 + i)})
	}
	return fs
}

// randomLayout: a random tree in which every component is the payload with probability
// 1/3 (deterministic in the payload, so that the op line replays)
func randomLayout(r *vhlib.Rand, payload string) []nsgen.File {
	names := []string{payload, payload + "2", "a", "b", "\x01low", "~high", "cd1", "cd2"}
	seen := map[string]bool{}
	dirs := map[string]bool{}
	var out [][]string
	for i := 0; i < 10; i++ {
		depth := 1 + r.Intn(4)
		var p []string
		for d := 0; d < depth; d++ {
			if r.Chance(33) {
				p = append(p, payload)
			} else {
				p = append(p, names[r.Intn(len(names))])
			}
		}
		k := strings.Join(p, "\x00")
		bad := seen[k] || dirs[k]
		for j := 1; j < len(p); j++ {
			if seen[strings.Join(p[:j], "\x00")] {
				bad = true
			}
		}
		if bad {
			continue
		}
		seen[k] = true
		for j := 1; j < len(p); j++ {
			dirs[strings.Join(p[:j], "\x00")] = true
		}
		out = append(out, p)
	}
	if len(out) == 0 {
		out = [][]string{{payload, "a"}}
	}
	return layout(out...)
}

type fakePeer struct {
	stop chan struct{}
}

// live peer wired by hand: its event loop is served here
func addLivePeer(t *tor.Torrent, addr netip.AddrPort, id []byte) *fakePeer {
	p := peer.VerifNewPeer(peer.VerifPeerOpts{Addr: addr, Hash: t.Hash, Id: id, Pieces: &t.Pieces,
		TorEvent: t.Event, TorDone: t.Done, WriterCap: 64, WriterDone: make(chan struct{})})
	fp := &fakePeer{stop: make(chan struct{})}
	go func() {
		for {
			select {
			case e := <-p.Event:
				vhlib.Recover(func() { peer.VerifHandleEvent(p, e) })
			case <-fp.stop:
				return
			}
		}
	}()
	t.VerifAddPeer(p)
	return fp
}

type page struct {
	name, target string
}

func idWith(inner string) []byte {
	id := []byte("-AAAAAA-bbbbbbbbbbbb")
	copy(id[1:7], inner)
	return id
}

// runInject pushes payload (containing marker) through one field and fetches every page.
func runInject(c *vhlib.Ctx, field, marker, payload string) {
	op := fmt.Sprintf("x inject %s %s %s", field, vhlib.Hex([]byte(marker)), vhlib.Hex([]byte(payload)))
	c.Emit(op, "x")
	killAll()
	m := &nsgen.Meta{Name: "plain", PieceLength: 16384,
		Files:     []nsgen.File{{Path: []string{"d", "f1"}, Length: 10}, {Path: []string{"d", "f2"}, Length: 7}, {Path: []string{"g"}, Length: 3}},
		AnnounceL: [][]string{{"http://tracker.example/announce"}, {"udp://tracker2.example:80"}},
		URLList:   []string{"http://seed.example/x/"}, HTTPSeeds: []string{"http://hseed.example/x"}}
	expectEntries := -1 // playlist entries of the whole torrent
	var dirs []string   // directory pages to fetch (relative, pathUrl-style is not assumed: see below)
	var t *tor.Torrent
	var err error
	var live *fakePeer
	switch field {
	case "name":
		m.Name = payload
	case "name-single":
		m.Name, m.Files, m.Length = payload, nil, 12345
	case "filepath":
		m.Files[1].Path = []string{"d", payload}
	case "dirpath":
		m.Files[0].Path = []string{payload, "f1"}
		m.Files[1].Path = []string{payload, "f2"}
	// nested layouts: the rendering of a row depends on the previous row (lastdir), so the
	// string must also sit in components shared between consecutive rows
	case "dir-first":
		m.Files = layout([]string{payload, "cd1", "a"}, []string{payload, "cd2", "b"}, []string{payload, "cd2", "c"},
			[]string{payload, "z"}, []string{"\x01low", "x"}, []string{"~high", "y"})
	case "dir-middle":
		m.Files = layout([]string{"top", payload, "cd1", "a"}, []string{"top", payload, "cd2", "b"}, []string{"top", payload, "cd3", "d", "e"},
			[]string{"top", "\x01low", "r"}, []string{"top", "~high", "r"}, []string{"u"})
	case "dir-last":
		m.Files = layout([]string{"top", "mid", payload, "a"}, []string{"top", "mid", payload, "b"}, []string{"top", "mid", payload + "2", "c"},
			[]string{"top", "mid", "\x01low", "c"}, []string{"top", "other", payload, "a"})
	case "dir-twice":
		m.Files = layout([]string{payload, payload, "cd1", "a"}, []string{payload, payload, "cd2", "b"}, []string{payload, "k", "c"})
	case "file-siblings":
		m.Files = layout([]string{"d", payload}, []string{"d", payload + "2"}, []string{"d", "e", payload}, []string{payload})
	case "layout":
		m.Files = randomLayout(vhlib.NewRand(uint64(len(payload))*7919+uint64(vhlib.Fnv64([]byte(payload)))), payload)
	case "tracker-url":
		m.AnnounceL = [][]string{{"http://tracker.example/" + payload}, {"weird://" + payload}}
	case "webseed-url":
		m.URLList = []string{"http://seed.example/" + payload}
	case "httpseed-url":
		m.HTTPSeeds = []string{"https://hseed.example/" + payload}
	}
	if field == "name-magnet" {
		t, err = tor.ReadMagnet("", "magnet:?xt=urn:btih:"+addedHash+"&dn="+url.QueryEscape(payload)+
			"&tr="+url.QueryEscape("http://tracker.example/"+payload)+"&ws="+url.QueryEscape("http://seed.example/"+payload))
		if err == nil && t != nil {
			t, err = startTorrent(t)
		} else if err == nil {
			err = errors.New("magnet not recognised")
		}
	} else {
		t, err = addTorrentBytes(m.Torrent())
	}
	if err != nil || t == nil {
		c.Count("inject:rejected:"+field, op, false)
		return
	}
	defer func() {
		if live != nil {
			close(live.stop)
		}
		kill(t)
	}()
	if t.InfoComplete() {
		if t.Files == nil {
			expectEntries = 1
		} else {
			expectEntries = len(t.Files)
		}
	}
	switch field {
	case "tracker-error":
		for _, tier := range t.Trackers() {
			for _, tr := range tier {
				tracker.VerifSetTime(tr, time.Now())
				tracker.VerifUpdateInterval(tr, time.Hour, errors.New(payload))
			}
		}
	case "known-version":
		t.AddKnown(netip.MustParseAddrPort("10.9.8.7:6881"), hash.Hash(idWith("VERSIO")), payload, known.Seen)
	case "known-id":
		t.AddKnown(netip.MustParseAddrPort("10.9.8.7:6881"), hash.Hash(idWith(payload)), "", known.Seen)
	case "peer-version":
		a := netip.MustParseAddrPort("10.9.8.6:6881")
		id := idWith("LIVEPR")
		t.AddKnown(a, hash.Hash(id), payload, known.Seen)
		live = addLivePeer(t, a, id)
	case "peer-id":
		live = addLivePeer(t, netip.MustParseAddrPort("10.9.8.6:6881"), idWith(payload))
	}
	hs := t.Hash.String()
	pages := []page{{"root", "/"}, {"peers", "/?q=peers&hash=" + hs}, {"dir", "/" + hs + "/"},
		{"m3u", "/" + hs + ".m3u"}, {"dir-playlist", "/" + hs + "/?playlist"}, {"torrent", "/" + hs + ".torrent"}}
	// sub-directory pages: the real links of the top directory page are followed below
	_ = dirs
	rendered := false
	seenDirs := map[string]bool{}
	for i := 0; i < len(pages); i++ {
		pg := pages[i]
		r := do("GET", pg.target, "localhost:8088", nil)
		if r.panic != "" {
			violate(c, "panic:page:"+pg.name+":"+field, fmt.Sprintf("GET %s: %s", pg.target, r.panic), []string{op})
			continue
		}
		ct := r.hdr.Get("Content-Type")
		has := strings.Contains(r.body, marker)
		switch {
		case strings.HasPrefix(ct, "text/html"):
			links := checkHTML(c, op, pg.name, field, marker, payload, r.body, &rendered)
			if pg.name == "dir" || pg.name == "subdir" {
				for _, l := range links {
					if strings.HasPrefix(l, "/"+hs+"/") && strings.HasSuffix(l, "/") && !seenDirs[l] && len(seenDirs) < 16 {
						seenDirs[l] = true
						el := l
						if u, err := url.Parse(l); err == nil {
							el = u.EscapedPath()
						}
						pages = append(pages, page{"subdir", el}, page{"subdir-playlist", el + "?playlist"})
					}
				}
			}
		case strings.HasPrefix(ct, "application/vnd.apple.mpegurl"):
			if r.code == 200 {
				n := expectEntries
				if pg.name == "subdir-playlist" {
					n = -1 // the entry count of a sub-directory is checked by C20; here: pairs only
				}
				checkPlaylist(c, op, pg.name, field, r.body, n)
				if has {
					rendered = true
				}
			}
		case strings.HasPrefix(ct, "application/x-bittorrent"):
		case strings.HasPrefix(ct, "text/plain"):
			if has && r.hdr.Get("X-Content-Type-Options") != "nosniff" {
				violate(c, "sniffable:"+pg.name+":"+field, "text/plain reply carrying a controlled string without nosniff", []string{op})
			}
		default:
			if has {
				violate(c, "content-type:"+pg.name+":"+field, fmt.Sprintf("reply with Content-Type %q carries a controlled string", ct), []string{op})
			}
		}
	}
	c.Count(fmt.Sprintf("inject:%s:rendered=%v", field, rendered), op, true)
}

// what an HTML parser does to text that is not markup: CR and CRLF become LF, NUL becomes U+FFFD
func normNL(s string) string {
	s = strings.ReplaceAll(s, "\r\n", "\n")
	s = strings.ReplaceAll(s, "\x00", "\uFFFD")
	return strings.ReplaceAll(s, "\r", "\n")
}

// checkHTML tokenises one page with an independent HTML tokenizer and restates the
// property: a controlled string occurs only as text (or inside an <a href>), never in a
// tag name, attribute name, other attribute, comment, doctype or raw-text element, and
// every text node carrying the marker carries the complete string (i.e. it was escaped:
// decoding the entities gives back exactly what the torrent/tracker/peer supplied).
func checkHTML(c *vhlib.Ctx, op, pg, field, marker, payload, body string, rendered *bool) (links []string) {
	z := xhtml.NewTokenizer(strings.NewReader(body))
	lm := strings.ToLower(marker)
	want := normNL(payload)
	if field == "known-id" || field == "peer-id" {
		want = normNL(payload)
	}
	var open []string
	viol := func(kind, detail string) {
		violate(c, kind+":"+pg+":"+field, detail+" | payload "+strconv.Quote(payload), []string{op})
	}
	for {
		tt := z.Next()
		if tt == xhtml.ErrorToken {
			break
		}
		tok := z.Token()
		switch tt {
		case xhtml.StartTagToken, xhtml.SelfClosingTagToken, xhtml.EndTagToken:
			if strings.Contains(strings.ToLower(tok.Data), lm) {
				viol("markup:tag", "controlled string in a tag name: <"+tok.Data+">")
			}
			for _, a := range tok.Attr {
				if strings.Contains(strings.ToLower(a.Key), lm) {
					viol("markup:attr-name", fmt.Sprintf("controlled string in an attribute name of <%s>: %q", tok.Data, a.Key))
				}
				if strings.Contains(strings.ToLower(a.Val), lm) {
					js := strings.HasPrefix(strings.ToLower(strings.TrimSpace(a.Val)), "javascript:")
					// inert attribute (not an event handler, style or document source) whose
					// decoded value is the string exactly as supplied: that is "escaped"
					inert := !strings.HasPrefix(a.Key, "on") && a.Key != "style" && a.Key != "srcdoc" && !js &&
						strings.Contains(normNL(a.Val), want)
					if tok.Data == "a" && a.Key == "href" && !js {
						*rendered = true
					} else if inert {
						*rendered = true
					} else {
						viol("markup:attr-value", fmt.Sprintf("controlled string in attribute %s of <%s>: %q", a.Key, tok.Data, a.Val))
					}
				}
				if tok.Data == "a" && a.Key == "href" {
					links = append(links, a.Val)
				}
			}
			if tt == xhtml.StartTagToken {
				open = append(open, tok.Data)
			} else if tt == xhtml.EndTagToken {
				for i := len(open) - 1; i >= 0; i-- {
					if open[i] == tok.Data {
						open = open[:i]
						break
					}
				}
			}
		case xhtml.TextToken:
			if !strings.Contains(tok.Data, marker) {
				continue
			}
			in := ""
			if len(open) > 0 {
				in = open[len(open)-1]
			}
			if in == "script" || in == "style" {
				viol("markup:rawtext", "controlled string inside <"+in+">")
				continue
			}
			if !strings.Contains(normNL(tok.Data), want) {
				viol("unescaped:text", fmt.Sprintf("text node %q does not carry the string as supplied (in <%s>)", trunc(tok.Data, 200), in))
				continue
			}
			*rendered = true
		case xhtml.CommentToken, xhtml.DoctypeToken:
			if strings.Contains(tok.Data, marker) {
				viol("markup:comment", "controlled string inside a comment/doctype")
			}
		}
	}
	return links
}

func trunc(s string, n int) string {
	if len(s) > n {
		return s[:n] + "…"
	}
	return s
}

// checkPlaylist: "#EXTM3U" then exactly two lines per entry, whatever the names contain.
func checkPlaylist(c *vhlib.Ctx, op, pg, field, body string, entries int) {
	viol := func(kind, detail string) {
		violate(c, kind+":"+pg+":"+field, detail, []string{op})
	}
	if !strings.HasSuffix(body, "\n") {
		viol("playlist:unterminated", "playlist does not end with a newline")
		return
	}
	lines := strings.Split(strings.TrimSuffix(body, "\n"), "\n")
	if len(lines) == 0 || lines[0] != "#EXTM3U" {
		viol("playlist:header", "first line is not #EXTM3U")
		return
	}
	lines = lines[1:]
	if entries >= 0 && len(lines) != 2*entries {
		viol("playlist:lines", fmt.Sprintf("%d entries expected (%d lines) but the playlist has %d lines: %q", entries, 2*entries, len(lines), trunc(body, 300)))
		return
	}
	if len(lines)%2 != 0 {
		viol("playlist:lines", fmt.Sprintf("odd number of entry lines (%d): %q", len(lines), trunc(body, 300)))
		return
	}
	for i, l := range lines {
		if strings.ContainsAny(l, "\r") {
			viol("playlist:cr", fmt.Sprintf("carriage return inside line %d: %q", i+2, trunc(l, 200)))
			return
		}
		if i%2 == 0 && !strings.HasPrefix(l, "#EXTINF:-1,") {
			viol("playlist:lines", fmt.Sprintf("line %d should be an #EXTINF line: %q", i+2, trunc(l, 200)))
			return
		}
		if i%2 == 1 && (!strings.HasPrefix(l, "http://localhost:8088/") || strings.ContainsAny(l, " \t")) {
			viol("playlist:lines", fmt.Sprintf("line %d should be a URL: %q", i+2, trunc(l, 200)))
			return
		}
	}
}

// ---------------------------------------------------------------- correspondence streams

func runCL(c *vhlib.Ctx, host string, tag string) {
	op := "cl " + vhlib.Hex([]byte(host))
	req := httptest.NewRequest("GET", "/", nil)
	req.Host = host
	rec := httptest.NewRecorder()
	var ok bool
	p := vhlib.Recover(func() { ok = shttp.VerifCheckLocal(rec, req) })
	obs := ""
	switch {
	case p != "":
		obs = "panic"
		violate(c, "panic:checkLocal", fmt.Sprintf("Host %q: %s", host, p), []string{op})
	case ok:
		obs = "ok"
	default:
		obs = strconv.Itoa(rec.Code)
	}
	c.Emit(op, obs)
	c.Count("cl:"+tag+":"+obs, host, true)
	// oracle: a DNS name other than localhost is refused
	h, _, err := splitLoose(host)
	if err == nil && isDNSName(h) && h != "localhost" && ok {
		violate(c, "not-refused:checkLocal", fmt.Sprintf("Host %q (DNS name %q) accepted", host, h), []string{op})
	}
}

// host part as a browser / RFC 7230 sees it: everything before the last ':' that is
// followed by digits only (or the whole string), brackets removed.
func splitLoose(hp string) (host, port string, err error) {
	if strings.HasPrefix(hp, "[") {
		return "", "", errors.New("ip literal")
	}
	if i := strings.LastIndexByte(hp, ':'); i >= 0 {
		return hp[:i], hp[i+1:], nil
	}
	return hp, "", nil
}

// letters, digits, hyphens, dots, at least one letter, non-empty labels
func isDNSName(h string) bool {
	if h == "" {
		return false
	}
	letter := false
	for _, l := range strings.Split(h, ".") {
		if l == "" {
			return false
		}
		for _, ch := range []byte(l) {
			switch {
			case ch >= 'a' && ch <= 'z' || ch >= 'A' && ch <= 'Z' || ch == '-' || ch == '_':
				letter = true
			case ch >= '0' && ch <= '9':
			default:
				return false
			}
		}
	}
	return letter
}

func runHE(c *vhlib.Ctx, s string) {
	op := "he " + vhlib.Hex([]byte(s))
	out := htmlEscape(s)
	c.Emit(op, vhlib.Hex([]byte(out)))
	c.Count("he", s, len(s) > 0)
	// oracle (restating the clause): none of < > " ' and every & starts an entity; decodes back
	if strings.ContainsAny(out, "<>\"'") {
		violate(c, "escape:metachar", fmt.Sprintf("EscapeString(%q) = %q", s, out), []string{op})
	}
	if xhtml.UnescapeString(out) != s && !strings.Contains(s, "&") {
		violate(c, "escape:roundtrip", fmt.Sprintf("EscapeString(%q) = %q does not decode back", s, out), []string{op})
	}
}

func compsOp(name string, pre []string, p []string) string {
	parts := append([]string{name}, pre...)
	for _, s := range p {
		parts = append(parts, vhlib.Hex([]byte(s)))
	}
	return strings.Join(parts, " ")
}

func runPU(c *vhlib.Ctx, p []string) {
	op := compsOp("pu", nil, p)
	var out string
	pn := vhlib.Recover(func() { out = shttp.VerifPathUrl(path.Path(p)) })
	if pn != "" {
		c.Emit(op, "panic")
		c.Count("pu:panic", op, true)
		return
	}
	c.Emit(op, "ok "+vhlib.Hex([]byte(out)))
	c.Count("pu:ok", op, true)
	if strings.ContainsAny(out, "<>\"' \n\r") {
		violate(c, "pathurl:metachar", fmt.Sprintf("pathUrl(%q) = %q", p, out), []string{op})
	}
}

func runM3U(c *vhlib.Ctx, host string, h []byte, p []string) {
	op := compsOp("m3u", []string{vhlib.Hex([]byte(host)), vhlib.Hex(h)}, p)
	rec := httptest.NewRecorder()
	pn := vhlib.Recover(func() { shttp.VerifM3uEntry(rec, host, hash.Hash(h), path.Path(p)) })
	if pn != "" {
		c.Emit(op, "panic")
		c.Count("m3u:panic", op, true)
		return
	}
	out := rec.Body.String()
	c.Emit(op, "ok "+vhlib.Hex([]byte(out)))
	c.Count("m3u:ok", op, true)
	if strings.Count(out, "\n") != 2 || strings.Contains(out, "\r") || !strings.HasSuffix(out, "\n") {
		violate(c, "playlist:lines:m3uentry", fmt.Sprintf("m3uentry(%q) wrote %q: not exactly two lines", p, out), []string{op})
	}
}

var hostSeeds = []string{
	"localhost:80", "localhost", "localhost:", ":80", "", "evil.com:80", "evil.com", "localhost.evil.com:80",
	"1.2.3.4.evil.com:80", "127.0.0.1:80", "127.0.0.1", "1.2.3.4:80", "01.2.3.4:80", "1.2.3.256:80", "1.2.3:80",
	"1.2.3.4.5:80", "1.2.3.:80", ".1.2.3:80", "1..2.3:80", "0.0.0.0:80", "255.255.255.255:1", "1.2.3.4x:80", "1.2.3.0:80", "1.2.3.00:80",
	"[::1]:80", "[::1]", "::1:80", "[::]:80", "[1:2:3:4:5:6:7:8]:80", "[1:2:3:4:5:6:7:8:9]:80", "[1:2:3:4:5:6:7]:80",
	"[::ffff:1.2.3.4]:80", "[1:2:3:4:5:6:1.2.3.4]:80", "[1:2:3:4:5:1.2.3.4]:80", "[1::1.2.3.4]:80", "[fe80::1%eth0]:80", "[fe80::1%]:80",
	"[12345::1]:80", "[1:::2]:80", "[1::2::3]:80", "[::1:]:80", "[:1]:80", "[1:2:3:4:5:6:7::]:80", "[1:2:3:4:5:6:7:8::]:80", "[::1:2:3:4:5:6:7:8]:80",
	"[::1:2:3:4:5:6:7]:80", "[abcd:EF01::]:80", "[g::1]:80", "[::1]x:80", "[::1]:80:90", "[[::1]]:80", "[::1]]:80", "[localhost]:80", "[127.0.0.1]:80",
	"[evil.com]:80", "a[b:80", "a]b:80", "localhost:80:90", "%:80", "1%2:80", "[1::%25]:80", "[::1.2.3.4.5]:80", "[::1.2.3]:80", "[1:2:3:4:5:6:7:1.2.3.4]:80",
	"[::ffff:01.2.3.4]:80", "[1.2.3.4::]:80", "[:]:80", "[::]x", "x:[::1]:80", "LOCALHOST:80", "localhost.:80", "locaIhost:80", "0x7f.0.0.1:80", "2130706433:80",
	"[1:2:3:4:5:6:7:8:1.2.3.4]:80", "[1:2:3:4:5:6:7:1.2.3.4]:1", "[::1:2:3:4:5:6:1.2.3.4]:80", "[1:2:3:4:5:6::1.2.3.4]:80", "[1:2:3:4:5::1.2.3.4]:80",
}

const hostAlpha = "[]:.%0123456789abcdefxlocalhost-_ /\\@"

func genHost(r *vhlib.Rand) (string, string) {
	s := []byte(hostSeeds[r.Intn(len(hostSeeds))])
	tag := "seed"
	nm := 0
	if r.Chance(60) {
		nm = 1 + r.Intn(3)
		tag = "mutated"
	}
	for i := 0; i < nm; i++ {
		switch r.Intn(4) {
		case 0:
			if len(s) > 0 {
				k := r.Intn(len(s))
				s = append(s[:k], s[k+1:]...)
			}
		case 1:
			k := r.Intn(len(s) + 1)
			s = append(s[:k], append([]byte{hostAlpha[r.Intn(len(hostAlpha))]}, s[k:]...)...)
		case 2:
			if len(s) > 0 {
				s[r.Intn(len(s))] = hostAlpha[r.Intn(len(hostAlpha))]
			}
		case 3:
			if len(s) > 0 {
				k := r.Intn(len(s))
				s = append(s[:k], append([]byte{s[k]}, s[k:]...)...)
			}
		}
	}
	if r.Chance(5) {
		// random group structure
		var b strings.Builder
		b.WriteByte('[')
		n := r.Intn(10)
		for i := 0; i < n; i++ {
			if i > 0 || r.Chance(20) {
				b.WriteByte(':')
				if r.Chance(15) {
					b.WriteByte(':')
				}
			}
			for k := r.Intn(6); k > 0; k-- {
				b.WriteByte("0123456789abcdefABCDEF"[r.Intn(22)])
			}
		}
		if r.Chance(30) {
			fmt.Fprintf(&b, ":%d.%d.%d.%d", r.Intn(300), r.Intn(256), r.Intn(256), r.Intn(256))
		}
		b.WriteString("]:80")
		return b.String(), "v6gen"
	}
	return string(s), tag
}

const strAlpha = "&'<>\"&&<< ,;/?:@=+$%#\r\n\t\x00\x7f\xc3\xa9\xff-_.~aZ09"

func genStr(r *vhlib.Rand, max int) string {
	n := r.Intn(max + 1)
	var b []byte
	// a third of the strings are "clean" apart from encoded tokens, so that a decoder that
	// insists on valid input accepts them
	clean := r.Chance(33)
	for i := 0; i < n; i++ {
		switch {
		case r.Chance(22):
			b = append(b, encTokens[r.Intn(len(encTokens)-map[bool]int{true: 5, false: 0}[clean])]...)
		case clean:
			b = append(b, "abcXYZ019-_."[r.Intn(12)])
		case r.Chance(85):
			b = append(b, strAlpha[r.Intn(len(strAlpha))])
		default:
			b = append(b, byte(r.U64()))
		}
	}
	return string(b)
}

func genPath(r *vhlib.Rand) []string {
	n := r.PickInt(0, 1, 1, 2, 2, 3, 4)
	p := make([]string, n)
	for i := range p {
		p[i] = genStr(r, 8)
	}
	return p
}

func htmlEscape(s string) string { return stdhtml.EscapeString(s) }

func genCorr(c *vhlib.Ctx, r *vhlib.Rand) {
	switch k := r.Intn(100); {
	case k < 45:
		h, tag := genHost(r)
		runCL(c, h, tag)
	case k < 65:
		runHE(c, genStr(r, 24))
	case k < 85:
		runPU(c, genPath(r))
	default:
		host := "localhost:8088"
		if r.Chance(30) {
			host = "[::1]:" + strconv.Itoa(r.Intn(65536))
		}
		runM3U(c, host, r.Bytes(20), genPath(r))
	}
}

func main() {
	c := vhlib.Init("c19")
	defer c.Close()
	log.SetOutput(io.Discard)
	config.DefaultDhtMode = config.DhtNone
	config.DefaultUseTrackers = false
	config.DefaultUseWebseeds = false
	config.SetDefaultProxy("")
	mux = shttp.VerifMux()
	c.Rep.Rule = "routes x methods x Host headers through the real handlers (state snapshot around every refused request); hostile payloads x every torrent/tracker/web-seed/peer-controlled field with every page tokenised; generated Host strings, byte strings and paths for checkLocal/EscapeString/pathUrl/m3uentry vs the model; non-trivial = reaches a handler or a non-empty string; distinct = distinct op lines"
	if c.Replay != "" {
		for _, l := range c.ReplayLines() {
			f := strings.Fields(l)
			switch {
			case len(f) == 2 && f[0] == "cl":
				runCL(c, string(vhlib.UnHex(f[1])), "replay")
			case len(f) == 2 && f[0] == "he":
				runHE(c, string(vhlib.UnHex(f[1])))
			case len(f) >= 1 && f[0] == "pu":
				var p []string
				for _, h := range f[1:] {
					p = append(p, string(vhlib.UnHex(h)))
				}
				runPU(c, p)
			case len(f) >= 3 && f[0] == "m3u":
				var p []string
				for _, h := range f[3:] {
					p = append(p, string(vhlib.UnHex(h)))
				}
				runM3U(c, string(vhlib.UnHex(f[1])), vhlib.UnHex(f[2]), p)
			case len(f) == 5 && f[0] == "x" && f[1] == "route":
				ri, _ := strconv.Atoi(f[3])
				hi, _ := strconv.Atoi(f[4])
				runRoute(c, f[2], ri, hi)
			case len(f) == 7 && f[0] == "x" && f[1] == "attr":
				var v [4]int
				for i := range v {
					v[i], _ = strconv.Atoi(f[3+i])
				}
				runAttr(c, f[2], v[0], v[1], v[2], v[3])
			case len(f) == 7 && f[0] == "x" && f[1] == "realattr":
				var v [4]int
				for i := range v {
					v[i], _ = strconv.Atoi(f[3+i])
				}
				runRealAttr(c, f[2], v[0], v[1], v[2], v[3])
			case len(f) == 6 && f[0] == "x" && f[1] == "real":
				hi, _ := strconv.Atoi(f[4])
				runReal(c, f[2], string(vhlib.UnHex(f[3])), hi, f[5])
			case len(f) == 5 && f[0] == "x" && f[1] == "inject":
				runInject(c, f[2], string(vhlib.UnHex(f[3])), string(vhlib.UnHex(f[4])))
			default:
				c.Emit(l, "bad-op")
			}
		}
		killAll()
		return
	}
	// (1) every route x method x Host
	for ri := range routes {
		for _, m := range methods {
			for hi := range hosts {
				runRoute(c, m, ri, hi)
			}
		}
	}
	// (1a) nothing but r.Host decides: every route x {GET, POST} x foreign and local Hosts x
	// every other attribute of the request
	for ri := range routes {
		for _, m := range []string{"GET", "POST"} {
			for hi, h := range hosts {
				if !(h.name == "evil.com:p" || h.name == "localhost.evil.com:p" || h.name == "evil.com" || h.name == "localhost:p" || h.name == "[::1]:p") {
					continue
				}
				if h.class == "local" && m == "GET" && (routes[ri].name == "file" || routes[ri].name == "unclean") {
					continue // would wait for file data that no peer delivers; POST covers the route
				}
				for ai := range attrs {
					for vi := range attrValues[h.class] {
						if h.name != "evil.com:p" && vi > 0 {
							continue
						}
						runAttr(c, m, ri, hi, ai, vi)
					}
				}
			}
		}
	}
	// (1b) the same foreign Hosts through the REAL server (http.Serve -> DefaultServeMux)
	// over TCP: every route, the well-known debug paths, some random paths
	{
		t := ensureBaseline()
		hs := t.Hash.String()
		type tgt struct{ target, label string }
		var tgts []tgt
		for _, p := range probePaths {
			tgts = append(tgts, tgt{p, "probe:" + strings.SplitN(p, "?", 2)[0]})
		}
		for _, rt := range routes {
			if rt.name != "unclean" {
				tgts = append(tgts, tgt{rt.target(hs, addedHash), "route:" + rt.name})
			}
		}
		for i := 0; i < 6; i++ {
			w := []string{"debug", "pprof", "status", "admin", "api", "static", "x", hs[:8], "metrics", "vars"}
			p := ""
			for k := 1 + c.R.Intn(3); k > 0; k-- {
				p += "/" + w[c.R.Intn(len(w))]
			}
			if c.R.Bool() {
				p += "/"
			}
			tgts = append(tgts, tgt{p, "random"})
		}
		for _, tg := range tgts {
			for _, m := range []string{"GET", "HEAD", "POST"} {
				for hi, h := range hosts {
					if h.class == "refuse" || h.name == "localhost:p" && strings.HasPrefix(tg.label, "probe") && m != "POST" {
						runReal(c, m, tg.target, hi, tg.label)
					}
				}
			}
		}
	}
	for ri, rt := range routes {
		if rt.name != "root" && rt.name != "delete" && rt.name != "set" && rt.name != "file" {
			continue
		}
		for _, m := range []string{"GET", "POST"} {
			for ai := range attrs {
				runRealAttr(c, m, ri, 3, ai, 0)
			}
		}
	}
	killAll()
	// (2) every field x payload (thorough: plus random payload compositions)
	n := 0
	for _, f := range fields {
		for pi, tmpl := range payloads {
			n++
			marker := fmt.Sprintf("MK%dq%dZ", pi, n)
			if f == "known-id" || f == "peer-id" {
				// six bytes between the dashes of an Azureus-style peer id
				marker = "MKq"
				short := []string{`<MKq>"`, `"MKq<a`, `'MKq&<`, `&MKq;<`, "\rMKq\n<", `<!MKq-`}
				if pi >= len(short) {
					continue
				}
				runInject(c, f, marker, short[pi])
				continue
			}
			runInject(c, f, marker, strings.ReplaceAll(tmpl, "%M", marker))
		}
	}
	for pi, tmpl := range payloads {
		marker := fmt.Sprintf("MKl%dZ", pi)
		runInject(c, "layout", marker, strings.ReplaceAll(tmpl, "%M", marker))
	}
	if c.Tier == "thorough" {
		for i := 0; i < 400; i++ {
			f := fields[c.R.Intn(len(fields))]
			if f == "known-id" || f == "peer-id" {
				continue
			}
			marker := fmt.Sprintf("MKr%dZ", i)
			pl := genStr(c.R, 6) + marker + genStr(c.R, 10) + payloads[c.R.Intn(len(payloads))]
			if c.R.Chance(25) {
				f = "layout"
			}
			runInject(c, f, marker, strings.ReplaceAll(pl, "%M", marker))
		}
	}
	killAll()
	// (3) correspondence of the string functions
	for _, h := range hostSeeds {
		runCL(c, h, "seed")
	}
	for _, h := range hosts {
		runCL(c, h.host, "fixed")
	}
	runPU(c, nil)
	runPU(c, []string{""})
	runPU(c, []string{"", ""})
	runM3U(c, "localhost:8088", make([]byte, 20), nil)
	runM3U(c, "localhost:8088", make([]byte, 20), []string{"a,b\r\nc"})
	for _, tmpl := range payloads {
		pl := strings.ReplaceAll(tmpl, "%M", "MK")
		runM3U(c, "localhost:8088", make([]byte, 20), []string{"d", pl})
		runPU(c, []string{pl, pl})
		runHE(c, pl)
	}
	for _, tk := range encTokens {
		runM3U(c, "localhost:8088", make([]byte, 20), []string{"a" + tk + "b"})
	}
	// every byte value alone in an otherwise plain string, as file name and as directory name
	for b := 0; b < 256; b++ {
		nm := "ab" + string([]byte{byte(b)}) + "cd"
		runPU(c, []string{nm})
		runPU(c, []string{nm, "e.mp3"})
		runM3U(c, "localhost:8088", make([]byte, 20), []string{"dir", nm})
		runM3U(c, "localhost:8088", make([]byte, 20), []string{nm, "e.mp3"})
		runHE(c, nm)
	}
	for i := 0; i < c.N; i++ {
		genCorr(c, c.R)
	}
}
