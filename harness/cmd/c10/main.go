// vh c10: (1) `rq …` ops: the real tor.Requested, requestPiece and the TorHave handler of a
// real tor.Torrent driven directly through the Verif hooks (no goroutines), line by line
// against Model/Requested.lean; (2) `rd …` ops: the real event loop (tor.AddTorrent) with
// several real tor.Readers and direct Torrent.Request consumers at priorities {-1,0,1,5}
// (and the idle priority), completions injected through Pieces.AddData + Finalise +
// Torrent.Have, evictions through Pieces.Expire; Torrent.requested is read by the loop itself.
package main

import (
	"bytes"
	"context"
	"fmt"
	"github.com/jech/storrent/config"
	"sort"
	"strconv"
	"strings"
	"sync"

	"github.com/jech/storrent/peer"
	"github.com/jech/storrent/tor"

	"verifharness/torsim"
	"verifharness/vhlib"
)

type caseOut struct {
	lines [][2]string
	viol  []vhlib.Violation
	tags  map[string]int
}

// ---------------------------------------------------------------- deterministic mode
type qsim struct {
	t       *tor.Torrent
	content []byte
	ps      int
	n       int
	chans   []<-chan struct{}
	owner   []int
	wasOpen []bool
	fake    *peer.Peer
	held    map[[2]int]int // priorities added and not yet withdrawn (multiset)
	idle    map[int]bool
	lines   [][2]string
	viol    []vhlib.Violation
	tags    map[string]int
	crashed bool
}

func (q *qsim) violate(kind, detail string) {
	if len(q.viol) > 20 {
		return
	}
	var ops []string
	for _, l := range q.lines {
		ops = append(ops, l[0])
	}
	q.viol = append(q.viol, vhlib.Violation{Kind: kind, Detail: detail, Ops: ops})
}

func (q *qsim) chanID(ch <-chan struct{}, piece int) string {
	if ch == nil {
		return "-"
	}
	for i, c := range q.chans {
		if c == ch {
			if q.owner[i] != piece {
				q.violate("channel:wrong-piece", fmt.Sprintf("channel c%d of piece %d returned for piece %d", i, q.owner[i], piece))
			}
			return fmt.Sprintf("c%d", i)
		}
	}
	q.chans = append(q.chans, ch)
	q.owner = append(q.owner, piece)
	q.wasOpen = append(q.wasOpen, true)
	return fmt.Sprintf("c%d", len(q.chans)-1)
}

func closed(ch <-chan struct{}) bool {
	select {
	case <-ch:
		return true
	default:
		return false
	}
}

func (q *qsim) snapshot() []tor.VerifRequestedPiece {
	snap := q.t.VerifRequested()
	sort.Slice(snap, func(i, j int) bool { return snap[i].Index < snap[j].Index })
	return snap
}

// tail prints the canonical state and evaluates the C10 oracle after op `what` on `piece`.
func (q *qsim) tail(what string, piece int) string {
	snap := q.snapshot()
	var sb strings.Builder
	sb.WriteString(" | map=")
	if len(snap) == 0 {
		sb.WriteString("{}")
	} else {
		sb.WriteByte('{')
		for i, e := range snap {
			if i > 0 {
				sb.WriteByte(' ')
			}
			fmt.Fprintf(&sb, "%d:[", e.Index)
			for j, p := range e.Prio {
				if j > 0 {
					sb.WriteByte(',')
				}
				fmt.Fprintf(&sb, "%d", p)
			}
			// the id of the entry's channel: the open channel created for this piece
			d := "-"
			if e.HasDone {
				d = "?"
				for k := len(q.chans) - 1; k >= 0; k-- {
					if q.owner[k] == int(e.Index) && !closed(q.chans[k]) {
						d = fmt.Sprintf("c%d", k)
						break
					}
				}
			}
			fmt.Fprintf(&sb, "]:%s", d)
		}
		sb.WriteByte('}')
	}
	sb.WriteString(" closed=[")
	first := true
	entry := map[int]tor.VerifRequestedPiece{}
	present := map[int]bool{}
	for _, e := range snap {
		entry[int(e.Index)] = e
		present[int(e.Index)] = true
	}
	for k, ch := range q.chans {
		if closed(ch) {
			if !first {
				sb.WriteByte(',')
			}
			first = false
			fmt.Fprintf(&sb, "%d", k)
			if q.wasOpen[k] {
				q.wasOpen[k] = false
				// ---- oracle: woken only by a completion notification of its piece or
				// because the wait was abandoned (entry gone)
				byDone := (what == "done" || what == "have1") && piece == q.owner[k]
				abandoned := !present[q.owner[k]]
				if !byDone && !abandoned {
					q.violate("wake:unjustified", fmt.Sprintf("channel c%d of piece %d closed by %s %d with the entry still present", k, q.owner[k], what, piece))
				}
			}
		} else {
			// ---- oracle: an open channel is still the one its piece's entry will close
			if !entry[q.owner[k]].HasDone {
				q.violate("wake:orphan", fmt.Sprintf("channel c%d of piece %d is open but its entry has no channel: it can never be closed", k, q.owner[k]))
			}
		}
	}
	sb.WriteString("]")
	// ---- oracle: notified when: after Done(i) no channel of piece i is open
	if what == "done" || what == "have1" {
		for k, ch := range q.chans {
			if q.owner[k] == piece && !closed(ch) {
				q.violate("wake:lost", fmt.Sprintf("channel c%d of piece %d still open after Done(%d)", k, piece, piece))
			}
		}
	}
	// ---- oracle: priorities balance, entries exist iff wanted
	got := map[[2]int]int{}
	for _, e := range snap {
		if len(e.Prio) == 0 && !q.idle[int(e.Index)] {
			q.violate("balance:empty-entry", fmt.Sprintf("piece %d requested with no priority and not idle-requested", e.Index))
		}
		for _, p := range e.Prio {
			got[[2]int{int(e.Index), int(p)}]++
		}
	}
	for k, v := range q.held {
		if v != got[k] {
			q.violate("balance:mismatch", fmt.Sprintf("piece %d prio %d: registered %d, held %d", k[0], k[1], got[k], v))
		}
		if v > 0 && !present[k[0]] {
			q.violate("balance:missing-entry", fmt.Sprintf("piece %d wanted at prio %d but not requested", k[0], k[1]))
		}
	}
	for k, v := range got {
		if q.held[k] != v {
			q.violate("balance:leak", fmt.Sprintf("piece %d prio %d: registered %d, held %d", k[0], k[1], v, q.held[k]))
		}
	}
	// an entry without holders is an idle entry that has not been pruned
	for i := range present {
		if !present[i] {
			continue
		}
	}
	for i := range q.idle {
		if !present[i] {
			delete(q.idle, i)
		}
	}
	return sb.String()
}

func (q *qsim) noteAdd(i, p int) {
	if p > int(tor.IdlePriority) {
		q.held[[2]int{i, p}]++
	} else {
		q.idle[i] = true
	}
}

func (q *qsim) noteDel(i, p int) {
	if q.held[[2]int{i, p}] > 0 {
		q.held[[2]int{i, p}]--
		if q.held[[2]int{i, p}] == 0 {
			delete(q.held, [2]int{i, p})
		}
	}
}

func (q *qsim) drainCancel() int {
	n := 0
	for {
		select {
		case e := <-q.fake.Event:
			if _, ok := e.(peer.PeerCancelPiece); ok {
				n++
			}
		default:
			return n
		}
	}
}

func b01(b bool) string {
	if b {
		return "1"
	}
	return "0"
}

func (q *qsim) exec(op string) {
	ws := strings.Fields(op)
	emit := func(o string) { q.lines = append(q.lines, [2]string{op, o}) }
	bad := func() { emit("bad-op") }
	num := func(k int) (int, bool) {
		if k >= len(ws) {
			return 0, false
		}
		v, err := strconv.Atoi(ws[k])
		return v, err == nil
	}
	if len(ws) < 2 {
		bad()
		return
	}
	if ws[1] == "new" {
		n, ok := num(2)
		if !ok || len(ws) != 3 || n < 1 || n > 64 {
			bad()
			return
		}
		ps := 16384
		content := torsim.Content(uint32(n), int64(n*ps-100))
		tb := torsim.TorrentFile(fmt.Sprintf("rq-%d", n), uint32(ps), []torsim.File{{Name: "a", Length: int64(len(content))}}, true, content)
		t, err := tor.ReadTorrent("", bytes.NewReader(tb))
		if err != nil {
			emit("err")
			return
		}
		tor.VerifInit(t, 4096, 1)
		fake := peer.VerifNewPeer(peer.VerifPeerOpts{Hash: t.Hash, Id: t.MyId, Pieces: &t.Pieces, WriterCap: 4})
		t.VerifAddPeer(fake)
		*q = qsim{t: t, content: content, ps: ps, n: n, fake: fake, held: map[[2]int]int{}, idle: map[int]bool{},
			lines: q.lines, viol: q.viol, tags: q.tags}
		emit(fmt.Sprintf("ok n=%d", n))
		return
	}
	if q.t == nil || q.crashed {
		bad()
		return
	}
	q.tags["rq:"+ws[1]]++
	switch ws[1] {
	case "add":
		i, ok1 := num(2)
		p, ok2 := num(3)
		if !(ok1 && ok2) || len(ws) != 5 || i < 0 || p < -128 || p > 127 {
			bad()
			return
		}
		var ch <-chan struct{}
		var added bool
		pn := vhlib.Recover(func() { ch, added = q.t.VerifRequestedAdd(uint32(i), int8(p), ws[4] == "1") })
		if pn != "" {
			q.violate("panic:add", pn)
			emit("panic")
			q.crashed = true
			return
		}
		q.noteAdd(i, p)
		emit(fmt.Sprintf("ch=%s added=%s", q.chanID(ch, i), b01(added)) + q.tail("add", i))
	case "del":
		i, ok1 := num(2)
		p, ok2 := num(3)
		if !(ok1 && ok2) || len(ws) != 4 || i < 0 || p < -128 || p > 127 {
			bad()
			return
		}
		var removed bool
		pn := vhlib.Recover(func() { removed = q.t.VerifRequestedDel(uint32(i), int8(p)) })
		if pn != "" {
			q.violate("panic:del", pn)
			emit("panic")
			q.crashed = true
			return
		}
		q.noteDel(i, p)
		emit("removed=" + b01(removed) + q.tail("del", i))
	case "done":
		i, ok := num(2)
		if !ok || len(ws) != 3 || i < 0 {
			bad()
			return
		}
		pn := vhlib.Recover(func() { q.t.VerifRequestedDone(uint32(i)) })
		if pn != "" {
			q.violate("panic:done", pn)
			emit("panic")
			q.crashed = true
			return
		}
		emit("ok" + q.tail("done", i))
	case "delidle":
		pn := vhlib.Recover(func() { q.t.VerifRequestedDelIdle() })
		if pn != "" {
			q.violate("panic:delidle", pn)
			emit("panic")
			q.crashed = true
			return
		}
		emit("ok" + q.tail("delidle", -1))
	case "setconf":
		var err error
		pn := vhlib.Recover(func() {
			dm, ut, uw := q.t.VerifConf()
			conf := peer.TorConf{UseTrackers: ut, UseWebseeds: uw}
			_ = dm
			err = tor.VerifHandleEvent(context.Background(), q.t, peer.TorSetConf{Conf: conf})
		})
		if pn != "" || err != nil {
			q.violate("panic:setconf", fmt.Sprint(pn, err))
			emit("panic")
			q.crashed = true
			return
		}
		q.drainCancel()
		emit("ok" + q.tail("delidle", -1))
	case "rp":
		i, ok1 := num(2)
		p, ok2 := num(3)
		if !(ok1 && ok2) || len(ws) != 6 || i < 0 || p < -128 || p > 127 {
			bad()
			return
		}
		request, want := ws[4] == "1", ws[5] == "1"
		var ch <-chan struct{}
		var added bool
		q.drainCancel()
		pn := vhlib.Recover(func() { ch, added = tor.VerifRequestPiece(q.t, uint32(i), int8(p), request, want) })
		if pn != "" {
			if i < q.n {
				// Torrent.Request never passes index >= len(PieceHashes); inside the
				// table requestPiece must not fault
				q.violate("panic:requestPiece", pn)
			}
			q.tags["rq:rp:panic-index-eq-n"]++
			emit("panic" + q.tail("rp", i))
			return
		}
		if i <= q.n {
			if request {
				q.noteAdd(i, p)
			} else {
				q.noteDel(i, p)
			}
		}
		if request && want && i < q.n {
			complete := q.t.Pieces.Complete(uint32(i))
			if complete && ch != nil && closed(ch) {
				q.violate("request:closed-channel", "requestPiece returned a closed channel")
			}
			if !complete && ch == nil {
				q.violate("request:no-channel", fmt.Sprintf("requestPiece(%d, want) returned nil for an incomplete piece", i))
			}
		}
		if ch != nil && closed(ch) {
			q.violate("request:closed-channel", "requestPiece returned a closed channel")
		}
		cancel := q.drainCancel()
		emit(fmt.Sprintf("ch=%s added=%s cancel=%s", q.chanID(ch, i), b01(added), b01(cancel > 0)) + q.tail("rp", i))
	case "fin":
		i, ok := num(2)
		if !ok || len(ws) != 3 || i < 0 || i >= q.n {
			bad()
			return
		}
		off := i * q.ps
		end := off + q.ps
		if end > len(q.content) {
			end = len(q.content)
		}
		_, complete, _ := q.t.Pieces.AddData(uint32(i), 0, q.content[off:end], 7)
		done := false
		if complete {
			done, _, _ = q.t.Pieces.Finalise(uint32(i), q.t.PieceHashes[i])
		}
		emit("done=" + b01(done))
	case "evict":
		i, ok := num(2)
		if !ok || len(ws) != 3 || i < 0 || i >= q.n {
			bad()
			return
		}
		for j := 0; j < q.n; j++ {
			q.t.Pieces.VerifSetTime(uint32(j), 0xFFFFFFFF)
		}
		q.t.Pieces.VerifSetTime(uint32(i), 0)
		var ev []string
		if q.t.Pieces.VerifPiece(uint32(i)).HasData {
			q.t.Pieces.Expire(q.t.Pieces.Bytes()-int64(q.ps), nil, func(index uint32) { ev = append(ev, fmt.Sprint(index)) })
		}
		emit("evicted=[" + strings.Join(ev, ",") + "]")
	case "have":
		i, ok := num(2)
		if !ok || len(ws) != 4 || i < 0 {
			bad()
			return
		}
		var err error
		pn := vhlib.Recover(func() {
			err = tor.VerifHandleEvent(context.Background(), q.t, peer.TorHave{Index: uint32(i), Have: ws[3] == "1"})
		})
		if pn != "" || err != nil {
			q.violate("panic:have", fmt.Sprint(pn, err))
			emit("panic")
			q.crashed = true
			return
		}
		q.drainCancel()
		what := "have0"
		if ws[3] == "1" {
			what = "have1"
		}
		emit("ok" + q.tail(what, i))
	default:
		bad()
	}
}

var prios = []int{-1, 0, 1, 5, 1, 0, -128}

func genDet(seed uint64) caseOut {
	r := vhlib.NewRand(seed)
	q := &qsim{tags: map[string]int{}}
	n := 1 + r.Intn(5)
	q.exec(fmt.Sprintf("rq new %d", n))
	nops := 15 + r.Intn(30)
	type hp struct{ i, p int }
	var held []hp
	for k := 0; k < nops; k++ {
		i := r.Intn(n)
		if r.Chance(3) {
			i = n + r.Intn(3) // == n: the off-by-one guard of requestPiece
		}
		p := prios[r.Intn(len(prios))]
		switch x := r.Intn(100); {
		case x < 14:
			if i >= n {
				i = r.Intn(n)
			}
			q.exec(fmt.Sprintf("rq add %d %d %s", i, p, b01(r.Chance(60))))
			held = append(held, hp{i, p})
		case x < 34:
			q.exec(fmt.Sprintf("rq rp %d %d 1 %s", i, p, b01(r.Chance(70))))
			if i < n {
				held = append(held, hp{i, p})
			}
		case x < 54:
			// withdraw something held (mostly) or something never added
			if len(held) > 0 && r.Chance(85) {
				j := r.Intn(len(held))
				h := held[j]
				held = append(held[:j], held[j+1:]...)
				if r.Bool() {
					q.exec(fmt.Sprintf("rq rp %d %d 0 0", h.i, h.p))
				} else {
					q.exec(fmt.Sprintf("rq del %d %d", h.i, h.p))
				}
			} else {
				q.exec(fmt.Sprintf("rq del %d %d", i, p))
			}
		case x < 64:
			if i >= n {
				i = r.Intn(n)
			}
			q.exec(fmt.Sprintf("rq fin %d", i))
			if r.Chance(80) {
				q.exec(fmt.Sprintf("rq have %d 1", i))
			}
		case x < 72:
			if i >= n {
				i = r.Intn(n)
			}
			q.exec(fmt.Sprintf("rq evict %d", i))
			if r.Chance(70) {
				q.exec(fmt.Sprintf("rq have %d 0", i))
			}
		case x < 80:
			q.exec(fmt.Sprintf("rq have %d %s", i, b01(r.Chance(70)))) // also stale / spurious notifications
		case x < 86:
			q.exec(fmt.Sprintf("rq done %d", i))
		case x < 92:
			q.exec("rq delidle")
		case x < 95:
			q.exec("rq setconf")
		default:
			q.exec(fmt.Sprintf("rq add %d -128 0", r.Intn(n))) // pickIdlePieces
		}
		if q.crashed {
			break
		}
	}
	return caseOut{q.lines, q.viol, q.tags}
}

// ---------------------------------------------------------------- event-loop mode
func genLoop(seed uint64, caseNo int, rate int) caseOut {
	r := vhlib.NewRand(seed)
	if torsim.Aborted.Load() {
		return caseOut{}
	}
	ru := torsim.NewRunner()
	ru.Name = fmt.Sprintf("c10-%d-%d", seed, caseNo)
	// oracle-only schedules: held loop (request/notification races), full event queue,
	// completions through the real finalisePiece
	switch x := r.Intn(100); {
	case x < 10:
		torsim.GenRaceCase(r, ru, rate)
		return caseOut{ru.Lines, ru.Viol, ru.Tags}
	case x < 22:
		torsim.GenFullCase(r, ru, rate)
		return caseOut{ru.Lines, ru.Viol, ru.Tags}
	case x < 34:
		torsim.GenFinaliseCase(r, ru, rate)
		return caseOut{ru.Lines, ru.Viol, ru.Tags}
	case x < 46:
		torsim.GenBystanderCase(r, ru, rate)
		return caseOut{ru.Lines, ru.Viol, ru.Tags}
	case x < 50:
		torsim.GenStallCase(r, ru, rate)
		return caseOut{ru.Lines, ru.Viol, ru.Tags}
	case x < 62:
		torsim.GenIdleCase(r, ru, rate)
		return caseOut{ru.Lines, ru.Viol, ru.Tags}
	}
	ps := r.PickInt(16384, 32768)
	n := 2 + r.Intn(4)
	total := int64(n*ps - r.PickInt(0, 1, 5000, ps-1))
	ru.Exec(fmt.Sprintf("rd new %d %d %d %d s:%d", ps, total, r.Intn(1000), rate, total))
	if ru.S == nil {
		return caseOut{ru.Lines, ru.Viol, ru.Tags}
	}
	n = ru.S.N
	nextRid := 0
	type hp struct{ i, p int }
	var held []hp
	nops := 14 + r.Intn(14)
	for k := 0; k < nops && !ru.Dead() && !torsim.Aborted.Load(); k++ {
		rds := ru.Readers()
		var idleR, blockedR []torsim.RInfo
		for _, ri := range rds {
			if ri.Closed {
				continue
			}
			if ri.Blocked {
				blockedR = append(blockedR, ri)
			} else {
				idleR = append(idleR, ri)
			}
		}
		switch x := r.Intn(100); {
		case x < 10 && len(idleR)+len(blockedR) < 3:
			off := int64(r.Intn(int(total)))
			if r.Chance(50) {
				off = int64(r.Intn(n)) * int64(ps)
			}
			ru.Exec(fmt.Sprintf("rd open %d %d %d", nextRid, off, total-off))
			nextRid++
		case x < 32 && len(idleR) > 0:
			ri := idleR[r.Intn(len(idleR))]
			ru.Exec(fmt.Sprintf("rd read %d %d", ri.Rid, r.PickInt(1, 1000, ps, 2*ps)))
		case x < 38 && len(idleR) > 0:
			ri := idleR[r.Intn(len(idleR))]
			ru.Exec(fmt.Sprintf("rd seek %d %d 0", ri.Rid, int64(r.Intn(n))*int64(ps)-ri.Offset%int64(ps)))
		case x < 43 && len(idleR) > 0:
			ri := idleR[r.Intn(len(idleR))]
			ru.Exec(fmt.Sprintf("rd close %d", ri.Rid))
		case x < 47 && len(idleR)+len(blockedR) > 0:
			all := append(idleR, blockedR...)
			ru.Exec(fmt.Sprintf("rd cancel %d", all[r.Intn(len(all))].Rid))
		case x < 62:
			i, p := r.Intn(n), []int{-1, 0, 1, 5}[r.Intn(4)]
			if r.Chance(8) {
				p = -128
			}
			if r.Chance(4) {
				i = n + r.Intn(2)
			}
			want := r.Chance(70)
			before := len(ru.Holds())
			_ = before
			ru.Exec(fmt.Sprintf("rd treq %d %d 1 %s", i, p, b01(want)))
			if i < n && !ru.IsComplete(i) && p > -128 {
				held = append(held, hp{i, p})
			}
		case x < 74 && len(held) > 0:
			j := r.Intn(len(held))
			h := held[j]
			held = append(held[:j], held[j+1:]...)
			ru.Exec(fmt.Sprintf("rd treq %d %d 0 0", h.i, h.p))
		case x < 86:
			i := r.Intn(n)
			if len(blockedR) > 0 && r.Chance(60) {
				ri := blockedR[r.Intn(len(blockedR))]
				i = int((ri.Offset + ri.Pos) / int64(ps))
			}
			ru.Exec(fmt.Sprintf("rd complete %d", i))
		case x < 90:
			ru.Exec(fmt.Sprintf("rd corrupt %d", r.Intn(n)))
		case x < 96:
			ru.Exec(fmt.Sprintf("rd evict %d", r.Intn(n)))
		case x < 98:
			ru.Exec("rd setconf")
		default:
			if k > nops/2 {
				ru.Exec("rd kill")
			}
		}
	}
	// everybody leaves: nothing may stay requested
	if !ru.Dead() {
		for _, ri := range ru.Readers() {
			if ri.Blocked {
				ru.Exec(fmt.Sprintf("rd cancel %d", ri.Rid))
			}
		}
		for _, ri := range ru.Readers() {
			if !ri.Closed && !ri.Blocked {
				ru.Exec(fmt.Sprintf("rd close %d", ri.Rid))
			}
		}
		for _, h := range held {
			ru.Exec(fmt.Sprintf("rd treq %d %d 0 0", h.i, h.p))
		}
		ru.Exec("rd setconf")
		if len(ru.Lines) > 0 {
			last := ru.Lines[len(ru.Lines)-1][1]
			if !strings.HasSuffix(last, "map={}") && !strings.HasSuffix(last, "map=dead") && !strings.Contains(last, "bad-op") {
				ru.Viol = append(ru.Viol, vhlib.Violation{Kind: "leak:after-everybody-left", Detail: "Torrent.requested not empty after every consumer withdrew: " + last, Ops: opsOf(ru.Lines)})
			}
		}
	}
	ru.Close()
	return caseOut{ru.Lines, ru.Viol, ru.Tags}
}

func opsOf(ls [][2]string) []string {
	var o []string
	for _, l := range ls {
		o = append(o, l[0])
	}
	return o
}

func mix(seed, k uint64) uint64 {
	z := seed*0xD6E8FEB86659FD93 + k*0x9E3779B97F4A7C15 + 0x632BE59BD9B4E019
	z = (z ^ (z >> 32)) * 0xD6E8FEB86659FD93
	z = (z ^ (z >> 29)) * 0xBF58476D1CE4E5B9
	return z ^ (z >> 32)
}

func main() {
	config.SetIdleRate(torsim.IdleRateForCases)
	c := vhlib.Init("c10")
	c.Rep.Rule = "case = one op sequence on a fresh torrent; nontrivial = a channel was closed, a priority withdrawn or a reader blocked"
	if c.Replay != "" {
		q := &qsim{tags: map[string]int{}}
		ru := torsim.NewRunner()
		ru.Name = "c10-replay"
		for _, l := range c.ReplayLines() {
			switch {
			case strings.HasPrefix(l, "rq "):
				q.lines = nil
				q.exec(l)
				ru.Lines = append(ru.Lines, q.lines...)
			case ru.Exec(l):
			default:
				ru.Lines = append(ru.Lines, [2]string{l, "bad-op"})
			}
		}
		ru.Close()
		for t, n := range q.tags {
			ru.Tags[t] += n
		}
		flush(c, caseOut{ru.Lines, append(ru.Viol, q.viol...), ru.Tags})
		c.Close()
		return
	}
	// 3/4 deterministic cases, 1/4 event-loop cases (one PrefetchRate per batch)
	nLoop := c.N / 4
	nDet := c.N - nLoop
	outs := make([]caseOut, nDet)
	var wg sync.WaitGroup
	sem := make(chan struct{}, 8)
	for i := 0; i < nDet; i++ {
		wg.Add(1)
		sem <- struct{}{}
		go func(i int) {
			defer wg.Done()
			defer func() { <-sem }()
			outs[i] = genDet(mix(c.Seed, uint64(i)))
		}(i)
	}
	wg.Wait()
	for _, o := range outs {
		flush(c, o)
	}
	// a Go panic inside the event loop's goroutine cannot be recovered and would take the
	// whole harness (and the replays found so far) down: when the deterministic mode has
	// already caught a panic of the request bookkeeping, the event-loop mode is skipped
	for _, o := range outs {
		for _, v := range o.viol {
			if strings.HasPrefix(v.Kind, "panic:") {
				nLoop = 0
			}
		}
	}
	if nLoop == 0 {
		c.Note("event-loop mode skipped: the deterministic mode caught a panic in the request bookkeeping")
	}
	rates := []int{20000, 786432}
	done := 0
	for bi, rate := range rates {
		cnt := nLoop / len(rates)
		if bi == len(rates)-1 {
			cnt = nLoop - done
		}
		louts := make([]caseOut, cnt)
		for i := 0; i < cnt; i++ {
			wg.Add(1)
			sem <- struct{}{}
			go func(i int) {
				defer wg.Done()
				defer func() { <-sem }()
				louts[i] = genLoop(mix(c.Seed, uint64(1000000+done+i)), done+i, rate)
			}(i)
		}
		wg.Wait()
		for _, o := range louts {
			flush(c, o)
		}
		done += cnt
	}
	c.Close()
}

func flush(c *vhlib.Ctx, o caseOut) {
	c.NewCase()
	key := ""
	nontrivial := false
	for _, l := range o.lines {
		c.Emit(l[0], l[1])
		key += l[0] + ";"
		if strings.Contains(l[1], "closed=[") && !strings.Contains(l[1], "closed=[]") || strings.Contains(l[1], "block") {
			nontrivial = true
		}
	}
	for t, n := range o.tags {
		c.Rep.Branches[t] += n
	}
	c.Count("case", key, nontrivial)
	for _, v := range o.viol {
		c.Violate(v.Kind, v.Detail, v.Ops)
	}
}
