package main

// The initial advertisement: the real peer.Run (reader/writer goroutines, protocol.Writer)
// over an in-memory duplex connection; what reaches the remote end is parsed by a small
// strict frame decoder of our own (BEP 3/6 framing), not by storrent's lenient reader.

import (
	"encoding/binary"
	"fmt"
	"io"
	"net"
	"net/netip"
	"os"
	"strconv"
	"strings"
	"sync"
	"time"

	"github.com/jech/storrent/bitmap"
	"github.com/jech/storrent/hash"
	"github.com/jech/storrent/peer"
	"github.com/jech/storrent/protocol"
	"github.com/jech/storrent/tor/piece"

	"verifharness/vhlib"
)

// memConn: buffered, never blocks the writer (net.Pipe is synchronous)
type memConn struct {
	mu       sync.Mutex
	cond     *sync.Cond
	out      []byte // written by the peer, read by the harness
	in       []byte // what the remote says (Feed)
	closed   bool
	deadline time.Time
}

func newMemConn() *memConn {
	c := &memConn{}
	c.cond = sync.NewCond(&c.mu)
	return c
}

// Feed: the remote sends these bytes
func (c *memConn) Feed(b []byte) {
	c.mu.Lock()
	c.in = append(c.in, b...)
	c.cond.Broadcast()
	c.mu.Unlock()
}

// Read: what the remote said (Feed); block until there is some, closed, or past the deadline
func (c *memConn) Read(b []byte) (int, error) {
	c.mu.Lock()
	defer c.mu.Unlock()
	for {
		if len(c.in) > 0 {
			n := copy(b, c.in)
			c.in = c.in[n:]
			return n, nil
		}
		if c.closed {
			return 0, io.EOF
		}
		if !c.deadline.IsZero() && !time.Now().Before(c.deadline) {
			return 0, os.ErrDeadlineExceeded
		}
		c.cond.Wait()
	}
}
func (c *memConn) Write(b []byte) (int, error) {
	c.mu.Lock()
	defer c.mu.Unlock()
	if c.closed {
		return 0, net.ErrClosed
	}
	c.out = append(c.out, b...)
	c.cond.Broadcast()
	return len(b), nil
}
func (c *memConn) Close() error {
	c.mu.Lock()
	c.closed = true
	c.cond.Broadcast()
	c.mu.Unlock()
	return nil
}
func (c *memConn) LocalAddr() net.Addr              { return &net.TCPAddr{} }
func (c *memConn) RemoteAddr() net.Addr             { return &net.TCPAddr{} }
func (c *memConn) SetDeadline(t time.Time) error    { return c.SetReadDeadline(t) }
func (c *memConn) SetWriteDeadline(time.Time) error { return nil }
func (c *memConn) SetReadDeadline(t time.Time) error {
	c.mu.Lock()
	c.deadline = t
	c.cond.Broadcast()
	c.mu.Unlock()
	return nil
}

type frame struct {
	id      int // -1 keep-alive
	payload []byte
}

// frames parses complete frames; returns them and whether the sentinel Have was seen
func parseFrames(buf []byte, sentinel uint32) (fs []frame, done bool) {
	for len(buf) >= 4 {
		l := binary.BigEndian.Uint32(buf)
		if uint64(len(buf)) < 4+uint64(l) {
			break
		}
		if l == 0 {
			fs = append(fs, frame{-1, nil})
		} else {
			f := frame{int(buf[4]), buf[5 : 4+l]}
			if f.id == 4 && len(f.payload) == 4 && binary.BigEndian.Uint32(f.payload) == sentinel {
				return fs, true
			}
			fs = append(fs, f)
		}
		buf = buf[4+l:]
	}
	return fs, false
}

func advLine(c *vhlib.Ctx, ws []string, line string) (string, string) {
	kv := map[string]string{}
	for _, w := range ws[1:] {
		if i := strings.IndexByte(w, '='); i > 0 {
			kv[w[:i]] = w[i+1:]
		}
	}
	ps, e1 := strconv.ParseUint(kv["ps"], 10, 32)
	total, e2 := strconv.ParseInt(kv["len"], 10, 64)
	if e1 != nil || e2 != nil || len(ws) != 7 {
		return "bad-op", "adv-bad"
	}
	g := mkGeom(uint32(ps), total)
	if g == nil {
		return "bad-op", "adv-bad"
	}
	hasInfo, fast, ext := kv["info"] == "1", kv["fast"] == "1", kv["ext"] == "1"
	my := vhlib.UnHex(kv["my"])

	conn := newMemConn()
	p := peer.New("", conn, netip.MustParseAddrPort("192.0.2.1:0"), false, protocol.HandshakeResult{
		Hash: hash.Hash(make([]byte, 20)), Id: hash.Hash(make([]byte, 20)), Fast: fast, Extended: ext})
	p.Log.SetOutput(io.Discard)
	var info []byte
	if hasInfo {
		p.Pieces = &g.t.Pieces
		info = g.t.Info
	} else {
		p.Pieces = &piece.Pieces{}
	}
	torEv := make(chan peer.TorEvent, 64)
	torDone := make(chan struct{})
	runDone := make(chan string, 1)
	go func() {
		runDone <- vhlib.Recover(func() {
			peer.Run(p, torEv, torDone, info, bitmap.Bitmap(append([]byte(nil), my...)), nil)
		})
	}()
	// a Have for a piece number nobody can hold marks the end of the advertisement
	sentinel := uint32(g.num + 1000)
	select {
	case p.Event <- peer.PeerHave{Index: sentinel, Have: true}:
	case <-time.After(10 * time.Second):
	}
	var fs []frame
	done := false
	panicked := ""
	wd := time.AfterFunc(20*time.Second, func() { conn.Close() })
	conn.mu.Lock()
	for {
		fs, done = parseFrames(conn.out, sentinel)
		if done || conn.closed {
			break
		}
		select {
		case panicked = <-runDone:
			runDone <- panicked
		default:
		}
		if panicked != "" {
			break
		}
		// wake up regularly: a panic in Run does not broadcast
		t := time.AfterFunc(20*time.Millisecond, func() { conn.cond.Broadcast() })
		conn.cond.Wait()
		t.Stop()
	}
	conn.mu.Unlock()
	wd.Stop()
	close(torDone)
	select {
	case r := <-runDone:
		if r != "" {
			panicked = r
		}
	case <-time.After(10 * time.Second):
		c.Violate("hang:run-exit", "peer.Run did not return after torDone was closed", []string{line})
	}
	conn.Close()
	if panicked != "" {
		return "adv panic", "adv-panic"
	}
	if !done {
		c.Violate("hang:advertisement", "the end-of-advertisement marker never arrived", []string{line})
		return "adv timeout", "adv-timeout"
	}

	// canonical list + oracle
	var msgs []string
	held := func(i int) bool { return i/8 < len(my) && my[i/8]&(0x80>>(i%8)) != 0 }
	nheld := 0
	for i := 0; i < g.num; i++ {
		if held(i) {
			nheld++
		}
	}
	v := func(kind, detail string) { c.Violate(kind, detail+" ("+line+")", []string{line}) }
	first := true
	tag := "adv-nothing"
	for _, f := range fs {
		switch {
		case f.id == 20 || f.id == 9 || f.id == -1:
			continue // extended handshake, port, keep-alive: not part of the advertisement
		case f.id == 5:
			tag = "adv-bitfield"
			msgs = append(msgs, "Bitfield "+vhlib.Payload(f.payload))
			if !first {
				v("adv-order:bitfield-not-first", "")
			}
			if len(f.payload) != (g.num+7)/8 {
				v(fmt.Sprintf("bitfield-exact:length:pieces%%8=%d", g.num%8),
					fmt.Sprintf("%d pieces, bitfield of %d bytes", g.num, len(f.payload)))
			}
			for i := 0; i < 8*len(f.payload); i++ {
				set := f.payload[i/8]&(0x80>>(i%8)) != 0
				if set && i >= g.num {
					v("bitfield-exact:spare-bit-set", fmt.Sprintf("bit %d of %d pieces", i, g.num))
					break
				}
				if i < g.num && set != held(i) {
					v("bitfield-exact:content", fmt.Sprintf("bit %d", i))
					break
				}
			}
		case f.id == 14 && len(f.payload) == 0:
			tag = "adv-haveall"
			msgs = append(msgs, "HaveAll")
			if !fast {
				v("bitfield-exact:haveall-without-fast", "")
			}
			if nheld != g.num {
				v("bitfield-exact:haveall-not-all-held", fmt.Sprintf("%d of %d", nheld, g.num))
			}
			if !first {
				v("adv-order:haveall-not-first", "")
			}
		case f.id == 15 && len(f.payload) == 0:
			tag = "adv-havenone"
			msgs = append(msgs, "HaveNone")
			if !fast {
				v("bitfield-exact:havenone-without-fast", "")
			}
			if !first {
				v("adv-order:havenone-not-first", "")
			}
		case f.id == 4 && len(f.payload) == 4:
			tag = "adv-haves"
			i := binary.BigEndian.Uint32(f.payload)
			msgs = append(msgs, fmt.Sprintf("Have %d", i))
			if int(i) >= g.num {
				v("have-range:advertisement", fmt.Sprintf("Have{%d} with %d pieces", i, g.num))
			} else if !held(int(i)) {
				v("have-range:advertised-piece-not-held", fmt.Sprintf("Have{%d}", i))
			}
		default:
			msgs = append(msgs, fmt.Sprintf("Other %d", f.id))
			v("adv-unexpected-frame", fmt.Sprintf("id %d, %d payload bytes", f.id, len(f.payload)))
		}
		first = false
	}
	if fast && len(msgs) == 0 {
		v("adv-missing:fast-peer-needs-bitfield-haveall-or-havenone", "")
	}
	return "adv [" + strings.Join(msgs, "|") + "]", tag
}
