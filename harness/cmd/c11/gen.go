package main

// Case generators: geometry sweeps for the initial advertisement, chunk arithmetic lines,
// request histories, PEX histories, and a scripted > 4 GiB geometry.

import (
	"fmt"
	"net/netip"
	"strconv"
	"strings"

	"github.com/jech/storrent/pex"

	"verifharness/vhlib"
)

var pieceCounts = []int{1, 2, 3, 4, 5, 6, 7, 8, 9, 10, 11, 12, 13, 14, 15, 16, 17, 18, 19, 20, 21, 22, 23, 24, 64, 72, 73}
var reqqs = []uint32{0, 1, 2, 5, 250, 1 << 31}

const bigPS = 49152
const bigTotal = int64(6)<<30 + 12345 // > 4 GiB, 48 KiB pieces, short final block

func pickGeom(r *vhlib.Rand) (uint32, int64) {
	n := pieceCounts[r.Intn(len(pieceCounts))]
	ps := r.PickU32(16384, 32768, 49152, 65536)
	var last int64
	switch r.Intn(6) { // a fixed set: geometries (and their piece stores) are cached per run
	case 0:
		last = int64(ps)
	case 1:
		last = 1
	case 2:
		last = int64(ps) - 1
	case 3:
		last = CS + 1
	case 4:
		last = CS
	default:
		last = int64(ps)/2 + 7
	}
	if last > int64(ps) {
		last = int64(ps)
	}
	return ps, int64(n-1)*int64(ps) + last
}

func bitsHex(n int, set func(i int) bool) string {
	b := make([]byte, (n+7)/8)
	for i := 0; i < n; i++ {
		if set(i) {
			b[i/8] |= 0x80 >> (i % 8)
		}
	}
	return vhlib.Hex(b)
}

func randSet(r *vhlib.Rand, n int) string {
	switch r.Intn(7) {
	case 0:
		return bitsHex(n, func(int) bool { return false })
	case 1:
		return bitsHex(n, func(int) bool { return true })
	case 2:
		k := r.Intn(n)
		return bitsHex(n, func(i int) bool { return i == k })
	case 3:
		k := r.Intn(n)
		return bitsHex(n, func(i int) bool { return i != k })
	case 4:
		return bitsHex(n, func(i int) bool { return i == n-1 })
	default:
		d := 1 + r.Intn(99)
		return bitsHex(n, func(int) bool { return r.Intn(100) < d })
	}
}

// ---------------------------------------------------------------- adv / fc / tc

func genAdv(it *interp, r *vhlib.Rand) {
	var ps uint32
	var total int64
	if r.Chance(25) { // many pieces: the "count < num/72" branch
		ps = 16384
		n := r.PickInt(72, 144, 145, 216, 720, 1000)
		total = int64(n-1)*int64(ps) + 1 + int64(r.Intn(int(ps)))
		num := n
		k := r.Intn(num/72 + 2)
		my := bitsHex(num, func(i int) bool { return i < num && (i*7919)%num < k })
		if r.Chance(30) {
			my = randSet(r, num)
		}
		it.line(fmt.Sprintf("adv ps=%d len=%d info=1 fast=%d ext=%d my=%s", ps, total, r.Intn(2), r.Intn(2), my))
		return
	}
	ps, total = pickGeom(r)
	num := int((total + int64(ps) - 1) / int64(ps))
	info := 1
	my := randSet(r, num)
	if r.Chance(8) {
		info = 0
		my = "-"
	}
	it.line(fmt.Sprintf("adv ps=%d len=%d info=%d fast=%d ext=%d my=%s", ps, total, info, r.Intn(2), r.Intn(2), my))
}

func sweepAdv(it *interp) {
	for _, n := range pieceCounts {
		ps := uint32(16384)
		total := int64(n)*int64(ps) - 5
		for fast := 0; fast < 2; fast++ {
			// one piece missing (bitfield), all held, none held
			it.line(fmt.Sprintf("adv ps=%d len=%d info=1 fast=%d ext=0 my=%s", ps, total, fast,
				bitsHex(n, func(i int) bool { return i != n/2 || n == 1 })))
			it.line(fmt.Sprintf("adv ps=%d len=%d info=1 fast=%d ext=1 my=%s", ps, total, fast,
				bitsHex(n, func(i int) bool { return i%2 == 0 && n > 1 })))
		}
	}
}

var psChoices = []uint32{16384, 32768, 49152, 65536, 81920, 1 << 20, 3 << 19, 1 << 22, 5 << 20, 1 << 30, 1<<32 - 16384, 3 << 30}

func genArith(it *interp, r *vhlib.Rand) {
	ps := psChoices[r.Intn(len(psChoices))]
	if r.Chance(20) {
		ps = uint32(1+r.Intn(1<<18-1)) * 16384
	}
	if r.Chance(50) {
		// fromChunk / chunkSize
		total := int64(ps)*int64(1+r.Intn(40)) - int64(r.Intn(int(min(ps, 1<<20))))
		if r.Chance(30) {
			total = bigTotal
			if ps < 49152 {
				ps = 49152
			}
		}
		nch := (total + CS - 1) / CS
		var ch int64
		switch r.Intn(6) {
		case 0:
			ch = nch - 1
		case 1:
			ch = int64(r.PickU32(1<<18-1, 1<<18, 1<<18+1, 1<<18+2, 1<<18+3, 3<<17))
		case 2:
			ch = nch + int64(r.Intn(3)) // just beyond the end (model only)
		case 3:
			ch = int64(r.U32())
		default:
			ch = int64(r.U64() % uint64(nch))
		}
		if ch < 0 || ch >= 1<<32 {
			ch = 0
		}
		it.line(fmt.Sprintf("fc %d %d %d", ps, total, ch))
	} else {
		cpp := ps / CS
		var idx uint32
		switch r.Intn(4) {
		case 0:
			idx = (1<<32 - 1) / cpp
		case 1:
			idx = (1<<32-1)/cpp + 1
		case 2:
			idx = r.U32()
		default:
			idx = uint32(r.Intn(1 << 18))
		}
		beg := wirecanonU32(r)
		it.line(fmt.Sprintf("tc %d %d %d", ps, idx, beg))
	}
}

func wirecanonU32(r *vhlib.Rand) uint32 {
	b := []uint32{0, 1, 16383, 16384, 16385, 32768, 49151, 49152, 1 << 20, 1<<31 - 1, 1 << 31, 1<<32 - 1}
	if r.Chance(60) {
		return b[r.Intn(len(b))]
	}
	return r.U32()
}

// ---------------------------------------------------------------- histories

var pool6 = func() []netip.AddrPort {
	var l []netip.AddrPort
	for k := 1; k <= 5; k++ {
		l = append(l, netip.MustParseAddrPort(fmt.Sprintf("10.0.0.%d:%d", k, 6880+k)))
	}
	l = append(l, netip.MustParseAddrPort("[2001:db8::6]:6886"))
	return l
}()

func poolBig() []netip.AddrPort {
	var l []netip.AddrPort
	for k := 0; k < 120; k++ {
		l = append(l, netip.MustParseAddrPort(fmt.Sprintf("10.1.%d.%d:7000", k/200, 1+k%200)))
	}
	return l
}

type hgen struct {
	it    *interp
	r     *vhlib.Rand
	big   bool
	wild  bool
	pool  []netip.AddrPort
	pexOn bool
}

func (h *hgen) s() *sim { return h.it.s }

func (h *hgen) alive() bool { return h.it.s != nil && !h.it.s.dead }

func (h *hgen) do(format string, a ...any) { h.it.line(fmt.Sprintf(format, a...)) }

func (h *hgen) pickPiece() uint32 {
	g, r := h.s().g, h.r
	if h.big {
		return r.PickU32(0, 1, 87380, 87381, 87382, 100000, uint32(g.num-1), uint32(g.num-2))
	}
	if r.Chance(5) {
		return uint32(g.num) + uint32(r.Intn(3))
	}
	return uint32(r.Intn(g.num))
}

func (h *hgen) pickChunk() uint32 {
	g, r := h.s().g, h.r
	st := h.s().p.VerifState()
	nch := g.nchunks()
	cpp := int64(g.ps / CS)
	switch x := r.Intn(100); {
	case x < 12 && len(st.Requested) > 0:
		return st.Requested[r.Intn(len(st.Requested))].Index
	case x < 20 && len(st.Queue) > 0:
		return st.Queue[r.Intn(len(st.Queue))]
	case x < 30:
		return uint32(nch - 1)
	case x < 34 && h.wild:
		return uint32(nch + int64(r.Intn(int(cpp)+2)))
	}
	if h.big {
		return r.PickU32(0, 1, 2, 3, 1<<18-1, 1<<18, 1<<18+1, 1<<18+2, 1<<18+3, 1<<18+4, 300000, 300001,
			uint32(nch-1), uint32(nch-2), uint32(nch-3))
	}
	p := int64(h.pickPiece())
	c := p*cpp + int64(r.Intn(int(cpp)))
	if c >= nch || c < 0 {
		c = int64(r.Intn(int(nch)))
	}
	return uint32(c)
}

func (h *hgen) blockOf(chunk uint32) (uint32, uint32) {
	cpp := h.s().g.ps / CS
	return chunk / cpp, (chunk % cpp) * CS
}

func (h *hgen) peersArg(n int) string {
	var ps []pex.Peer
	for i := 0; i < n; i++ {
		ps = append(ps, pex.Peer{Addr: h.pool[h.r.Intn(len(h.pool))], Flags: byte(h.r.PickInt(0, 1, 2, 0x10, 0x13))})
	}
	return peersStr(ps)
}

// before an op that may write: a really full queue makes the write wait 200 ms
func (h *hgen) guardFull(cheap bool) {
	s := h.s()
	if !s.blocked && len(s.realW) == cap(s.realW) && !(cheap && h.it.slowLeft > 0) {
		h.do("x drain %d", 1+h.r.Intn(cap(s.realW)))
	}
}

func (h *hgen) step() {
	s, r := h.s(), h.r
	g := s.g
	st := s.p.VerifState()
	x := r.Intn(1000)
	pexW := 60
	if h.pexOn {
		pexW = 500
	}
	switch {
	case x < pexW:
		switch y := r.Intn(10); {
		case y < 4:
			h.do("e pex 1 %s", h.peersArg(1+r.Intn(3)))
		case y < 7:
			h.do("e pex 0 %s", h.peersArg(1+r.Intn(2)))
		default:
			h.guardFull(false)
			h.do("t sendpex")
		}
		if len(h.pool) > 6 && r.Chance(20) { // a burst: more than one batch of 50
			var ps []pex.Peer
			k := r.Intn(len(h.pool))
			for i := 0; i < 50+r.Intn(60); i++ {
				ps = append(ps, pex.Peer{Addr: h.pool[(k+i)%len(h.pool)]})
			}
			h.do("e pex %d %s", r.Intn(2), peersStr(ps))
		}
		return
	}
	x = r.Intn(1000)
	switch {
	case x < 200: // scheduler asks for blocks
		n := 1 + r.Intn(6)
		var cs []string
		for i := 0; i < n; i++ {
			cs = append(cs, strconv.FormatUint(uint64(h.pickChunk()), 10))
		}
		h.guardFull(false)
		h.do("e request %s k=%s", strings.Join(cs, ","), s.predictK(false))
	case x < 330: // data arrives
		c := h.pickChunk()
		i, b := h.blockOf(c)
		// the block's true length, and what AddData will store of the data we send
		blen := int64(0)
		if int64(i) < int64(g.num) {
			blen = min(int64(CS), g.pieceLen(i)-int64(b))
		}
		var dl, n int64
		switch y := r.Intn(100); {
		case y < 60 && blen > 0: // exactly the block
			dl, n = blen, blen
		case y < 70: // empty
			dl, n = 0, 0
		case y < 80: // one byte at an odd offset: refused
			b++
			dl, n = 1, 0
		case y < 90 && blen == CS && g.pieceLen(i)-int64(b) >= 2*CS: // two blocks at once: stored, but not "the" block
			dl = 2 * CS
			if g.pieceLen(i)-int64(b)-CS < CS {
				dl = CS + g.pieceLen(i) - int64(b) - CS
			}
			n = dl
		case blen > 1: // short
			dl, n = blen-1, 0
		default:
			dl, n = 0, 0
		}
		if h.wild && r.Chance(10) {
			b = wirecanonU32(r)
			dl, n = 0, 0
		}
		h.guardFull(false)
		ch := uint32(0)
		if int64(i) < int64(g.num) {
			ch = peerToChunk(g, i, b)
		}
		h.do("m piece %d %d %d %d k=%s", i, b, dl, n, s.predictK(s.outstanding(ch)))
	case x < 380:
		c := h.pickChunk()
		i, b := h.blockOf(c)
		h.guardFull(false)
		h.do("m reject %d %d k=%s", i, b, s.predictK(false))
	case x < 430:
		h.do("m choke")
	case x < 500:
		h.do("m unchoke")
	case x < 530:
		h.do("m allowedfast %d", h.pickPiece())
	case x < 580:
		h.guardFull(true)
		h.do("m have %d", h.pickPiece())
	case x < 600:
		h.do("m donthave %d", h.pickPiece())
	case x < 615 && !h.big:
		h.guardFull(false)
		h.do("m bitfield %s", randSet(r, g.num+r.PickInt(0, 0, 0, 1, 8)))
	case x < 625:
		h.guardFull(false)
		h.do("m haveall")
	case x < 632:
		h.do("m havenone")
	case x < 700:
		h.guardFull(true)
		h.do("e cancel %d", h.pickChunk())
	case x < 730:
		h.guardFull(false)
		h.do("e cancelpiece %d", h.pickPiece())
	case x < 790:
		h.do("x age %d", 10000*r.PickInt(1, 1, 2, 3, 4))
	case x < 860:
		h.guardFull(false)
		h.do("t expire rto=%d k=%s", s.p.VerifRto().Milliseconds(), s.predictK(false))
	case x < 900:
		if len(s.realW) > 0 {
			h.do("x drain %d", 1+r.Intn(len(s.realW)))
		}
	case x < 920:
		h.do("h rtt %d", r.PickInt(0, 2500, 5000, 7500))
	case x < 940:
		h.do("h rate %s", []string{"big", "big", "zero"}[r.Intn(3)])
	case x < 960:
		i := h.pickPiece()
		if int(i) >= g.num && !h.wild {
			i = uint32(r.Intn(g.num))
		}
		h.guardFull(true)
		h.do("e have %d %d", i, r.Intn(2))
	case x < 975 && !h.big:
		h.guardFull(false)
		h.do("e interested %d", r.Intn(2))
	case x < 990:
		h.do("x wblock %d", b01i(!s.blocked))
	default:
		if !st.HasInfo || r.Chance(10) {
			h.guardFull(false)
			h.do("e metadata")
		} else if !st.GotExtended || r.Chance(10) {
			h.do("m ext0 %d %d %d", reqqs[r.Intn(len(reqqs))], r.PickInt(0, 1, 3), r.PickInt(0, 7))
		}
	}
}

func b01i(b bool) int {
	if b {
		return 1
	}
	return 0
}

func peerToChunk(g *geom, i, b uint32) uint32 {
	cpp := g.ps / CS
	return i*cpp + b/CS
}

func genHistory(it *interp, r *vhlib.Rand, kind int) {
	h := &hgen{it: it, r: r, pool: pool6}
	var ps uint32
	var total int64
	switch kind {
	case 2:
		h.big = true
		ps, total = bigPS, bigTotal
	default:
		ps, total = pickGeom(r)
	}
	h.pexOn = kind == 1
	if h.pexOn && r.Chance(25) {
		h.pool = poolBig()
	}
	h.wild = r.Chance(6)
	num := int((total + int64(ps) - 1) / int64(ps))
	info := 1
	if r.Chance(8) && !h.big {
		info = 0
	}
	fast := r.Intn(2)
	if h.big {
		fast = 1
	}
	wcap := r.PickInt(64, 64, 64, 8, 4, 2, 1)
	my := "-"
	if !h.big && r.Chance(50) {
		my = randSet(r, num)
	}
	h.do("new ps=%d len=%d info=%d fast=%d wcap=%d my=%s", ps, total, info, fast, wcap, my)
	if it.s == nil {
		return
	}
	// prologue: most cases reach the interesting state quickly
	if r.Chance(85) {
		px, dh := r.PickInt(1, 1, 3, 0), r.PickInt(0, 7)
		if h.pexOn {
			px = 1 + r.Intn(3)
		}
		if r.Chance(8) {
			h.do("m ext0 %d - -", reqqs[r.Intn(len(reqqs))])
		} else {
			h.do("m ext0 %d %d %d", reqqs[r.Intn(len(reqqs))], px, dh)
		}
	}
	if info == 0 && r.Chance(70) {
		switch r.Intn(4) {
		case 0:
			h.do("m have %d", r.Intn(num+2))
		case 1:
			if fast == 1 {
				h.do("m haveall")
				if r.Chance(30) {
					h.do("m donthave %d", r.Intn(num))
				}
				if r.Chance(20) {
					h.do("m bitfield %s", randSet(r, num))
				}
			}
		}
		if h.alive() {
			h.do("e metadata")
		}
	}
	if h.alive() && r.Chance(85) {
		switch {
		case h.big || (fast == 1 && r.Chance(40)):
			h.do("m haveall")
		case r.Chance(70):
			h.do("m bitfield %s", randSet(r, num))
		default:
			for i := 0; i < 1+r.Intn(4); i++ {
				h.do("m have %d", r.Intn(num))
			}
		}
	}
	if h.alive() && r.Chance(75) {
		h.do("m unchoke")
	}
	if h.alive() && r.Chance(50) {
		h.do("h rtt %d", r.PickInt(2500, 5000, 7500))
	}
	n := 20 + r.Intn(50)
	rateSet := false
	for i := 0; i < n && h.alive(); i++ {
		h.step()
		// a high download rate can only be recorded while a request is outstanding
		if h.alive() && !rateSet && r.Chance(60) && len(it.s.p.VerifState().Requested) > 0 {
			h.do("h rate big")
			rateSet = true
		}
	}
}

// scripted regression / boundary cases, run first on every seed
func scripted(it *interp) {
	do := func(f string, a ...any) { it.line(fmt.Sprintf(f, a...)) }
	// PEX: add, send, del, add, del — the final departure must still be reported
	a := "[0a000001:6881:0]"
	do("new ps=16384 len=100000 info=1 fast=0 wcap=64 my=-")
	do("m ext0 250 1 0")
	do("e pex 1 %s", a)
	do("t sendpex")
	do("e pex 0 %s", a)
	do("e pex 1 %s", a)
	do("e pex 0 %s", a)
	do("t sendpex")
	do("e pex 1 %s", a)
	do("t sendpex")
	// PEX: a failed write must not leave the batch both in `sent` and in `pending`
	do("new ps=16384 len=100000 info=1 fast=0 wcap=64 my=-")
	do("m ext0 250 1 0")
	do("e pex 1 %s", a)
	do("x wblock 1")
	do("t sendpex")
	do("x wblock 0")
	do("e pex 0 %s", a)
	do("e pex 1 %s", a)
	do("e pex 0 %s", a)
	do("t sendpex")
	// > 4 GiB geometry with 48 KiB pieces: blocks numbered 2^18 and above
	do("new ps=%d len=%d info=1 fast=1 wcap=64 my=-", bigPS, bigTotal)
	do("m ext0 250 1 7")
	do("m haveall")
	do("m unchoke")
	do("e request 262143,262144,262145 k=0")
	do("h rtt 2500")
	do("h rate big")
	nch := (bigTotal + CS - 1) / CS
	do("e request 262146,262147,300001,%d k=inf", nch-1)
	do("e cancel 262145")
	do("e cancelpiece 87381")
	do("x age 40000")
	do("t expire rto=2500 k=inf")
	do("x age 10000")
	do("t expire rto=2500 k=inf")
	// queue depth 1 and 2^31
	for _, q := range []uint32{1, 1 << 31} {
		do("new ps=32768 len=300000 info=1 fast=0 wcap=64 my=-")
		do("m ext0 %d 0 0", q)
		do("m bitfield ffc0")
		do("m unchoke")
		do("e request 0,1,2,3,4,5,6,7,18 k=0")
		do("h rtt 2500")
		do("h rate big")
		do("e request 8,9,10 k=inf")
		do("m piece 0 0 16384 16384 k=inf")
		do("m choke")
	}
}

func generate(it *interp) {
	r := it.c.R
	scripted(it)
	sweepAdv(it)
	for i := 0; i < it.c.N; i++ {
		switch x := r.Intn(100); {
		case x < 38:
			genHistory(it, r, 0)
		case x < 56:
			genHistory(it, r, 1)
		case x < 60:
			genHistory(it, r, 2)
		case x < 63:
			genFeed(it, r)
		case x < 80:
			genAdv(it, r)
		default:
			for k := 0; k < 8; k++ {
				genArith(it, r)
			}
		}
	}
}
