package main

// The property oracle of C11: a restatement of the property on what the real code put on
// the writer queue.  It keeps its own wire-level bookkeeping (what the remote advertised,
// choke state, allowed-fast set, advertised queue depth, which blocks are outstanding, what
// the remote was told by PEX) from the messages exchanged — never from storrent's state or
// from the model.

import (
	"fmt"
	"net/netip"
	"strconv"

	"github.com/jech/storrent/peer"
	"github.com/jech/storrent/pex"
	"github.com/jech/storrent/protocol"

	"verifharness/vhlib"
	"verifharness/wirecanon"
)

type blk struct{ i, b uint32 }

type oracle struct {
	c        *vhlib.Ctx
	g        *geom
	sim      *sim
	all      bool
	remote   map[uint32]bool
	unchoked bool
	fastCap  bool
	fast     map[uint32]bool
	reqq     uint32 // advertised depth, 0 = none advertised
	pexSub   uint8
	outst    map[blk]bool // outstanding block -> a Cancel was already sent for it
	// the environment left the domain the property quantifies over: the scheduler named a
	// block that does not exist / the remote answered for a block that does not exist
	wildSched, wildRemote bool
	wildHave              map[uint32]bool
	rk                    map[netip.AddrPort]bool
	present               map[netip.AddrPort]bool
}

func newOracle(c *vhlib.Ctx, g *geom) *oracle {
	return &oracle{c: c, g: g, remote: map[uint32]bool{}, fast: map[uint32]bool{}, outst: map[blk]bool{},
		wildHave: map[uint32]bool{}, rk: map[netip.AddrPort]bool{}, present: map[netip.AddrPort]bool{}}
}

func (o *oracle) remoteHas(i uint32) bool {
	if int64(i) >= int64(o.g.num) {
		return false
	}
	if o.all {
		return !o.remote[i] // while `all`, remote[] holds the retracted pieces
	}
	return o.remote[i]
}

// onMessage: a message from the remote peer is about to be handled
func (o *oracle) onMessage(m protocol.Message) {
	switch m := m.(type) {
	case protocol.Choke:
		o.unchoked = false
		if !o.fastCap { // BEP 3: a choke discards the pending requests; BEP 6: it does not
			o.outst = map[blk]bool{}
		}
	case protocol.Unchoke:
		o.unchoked = true
	case protocol.Have:
		if o.all {
			delete(o.remote, m.Index)
		} else {
			o.remote[m.Index] = true
		}
	case protocol.Bitfield:
		o.all = false
		o.remote = map[uint32]bool{}
		for i := 0; i < 8*len(m.Bitfield); i++ {
			if m.Bitfield[i/8]&(0x80>>(i%8)) != 0 {
				o.remote[uint32(i)] = true
			}
		}
	case protocol.HaveAll:
		if o.fastCap {
			o.all = true
			o.remote = map[uint32]bool{}
		}
	case protocol.HaveNone:
		if o.fastCap {
			o.all = false
			o.remote = map[uint32]bool{}
		}
	case protocol.ExtendedDontHave:
		if o.all {
			o.remote[m.Index] = true
		} else {
			delete(o.remote, m.Index)
		}
	case protocol.AllowedFast:
		if o.fastCap {
			o.fast[m.Index] = true
		}
	case protocol.Extended0:
		if m.ReqQ > 0 {
			o.reqq = m.ReqQ
		}
		if m.Messages != nil {
			o.pexSub = m.Messages["ut_pex"]
		}
	case protocol.Piece:
		o.answered(m.Index, m.Begin)
	case protocol.RejectRequest:
		if o.fastCap {
			o.answered(m.Index, m.Begin)
		}
	}
}

func (o *oracle) answered(i, b uint32) {
	if int64(i) >= int64(o.g.num) || int64(b) >= o.g.pieceLen(i) {
		o.wildRemote = true
		return
	}
	delete(o.outst, blk{i, b / CS * CS})
}

// onSchedule: the scheduler asks for these chunks
func (o *oracle) onSchedule(chunks []uint32) {
	for _, c := range chunks {
		if int64(c) >= o.g.nchunks() {
			o.wildSched = true
		}
	}
}

func (o *oracle) onLocalHave(i uint32) {
	if int64(i) >= int64(o.g.num) {
		o.wildHave[i] = true
	}
}

func (o *oracle) onPexEvent(add bool, ps []pex.Peer, canPex bool) {
	if !canPex {
		return
	}
	for _, p := range ps {
		if add {
			o.present[p.Addr] = true
		} else {
			delete(o.present, p.Addr)
		}
	}
}

func (o *oracle) v(kind, detail string, cur []string) {
	o.c.Violate(kind, detail, append([]string(nil), cur...))
}

// onOutput: the op `ws` produced these messages and these events for the torrent
func (o *oracle) onOutput(out []protocol.Message, evs []peer.TorEvent, cur []string, ws []string) {
	g := o.g
	// a request storrent has timed out itself (Cancel sent, no answer within the timeout)
	// is reported back to the scheduler during the tick: it is no longer outstanding
	if ws[0] == "t" && ws[1] == "expire" {
		for _, e := range evs {
			if d, ok := e.(peer.TorDrop); ok {
				delete(o.outst, blk{d.Index, d.Begin})
			}
		}
	}
	for _, m := range out {
		switch m := m.(type) {
		case protocol.Request:
			i, b, l := m.Index, m.Begin, m.Length
			d := fmt.Sprintf("Request{%d,%d,%d} geometry ps=%d total=%d", i, b, l, g.ps, g.total)
			switch {
			case int64(i) >= int64(g.num):
				o.v("request-wf:index-out-of-range", d, cur)
			case !o.remoteHas(i):
				o.v("request-wf:piece-not-advertised", d, cur)
			case o.wildSched:
			case b%CS != 0 || int64(b) >= g.pieceLen(i):
				o.v("request-wf:begin", d, cur)
			default:
				want := g.total - (int64(i)*int64(g.ps) + int64(b))
				if want > CS {
					want = CS
				}
				if int64(l) != want {
					o.v("request-wf:length", d+" want "+strconv.FormatInt(want, 10), cur)
				}
			}
			if !o.unchoked && !o.fast[i] {
				o.v("request-allowed:choked-and-not-fast", d, cur)
			}
			if !o.wildRemote {
				if _, dup := o.outst[blk{i, b}]; dup {
					o.v("request-dup:outstanding", d, cur)
				}
				lim := uint32(0)
				if o.reqq > 0 {
					lim = max(2, o.reqq)
					if uint32(len(o.outst)) >= lim {
						o.v("request-depth:over-advertised-reqq",
							fmt.Sprintf("%s with %d outstanding, reqq %d", d, len(o.outst), o.reqq), cur)
					}
				}
			}
			o.outst[blk{i, b}] = false
		case protocol.Cancel:
			d := fmt.Sprintf("Cancel{%d,%d,%d}", m.Index, m.Begin, m.Length)
			if !o.wildRemote {
				sent, ok := o.outst[blk{m.Index, m.Begin}]
				if !ok {
					o.v("cancel-refers:not-outstanding", d, cur)
				} else if sent {
					o.v("cancel-refers:second-cancel", d, cur)
				} else {
					o.outst[blk{m.Index, m.Begin}] = true
				}
			}
		case protocol.Have:
			if int64(m.Index) >= int64(g.num) && !o.wildHave[m.Index] {
				o.v("have-range:have", fmt.Sprintf("Have{%d} with %d pieces", m.Index, g.num), cur)
			}
		case protocol.ExtendedDontHave:
			if int64(m.Index) >= int64(g.num) && !o.wildHave[m.Index] {
				o.v("have-range:donthave", fmt.Sprintf("DontHave{%d} with %d pieces", m.Index, g.num), cur)
			}
		case protocol.ExtendedPex: // judged when it reaches the wire (onWire), in queue order
		case protocol.Interested, protocol.NotInterested:
		default:
			o.v("unexpected-message:"+fmt.Sprintf("%T", m), fmt.Sprintf("%v", m), cur)
		}
	}
}

// onWire: the writer takes a message off the queue.  Its content is what the remote sees;
// `was` is its canonical form when it was queued.
func (o *oracle) onWire(m protocol.Message, was string, cur []string) {
	if now := wirecanon.Canon(m); was != "" && now != was {
		o.v(fmt.Sprintf("queued-message-mutated:%T", m), "queued as `"+was+"`, on the wire `"+now+"`", cur)
	}
	if pm, ok := m.(protocol.ExtendedPex); ok {
		o.pexMessage(pm, cur)
	}
}

func (o *oracle) pexMessage(m protocol.ExtendedPex, cur []string) {
	if m.Subtype != o.pexSub || o.pexSub == 0 {
		o.v("pex-subtype", fmt.Sprintf("subtype %d, peer asked for %d", m.Subtype, o.pexSub), cur)
	}
	if len(m.Added) > 50 || len(m.Dropped) > 50 {
		o.v("pex-too-many", fmt.Sprintf("%d added, %d dropped", len(m.Added), len(m.Dropped)), cur)
	}
	seen := map[netip.AddrPort]bool{}
	for _, p := range m.Dropped {
		if !o.rk[p.Addr] {
			o.v("pex-sound:dropped-never-announced", p.Addr.String(), cur)
		}
		if seen[p.Addr] {
			o.v("pex-sound:duplicate-in-message", p.Addr.String(), cur)
		}
		seen[p.Addr] = true
	}
	for _, p := range m.Added {
		if o.rk[p.Addr] {
			o.v("pex-sound:announced-twice", p.Addr.String(), cur)
		}
		if seen[p.Addr] {
			o.v("pex-sound:duplicate-in-message", p.Addr.String(), cur)
		}
		seen[p.Addr] = true
	}
	for _, p := range m.Dropped {
		delete(o.rk, p.Addr)
	}
	for _, p := range m.Added {
		o.rk[p.Addr] = true
	}
}

// finish: "eventually reports every departure" — with a working, drained writer a bounded
// number of PEX ticks must leave the remote knowing no peer that has left.
func (o *oracle) finish(caseOps []string) {
	s := o.sim
	if s == nil || s.dead || s.p.VerifState().PexExt == 0 {
		return
	}
	pn := vhlib.Recover(func() {
		s.p.VerifSetWriter(s.realW, s.wDone)
		for round := 0; round < 8; round++ {
			s.drain(len(s.realW), caseOps)
			peer.VerifSendPex(s.p)
			s.collect()
		}
		s.drain(len(s.realW), caseOps)
	})
	if pn != "" {
		o.v("panic:pex-flush", pn, caseOps)
		return
	}
	for a := range o.rk {
		if !o.present[a] {
			o.v("pex-departures:never-reported", a.String()+" left but the remote was never told", caseOps)
			return
		}
	}
}

// fcOracle: chunk arithmetic against the geometry (the part of request_wf that does not
// depend on a history): for an existing chunk, (index, begin) is its position and the length
// is the block's true length.
func fcOracle(c *vhlib.Ctx, ws []string, obs string, line string) {
	if len(ws) != 4 {
		return
	}
	ps, _ := strconv.ParseInt(ws[1], 10, 64)
	total, _ := strconv.ParseInt(ws[2], 10, 64)
	ch, _ := strconv.ParseInt(ws[3], 10, 64)
	if ps < CS || ps%CS != 0 || total <= 0 || ch >= (total+CS-1)/CS {
		return
	}
	var i, b, l int64
	if n, _ := fmt.Sscanf(obs, "fc %d %d %d", &i, &b, &l); n != 3 {
		c.Violate("chunk-arith:fault", obs, []string{line})
		return
	}
	want := total - ch*CS
	if want > CS {
		want = CS
	}
	pow2 := "pow2"
	if ps&(ps-1) != 0 {
		pow2 = "non-pow2"
	}
	big := "small"
	if ch >= 1<<18 {
		big = "chunk>=2^18"
	}
	if i*ps+b != ch*CS || b%CS != 0 || b >= ps {
		c.Violate("chunk-arith:begin:"+pow2+":"+big, fmt.Sprintf("%s -> %s", line, obs), []string{line})
	} else if l != want {
		c.Violate("chunk-arith:length", fmt.Sprintf("%s -> %s want %d", line, obs, want), []string{line})
	}
}
