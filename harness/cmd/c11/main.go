// vh c11: everything storrent sends to a peer is protocol-conformant.
//
// Real peers (peer.VerifNewPeer: the real handleMessage / handleEvent / maybeRequest /
// expireRequests / sendPex on a Peer without goroutines; and the real peer.Run over an
// in-memory connection for the initial advertisement) are driven by op lines; every op's
// observable outcome (messages that reached the writer queue, TorDrop events, a state
// digest) is printed for the diff against the Lean model (lean/Storrent/Model/PeerOut.lean).
// Independently of the model, the oracle (oracle.go) evaluates the clauses of C11 on
// everything that reaches the writer queue / the remote end of the connection.
package main

import (
	"bytes"
	"fmt"
	"net/netip"
	"strconv"
	"strings"
	"time"

	"github.com/jech/storrent/bitmap"
	"github.com/jech/storrent/hash"
	"github.com/jech/storrent/peer"
	"github.com/jech/storrent/pex"
	"github.com/jech/storrent/protocol"
	"github.com/jech/storrent/tor"
	"github.com/jech/storrent/tor/piece"

	"verifharness/vhlib"
	"verifharness/wirecanon"
)

const CS = 16384

// ---------------------------------------------------------------- geometries

type geom struct {
	ps    uint32
	total int64
	num   int
	t     *tor.Torrent
}

var geoms = map[string]*geom{}

// mkGeom builds a real torrent (tor.ReadTorrent on generated metainfo: the geometry goes
// through storrent's own validation); no content is allocated.
func mkGeom(ps uint32, total int64) *geom {
	key := fmt.Sprintf("%d/%d", ps, total)
	if g, ok := geoms[key]; ok {
		return g
	}
	num := int((total + int64(ps) - 1) / int64(ps))
	var b bytes.Buffer
	fmt.Fprintf(&b, "d4:infod6:lengthi%de4:name1:g12:piece lengthi%de6:pieces%d:", total, ps, 20*num)
	b.Write(make([]byte, 20*num))
	b.WriteString("ee")
	t, err := tor.ReadTorrent("", &b)
	if err != nil {
		geoms[key] = nil
		return nil
	}
	g := &geom{ps, total, num, t}
	geoms[key] = g
	return g
}

func (g *geom) nchunks() int64 { return (g.total + CS - 1) / CS }
func (g *geom) pieceLen(i uint32) int64 {
	r := g.total - int64(i)*int64(g.ps)
	if r > int64(g.ps) {
		r = int64(g.ps)
	}
	return r
}

// ---------------------------------------------------------------- canonical text

func peersStr(ps []pex.Peer) string {
	var sb strings.Builder
	sb.WriteByte('[')
	for i, p := range ps {
		if i > 0 {
			sb.WriteByte(',')
		}
		fmt.Fprintf(&sb, "%s:%d:%d", vhlib.Hex(p.Addr.Addr().AsSlice()), p.Addr.Port(), p.Flags)
	}
	sb.WriteByte(']')
	return sb.String()
}

func parsePeers(s string) ([]pex.Peer, bool) {
	if !strings.HasPrefix(s, "[") || !strings.HasSuffix(s, "]") {
		return nil, false
	}
	s = s[1 : len(s)-1]
	if s == "" {
		return nil, true
	}
	var out []pex.Peer
	for _, e := range strings.Split(s, ",") {
		f := strings.Split(e, ":")
		if len(f) != 3 {
			return nil, false
		}
		ip, ok := netip.AddrFromSlice(vhlib.UnHex(f[0]))
		port, e1 := strconv.Atoi(f[1])
		fl, e2 := strconv.Atoi(f[2])
		if !ok || e1 != nil || e2 != nil {
			return nil, false
		}
		out = append(out, pex.Peer{Addr: netip.AddrPortFrom(ip, uint16(port)), Flags: byte(fl)})
	}
	return out, true
}

func u32s(l []uint32) string {
	s := make([]string, len(l))
	for i, v := range l {
		s[i] = strconv.FormatUint(uint64(v), 10)
	}
	return strings.Join(s, ",")
}

func b01(b bool) string {
	if b {
		return "1"
	}
	return "0"
}

// ---------------------------------------------------------------- the peer under test

type sim struct {
	c        *vhlib.Ctx
	g        *geom
	p        *peer.Peer
	torEv    chan peer.TorEvent
	realW    chan protocol.Message
	wDone    chan struct{}
	blocked  bool
	shadow   []protocol.Message // contents of realW
	queuedAs []string           // canonical form of each queued message at the time it was queued
	dead     bool
	fastCap  bool
	rttCfg   time.Duration
	rateBig  bool
	o        *oracle
	slowLeft *int // budget of writes on a really full queue (200 ms each)
}

var closedCh = func() chan struct{} { c := make(chan struct{}); close(c); return c }()

func (s *sim) digest() string {
	st := s.p.VerifState()
	px := s.p.VerifPexState()
	var q, r []string
	for _, c := range st.Queue {
		q = append(q, strconv.FormatUint(uint64(c), 10))
	}
	for _, x := range st.Requested {
		e := strconv.FormatUint(uint64(x.Index), 10)
		if x.Cancelled {
			e += "*"
		}
		r = append(r, e)
	}
	rb := "nil"
	if !st.BitmapNil {
		rb = vhlib.Payload(st.Bitmap)
	}
	return fmt.Sprintf("u=%s q=[%s] r=[%s] rb=%s my=%s seed=%s reqq=%d fast=[%s] si=%s ai=%s px=%d dh=%d wl=%d pex=%s/%s/%s info=%s",
		b01(st.Unchoked), strings.Join(q, ","), strings.Join(r, ","), rb, vhlib.Payload(st.MyBitmap),
		b01(st.IsSeed), st.ReqQ, u32s(st.Fast), b01(st.ShouldInterested), b01(st.AmInterested),
		st.PexExt, st.DontHaveExt, len(s.realW), peersStr(px.Pending), peersStr(px.PendingDel),
		peersStr(px.Sent), b01(st.HasInfo))
}

// collect: what the op put on the writer queue and on the torrent's event channel
func (s *sim) collect() (out []protocol.Message, evs []peer.TorEvent) {
	var all []protocol.Message
	for len(s.realW) > 0 {
		all = append(all, <-s.realW)
	}
	if len(all) >= len(s.shadow) {
		out = all[len(s.shadow):]
	}
	for _, m := range all {
		s.realW <- m
	}
	s.shadow = all
	for _, m := range out {
		s.queuedAs = append(s.queuedAs, wirecanon.Canon(m))
	}
	for len(s.torEv) > 0 {
		evs = append(evs, <-s.torEv)
	}
	s.p.VerifFlushEvents()
	for len(s.torEv) > 0 {
		evs = append(evs, <-s.torEv)
	}
	return
}

func newSim(c *vhlib.Ctx, ws []string, slowLeft *int) (*sim, bool) {
	kv := map[string]string{}
	for _, w := range ws {
		if i := strings.IndexByte(w, '='); i > 0 {
			kv[w[:i]] = w[i+1:]
		}
	}
	ps, e1 := strconv.ParseUint(kv["ps"], 10, 32)
	total, e2 := strconv.ParseInt(kv["len"], 10, 64)
	wcap, e3 := strconv.Atoi(kv["wcap"])
	if e1 != nil || e2 != nil || e3 != nil || len(ws) != 6 {
		return nil, false
	}
	g := mkGeom(uint32(ps), total)
	if g == nil {
		return nil, false
	}
	s := &sim{c: c, g: g, slowLeft: slowLeft}
	s.torEv = make(chan peer.TorEvent, 1<<16)
	s.wDone = make(chan struct{})
	var info []byte
	if kv["info"] == "1" {
		info = g.t.Info
	}
	s.fastCap = kv["fast"] == "1"
	my := bitmap.Bitmap(append([]byte(nil), vhlib.UnHex(kv["my"])...))
	s.p = peer.VerifNewPeer(peer.VerifPeerOpts{
		Addr: netip.MustParseAddrPort("192.0.2.1:0"), Hash: hash.Hash(make([]byte, 20)),
		Id: hash.Hash(make([]byte, 20)), Fast: s.fastCap, Extended: true,
		Pieces: &g.t.Pieces, Info: info, MyBitmap: my, WriterCap: wcap,
		TorEvent: s.torEv, TorDone: make(chan struct{}), WriterDone: s.wDone,
	})
	s.realW = s.p.VerifWriter()
	s.o = newOracle(c, g)
	s.o.sim = s
	s.o.fastCap = s.fastCap
	return s, true
}

// predictK: the outcome of maybeRequest's rate/delay test as the model's environment input.
// The harness pins the download estimator (VerifSetDownload: stopped, value 0 or
// astronomically high) before every op, so the test is "always" (k=0) or "never" (k=inf).
func (s *sim) predictK(measures bool) string {
	if s.rateBig && (s.p.VerifRto() > 0 || measures) {
		return "inf"
	}
	return "0"
}

// The virtual clock: request time stamps are kept at (multiple of ageUnit) + ageEps before
// now.  rebase() is called before and after every op, so the real time an op takes (up to
// ageUnit/2) never accumulates in a stamp; every threshold the code compares ages with
// (30 s; min(rto, 5 s) [+ 2 s]) is at least 2.5 s away from any age used, except where the
// age is above the threshold by ageEps (real time can only add to it).
const ageUnit = 10 * time.Second
const ageEps = time.Millisecond

func (s *sim) rebase() { s.p.VerifRebaseRequests(ageUnit, ageEps) }

// drain takes up to k messages off the real queue and hands them to the oracle in queue order
func (s *sim) drain(k int, cur []string) []protocol.Message {
	var out []protocol.Message
	for i := 0; i < k && len(s.realW) > 0; i++ {
		m := <-s.realW
		s.shadow = s.shadow[1:]
		was := ""
		if len(s.queuedAs) > 0 {
			was = s.queuedAs[0]
			s.queuedAs = s.queuedAs[1:]
		}
		s.o.onWire(m, was, cur)
		out = append(out, m)
	}
	return out
}

func (s *sim) pinRate() {
	if s.rateBig {
		s.p.VerifSetDownload(1e15)
	} else {
		s.p.VerifSetDownload(0)
	}
}

func (s *sim) outstanding(chunk uint32) bool {
	for _, r := range s.p.VerifState().Requested {
		if r.Index == chunk {
			return true
		}
	}
	return false
}

func canonAll(ms []protocol.Message) string {
	var parts []string
	for _, m := range ms {
		parts = append(parts, wirecanon.Canon(m))
	}
	return strings.Join(parts, "|")
}

// exec runs one op line against the real code and returns the observation line.
func (s *sim) exec(ws []string, cur []string) (obs string, tag string) {
	bad := "bad-op"
	if s.dead && ws[0] != "x" && ws[0] != "h" {
		return "dead out=[] drops=[] " + s.digest(), "dead"
	}
	num := func(i int) (uint64, bool) {
		if i >= len(ws) {
			return 0, false
		}
		v, err := strconv.ParseUint(ws[i], 10, 64)
		return v, err == nil && v < 1<<32
	}
	var err error
	var run func()
	st0 := s.p.VerifState()
	tag = strings.Join(ws[:min(2, len(ws))], "-")
	switch ws[0] {
	case "h": // harness-only environment settings (no effect on the model)
		switch {
		case len(ws) == 3 && ws[1] == "rate" && ws[2] == "big":
			s.rateBig = true
		case len(ws) == 3 && ws[1] == "rate" && ws[2] == "zero":
			s.rateBig = false
		case len(ws) == 3 && ws[1] == "rtt":
			ms, e := strconv.Atoi(ws[2])
			if e != nil {
				return bad, tag
			}
			s.rttCfg = time.Duration(ms) * time.Millisecond
			s.p.VerifSetRtt(s.rttCfg, 0)
		default:
			return bad, tag
		}
		return "h", "h-" + ws[1]
	case "x":
		v, ok := num(2)
		if len(ws) != 3 || !ok {
			return bad, tag
		}
		switch ws[1] {
		case "age": // the virtual clock advances in multiples of ageUnit
			if time.Duration(v)*time.Millisecond%ageUnit != 0 {
				return bad, tag
			}
			s.rebase()
			s.p.VerifAge(time.Duration(v) * time.Millisecond)
			s.rebase()
		case "drain":
			// what the writer goroutine would put on the wire now: the message objects as they
			// are at this moment (a message built from slices of the peer's state must not change
			// while it waits in the queue)
			drained := s.drain(int(v), cur)
			return "ok out=[] drops=[] drained=[" + canonAll(drained) + "] " + s.digest(), tag
		case "wblock":
			if v == 1 {
				s.p.VerifSetWriter(make(chan protocol.Message), closedCh)
			} else {
				s.p.VerifSetWriter(s.realW, s.wDone)
			}
			s.blocked = v == 1
		default:
			return bad, tag
		}
		return "ok out=[] drops=[] " + s.digest(), tag
	case "m":
		if len(ws) < 2 {
			return bad, tag
		}
		var m protocol.Message
		switch ws[1] {
		case "choke":
			m = protocol.Choke{}
		case "unchoke":
			m = protocol.Unchoke{}
		case "haveall":
			m = protocol.HaveAll{}
		case "havenone":
			m = protocol.HaveNone{}
		case "have", "allowedfast", "donthave":
			v, ok := num(2)
			if !ok || len(ws) != 3 {
				return bad, tag
			}
			switch ws[1] {
			case "have":
				m = protocol.Have{Index: uint32(v)}
			case "allowedfast":
				m = protocol.AllowedFast{Index: uint32(v)}
			default:
				m = protocol.ExtendedDontHave{Subtype: protocol.ExtDontHave, Index: uint32(v)}
			}
		case "bitfield":
			if len(ws) != 3 || ws[2] == "-" {
				return bad, tag
			}
			m = protocol.Bitfield{Bitfield: vhlib.UnHex(ws[2])}
		case "reject":
			i, ok1 := num(2)
			b, ok2 := num(3)
			if !ok1 || !ok2 || len(ws) != 5 {
				return bad, tag
			}
			m = protocol.RejectRequest{Index: uint32(i), Begin: uint32(b), Length: CS}
		case "piece": // m piece <index> <begin> <data length> <bytes AddData will store> k=
			i, ok1 := num(2)
			b, ok2 := num(3)
			l, ok3 := num(4)
			if !ok1 || !ok2 || !ok3 || len(ws) != 7 || l > 1<<20 {
				return bad, tag
			}
			var data []byte
			if l == CS {
				data = protocol.GetBuffer(CS)
			} else if l > 0 {
				data = make([]byte, l)
			}
			m = protocol.Piece{Index: uint32(i), Begin: uint32(b), Data: data}
		case "ext0":
			q, ok := num(2)
			if !ok || len(ws) != 5 {
				return bad, tag
			}
			e := protocol.Extended0{ReqQ: uint32(q)}
			if ws[3] != "-" {
				px, e1 := strconv.Atoi(ws[3])
				dh, e2 := strconv.Atoi(ws[4])
				if e1 != nil || e2 != nil {
					return bad, tag
				}
				e.Messages = map[string]uint8{}
				if px != 0 {
					e.Messages["ut_pex"] = uint8(px)
				}
				if dh != 0 {
					e.Messages["lt_donthave"] = uint8(dh)
				}
			}
			m = e
		default:
			return bad, tag
		}
		s.o.onMessage(m)
		run = func() { err = peer.VerifHandleMessage(s.p, m) }
	case "e":
		if len(ws) < 2 {
			return bad, tag
		}
		var ev peer.PeerEvent
		switch ws[1] {
		case "request":
			if len(ws) != 4 {
				return bad, tag
			}
			var cs []uint32
			if ws[2] != "-" {
				for _, f := range strings.Split(ws[2], ",") {
					v, e := strconv.ParseUint(f, 10, 32)
					if e != nil {
						return bad, tag
					}
					cs = append(cs, uint32(v))
				}
			}
			s.o.onSchedule(cs)
			ev = peer.PeerRequest{Chunks: cs}
		case "cancel":
			v, ok := num(2)
			if !ok || len(ws) != 3 {
				return bad, tag
			}
			ev = peer.PeerCancel{Chunk: uint32(v)}
		case "cancelpiece":
			v, ok := num(2)
			if !ok || len(ws) != 3 {
				return bad, tag
			}
			ev = peer.PeerCancelPiece{Index: uint32(v)}
		case "have":
			v, ok := num(2)
			if !ok || len(ws) != 4 {
				return bad, tag
			}
			s.o.onLocalHave(uint32(v))
			ev = peer.PeerHave{Index: uint32(v), Have: ws[3] == "1"}
		case "interested":
			if len(ws) != 3 {
				return bad, tag
			}
			ev = peer.PeerInterested{Interested: ws[2] == "1"}
		case "metadata":
			ev = peer.PeerMetadataComplete{Info: s.g.t.Info}
		case "pex":
			if len(ws) != 4 {
				return bad, tag
			}
			ps, ok := parsePeers(ws[3])
			if !ok {
				return bad, tag
			}
			s.o.onPexEvent(ws[2] == "1", ps, st0.PexExt != 0)
			ev = peer.PeerPex{Peers: ps, Add: ws[2] == "1"}
		default:
			return bad, tag
		}
		run = func() { err = peer.VerifHandleEvent(s.p, ev) }
	case "t":
		if len(ws) < 2 {
			return bad, tag
		}
		switch ws[1] {
		case "expire": // one tick of Run's 2 s ticker, request part
			run = func() {
				if peer.VerifExpireRequests(s.p) {
					peer.VerifMaybeRequest(s.p)
				}
			}
		case "sendpex":
			run = func() { peer.VerifSendPex(s.p) }
		default:
			return bad, tag
		}
	default:
		return bad, tag
	}

	s.pinRate()
	s.rebase()
	// a write on a really full queue costs 200 ms of wall time: bounded budget
	if !s.blocked && len(s.realW) == cap(s.realW) {
		*s.slowLeft--
	}
	pn := vhlib.Recover(run)
	s.rebase()
	if ws[0] == "m" && ws[1] == "piece" {
		s.p.VerifSetRtt(s.rttCfg, 0)
	}
	out, evs := s.collect()
	var drops []string
	for _, e := range evs {
		if d, ok := e.(peer.TorDrop); ok {
			drops = append(drops, fmt.Sprintf("%d:%d", d.Index, d.Begin))
		}
	}
	res := "ok"
	if pn != "" {
		res = "panic"
		s.dead = true
		s.c.Violate("panic:"+strings.Join(ws[:2], "-"), pn, cur)
	} else if err != nil {
		res = "err"
		s.dead = true
	}
	s.o.onOutput(out, evs, cur, ws)
	obs = fmt.Sprintf("%s out=[%s] drops=[%s] %s", res, canonAll(out), strings.Join(drops, ","), s.digest())
	st1 := s.p.VerifState()
	tag = fmt.Sprintf("%s:%s:out=%d:drops=%d:q%+d:r%+d", tag, res, min(len(out), 3), min(len(drops), 2),
		sign(len(st1.Queue)-len(st0.Queue)), sign(len(st1.Requested)-len(st0.Requested)))
	return
}

func sign(x int) int {
	if x > 0 {
		return 1
	}
	if x < 0 {
		return -1
	}
	return 0
}

// ---------------------------------------------------------------- stateless ops

func fcLine(ws []string) (string, string) {
	if len(ws) != 4 {
		return "bad-op", "fc"
	}
	ps, e1 := strconv.ParseUint(ws[1], 10, 32)
	total, e2 := strconv.ParseInt(ws[2], 10, 64)
	ch, e3 := strconv.ParseUint(ws[3], 10, 32)
	if e1 != nil || e2 != nil || e3 != nil {
		return "bad-op", "fc"
	}
	var pcs piece.Pieces
	pcs.MetadataComplete(uint32(ps), total)
	p := peer.VerifNewPeer(peer.VerifPeerOpts{Pieces: &pcs, WriterCap: 1})
	var i, b, l uint32
	pn := vhlib.Recover(func() {
		i, b = peer.VerifFromChunk(p, uint32(ch))
		l = peer.VerifChunkSize(p, uint32(ch))
	})
	if pn != "" {
		return "fc panic", "fc-panic"
	}
	return fmt.Sprintf("fc %d %d %d", i, b, l), "fc"
}

func tcLine(ws []string) (string, string) {
	if len(ws) != 4 {
		return "bad-op", "tc"
	}
	ps, e1 := strconv.ParseUint(ws[1], 10, 32)
	i, e2 := strconv.ParseUint(ws[2], 10, 32)
	b, e3 := strconv.ParseUint(ws[3], 10, 32)
	if e1 != nil || e2 != nil || e3 != nil {
		return "bad-op", "tc"
	}
	var pcs piece.Pieces
	pcs.MetadataComplete(uint32(ps), int64(ps))
	p := peer.VerifNewPeer(peer.VerifPeerOpts{Pieces: &pcs, WriterCap: 1})
	var c uint32
	pn := vhlib.Recover(func() { c = peer.VerifToChunk(p, uint32(i), uint32(b)) })
	if pn != "" {
		return "tc panic", "tc-panic"
	}
	return fmt.Sprintf("tc %d", c), "tc"
}

// ---------------------------------------------------------------- interpreter

type interp struct {
	c        *vhlib.Ctx
	f        *feedSim
	s        *sim
	slowLeft int
}

// line executes one op line (generated or replayed), emits op + observation
func (it *interp) line(l string) {
	ws := strings.Fields(l)
	if len(ws) == 0 {
		return
	}
	var obs, tag string
	switch ws[0] {
	case "new":
		it.finishCase()
		it.c.NewCase()
		s, ok := newSim(it.c, ws[1:], &it.slowLeft)
		if !ok {
			it.s = nil
			obs, tag = "bad-op", "new-bad"
		} else {
			it.s = s
			obs, tag = "ok "+s.digest(), "new"
		}
	case "feed":
		if len(ws) == 2 && ws[1] == "new" {
			it.finishCase()
			it.c.NewCase()
			it.f = newFeedSim(it.c)
			if it.f == nil {
				obs, tag = "bad-op", "feed-bad"
			} else {
				obs, tag = "feed ok", "feed-new"
			}
		} else if it.f == nil {
			obs, tag = "bad-op", "nofeed"
		} else {
			obs, tag = it.f.exec(ws, append(it.c.Case(), l))
		}
	case "adv":
		it.finishCase()
		it.c.NewCase()
		obs, tag = advLine(it.c, ws, l)
	case "fc":
		it.finishCase()
		it.c.NewCase()
		obs, tag = fcLine(ws)
		fcOracle(it.c, ws, obs, l)
	case "tc":
		it.finishCase()
		it.c.NewCase()
		obs, tag = tcLine(ws)
	default:
		if it.s == nil {
			obs, tag = "bad-op", "nopeer"
		} else {
			obs, tag = it.s.exec(ws, append(it.c.Case(), l))
		}
	}
	if obs == "bad-op" && it.c.Replay == "" {
		it.c.Violate("harness:generated-bad-op", l, []string{l})
	}
	it.c.Emit(l, obs)
	it.c.Count(tag, l, !strings.HasPrefix(tag, "new") && tag != "h")
}

func (it *interp) finishCase() {
	if it.f != nil {
		it.f.finish(it.c.Case())
		it.f = nil
	}
	if it.s != nil {
		it.s.o.finish(it.c.Case())
		it.s = nil
	}
}

func main() {
	c := vhlib.Init("c11")
	c.Rep.Rule = "C11 oracle: request wf/allowed/no-dup/depth, cancel refers, bitfield exact, have range, pex sound/departures"
	it := &interp{c: c, slowLeft: 12}
	if c.Replay != "" {
		for _, l := range c.ReplayLines() {
			it.line(l)
		}
	} else {
		generate(it)
	}
	it.finishCase()
	c.Close()
}
