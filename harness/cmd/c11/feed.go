package main

// The torrent-side feeding of PEX: the real tor.handleEvent (TorAddPeer, TorPeerExtended,
// TorPeerGoaway/delPeer) with real peers (peer.Run over in-memory connections, created
// through Torrent.NewPeer as the dialler and the server do) that join, send extended
// handshakes and leave, and an observer peer that is connected all along.  The observer's
// event queue is pumped into the real peer.handleEvent (so its real pexState follows) and
// every PeerPex it is sent is recorded: that sequence is diffed against Model/PexFeed.lean
// and judged by the oracle below; at the end of the case the observer's real sendPex output
// is checked against the set of peers that are still there.

import (
	"bufio"
	"bytes"
	"context"
	"fmt"
	"net/netip"
	"strconv"
	"strings"
	"time"

	"github.com/jech/storrent/hash"
	"github.com/jech/storrent/peer"
	"github.com/jech/storrent/pex"
	"github.com/jech/storrent/protocol"
	"github.com/jech/storrent/tor"

	"verifharness/vhlib"
)

type feedPeer struct {
	id       int
	p        *peer.Peer
	conn     *memConn
	incoming bool
	dialled  uint16 // port we dialled (outgoing)
	own      uint16 // the port that is the peer's own: dialled, or the first advertised one
	gone     bool
}

type feedMarker struct{ ch chan struct{} }

type feedSim struct {
	c      *vhlib.Ctx
	t      *tor.Torrent
	obs    *peer.Peer
	rec    []string // canonical PeerPex events the observer received since the last collect
	recEv  []peer.PeerPex
	peers  map[int]*feedPeer
	view   map[netip.AddrPort]bool
	broken bool
	quit   chan struct{}
}

func feedIP(id int) netip.Addr { return netip.AddrFrom4([4]byte{10, 9, 0, byte(id)}) }

func newFeedSim(c *vhlib.Ctx) *feedSim {
	var b bytes.Buffer
	fmt.Fprintf(&b, "d4:infod6:lengthi%de4:name1:g12:piece lengthi%de6:pieces%d:", 16384, 16384, 20)
	b.Write(make([]byte, 20))
	b.WriteString("ee")
	t, err := tor.ReadTorrent("", &b)
	if err != nil {
		return nil
	}
	tor.VerifInit(t, 1<<14, 1)
	f := &feedSim{c: c, t: t, peers: map[int]*feedPeer{}, view: map[netip.AddrPort]bool{}, quit: make(chan struct{})}
	sink := make(chan peer.TorEvent, 1<<14)
	f.obs = peer.VerifNewPeer(peer.VerifPeerOpts{
		Addr: netip.AddrPortFrom(feedIP(250), 0), Incoming: true, Hash: t.Hash, Id: hash.Hash(bytes.Repeat([]byte{250}, 20)),
		Extended: true, Pieces: &t.Pieces, Info: t.Info, WriterCap: 64,
		TorEvent: sink, TorDone: make(chan struct{}), WriterDone: make(chan struct{}),
	})
	peer.VerifHandleMessage(f.obs, protocol.Extended0{Messages: map[string]uint8{"ut_pex": 1}})
	t.VerifAddPeer(f.obs)
	go f.pump()
	return f
}

// pump: the observer's event loop — every event goes to the real handleEvent
func (f *feedSim) pump() {
	for {
		select {
		case <-f.quit:
			return
		case e := <-f.obs.Event:
			switch e := e.(type) {
			case feedMarker:
				close(e.ch)
				continue
			case peer.PeerPex:
				f.recEv = append(f.recEv, peer.PeerPex{Peers: append([]pex.Peer(nil), e.Peers...), Add: e.Add})
			}
			vhlib.Recover(func() { peer.VerifHandleEvent(f.obs, e) })
		}
	}
}

// sync: everything sent to the observer so far has been handled
func (f *feedSim) sync() bool {
	ch := make(chan struct{})
	select {
	case f.obs.Event <- feedMarker{ch}:
	case <-time.After(20 * time.Second):
		return false
	}
	select {
	case <-ch:
		return true
	case <-time.After(20 * time.Second):
		return false
	}
}

// pumpTor handles the torrent's events with the real handler until `until` has been handled
func (f *feedSim) pumpTor(until func(e peer.TorEvent) bool) bool {
	deadline := time.After(20 * time.Second)
	for {
		select {
		case e := <-f.t.Event:
			pn := vhlib.Recover(func() { tor.VerifHandleEvent(context.Background(), f.t, e) })
			if pn != "" {
				f.c.Violate("panic:tor-handleEvent", pn, f.c.Case())
			}
			if until(e) {
				return true
			}
		case <-deadline:
			return false
		}
	}
}

func (f *feedSim) close() {
	for _, fp := range f.peers {
		if !fp.gone {
			fp.conn.Close()
		}
	}
	close(f.quit)
	close(f.t.Done)
}

// exec runs one `feed …` op; returns the observation line
func (f *feedSim) exec(ws []string, cur []string) (string, string) {
	bad := "bad-op"
	if f.broken {
		return "feed broken", "feed-broken"
	}
	hang := func(what string) (string, string) {
		f.broken = true
		f.c.Violate("hang:feed-"+what, "the expected torrent event did not arrive within 20 s", cur)
		return "feed hang", "feed-hang"
	}
	if len(ws) < 3 {
		return bad, "feed-bad"
	}
	id, err := strconv.Atoi(ws[2])
	if err != nil || id < 1 || id >= 250 {
		return bad, "feed-bad"
	}
	tag := "feed-" + ws[1]
	left := false
	switch ws[1] {
	case "join":
		if len(ws) != 5 {
			return bad, "feed-bad"
		}
		port, e1 := strconv.Atoi(ws[3])
		if e1 != nil || port < 0 || port > 65535 || (ws[4] != "0" && ws[4] != "1") {
			return bad, "feed-bad"
		}
		if fp := f.peers[id]; fp != nil && !fp.gone {
			break // not in the domain (model: no-op)
		}
		fp := &feedPeer{id: id, conn: newMemConn(), incoming: ws[4] == "1"}
		addr := netip.AddrPortFrom(feedIP(id), 0)
		if !fp.incoming {
			fp.dialled = uint16(port)
			fp.own = uint16(port)
			addr = netip.AddrPortFrom(feedIP(id), uint16(port))
			tag += "-dialled"
		} else {
			tag += "-incoming"
		}
		f.peers[id] = fp
		before := len(f.t.VerifPeers())
		err := f.t.NewPeer("", fp.conn, addr, fp.incoming, protocol.HandshakeResult{
			Hash: f.t.Hash, Id: hash.Hash(bytes.Repeat([]byte{byte(id)}, 20)), Extended: true}, nil)
		if err != nil {
			return bad, "feed-bad"
		}
		if !f.pumpTor(func(e peer.TorEvent) bool { _, ok := e.(peer.TorAddPeer); return ok }) {
			return hang("join")
		}
		ps := f.t.VerifPeers()
		if len(ps) != before+1 {
			return hang("join")
		}
		fp.p = ps[len(ps)-1]
		fp.p.Log.SetOutput(discard{})
	case "ext0":
		if len(ws) != 4 {
			return bad, "feed-bad"
		}
		pp, e1 := strconv.Atoi(ws[3])
		if e1 != nil || pp < 0 || pp > 65535 {
			return bad, "feed-bad"
		}
		fp := f.peers[id]
		if fp == nil || fp.gone {
			break
		}
		second := fp.p.VerifState().GotExtended
		var b bytes.Buffer
		w := bufio.NewWriter(&b)
		protocol.Write(w, protocol.Extended0{Port: uint16(pp), Messages: map[string]uint8{"ut_pex": 1}}, nil)
		w.Flush()
		fp.conn.Feed(b.Bytes())
		if second {
			tag += "-second"
			left = true
			if !f.pumpTor(func(e peer.TorEvent) bool { g, ok := e.(peer.TorPeerGoaway); return ok && g.Peer == fp.p }) {
				return hang("ext0-second")
			}
			fp.gone = true
		} else {
			switch {
			case pp == 0:
				tag += "-noport"
			case fp.own == 0:
				tag += "-learn"
				fp.own = uint16(pp)
			case uint16(pp) == fp.own:
				tag += "-same"
			default:
				tag += "-different"
			}
			if !f.pumpTor(func(e peer.TorEvent) bool { x, ok := e.(peer.TorPeerExtended); return ok && x.Peer == fp.p }) {
				return hang("ext0")
			}
		}
	case "leave":
		if len(ws) != 3 {
			return bad, "feed-bad"
		}
		fp := f.peers[id]
		if fp == nil || fp.gone {
			break
		}
		left = true
		fp.conn.Close()
		if !f.pumpTor(func(e peer.TorEvent) bool { g, ok := e.(peer.TorPeerGoaway); return ok && g.Peer == fp.p }) {
			return hang("leave")
		}
		fp.gone = true
	default:
		return bad, "feed-bad"
	}
	if !f.sync() {
		return hang("observer")
	}
	// what the observer was sent, canonical + oracle
	var evs []string
	for _, e := range f.recEv {
		for _, q := range e.Peers {
			a := q.Addr.Addr().As4()
			pid := int(a[3])
			if e.Add {
				evs = append(evs, fmt.Sprintf("a %d:%d:%d", pid, q.Addr.Port(), q.Flags))
				if fp := f.peers[pid]; fp == nil || fp.gone || fp.own == 0 || q.Addr.Port() != fp.own ||
					q.Addr.Addr() != feedIP(pid) {
					f.c.Violate("pex-feed:address-not-the-peers-own",
						fmt.Sprintf("%v announced for connection %d", q.Addr, pid), cur)
				}
				f.view[q.Addr] = true
			} else {
				evs = append(evs, fmt.Sprintf("d %d:%d", pid, q.Addr.Port()))
				if !f.view[q.Addr] {
					f.c.Violate("pex-feed:dropped-not-added", q.Addr.String(), cur)
				}
				delete(f.view, q.Addr)
			}
		}
	}
	f.recEv = nil
	if left {
		for a := range f.view {
			if a.Addr() == feedIP(id) {
				f.c.Violate("pex-feed:departed-peer-not-withdrawn",
					fmt.Sprintf("%v was announced for connection %d, which has left; only other addresses were withdrawn", a, id), cur)
			}
		}
	}
	return "feed [" + strings.Join(evs, "|") + "]", tag
}

// finish: the observer's real pexState, flushed through the real sendPex, must leave the
// remote knowing only peers that are still connected (composition with the PEX machine)
func (f *feedSim) finish(caseOps []string) {
	defer f.close()
	if f.broken || !f.sync() {
		return
	}
	rk := map[netip.AddrPort]bool{}
	w := f.obs.VerifWriter()
	for round := 0; round < 8; round++ {
		peer.VerifSendPex(f.obs)
		for len(w) > 0 {
			if m, ok := (<-w).(protocol.ExtendedPex); ok {
				for _, q := range m.Dropped {
					if !rk[q.Addr] {
						f.c.Violate("pex-sound:dropped-never-announced", q.Addr.String()+" (feed stream)", caseOps)
					}
					delete(rk, q.Addr)
				}
				for _, q := range m.Added {
					if rk[q.Addr] {
						f.c.Violate("pex-sound:announced-twice", q.Addr.String()+" (feed stream)", caseOps)
					}
					rk[q.Addr] = true
				}
			}
		}
	}
	live := map[netip.AddrPort]bool{}
	for _, fp := range f.peers {
		if !fp.gone && fp.own != 0 {
			live[netip.AddrPortFrom(feedIP(fp.id), fp.own)] = true
		}
	}
	for a := range rk {
		if !live[a] {
			f.c.Violate("pex-feed:remote-keeps-departed-peer",
				a.String()+" is still known to the observer's remote after every connection using it has left", caseOps)
			return
		}
	}
}

type discard struct{}

func (discard) Write(b []byte) (int, error) { return len(b), nil }

// genFeed: 2–4 connections that join (dialled / incoming), send extended handshakes with
// p equal / different / 0 / new, sometimes a second one, and leave in every order
func genFeed(it *interp, r *vhlib.Rand) {
	it.line("feed new")
	n := 2 + r.Intn(3)
	type st struct {
		joined, gone, ext bool
		port              int // the port we know for it (0: none yet)
	}
	ps := make([]st, n+1)
	alive := func() []int {
		var l []int
		for i := 1; i <= n; i++ {
			if ps[i].joined && !ps[i].gone {
				l = append(l, i)
			}
		}
		return l
	}
	steps := 6 + r.Intn(10)
	for k := 0; k < steps; k++ {
		al := alive()
		x := r.Intn(100)
		switch {
		case x < 35 || len(al) == 0:
			// a new connection (possibly from an address that was connected before)
			i := 1 + r.Intn(n)
			if ps[i].joined && !ps[i].gone {
				continue
			}
			inc := r.Intn(2)
			port := r.PickInt(6881, 7000+i, 51413)
			ps[i] = st{joined: true, port: port * (1 - inc)}
			it.line(fmt.Sprintf("feed join %d %d %d", i, port, inc))
		case x < 75:
			i := al[r.Intn(len(al))]
			pp := 0
			switch r.Intn(5) {
			case 0:
			case 1, 2: // the port we already know (or a first one)
				pp = ps[i].port
				if pp == 0 {
					pp = 8000 + i
				}
			default:
				pp = r.PickInt(6881, 9000+i, 51413, 1, 65535)
			}
			it.line(fmt.Sprintf("feed ext0 %d %d", i, pp))
			if ps[i].ext { // a second Extended0: the peer closes
				ps[i].gone = true
			} else {
				ps[i].ext = true
				if ps[i].port == 0 {
					ps[i].port = pp
				}
			}
		default:
			i := al[r.Intn(len(al))]
			it.line(fmt.Sprintf("feed leave %d", i))
			ps[i].gone = true
		}
	}
	for _, i := range alive() {
		it.line(fmt.Sprintf("feed leave %d", i))
		ps[i].gone = true
	}
}
