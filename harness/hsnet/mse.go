package hsnet

// An independent implementation of the MSE (message stream encryption) key schedule and
// messages, written from the specification with the Go standard library only.  It shares
// no code with github.com/jech/storrent/crypto: the harnesses use it as the scripted peer
// and as the reference that decrypts what the real code puts on the wire.

import (
	"bytes"
	"crypto/rc4"
	"crypto/sha1"
	"encoding/binary"
	"math/big"
)

var mseP, _ = new(big.Int).SetString("FFFFFFFFFFFFFFFFC90FDAA22168C234C4C6628B80DC1CD129024E088A67CC74020BBEA63B139B22514A08798E3404DDEF9519B3CD3A431B302B0A6DF25F14374FE1356D6D51C245E485B576625E7EC6F44C42E9A63A36210000000000090563", 16)

// MsePub returns g^x mod P as 96 bytes.
func MsePub(x []byte) []byte {
	var y big.Int
	y.Exp(big.NewInt(2), new(big.Int).SetBytes(x), mseP)
	return y.FillBytes(make([]byte, 96))
}

// MseShared returns Y^x mod P as 96 bytes.
func MseShared(x, Y []byte) []byte {
	var s big.Int
	s.Exp(new(big.Int).SetBytes(Y), new(big.Int).SetBytes(x), mseP)
	return s.FillBytes(make([]byte, 96))
}

func Sha1(parts ...[]byte) []byte {
	h := sha1.New()
	for _, p := range parts {
		h.Write(p)
	}
	return h.Sum(nil)
}

// MseStream is RC4 keyed with SHA1(label, S, SKEY) with the first 1024 bytes discarded.
func MseStream(label string, S, skey []byte) *rc4.Cipher {
	c, err := rc4.NewCipher(Sha1([]byte(label), S, skey))
	if err != nil {
		panic(err)
	}
	d := make([]byte, 1024)
	c.XORKeyStream(d, d)
	return c
}

func Xor(a, b []byte) []byte {
	o := make([]byte, len(a))
	for i := range a {
		o[i] = a[i] ^ b[i]
	}
	return o
}

func Crypt(c *rc4.Cipher, b []byte) []byte {
	o := make([]byte, len(b))
	c.XORKeyStream(o, b)
	return o
}

// ClientMsg3 is HASH('req1', S), HASH('req2', SKEY) xor HASH('req3', S),
// ENCRYPT(VC, crypto_provide, len(PadC), PadC, len(IA)), ENCRYPT(IA) under keyA.
// vc is normally 8 zero bytes.
func ClientMsg3(encA *rc4.Cipher, S, skey, vc []byte, provide uint32, padC, ia []byte, lenIa int) []byte {
	var b bytes.Buffer
	b.Write(Sha1([]byte("req1"), S))
	b.Write(Xor(Sha1([]byte("req2"), skey), Sha1([]byte("req3"), S)))
	var pl bytes.Buffer
	pl.Write(vc)
	binary.Write(&pl, binary.BigEndian, provide)
	binary.Write(&pl, binary.BigEndian, uint16(len(padC)))
	pl.Write(padC)
	binary.Write(&pl, binary.BigEndian, uint16(lenIa))
	pl.Write(ia)
	b.Write(Crypt(encA, pl.Bytes()))
	return b.Bytes()
}

// ServerMsg4 is ENCRYPT(VC, crypto_select, len(padD), padD) under keyB.
func ServerMsg4(encB *rc4.Cipher, vc []byte, sel uint32, lenPadD int, padD []byte) []byte {
	var pl bytes.Buffer
	pl.Write(vc)
	binary.Write(&pl, binary.BigEndian, sel)
	binary.Write(&pl, binary.BigEndian, uint16(lenPadD))
	pl.Write(padD)
	return Crypt(encB, pl.Bytes())
}
