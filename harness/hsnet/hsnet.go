// Package hsnet: in-memory transports for the handshake / crypto harnesses (C07, C08).
//
//   - ChunkConn ("offline"): a net.Conn whose read side is a pre-recorded byte stream cut
//     into an exact list of chunks (each Read returns min(len(buf), rest of the head chunk),
//     never more than one chunk), grouped in epochs: the chunks of epoch j+1 become
//     readable only after the j+1-th Write of the code under test (causality: a peer cannot
//     answer what has not been sent).  Everything written is logged.  Single-threaded and
//     exactly reproducible: this is the chunked source of Model/Chunked.lean.
//   - Duplex ("live"): a buffered full-duplex pipe with deadlines, a wire tap per direction
//     and a per-direction segmentation schedule applied on the read side.  Unlike net.Pipe
//     a Write never waits for the reader and a Read may return part of a write or several
//     writes glued together.
//   - DetRand: deterministic replacement of crypto/rand.Reader that logs what it hands out.
package hsnet

import (
	"errors"
	"io"
	"net"
	"os"
	"sync"
	"time"
)

type addr struct{}

func (addr) Network() string { return "mem" }
func (addr) String() string  { return "mem" }

// ---------------------------------------------------------------- ChunkConn

type ChunkConn struct {
	mu       sync.Mutex
	cond     *sync.Cond
	epochs   [][][]byte // not yet released epochs
	cur      [][]byte   // released, unread chunks
	Writes   [][]byte   // every Write, in order
	NReads   int
	Stalled  bool // a Read found the released data exhausted with epochs pending and no Write came
	Watchdog time.Duration
	closed   bool
	// write fault injection: the k-th Write (0-based) accepts only WriteCut bytes and fails
	FailWrite int
	WriteCut  int
	WriteErr  error
}

// NewChunkConn: epochs[0] is readable at once.
func NewChunkConn(epochs [][][]byte) *ChunkConn {
	c := &ChunkConn{Watchdog: 3 * time.Second, FailWrite: -1}
	c.cond = sync.NewCond(&c.mu)
	if len(epochs) > 0 {
		c.cur = cp2(epochs[0])
		for _, e := range epochs[1:] {
			c.epochs = append(c.epochs, cp2(e))
		}
	}
	return c
}

func cp2(e [][]byte) [][]byte {
	o := make([][]byte, 0, len(e))
	for _, c := range e {
		o = append(o, append([]byte(nil), c...))
	}
	return o
}

func (c *ChunkConn) Read(b []byte) (int, error) {
	c.mu.Lock()
	defer c.mu.Unlock()
	c.NReads++
	for len(c.cur) == 0 {
		if c.closed {
			return 0, net.ErrClosed
		}
		if len(c.epochs) == 0 {
			return 0, io.EOF
		}
		// wait for a Write of the code under test (it may be in flight on a goroutine)
		nw := len(c.Writes)
		deadline := time.Now().Add(c.Watchdog)
		for len(c.Writes) == nw && !c.closed {
			if time.Now().After(deadline) {
				c.Stalled = true
				return 0, os.ErrDeadlineExceeded
			}
			t := time.AfterFunc(20*time.Millisecond, func() { c.cond.Broadcast() })
			c.cond.Wait()
			t.Stop()
		}
	}
	h := c.cur[0]
	n := copy(b, h)
	if n == len(h) {
		c.cur = c.cur[1:]
	} else {
		c.cur[0] = h[n:]
	}
	return n, nil
}

func (c *ChunkConn) Write(b []byte) (int, error) {
	c.mu.Lock()
	defer c.mu.Unlock()
	if c.closed {
		return 0, net.ErrClosed
	}
	k := len(c.Writes)
	if k == c.FailWrite {
		n := c.WriteCut
		if n > len(b) {
			n = len(b)
		}
		c.Writes = append(c.Writes, append([]byte(nil), b[:n]...))
		c.release()
		return n, c.WriteErr
	}
	c.Writes = append(c.Writes, append([]byte(nil), b...))
	c.release()
	return len(b), nil
}

func (c *ChunkConn) release() {
	if len(c.epochs) > 0 {
		c.cur = append(c.cur, c.epochs[0]...)
		c.epochs = c.epochs[1:]
	}
	c.cond.Broadcast()
}

// Written returns the concatenation of everything written.
func (c *ChunkConn) Written() []byte {
	c.mu.Lock()
	defer c.mu.Unlock()
	var o []byte
	for _, w := range c.Writes {
		o = append(o, w...)
	}
	return o
}

// ReleaseAll makes every remaining epoch readable (used after the handshake returned, to
// drain what the message layer would read).
func (c *ChunkConn) ReleaseAll() {
	c.mu.Lock()
	defer c.mu.Unlock()
	for _, e := range c.epochs {
		c.cur = append(c.cur, e...)
	}
	c.epochs = nil
	c.cond.Broadcast()
}

// Unread returns the number of bytes not yet read (all epochs).
func (c *ChunkConn) Unread() int {
	c.mu.Lock()
	defer c.mu.Unlock()
	n := 0
	for _, ch := range c.cur {
		n += len(ch)
	}
	for _, e := range c.epochs {
		for _, ch := range e {
			n += len(ch)
		}
	}
	return n
}

func (c *ChunkConn) Close() error {
	c.mu.Lock()
	c.closed = true
	c.cond.Broadcast()
	c.mu.Unlock()
	return nil
}
func (c *ChunkConn) LocalAddr() net.Addr                { return addr{} }
func (c *ChunkConn) RemoteAddr() net.Addr               { return addr{} }
func (c *ChunkConn) SetDeadline(t time.Time) error      { return nil }
func (c *ChunkConn) SetReadDeadline(t time.Time) error  { return nil }
func (c *ChunkConn) SetWriteDeadline(t time.Time) error { return nil }

// ---------------------------------------------------------------- chunkings

// Cut splits s into chunks of the given sizes; a remainder becomes a last chunk, sizes
// beyond the end are dropped; zero sizes are skipped.
func Cut(s []byte, sizes []int) [][]byte {
	var o [][]byte
	for _, k := range sizes {
		if len(s) == 0 {
			break
		}
		if k <= 0 {
			continue
		}
		if k > len(s) {
			k = len(s)
		}
		o = append(o, s[:k])
		s = s[k:]
	}
	if len(s) > 0 {
		o = append(o, s)
	}
	return o
}

// CutEvery splits s into chunks of k bytes.
func CutEvery(s []byte, k int) [][]byte {
	var o [][]byte
	for len(s) > 0 {
		n := k
		if n > len(s) {
			n = len(s)
		}
		o = append(o, s[:n])
		s = s[n:]
	}
	return o
}

// ---------------------------------------------------------------- Duplex

// half is one direction of a Duplex.
type half struct {
	mu      sync.Mutex
	cond    *sync.Cond
	buf     []byte // written, not yet read
	pos     int    // absolute stream position of buf[0]
	wclosed bool   // writer closed: EOF after the buffer drains
	rclosed bool
	Tap     []byte // everything ever written (wire tap)
	NWrites int
	// schedule, applied on the read side
	MaxRead int   // > 0: a Read returns at most MaxRead bytes
	Cuts    []int // sorted absolute positions a Read never crosses
	Settle  int   // > 0: before returning, yield this many times so that the writer can get ahead (coalescing)
	rdl     time.Time
	// fault injection on the write side
	FailAt   int // >= 0: the write that would carry stream byte FailAt is cut there and fails
	FailErr  error
	ReadLog  []int
	LogReads bool
	ev       *EventLog
	dir      byte
	// ReadErrs: absolute stream position -> error delivered TOGETHER WITH the bytes of the Read
	// that ends exactly there (n > 0 and err != nil; one-shot).  The positions act as cuts.
	ReadErrs map[int]error
}

// EventLog is the global order of the writes of both directions of a Duplex.
type EventLog struct {
	mu sync.Mutex
	Ev []Event
}

// Event: a write of N bytes in direction Dir ('A' = A->B, 'B' = B->A).
type Event struct {
	Dir byte
	N   int
}

func (l *EventLog) add(dir byte, n int) {
	l.mu.Lock()
	l.Ev = append(l.Ev, Event{dir, n})
	l.mu.Unlock()
}

// Events returns a copy of the log.
func (l *EventLog) Events() []Event {
	l.mu.Lock()
	defer l.mu.Unlock()
	return append([]Event(nil), l.Ev...)
}

func newHalf() *half {
	h := &half{FailAt: -1}
	h.cond = sync.NewCond(&h.mu)
	return h
}

type timeoutErr struct{}

func (timeoutErr) Error() string   { return "i/o timeout" }
func (timeoutErr) Timeout() bool   { return true }
func (timeoutErr) Temporary() bool { return true }
func (timeoutErr) Unwrap() error   { return os.ErrDeadlineExceeded }

func (h *half) read(b []byte) (int, error) {
	if h.Settle > 0 {
		for i := 0; i < h.Settle; i++ {
			time.Sleep(50 * time.Microsecond)
		}
	}
	h.mu.Lock()
	defer h.mu.Unlock()
	for len(h.buf) == 0 {
		if h.rclosed {
			return 0, net.ErrClosed
		}
		if h.wclosed {
			return 0, io.EOF
		}
		if !h.rdl.IsZero() && !time.Now().Before(h.rdl) {
			return 0, timeoutErr{}
		}
		t := time.AfterFunc(25*time.Millisecond, func() { h.cond.Broadcast() })
		h.cond.Wait()
		t.Stop()
	}
	if len(b) == 0 {
		return 0, nil
	}
	n := len(h.buf)
	if n > len(b) {
		n = len(b)
	}
	if h.MaxRead > 0 && n > h.MaxRead {
		n = h.MaxRead
	}
	for _, c := range h.Cuts {
		if c > h.pos {
			if c-h.pos < n {
				n = c - h.pos
			}
			break
		}
	}
	for p := range h.ReadErrs {
		if p > h.pos && p-h.pos < n {
			n = p - h.pos
		}
	}
	copy(b, h.buf[:n])
	h.buf = h.buf[n:]
	h.pos += n
	if h.LogReads {
		h.ReadLog = append(h.ReadLog, n)
	}
	if e, ok := h.ReadErrs[h.pos]; ok {
		delete(h.ReadErrs, h.pos)
		return n, e
	}
	return n, nil
}

func (h *half) write(b []byte) (int, error) {
	h.mu.Lock()
	defer h.mu.Unlock()
	if h.wclosed || h.rclosed {
		return 0, io.ErrClosedPipe
	}
	h.NWrites++
	start := len(h.Tap)
	if h.FailAt >= 0 && h.FailAt < start+len(b) {
		n := h.FailAt - start
		if n < 0 {
			n = 0
		}
		h.buf = append(h.buf, b[:n]...)
		h.Tap = append(h.Tap, b[:n]...)
		if h.ev != nil {
			h.ev.add(h.dir, n)
		}
		// one-shot: the connection works again afterwards (a deadline that was extended, a
		// transient condition): whether anything is written after a fault is up to the caller
		h.FailAt = -1
		h.cond.Broadcast()
		return n, h.FailErr
	}
	h.buf = append(h.buf, b...)
	h.Tap = append(h.Tap, b...)
	if h.ev != nil {
		h.ev.add(h.dir, len(b))
	}
	h.cond.Broadcast()
	return len(b), nil
}

// End is one endpoint of a Duplex; it implements net.Conn.
type End struct {
	in, out *half
}

func (e *End) Read(b []byte) (int, error)  { return e.in.read(b) }
func (e *End) Write(b []byte) (int, error) { return e.out.write(b) }
func (e *End) Close() error {
	e.out.mu.Lock()
	e.out.wclosed = true
	e.out.cond.Broadcast()
	e.out.mu.Unlock()
	e.in.mu.Lock()
	e.in.rclosed = true
	e.in.cond.Broadcast()
	e.in.mu.Unlock()
	return nil
}

// CloseWrite half-closes: the peer sees EOF after draining.
func (e *End) CloseWrite() {
	e.out.mu.Lock()
	e.out.wclosed = true
	e.out.cond.Broadcast()
	e.out.mu.Unlock()
}
func (e *End) LocalAddr() net.Addr  { return addr{} }
func (e *End) RemoteAddr() net.Addr { return addr{} }
func (e *End) SetDeadline(t time.Time) error {
	e.SetReadDeadline(t)
	return nil
}
func (e *End) SetReadDeadline(t time.Time) error {
	e.in.mu.Lock()
	e.in.rdl = t
	e.in.cond.Broadcast()
	e.in.mu.Unlock()
	return nil
}
func (e *End) SetWriteDeadline(t time.Time) error { return nil }

// Sched is the segmentation of one direction.
type Sched struct {
	MaxRead int
	Cuts    []int
	Settle  int
}

// Duplex is a pair of connected ends; AB is the direction A->B.
type Duplex struct {
	A, B   *End
	AB, BA *half
	Log    *EventLog
}

func NewDuplex(ab, ba Sched) *Duplex {
	d := &Duplex{AB: newHalf(), BA: newHalf(), Log: &EventLog{}}
	d.AB.ev, d.AB.dir = d.Log, 'A'
	d.BA.ev, d.BA.dir = d.Log, 'B'
	d.AB.MaxRead, d.AB.Cuts, d.AB.Settle = ab.MaxRead, ab.Cuts, ab.Settle
	d.BA.MaxRead, d.BA.Cuts, d.BA.Settle = ba.MaxRead, ba.Cuts, ba.Settle
	d.A = &End{in: d.BA, out: d.AB}
	d.B = &End{in: d.AB, out: d.BA}
	return d
}

// SetReadFaults installs chunk boundaries and read-side errors on direction h.
func (h *half) SetReadFaults(cuts []int, errs map[int]error) {
	h.mu.Lock()
	h.Cuts, h.ReadErrs = cuts, errs
	h.mu.Unlock()
}

// Pos is the absolute stream position of the next byte to be read.
func (h *half) Pos() int {
	h.mu.Lock()
	defer h.mu.Unlock()
	return h.pos
}

// TapAB returns a copy of everything A has written so far.
func (d *Duplex) TapAB() []byte { return d.AB.tap() }
func (d *Duplex) TapBA() []byte { return d.BA.tap() }
func (h *half) tap() []byte {
	h.mu.Lock()
	defer h.mu.Unlock()
	return append([]byte(nil), h.Tap...)
}

// EpochsFor splits the stream read by side X (written by the other side, direction dir)
// into epochs: epoch j holds what the peer wrote after X's j-th write and before its
// j+1-th (X's writes have direction xdir).
func EpochsFor(ev []Event, stream []byte, dir, xdir byte) [][]byte {
	eps := [][]byte{nil}
	pos := 0
	for _, e := range ev {
		switch e.Dir {
		case xdir:
			eps = append(eps, nil)
		case dir:
			eps[len(eps)-1] = append(eps[len(eps)-1], stream[pos:pos+e.N]...)
			pos += e.N
		}
	}
	return eps
}

// FailWriteAt makes the write of direction h that reaches stream position p short (cut at
// p) and failing with err (nil err = a short write without error).
func (h *half) FailWriteAt(p int, err error) {
	h.mu.Lock()
	h.FailAt, h.FailErr = p, err
	h.mu.Unlock()
}

var ErrInjected = errors.New("injected write error")

// NetErr is a net.Error: a timeout (expired write deadline; unwraps to
// os.ErrDeadlineExceeded) or a temporary condition.
type NetErr struct {
	Msg        string
	IsTimeout  bool
	IsTemp     bool
	underlying error
}

func (e *NetErr) Error() string   { return e.Msg }
func (e *NetErr) Timeout() bool   { return e.IsTimeout }
func (e *NetErr) Temporary() bool { return e.IsTemp }
func (e *NetErr) Unwrap() error   { return e.underlying }

var (
	ErrTimeout   net.Error = &NetErr{Msg: "write: i/o timeout", IsTimeout: true, IsTemp: true, underlying: os.ErrDeadlineExceeded}
	ErrTemporary net.Error = &NetErr{Msg: "write: resource temporarily unavailable", IsTemp: true}
)

// ---------------------------------------------------------------- DetRand

// DetRand is a deterministic io.Reader for crypto/rand.Reader.  If Preload is non-empty the
// reads are served from it in order (a read of a different length than the preloaded
// record falls back to the generator); every read is logged.
type DetRand struct {
	mu      sync.Mutex
	s       uint64
	Preload [][]byte
	Log     [][]byte
}

func NewDetRand(seed uint64) *DetRand { return &DetRand{s: seed*0x9E3779B97F4A7C15 + 0xabcdef} }

func (r *DetRand) next() uint64 {
	r.s += 0x9E3779B97F4A7C15
	z := r.s
	z = (z ^ (z >> 30)) * 0xBF58476D1CE4E5B9
	z = (z ^ (z >> 27)) * 0x94D049BB133111EB
	return z ^ (z >> 31)
}

func (r *DetRand) Read(b []byte) (int, error) {
	r.mu.Lock()
	defer r.mu.Unlock()
	if len(r.Preload) > 0 && len(r.Preload[0]) == len(b) {
		copy(b, r.Preload[0])
		r.Preload = r.Preload[1:]
	} else {
		for i := range b {
			b[i] = byte(r.next())
		}
	}
	r.Log = append(r.Log, append([]byte(nil), b...))
	return len(b), nil
}
