// Package nsgen builds real .torrent metainfo bytes for the C19/C20 harnesses (a tiny
// bencode writer: the harness needs shapes that a well-behaved encoder would never
// produce, such as `path: []` or components containing '/').
package nsgen

import (
	"crypto/sha1"
	"sort"
	"strconv"
)

type File struct {
	Path     []string
	Length   int64
	Padding  bool
	NoPath   bool     // omit the path key altogether
	Path8    []string // path.utf-8, written when HasPath8
	HasPath8 bool
}

type Meta struct {
	Name8       string // name.utf-8, written when HasName8
	HasName8    bool
	Name        string
	PieceLength int
	Files       []File // nil => single-file torrent of Length bytes
	Length      int64
	Announce    string
	AnnounceL   [][]string
	URLList     []string
	HTTPSeeds   []string
	Content     func(off int64, p []byte) // fills p with the content at off (nil: zeros)
}

func bstr(b []byte, s string) []byte {
	b = strconv.AppendInt(b, int64(len(s)), 10)
	b = append(b, ':')
	return append(b, s...)
}
func bint(b []byte, i int64) []byte {
	b = append(b, 'i')
	b = strconv.AppendInt(b, i, 10)
	return append(b, 'e')
}

type kv struct {
	k string
	v []byte
}

func bdict(b []byte, kvs []kv) []byte {
	sort.Slice(kvs, func(i, j int) bool { return kvs[i].k < kvs[j].k })
	b = append(b, 'd')
	for _, e := range kvs {
		b = bstr(b, e.k)
		b = append(b, e.v...)
	}
	return append(b, 'e')
}
func blist(items [][]byte) []byte {
	b := []byte{'l'}
	for _, it := range items {
		b = append(b, it...)
	}
	return append(b, 'e')
}
func bstrs(ss []string) []byte {
	var items [][]byte
	for _, s := range ss {
		items = append(items, bstr(nil, s))
	}
	return blist(items)
}

// TotalLength is the sum of the file lengths (or Length for a single-file torrent).
func (m *Meta) TotalLength() int64 {
	if m.Files == nil {
		return m.Length
	}
	var n int64
	for _, f := range m.Files {
		if f.Length > 0 {
			n += f.Length
		}
	}
	return n
}

// ContentAt returns the torrent's bytes [off, off+n).
func (m *Meta) ContentAt(off int64, n int) []byte {
	p := make([]byte, n)
	if m.Content != nil {
		m.Content(off, p)
	}
	return p
}

// Info returns the bencoded info dictionary (with real piece hashes of the content).
func (m *Meta) Info() []byte {
	total := m.TotalLength()
	var pieces []byte
	if m.PieceLength > 0 {
		for off := int64(0); off < total; off += int64(m.PieceLength) {
			n := int64(m.PieceLength)
			if off+n > total {
				n = total - off
			}
			h := sha1.Sum(m.ContentAt(off, int(n)))
			pieces = append(pieces, h[:]...)
		}
	}
	kvs := []kv{
		{"name", bstr(nil, m.Name)},
		{"piece length", bint(nil, int64(m.PieceLength))},
		{"pieces", bstr(nil, string(pieces))},
	}
	if m.HasName8 {
		kvs = append(kvs, kv{"name.utf-8", bstr(nil, m.Name8)})
	}
	if m.Files == nil {
		kvs = append(kvs, kv{"length", bint(nil, m.Length)})
	} else {
		var items [][]byte
		for _, f := range m.Files {
			fk := []kv{{"length", bint(nil, f.Length)}}
			if !f.NoPath {
				fk = append(fk, kv{"path", bstrs(f.Path)})
			}
			if f.HasPath8 {
				fk = append(fk, kv{"path.utf-8", bstrs(f.Path8)})
			}
			if f.Padding {
				fk = append(fk, kv{"attr", bstr(nil, "p")})
			}
			items = append(items, bdict(nil, fk))
		}
		kvs = append(kvs, kv{"files", blist(items)})
	}
	return bdict(nil, kvs)
}

// Torrent returns the bencoded .torrent file.
func (m *Meta) Torrent() []byte {
	kvs := []kv{{"info", m.Info()}}
	if m.Announce != "" {
		kvs = append(kvs, kv{"announce", bstr(nil, m.Announce)})
	}
	if m.AnnounceL != nil {
		var tiers [][]byte
		for _, t := range m.AnnounceL {
			tiers = append(tiers, bstrs(t))
		}
		kvs = append(kvs, kv{"announce-list", blist(tiers)})
	}
	if m.URLList != nil {
		kvs = append(kvs, kv{"url-list", bstrs(m.URLList)})
	}
	if m.HTTPSeeds != nil {
		kvs = append(kvs, kv{"httpseeds", bstrs(m.HTTPSeeds)})
	}
	return bdict(nil, kvs)
}

// InfoHash is the SHA-1 of the info dictionary.
func (m *Meta) InfoHash() []byte {
	h := sha1.Sum(m.Info())
	return h[:]
}
