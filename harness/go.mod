module verifharness

go 1.22

require (
	github.com/jech/storrent v0.0.0
	github.com/zeebo/bencode v1.0.0
)

replace github.com/jech/storrent => /repo
