package torsim

import (
	"context"
	"errors"
	"fmt"
	"io"
	"net"
	"net/http"
	"net/http/httptest"
	"sort"
	"strconv"
	"strings"
	"sync/atomic"
	"time"

	"github.com/jech/storrent/config"
	storhttp "github.com/jech/storrent/http"
	"github.com/jech/storrent/tor"

	"verifharness/vhlib"
)

// Runner executes the `rd …` ops of the C02 / C10 streams against a Sim (real torrent, real
// event loop), produces the canonical observation line of every op and evaluates the
// property oracle (a restatement of C02/C10 on what the real code returned; it knows the
// reference content, which pieces it completed/evicted, which contexts it cancelled — it
// shares nothing with the Lean model).
type Runner struct {
	S        *Sim
	Name     string
	Salt     uint32
	Rate     int
	Files    []File
	Single   bool
	readers  map[int]*RState
	direct   []*directCh
	holds    map[[2]int]int // direct consumers' outstanding (piece, prio) registrations
	complete []bool         // harness bookkeeping: pieces it completed and has not evicted
	everOK   []bool         // pieces verified at some time
	dead     bool
	Lines    [][2]string
	Viol     []vhlib.Violation
	Tags     map[string]int
	Watchdog time.Duration
	idleAdds map[int]bool
	racing   bool        // oracle-only section: completions/evictions race with Reads in flight
	verTotal map[int]int // successful verifications observed, per piece
	avail    map[uint32]int
	seeds    int
	webCfg   bool // a web seed is configured
	webOn    bool // … and enabled by the last configuration change
	asyncs   []*asyncOp
	fuseH    map[int]*fuseHandle
	fuseR    map[int]*fuseRead
	finPend  []uint32
	lastSnap []tor.VerifRequestedPiece
}

type directCh struct {
	ch       <-chan struct{}
	piece    int
	closedAt int // op number at which it was first seen closed, -1 if open
	verAt    int // verifications of the piece observed when the channel was handed out
	prio     int
	gaveUp   bool // its consumer has withdrawn the registration it waited with
}

type RState struct {
	rid       int
	r         *tor.Reader
	ctx       *sigCtx
	cancel    context.CancelFunc
	cancelled bool
	offset    int64
	length    int64
	pos       int64
	closed    bool
	pend      *pendRead
	waitCh    <-chan struct{} // the channel the parked Read waits on
	parked    bool            // the pending Read is known to be parked in its select
}

type readRes struct {
	k     int
	err   error
	panic string
}

type pendRead struct {
	n   int
	buf []byte
	res chan readRes
}

// sigCtx signals every evaluation of Done(): Reader.Read evaluates r.context.Done() exactly
// when it enters its select, after it has stored the channel it waits on in r.ch.
type sigCtx struct {
	context.Context
	r       *tor.Reader
	entered chan (<-chan struct{})
	errs    atomic.Int64 // calls of Err(): Read checks its context once per pass of its loop
}

// Err counts: a Read that goes round its loop thousands of times without returning or
// parking is spinning.
func (c *sigCtx) Err() error {
	c.errs.Add(1)
	return c.Context.Err()
}

// spinLimit: passes of Read's loop within one call before the harness calls it a spin (a
// legitimate retry happens once per eviction or stale notification).
const spinLimit = 20000

// Done runs on the reader's goroutine: r.ch is the channel the select is about to wait on.
func (c *sigCtx) Done() <-chan struct{} {
	var ch <-chan struct{}
	if c.r != nil {
		ch = c.r.VerifCh()
	}
	select {
	case c.entered <- ch:
	default:
	}
	return c.Context.Done()
}

// Aborted is set when a hang was detected: a goroutine of the code under test is stuck or
// spinning, further cases would only pile up on top of it.  Generators stop early.
var Aborted atomic.Bool

func NewRunner() *Runner {
	return &Runner{readers: map[int]*RState{}, holds: map[[2]int]int{}, Tags: map[string]int{},
		Watchdog: 15 * time.Second, idleAdds: map[int]bool{}, avail: map[uint32]int{}}
}

func (ru *Runner) violate(kind, detail string) {
	if strings.HasPrefix(kind, "hang:") {
		Aborted.Store(true)
	}
	if len(ru.Viol) > 20 {
		return
	}
	ops := make([]string, 0, len(ru.Lines))
	for _, l := range ru.Lines {
		ops = append(ops, l[0])
	}
	ru.Viol = append(ru.Viol, vhlib.Violation{Kind: kind, Detail: detail, Ops: ops})
}

func (ru *Runner) tag(t string) { ru.Tags[t]++ }

func isClosed(ch <-chan struct{}) bool {
	if ch == nil {
		return false
	}
	select {
	case <-ch:
		return true
	default:
		return false
	}
}

func errTok(err error) string {
	switch {
	case err == nil:
		return "-"
	case errors.Is(err, io.EOF):
		return "eof"
	case errors.Is(err, context.Canceled):
		return "ctx"
	case errors.Is(err, tor.ErrTorrentDead):
		return "dead"
	case errors.Is(err, net.ErrClosed):
		return "closed"
	case errors.Is(err, tor.ErrMetadataIncomplete):
		return "meta"
	case err.Error() == "offset beyond end of torrent":
		return "beyond"
	}
	return "other(" + strings.ReplaceAll(err.Error(), " ", "_") + ")"
}

func (ru *Runner) rdState(rs *RState) string {
	reqs, ri, pos := rs.r.VerifRequested()
	var sb strings.Builder
	if ru.dead {
		// which ready alternative the select picked after the torrent died is not
		// observable in anything but this cache field: not compared
		fmt.Fprintf(&sb, "pos=%d ri=? req=[", pos)
	} else {
		fmt.Fprintf(&sb, "pos=%d ri=%d req=[", pos, ri)
	}
	for i, q := range reqs {
		if i > 0 {
			sb.WriteByte(',')
		}
		fmt.Fprintf(&sb, "%d:%d", q.Index, q.Prio)
	}
	sb.WriteByte(']')
	return sb.String()
}

func (ru *Runner) cursorPiece(rs *RState) int {
	return int((rs.offset + rs.pos) / int64(ru.S.PS))
}

// settle waits until the pending Read of rs has returned or is parked in a select none of
// whose alternatives is ready.  No timing is involved except the watchdog.
func (ru *Runner) settle(rs *RState) string {
	// one deadline for the whole call: a Read that keeps re-entering its select without
	// ever returning (busy loop) must trip the watchdog too
	deadline := time.NewTimer(ru.Watchdog)
	defer deadline.Stop()
	tick := time.NewTicker(20 * time.Millisecond)
	defer tick.Stop()
	for {
		select {
		case <-tick.C:
			if rs.ctx.errs.Load() > spinLimit {
				ru.violate("hang:read:spin", fmt.Sprintf("Read of reader %d (window (%d,%d), position %d, len %d) went round its loop more than %d times without returning or parking", rs.rid, rs.offset, rs.length, rs.pos, rs.pend.n, spinLimit))
				// its context is the only way out of the loop
				rs.cancel()
				rs.cancelled = true
				select {
				case <-rs.pend.res:
				case <-time.After(5 * time.Second):
				}
				rs.pend = nil
				rs.closed = true
				return "spin"
			}
		case x := <-rs.pend.res:
			return ru.finishRead(rs, x)
		case ch := <-rs.ctx.entered:
			rs.waitCh = ch
			if isClosed(ch) || ru.dead || rs.cancelled {
				continue // it will go on
			}
			rs.parked = true
			ru.checkBlocked(rs)
			return "block " + ru.rdState(rs)
		case <-deadline.C:
			ru.violate("hang:read", fmt.Sprintf("Read of reader %d neither returned nor blocked in its select within %v", rs.rid, ru.Watchdog))
			rs.pend = nil
			rs.closed = true // unusable from now on
			return "hang"
		}
	}
}

// checkBlocked: oracle for a Read that blocks (C02 progress (a),(b)).
func (ru *Runner) checkBlocked(rs *RState) {
	ru.tag("read:block")
	cp := ru.cursorPiece(rs)
	if rs.pos >= rs.length {
		ru.violate("block:at-eof", fmt.Sprintf("reader %d blocks at position %d >= length %d", rs.rid, rs.pos, rs.length))
	}
	if cp < len(ru.complete) && ru.complete[cp] {
		ru.violate("block:piece-complete", fmt.Sprintf("reader %d blocks although piece %d under its cursor is complete", rs.rid, cp))
	}
	snap, ok := ru.S.Snapshot()
	if !ok {
		return
	}
	found := false
	for _, e := range snap {
		if int(e.Index) == cp {
			for _, p := range e.Prio {
				if p > tor.IdlePriority {
					found = true
				}
			}
			if !e.HasDone {
				ru.violate("block:no-channel", fmt.Sprintf("reader %d blocks on piece %d whose entry has no completion channel", rs.rid, cp))
			}
		}
	}
	if !found {
		ru.violate("block:not-registered", fmt.Sprintf("reader %d blocks on piece %d which is not requested with a client priority (requested=%v)", rs.rid, cp, snap))
	}
}

// finishRead: observation + oracle for a Read that returned.
func (ru *Runner) finishRead(rs *RState, x readRes) string {
	p := rs.pend
	rs.pend = nil
	rs.parked = false
	if x.panic != "" {
		ru.violate("panic:read", x.panic)
		rs.closed = true
		return "panic"
	}
	k, err := x.k, x.err
	// ---- oracle (C02): exact bytes, inside the range, EOF exactly at length
	if k < 0 || k > p.n {
		ru.violate("bytes:count", fmt.Sprintf("Read(len %d) returned n=%d", p.n, k))
		k = 0
	}
	if k > 0 && rs.pos+int64(k) > rs.length {
		ru.violate("bytes:beyond-range", fmt.Sprintf("reader(%d,%d) at %d returned %d bytes", rs.offset, rs.length, rs.pos, k))
	} else if k > 0 {
		want := ru.S.Ref(rs.offset+rs.pos, rs.offset+rs.pos+int64(k))
		if string(want) != string(p.buf[:k]) {
			ru.violate("bytes:mismatch", fmt.Sprintf("reader(%d,%d) at %d: %d bytes differ from the torrent's content", rs.offset, rs.length, rs.pos, k))
		}
	}
	if k > 0 && !ru.racing {
		// every byte returned lies in a piece whose hash has been verified and that is
		// in memory now, whether or not the bytes happen to be right
		first := (rs.offset + rs.pos) / int64(ru.S.PS)
		last := (rs.offset + rs.pos + int64(k) - 1) / int64(ru.S.PS)
		for i := first; i <= last; i++ {
			if int(i) >= len(ru.complete) || !ru.complete[i] {
				ru.violate("bytes:unverified-piece", fmt.Sprintf("reader(%d,%d) at %d: the %d bytes returned reach into piece %d, which is not verified", rs.offset, rs.length, rs.pos, k, i))
				break
			}
		}
	}
	for _, b := range p.buf[k:] {
		if b != 0 {
			ru.violate("bytes:wrote-beyond-n", "bytes written beyond the returned count")
			break
		}
	}
	newpos := rs.pos + int64(k)
	atEnd := newpos >= rs.length
	isEOF := errors.Is(err, io.EOF)
	if isEOF && !atEnd {
		ru.violate("eof:early", fmt.Sprintf("EOF at position %d < length %d", newpos, rs.length))
	}
	if !isEOF && atEnd && err == nil && !rs.closed {
		ru.violate("eof:missing", fmt.Sprintf("no EOF although position %d reached length %d", newpos, rs.length))
	}
	if k == 0 && err == nil && p.n > 0 {
		ru.violate("read:zero-nil", fmt.Sprintf("Read(len %d) at position %d returned (0, nil)", p.n, rs.pos))
	}
	if err != nil && !isEOF {
		switch {
		case errors.Is(err, context.Canceled):
			if !rs.cancelled {
				ru.violate("err:ctx-not-cancelled", "context error although the context was not cancelled")
			}
		case errors.Is(err, tor.ErrTorrentDead):
			if !ru.dead {
				ru.violate("err:dead-not-killed", "ErrTorrentDead although the torrent is alive")
			}
		case errors.Is(err, net.ErrClosed):
			if !rs.closed {
				ru.violate("err:closed-not-closed", "ErrClosed although the reader is open")
			}
		default:
			if rs.offset >= 0 && rs.offset+rs.length <= ru.S.Total {
				ru.violate("err:unexpected", "Read failed with "+err.Error())
			}
		}
	}
	if err == nil && !rs.closed && rs.pos < rs.length && p.n > 0 {
		if ru.dead {
			ru.violate("dead:read-succeeds", "Read returned data/no error after the torrent was deleted")
		}
	}
	rs.pos = newpos
	if err != nil {
		// C10: after EOF / cancellation / an error the reader holds no priority
		if reqs, _, _ := rs.r.VerifRequested(); len(reqs) != 0 {
			ru.violate("leak:after-"+errTok(err), fmt.Sprintf("reader %d still holds %v after Read returned %v", rs.rid, reqs, err))
		}
	}
	ru.tag("read:ret:" + errTok(err))
	return fmt.Sprintf("ret n=%d d=%s err=%s %s", k, vhlib.Payload(p.buf[:k]), errTok(err), ru.rdState(rs))
}

// wakeAll: after an op, every blocked reader whose wait is over must return.
func (ru *Runner) wakeAll() string {
	var rids []int
	for rid, rs := range ru.readers {
		if rs.pend != nil {
			rids = append(rids, rid)
		}
	}
	sort.Ints(rids)
	out := ""
	for _, rid := range rids {
		rs := ru.readers[rid]
		// a result that arrived although nothing enabled it
		codeReady := isClosed(rs.waitCh) || ru.dead || rs.cancelled
		cp := ru.cursorPiece(rs)
		propReady := ru.dead || rs.cancelled || (cp < len(ru.complete) && ru.complete[cp])
		if !codeReady {
			select {
			case x := <-rs.pend.res:
				ru.violate("wake:spurious", fmt.Sprintf("blocked Read of reader %d returned (%d,%v) although piece %d is not complete and nothing was cancelled", rid, x.k, x.err, cp))
				out += fmt.Sprintf(" | wake r%d: %s", rid, ru.finishRead(rs, x))
				continue
			default:
			}
			if propReady {
				ru.violate("wake:lost", fmt.Sprintf("reader %d stays blocked although piece %d is complete and every notification has been handled", rid, cp))
			}
			continue
		}
		if !propReady {
			ru.violate("wake:unjustified", fmt.Sprintf("reader %d woken although piece %d is not complete", rid, cp))
		}
		ru.tag("read:wake")
		out += fmt.Sprintf(" | wake r%d: %s", rid, ru.settle(rs))
	}
	return out
}

func (ru *Runner) tail(opno int) string {
	var sb strings.Builder
	// the snapshot comes first: it is also the round trip through the loop after which
	// every withdrawal sent by a returning Read has been handled
	snap, ok := ru.S.Snapshot()
	sb.WriteString(" | dc=[")
	for i, d := range ru.direct {
		if i > 0 {
			sb.WriteByte(',')
		}
		if isClosed(d.ch) {
			sb.WriteByte('1')
			if d.closedAt < 0 {
				d.closedAt = opno
			}
		} else {
			sb.WriteByte('0')
		}
	}
	sb.WriteString("] map=")
	if !ok || ru.dead {
		sb.WriteString("dead")
		return sb.String()
	}
	if len(snap) == 0 {
		sb.WriteString("{}")
	} else {
		sb.WriteByte('{')
		for i, e := range snap {
			if i > 0 {
				sb.WriteByte(' ')
			}
			fmt.Fprintf(&sb, "%d:[", e.Index)
			for j, p := range e.Prio {
				if j > 0 {
					sb.WriteByte(',')
				}
				fmt.Fprintf(&sb, "%d", p)
			}
			d := 0
			if e.HasDone {
				d = 1
			}
			fmt.Fprintf(&sb, "]:%d", d)
		}
		sb.WriteByte('}')
	}
	ru.checkBalance(snap)
	ru.lastSnap = snap
	return sb.String()
}

// checkBalance (C10): the priorities registered for every piece are exactly those held by
// the live consumers (readers' own lists + direct consumers), entries without priority are
// idle-prefetch entries, and a completion channel exists only where somebody may wait.
func (ru *Runner) checkBalance(snap []tor.VerifRequestedPiece) {
	want := map[[2]int]int{}
	for _, rs := range ru.readers {
		if rs.pend != nil {
			// parked in its select: its fields are stable
		}
		reqs, _, _ := rs.r.VerifRequested()
		for _, q := range reqs {
			want[[2]int{int(q.Index), int(q.Prio)}]++
		}
	}
	for k, v := range ru.holds {
		if v > 0 {
			want[k] += v
		}
	}
	got := map[[2]int]int{}
	for _, e := range snap {
		if len(e.Prio) == 0 && !ru.idleAdds[int(e.Index)] && !ru.idlePrefetcherMayWant(e.Index) {
			ru.violate("balance:empty-entry", fmt.Sprintf("piece %d is requested with no priority; no consumer idle-requested it and the idle prefetcher has no business with it", e.Index))
		}
		for _, p := range e.Prio {
			got[[2]int{int(e.Index), int(p)}]++
		}
	}
	for k, v := range want {
		if got[k] != v {
			ru.violate("balance:mismatch", fmt.Sprintf("piece %d prio %d: registered %d times, held by consumers %d times (requested=%v)", k[0], k[1], got[k], v, snap))
			return
		}
	}
	for k, v := range got {
		if want[k] != v {
			ru.violate("balance:leak", fmt.Sprintf("piece %d prio %d: registered %d times, held by consumers %d times (requested=%v)", k[0], k[1], v, want[k], snap))
			return
		}
	}
}

func (ru *Runner) finish(op, obs string) {
	opno := len(ru.Lines)
	if !ru.dead {
		ru.S.Sync()
	}
	obs += ru.wakeAll()
	obs += ru.tail(opno)
	ru.Lines = append(ru.Lines, [2]string{op, obs})
	// C10 "only when": a channel that this op closed without a verification of its piece
	// must have been abandoned (its entry is gone)
	if !ru.dead && !strings.HasPrefix(op, "rd complete ") {
		for k, d := range ru.direct {
			if d.closedAt != opno {
				continue
			}
			for _, e := range ru.lastSnap {
				if int(e.Index) == d.piece && e.HasDone {
					ru.violate("wake:unjustified:direct", fmt.Sprintf("channel #%d of piece %d closed by `%s` although the piece is still awaited (requested=%v)", k, d.piece, op, ru.lastSnap))
				}
			}
			if ru.complete[d.piece] {
				continue
			}
			ru.tag("direct:abandoned")
		}
	}
}

func (ru *Runner) emit(op, obs string) { ru.Lines = append(ru.Lines, [2]string{op, obs}) }

func atoi(s string) (int64, bool) {
	v, err := strconv.ParseInt(s, 10, 64)
	return v, err == nil
}

// ParseLayout: "s:<len>" single file, "m:<len>,<len>,…" multi-file; optional suffixes
// "@lo-hi" (sparse torrent: only pieces lo..hi have real hashes) and "+p" (fake peer).
func ParseLayout(l string) ([]File, bool, bool) {
	fs, single, _, _, _, _, ok := ParseLayoutOpt(l)
	return fs, single, ok
}

func ParseLayoutOpt(l string) (fs []File, single bool, lo, hi int, fake bool, web bool, ok bool) {
	hi = -1
	for strings.HasSuffix(l, "+p") || strings.HasSuffix(l, "+w") {
		if strings.HasSuffix(l, "+p") {
			fake = true
			l = strings.TrimSuffix(l, "+p")
		} else {
			web = true
			l = strings.TrimSuffix(l, "+w")
		}
	}
	if k := strings.IndexByte(l, '@'); k >= 0 {
		var a, b int
		if n, err := fmt.Sscanf(l[k+1:], "%d-%d", &a, &b); n != 2 || err != nil || a < 0 || b < a {
			return nil, false, 0, -1, false, false, false
		}
		lo, hi = a, b
		l = l[:k]
	}
	if len(l) < 3 || l[1] != ':' {
		return nil, false, 0, -1, false, false, false
	}
	for i, p := range strings.Split(l[2:], ",") {
		v, ok := atoi(p)
		if !ok || v < 0 {
			return nil, false, 0, -1, false, false, false
		}
		fs = append(fs, File{Name: fmt.Sprintf("d%d/f%d", i%2, i), Length: v})
	}
	switch l[0] {
	case 's':
		return fs, true, lo, hi, fake, web, len(fs) == 1
	case 'm':
		return fs, false, lo, hi, fake, web, true
	}
	return nil, false, 0, -1, false, false, false
}

// Close kills the torrent of the runner (end of case).
func (ru *Runner) Close() {
	if ru.S == nil {
		return
	}
	ru.closeFuse()
	// reads still blocked must fail promptly when the torrent goes away
	ru.S.Kill()
	ru.dead = true
	for rid, rs := range ru.readers {
		if rs.pend != nil {
			select {
			case x := <-rs.pend.res:
				if !errors.Is(x.err, tor.ErrTorrentDead) && !errors.Is(x.err, context.Canceled) {
					ru.violate("kill:blocked-read-result", fmt.Sprintf("blocked Read of reader %d returned (%d,%v) when the torrent was deleted", rid, x.k, x.err))
				}
			case <-time.After(ru.Watchdog):
				ru.violate("hang:kill", fmt.Sprintf("blocked Read of reader %d did not return after the torrent was deleted", rid))
			}
			rs.pend = nil
		}
		rs.cancel()
	}
	ru.S = nil
}

// Exec executes one op line.  Returns false for a line it does not know.
func (ru *Runner) Exec(op string) bool {
	ws := strings.Fields(op)
	if len(ws) >= 2 && ws[0] == "rdx" {
		ru.emit(op, "x")
		if ru.S != nil {
			ru.execX(ws)
		}
		return true
	}
	if len(ws) < 2 || ws[0] != "rd" {
		return false
	}
	bad := func() bool { ru.emit(op, "bad-op"); return true }
	if ws[1] == "new" {
		if len(ws) != 7 {
			return bad()
		}
		ps, ok1 := atoi(ws[2])
		total, ok2 := atoi(ws[3])
		salt, ok3 := atoi(ws[4])
		rate, ok4 := atoi(ws[5])
		files, single, lo, hi, fake, web, ok5 := ParseLayoutOpt(ws[6])
		if !(ok1 && ok2 && ok3 && ok4 && ok5) || ps <= 0 || ps%16384 != 0 || total <= 0 {
			return bad()
		}
		var sum int64
		for _, f := range files {
			sum += f.Length
		}
		if sum != total {
			return bad()
		}
		ru.Close()
		*ru = *func() *Runner {
			n := NewRunner()
			n.Lines = ru.Lines
			n.Viol = ru.Viol
			n.Tags = ru.Tags
			n.Name = ru.Name
			return n
		}()
		config.PrefetchRate = float64(rate)
		name := ru.Name
		if name == "" {
			name = "t"
		}
		name = fmt.Sprintf("%s-%d-%d", name, salt, len(ru.Lines))
		if hi >= 0 && int64(hi) >= (total+ps-1)/ps {
			return bad()
		}
		s, err := NewOpt2(name, uint32(salt), uint32(ps), files, single, lo, hi, fake, web)
		if err != nil {
			ru.emit(op, "err "+strings.ReplaceAll(err.Error(), " ", "_"))
			return true
		}
		ru.S, ru.Salt, ru.Rate, ru.Files, ru.Single = s, uint32(salt), int(rate), files, single
		ru.webCfg = web
		ru.complete = make([]bool, s.N)
		ru.everOK = make([]bool, s.N)
		ru.emit(op, fmt.Sprintf("ok n=%d", s.N))
		return true
	}
	if ru.S == nil {
		return bad()
	}
	getR := func(i int) *RState {
		if len(ws) <= i {
			return nil
		}
		rid, ok := atoi(ws[i])
		if !ok {
			return nil
		}
		return ru.readers[int(rid)]
	}
	switch ws[1] {
	case "open":
		if len(ws) != 5 {
			return bad()
		}
		rid, ok1 := atoi(ws[2])
		off, ok2 := atoi(ws[3])
		ln, ok3 := atoi(ws[4])
		if !(ok1 && ok2 && ok3) || ru.readers[int(rid)] != nil || rid < 0 {
			return bad()
		}
		inner, cancel := context.WithCancel(context.Background())
		ctx := &sigCtx{Context: inner, entered: make(chan (<-chan struct{}), 64)}
		rs := &RState{rid: int(rid), ctx: ctx, cancel: cancel, offset: off, length: ln}
		rs.r = ru.S.T.NewReader(ctx, off, ln)
		ctx.r = rs.r
		ru.readers[int(rid)] = rs
		ru.finish(op, "ok")
	case "seek":
		rs := getR(2)
		if rs == nil || len(ws) != 5 || rs.pend != nil {
			return bad()
		}
		o, ok1 := atoi(ws[3])
		wh, ok2 := atoi(ws[4])
		if !(ok1 && ok2) || wh < 0 {
			return bad()
		}
		pos, err := rs.r.Seek(o, int(wh))
		es := "-"
		if err != nil {
			switch {
			case errors.Is(err, net.ErrClosed):
				es = "closed"
			case strings.Contains(err.Error(), "whence"):
				es = "whence"
			case strings.Contains(err.Error(), "negative"):
				es = "negative"
			default:
				es = "other"
			}
		}
		// oracle: Seek never moves below 0, reports the position, SeekEnd is relative to length
		var want int64
		valid := true
		switch wh {
		case 0:
			want = o
		case 1:
			want = rs.pos + o
		case 2:
			want = rs.length + o
		default:
			valid = false
		}
		if rs.closed {
			valid = false
		}
		if valid && want >= 0 {
			if err != nil || pos != want {
				ru.violate("seek:wrong", fmt.Sprintf("Seek(%d,%d) from %d (length %d) returned (%d,%v), want %d", o, wh, rs.pos, rs.length, pos, err, want))
			}
			rs.pos = want
		} else if err == nil || pos != rs.pos {
			ru.violate("seek:accepted-invalid", fmt.Sprintf("Seek(%d,%d) from %d returned (%d,%v)", o, wh, rs.pos, pos, err))
		}
		ru.tag("seek:" + es)
		ru.finish(op, fmt.Sprintf("pos=%d err=%s", pos, es))
	case "read":
		rs := getR(2)
		if rs == nil || len(ws) != 4 || rs.pend != nil {
			return bad()
		}
		n, ok := atoi(ws[3])
		if !ok || n < 0 || n > 1<<22 {
			return bad()
		}
		buf := make([]byte, n)
		res := make(chan readRes, 1)
		rs.pend = &pendRead{int(n), buf, res}
		rs.ctx.errs.Store(0)
		go func() {
			var k int
			var err error
			p := vhlib.Recover(func() { k, err = rs.r.Read(buf) })
			res <- readRes{k, err, p}
		}()
		ru.finish(op, ru.settle(rs))
	case "close":
		rs := getR(2)
		if rs == nil || len(ws) != 3 || rs.pend != nil {
			return bad()
		}
		p := vhlib.Recover(func() { rs.r.Close() })
		rs.closed = true
		o := "ok "
		if p != "" {
			o = "panic "
			ru.violate("panic:close", p)
		}
		if reqs, _, _ := rs.r.VerifRequested(); len(reqs) != 0 {
			ru.violate("leak:after-close", fmt.Sprintf("reader %d still holds %v after Close", rs.rid, reqs))
		}
		ru.tag("close")
		ru.finish(op, o+ru.rdState(rs))
	case "cancel":
		rs := getR(2)
		if rs == nil || len(ws) != 3 {
			return bad()
		}
		rs.cancel()
		rs.cancelled = true
		ru.tag("cancel")
		ru.finish(op, "ok")
	case "complete", "corrupt":
		if len(ws) != 3 {
			return bad()
		}
		i, ok := atoi(ws[2])
		if !ok || i < 0 || int(i) >= ru.S.N {
			return bad()
		}
		if int(i) < ru.S.Lo || int(i) > ru.S.Hi {
			ru.finish(op, "done=0") // no real hash: cannot be verified (generators avoid it)
			return true
		}
		var done bool
		var err error
		if ws[1] == "complete" {
			done, err = ru.S.Complete(uint32(i))
		} else {
			done, err = ru.S.Corrupt(uint32(i))
			if done {
				ru.violate("verify:corrupt-accepted", fmt.Sprintf("corrupted piece %d passed verification", i))
			}
		}
		_ = err
		if done {
			ru.complete[i] = true
			ru.everOK[i] = true
			ru.noteVerified(int(i))
		}
		ru.tag(ws[1])
		o := "done=0"
		if done {
			o = "done=1"
		}
		ru.finishCompletion(op, o, int(i), done)
	case "garbage":
		if len(ws) != 3 {
			return bad()
		}
		i, ok := atoi(ws[2])
		if !ok || i < 0 || int(i) >= ru.S.N {
			return bad()
		}
		ru.S.Garbage(uint32(i), i%2 == 0)
		ru.tag("garbage")
		ru.finish(op, "ok")
	case "evict":
		if len(ws) != 3 {
			return bad()
		}
		i, ok := atoi(ws[2])
		if !ok || i < 0 || int(i) >= ru.S.N {
			return bad()
		}
		ev := ru.S.Evict(uint32(i))
		var parts []string
		for _, e := range ev {
			ru.complete[e] = false
			parts = append(parts, fmt.Sprint(e))
		}
		ru.tag("evict")
		ru.finish(op, "evicted=["+strings.Join(parts, ",")+"]")
	case "kill":
		if len(ws) != 2 {
			return bad()
		}
		if err := ru.S.Kill(); err != nil {
			ru.violate("hang:kill", err.Error())
		}
		ru.dead = true
		for i := range ru.complete {
			ru.complete[i] = false
		}
		ru.tag("kill")
		ru.finish(op, "ok")
	case "treq":
		if len(ws) != 6 {
			return bad()
		}
		i, ok1 := atoi(ws[2])
		p, ok2 := atoi(ws[3])
		if !(ok1 && ok2) || i < 0 || i > 1<<31 || p < -128 || p > 127 {
			return bad()
		}
		request, want := ws[4] == "1", ws[5] == "1"
		if !request {
			// a consumer only withdraws what it holds
			if ru.holds[[2]int{int(i), int(p)}] <= 0 {
				return bad()
			}
			ru.holds[[2]int{int(i), int(p)}]--
		}
		var d bool
		var ch <-chan struct{}
		var err error
		pn := vhlib.Recover(func() { d, ch, err = ru.S.T.Request(uint32(i), int8(p), request, want) })
		if pn != "" {
			ru.violate("panic:request", pn)
			ru.finish(op, "panic")
			return true
		}
		if ch != nil {
			ru.direct = append(ru.direct, &directCh{ch: ch, piece: int(i), closedAt: -1})
			if int(i) < len(ru.complete) && ru.complete[i] {
				ru.violate("request:channel-for-complete-piece", fmt.Sprintf("Request(%d) returned a channel although the piece is complete and no notification is pending", i))
			}
		}
		if request && d && err == nil {
			if p > int64(tor.IdlePriority) {
				ru.holds[[2]int{int(i), int(p)}]++
			} else {
				ru.idleAdds[int(i)] = true
			}
		}
		if request && want && err == nil && ch == nil && int(i) < len(ru.complete) && !ru.complete[i] {
			ru.violate("request:no-channel", fmt.Sprintf("Request(%d, want) returned no channel although the piece is not complete", i))
		}
		ru.tag("treq")
		b := func(x bool) string {
			if x {
				return "1"
			}
			return "0"
		}
		ru.finish(op, fmt.Sprintf("d=%s ch=%s err=%s", b(d), b(ch != nil), errTok(err)))
	case "setconf":
		if len(ws) != 2 {
			return bad()
		}
		conf, err := ru.S.T.GetConf()
		if err == nil {
			err = ru.S.T.SetConf(conf)
		}
		if err != nil {
			ru.finish(op, "dead")
		} else {
			ru.finish(op, "ok")
		}
	case "chunks":
		if len(ws) != 4 {
			return bad()
		}
		pos, ok1 := atoi(ws[2])
		limit, ok2 := atoi(ws[3])
		if !(ok1 && ok2) {
			return bad()
		}
		r := ru.S.T.NewReader(context.Background(), 0, 0)
		var cs []tor.VerifReaderReq
		pn := vhlib.Recover(func() { cs = r.VerifChunks(pos, limit) })
		if pn != "" {
			ru.emit(op, "panic")
			return true
		}
		var parts []string
		for _, c := range cs {
			parts = append(parts, fmt.Sprintf("%d:%d", c.Index, c.Prio))
			// oracle: nothing before the cursor's piece is requested
			if pos >= 0 && int64(c.Index) < pos/int64(ru.S.PS) {
				ru.violate("chunks:before-cursor", fmt.Sprintf("chunks(%d,%d) requests piece %d", pos, limit, c.Index))
			}
		}
		ru.tag("chunks")
		ru.emit(op, "["+strings.Join(parts, ",")+"]")
	case "http":
		if len(ws) != 6 {
			return bad()
		}
		foff, ok1 := atoi(ws[2])
		flen, ok2 := atoi(ws[3])
		a, ok3 := atoi(ws[4])
		b, ok4 := atoi(ws[5])
		if !(ok1 && ok2 && ok3 && ok4) {
			return bad()
		}
		ru.finish(op, ru.doHTTP(foff, flen, a, b))
	default:
		return bad()
	}
	return true
}

// finishCompletion: like finish, plus the C10 oracle "woken when the piece is verified":
// after a successful verification and a round trip through the loop, every channel handed
// out for that piece before is closed.
func (ru *Runner) finishCompletion(op, obs string, piece int, done bool) {
	if !ru.dead {
		ru.S.Sync()
	}
	if done {
		for k, d := range ru.direct {
			if d.piece == piece && !isClosed(d.ch) {
				ru.violate("wake:lost:direct", fmt.Sprintf("channel #%d for piece %d still open after the piece was verified and the notification handled", k, piece))
			}
		}
	}
	ru.finish(op, obs)
	// wake-only: channels closed by this op belong to this piece
	opno := len(ru.Lines) - 1
	for k, d := range ru.direct {
		if d.closedAt == opno && d.piece != piece {
			ru.violate("wake:wrong-piece", fmt.Sprintf("channel #%d of piece %d closed by the completion of piece %d", k, d.piece, piece))
		}
		if d.closedAt == opno && !done {
			ru.violate("wake:without-verification", fmt.Sprintf("channel #%d of piece %d closed by a failed/no-op completion", k, d.piece))
		}
	}
}

func (ru *Runner) fileFor(foff, flen int64) (string, bool) {
	if ru.Single {
		if foff == 0 && flen == ru.S.Total {
			return ru.S.T.Name, true
		}
		return "", false
	}
	var off int64
	for _, f := range ru.Files {
		if off == foff && f.Length == flen {
			return f.Name, true
		}
		off += f.Length
	}
	return "", false
}

// doHTTP: GET with a Range header through the real handler chain of the http package
// (mux -> torHandler -> file -> tor.NewReader -> net/http.ServeContent).
func (ru *Runner) doHTTP(foff, flen, a, b int64) string {
	name, ok := ru.fileFor(foff, flen)
	if !ok {
		return "nofile"
	}
	// the handler returns (its deferred reader.Close() has run) after the client has the
	// whole response: wait for the handler itself, not for the response
	handlerDone := make(chan struct{})
	mux := storhttp.VerifMux()
	srv := httptest.NewServer(http.HandlerFunc(func(w http.ResponseWriter, r *http.Request) {
		defer close(handlerDone)
		mux.ServeHTTP(w, r)
	}))
	hctx, hcancel := context.WithCancel(context.Background())
	defer func() {
		// never wait for a handler that may be stuck: cancel the request (the handler's
		// reader aborts through r.Context()), drop the connections, close in the background
		hcancel()
		srv.CloseClientConnections()
		go srv.Close()
	}()
	req, _ := http.NewRequestWithContext(hctx, "GET", srv.URL+"/"+ru.S.HashString()+"/"+name, nil)
	req.Header.Set("Range", fmt.Sprintf("bytes=%d-%d", a, b))
	type hres struct {
		status int
		cr     string
		body   []byte
		err    error
	}
	resc := make(chan hres, 1)
	go func() {
		resp, err := http.DefaultTransport.RoundTrip(req)
		if err != nil {
			resc <- hres{err: err}
			return
		}
		defer resp.Body.Close()
		body, err := io.ReadAll(resp.Body)
		resc <- hres{resp.StatusCode, resp.Header.Get("Content-Range"), body, err}
	}()
	var r hres
	select {
	case r = <-resc:
	case <-time.After(ru.Watchdog):
		ru.violate("hang:http", fmt.Sprintf("GET bytes=%d-%d of file(%d,%d) did not finish", a, b, foff, flen))
		return "hang"
	}
	if r.err != nil {
		ru.violate("http:error", r.err.Error())
		return "err"
	}
	select {
	case <-handlerDone:
	case <-time.After(ru.Watchdog):
		ru.violate("hang:http", fmt.Sprintf("the handler of GET bytes=%d-%d of file(%d,%d) did not return after the response was complete", a, b, foff, flen))
		return "hang"
	}
	ru.tag(fmt.Sprintf("http:%d", r.status))
	if a > b || a >= flen {
		if r.status != 416 {
			ru.violate("http:range-not-rejected", fmt.Sprintf("bytes=%d-%d of %d: status %d", a, b, flen, r.status))
		}
		return "416"
	}
	if b > flen-1 {
		b = flen - 1 // RFC 7233: the last-byte-pos is clamped to the representation
	}
	want := ru.S.Ref(foff+a, foff+b+1)
	if r.status != 206 {
		ru.violate("http:status", fmt.Sprintf("bytes=%d-%d of %d: status %d", a, b, flen, r.status))
	}
	if string(r.body) != string(want) {
		ru.violate("http:body-mismatch", fmt.Sprintf("bytes=%d-%d of file(%d,%d): %d bytes, differ from the torrent's content", a, b, foff, flen, len(r.body)))
	}
	wantCR := fmt.Sprintf("bytes %d-%d/%d", a, b, flen)
	if r.cr != wantCR {
		ru.violate("http:content-range", fmt.Sprintf("got %q want %q", r.cr, wantCR))
	}
	cr := strings.TrimPrefix(r.cr, "bytes ")
	return fmt.Sprintf("%d %s d=%s", r.status, cr, vhlib.Payload(r.body))
}

// Positions of the readers, for the generators.
type RInfo struct {
	Rid                        int
	Pos, Offset, Length        int64
	Blocked, Closed, Cancelled bool
}

func (ru *Runner) Readers() []RInfo {
	var out []RInfo
	for _, rs := range ru.readers {
		out = append(out, RInfo{rs.rid, rs.pos, rs.offset, rs.length, rs.pend != nil, rs.closed, rs.cancelled})
	}
	sort.Slice(out, func(i, j int) bool { return out[i].Rid < out[j].Rid })
	return out
}

// idlePrefetcherMayWant: in the oracle-only sections the request ticker can be armed, and the
// real idle prefetcher is a legitimate requester — of pieces that are NOT verified.
func (ru *Runner) idlePrefetcherMayWant(i uint32) bool {
	return ru.racing && int(i) < ru.S.N && !ru.S.T.Pieces.Complete(i)
}

// LastSnapEmpty: nothing is requested any more, except what the idle prefetcher may
// legitimately want (priority-less entries of unverified pieces).
func (ru *Runner) LastSnapEmpty() bool {
	for _, e := range ru.lastSnap {
		if len(e.Prio) != 0 || !ru.idlePrefetcherMayWant(e.Index) {
			return false
		}
	}
	return true
}
func (ru *Runner) Dead() bool            { return ru.dead }
func (ru *Runner) IsComplete(i int) bool { return i < len(ru.complete) && ru.complete[i] }
func (ru *Runner) Holds() map[[2]int]int { return ru.holds }
