package torsim

// Case generators shared by the C02 and C10 harnesses (oracle-only `rdx` sections after a
// model-compared `rd new`).

import (
	"fmt"

	"verifharness/vhlib"
)

// GenRaceCase: Reads whose TorRequest waits in the queue of a held event loop while pieces
// are verified, evicted or corrupted; the TorHave is handled before or after the request.
func GenRaceCase(r *vhlib.Rand, ru *Runner, rate int) {
	ps := r.PickInt(16384, 32768)
	n := 3 + r.Intn(3)
	total := int64(n*ps - r.PickInt(0, 1, 7000))
	ru.Exec(fmt.Sprintf("rd new %d %d %d %d s:%d", ps, total, r.Intn(1000), rate, total))
	if ru.S == nil {
		return
	}
	n = ru.S.N
	nr := 1 + r.Intn(2)
	for rid := 0; rid < nr; rid++ {
		ru.Exec(fmt.Sprintf("rdx open %d 0 %d", rid, total))
	}
	for cp := 0; cp < n && !Aborted.Load(); cp++ {
		// every reader's cursor is at the start of piece cp
		if r.Chance(25) && cp+1 < n {
			ru.Exec(fmt.Sprintf("rdx garbage %d", cp+1))
		}
		ru.Exec("rdx hold")
		for rid := 0; rid < nr; rid++ {
			ru.Exec(fmt.Sprintf("rdx read %d %d", rid, ps))
		}
		switch r.Intn(6) {
		case 0: // verified, notification handled BEFORE the waiting requests
			ru.Exec(fmt.Sprintf("rdx fin %d", cp))
			ru.Exec(fmt.Sprintf("rdx release h%d", cp))
		case 1: // verified, notification queued BEHIND the requests
			ru.Exec(fmt.Sprintf("rdx complete %d", cp))
			ru.Exec("rdx release")
		case 2: // hash failure while the requests wait
			ru.Exec(fmt.Sprintf("rdx corrupt %d", cp))
			ru.Exec("rdx release")
		case 3: // verified then evicted before the requests are handled (stale notification)
			ru.Exec(fmt.Sprintf("rdx fin %d", cp))
			ru.Exec(fmt.Sprintf("rdx evict %d", cp))
			ru.Exec(fmt.Sprintf("rdx release h%d", cp))
		case 4: // notification first, and a later piece verified as well
			ru.Exec(fmt.Sprintf("rdx fin %d", cp))
			if cp+1 < n {
				ru.Exec(fmt.Sprintf("rdx fin %d", cp+1))
				ru.Exec(fmt.Sprintf("rdx release h%d h%d", cp+1, cp))
			} else {
				ru.Exec(fmt.Sprintf("rdx release h%d", cp))
			}
		default:
			ru.Exec("rdx release")
		}
		ru.Exec("rdx settle")
		// whoever is still parked (legitimately) gets the piece now
		for try := 0; try < 2 && !ru.IsComplete(cp); try++ {
			ru.Exec(fmt.Sprintf("rdx complete %d", cp))
		}
		ru.Exec("rdx settle")
		if cp > 0 && r.Chance(40) {
			ru.Exec(fmt.Sprintf("rdx evict %d", r.Intn(cp)))
		}
	}
	for rid := 0; rid < nr; rid++ {
		ru.Exec(fmt.Sprintf("rdx close %d", rid))
	}
	ru.Exec("rdx settle")
	ru.Close()
}

// GenFullCase: consumer operations while Torrent.Event is FULL (loop held, queue stuffed to
// capacity): readers close, are cancelled, move on; direct consumers request and withdraw.
// The callers may block; once the loop runs again they must return, and every withdrawal
// must have reached the loop: the balance oracle compares Torrent.requested with what the
// consumers still hold.
func GenFullCase(r *vhlib.Rand, ru *Runner, rate int) {
	ps := r.PickInt(16384, 32768)
	n := 4 + r.Intn(3)
	total := int64(n*ps - r.PickInt(0, 1, 9000))
	ru.Exec(fmt.Sprintf("rd new %d %d %d %d s:%d", ps, total, r.Intn(1000), rate, total))
	if ru.S == nil {
		return
	}
	n = ru.S.N
	ru.Exec("rdx complete 0")
	nr := 2 + r.Intn(2)
	for rid := 0; rid < nr; rid++ {
		off := int64(0)
		if rid > 0 {
			off = int64(r.Intn(n-1)) * int64(ps)
		}
		ru.Exec(fmt.Sprintf("rdx open %d %d %d", rid, off, total-off))
		// reader 0 reads inside complete piece 0 (keeps prefetch priorities), the others
		// block on a missing piece or return
		ru.Exec(fmt.Sprintf("rdx read %d %d", rid, r.PickInt(100, 4096)))
	}
	type hp struct{ i, p int }
	var held []hp
	for k := 0; k < 1+r.Intn(3); k++ {
		h := hp{1 + r.Intn(n-1), []int{-1, 0, 1, 5}[r.Intn(4)]}
		ru.Exec(fmt.Sprintf("rdx treq %d %d 1 %d", h.i, h.p, r.Intn(2)))
		if !ru.IsComplete(h.i) {
			held = append(held, h)
		}
	}
	ru.Exec("rdx settle")
	for round := 0; round < 2 && !Aborted.Load(); round++ {
		ru.Exec("rdx hold")
		ru.Exec("rdx fill")
		for _, ri := range ru.Readers() {
			if ri.Closed {
				continue
			}
			switch x := r.Intn(100); {
			case ri.Blocked && x < 70:
				ru.Exec(fmt.Sprintf("rdx cancel %d", ri.Rid)) // the parked Read bails out: withdrawals
			case ri.Blocked:
			case x < 40:
				ru.Exec(fmt.Sprintf("rdx aclose %d", ri.Rid))
			case x < 60:
				ru.Exec(fmt.Sprintf("rdx cancel %d", ri.Rid))
				ru.Exec(fmt.Sprintf("rdx read %d 100", ri.Rid))
			case x < 85:
				ru.Exec(fmt.Sprintf("rdx read %d %d", ri.Rid, 2*ps)) // moves on: new requests, withdrawals
			}
		}
		if len(held) > 0 && r.Chance(70) {
			j := r.Intn(len(held))
			ru.Exec(fmt.Sprintf("rdx treq %d %d 0 0", held[j].i, held[j].p))
			held = append(held[:j], held[j+1:]...)
		}
		if r.Chance(50) {
			h := hp{1 + r.Intn(n-1), []int{-1, 0, 1, 5}[r.Intn(4)]}
			if !ru.IsComplete(h.i) {
				ru.Exec(fmt.Sprintf("rdx treq %d %d 1 %d", h.i, h.p, r.Intn(2)))
				held = append(held, h)
			}
		}
		ru.Exec("rdx settle")
	}
	// everybody leaves
	for _, ri := range ru.Readers() {
		if ri.Blocked {
			ru.Exec(fmt.Sprintf("rdx cancel %d", ri.Rid))
		}
	}
	ru.Exec("rdx settle")
	for _, ri := range ru.Readers() {
		if !ri.Closed {
			ru.Exec(fmt.Sprintf("rdx aclose %d", ri.Rid))
		}
	}
	for _, h := range held {
		ru.Exec(fmt.Sprintf("rdx treq %d %d 0 0", h.i, h.p))
	}
	ru.Exec("rdx settle")
	if !ru.Dead() && !Aborted.Load() && !ru.LastSnapEmpty() {
		ru.violate("leak:after-everybody-left", fmt.Sprintf("Torrent.requested not empty after every consumer withdrew: %v", ru.lastSnap))
	}
	ru.Close()
}

// GenFinaliseCase: last blocks arrive through the real TorData handler and the real
// finalisePiece goroutines — once, or from two/three peers at the same time, with right and
// wrong content — while direct consumers and readers wait.  A fake peer counts the
// completion notifications the loop handles.
func GenFinaliseCase(r *vhlib.Rand, ru *Runner, rate int) {
	ps := r.PickInt(16384, 32768, 49152)
	n := 3 + r.Intn(3)
	total := int64(n*ps - r.PickInt(0, 1, 5000, 16384))
	ru.Exec(fmt.Sprintf("rd new %d %d %d %d s:%d+p", ps, total, r.Intn(1000), rate, total))
	if ru.S == nil {
		return
	}
	n = ru.S.N
	ru.Exec(fmt.Sprintf("rdx open 0 0 %d", total))
	type hp struct{ i, p int }
	var held []hp
	for step := 0; step < 6+r.Intn(6) && !Aborted.Load(); step++ {
		i := r.Intn(n)
		switch x := r.Intn(100); {
		case x < 30:
			if !ru.IsComplete(i) {
				p := []int{-1, 0, 1, 5}[r.Intn(4)]
				ru.Exec(fmt.Sprintf("rdx treq %d %d 1 1", i, p))
				held = append(held, hp{i, p})
			}
		case x < 45:
			for _, ri := range ru.Readers() {
				if !ri.Blocked && !ri.Closed {
					ru.Exec(fmt.Sprintf("rdx read %d %d", ri.Rid, r.PickInt(1000, ps)))
				}
			}
		case x < 80:
			wrong := 0
			if r.Chance(40) {
				wrong = 1
			}
			ru.Exec(fmt.Sprintf("rdx tdata %d %d %d", i, wrong, 1+r.Intn(3)))
		case x < 90:
			ru.Exec(fmt.Sprintf("rdx evict %d", i))
		default:
			ru.Exec(fmt.Sprintf("rdx garbage %d", i))
		}
		ru.Exec("rdx settle")
	}
	for _, ri := range ru.Readers() {
		if ri.Blocked {
			ru.Exec(fmt.Sprintf("rdx cancel %d", ri.Rid))
		}
	}
	ru.Exec("rdx settle")
	for _, ri := range ru.Readers() {
		if !ri.Closed {
			ru.Exec(fmt.Sprintf("rdx close %d", ri.Rid))
		}
	}
	for _, h := range held {
		ru.Exec(fmt.Sprintf("rdx treq %d %d 0 0", h.i, h.p))
	}
	ru.Exec("rdx settle")
	ru.Close()
}

// GenBystanderCase: a torrent with a web seed configured and peers of varying availability
// (also none); consumers hold priorities and wait; then events that are none of the
// consumers' business — configuration changes of every field in both directions,
// availability going up and down to zero, unchoke / interested notifications, announces,
// getters — each followed by the balance and wake-up oracles: the consumers' priorities and
// channels must be exactly what they were, and a later verification must still wake them.
func GenBystanderCase(r *vhlib.Rand, ru *Runner, rate int) {
	ps := r.PickInt(16384, 32768)
	n := 4 + r.Intn(3)
	total := int64(n*ps - r.PickInt(0, 1, 9000))
	ru.Exec(fmt.Sprintf("rd new %d %d %d %d s:%d+w", ps, total, r.Intn(1000), rate, total))
	if ru.S == nil {
		return
	}
	n = ru.S.N
	// the configuration the torrent starts from, then consumers
	web := r.Intn(2)
	ru.Exec(fmt.Sprintf("rdx bys conf %d %d %d", r.Intn(3), r.Intn(2), web))
	ru.Exec("rdx complete 0")
	for i := 1; i < n; i++ {
		if r.Chance(40) {
			ru.Exec(fmt.Sprintf("rdx bys phave %d 1", i)) // some pieces have a peer, some none
		}
	}
	nr := 1 + r.Intn(2)
	for rid := 0; rid < nr; rid++ {
		off := int64(r.Intn(n)) * int64(ps)
		ru.Exec(fmt.Sprintf("rdx open %d %d %d", rid, off, total-off))
		ru.Exec(fmt.Sprintf("rdx read %d %d", rid, r.PickInt(100, ps)))
	}
	type hp struct{ i, p int }
	var held []hp
	for k := 0; k < 2+r.Intn(3); k++ {
		h := hp{1 + r.Intn(n-1), []int{-1, 0, 1, 5}[r.Intn(4)]}
		ru.Exec(fmt.Sprintf("rdx treq %d %d 1 %d", h.i, h.p, r.Intn(2)))
		if !ru.IsComplete(h.i) {
			held = append(held, h)
		}
	}
	ru.Exec("rdx settle")
	for step := 0; step < 8+r.Intn(8) && !Aborted.Load(); step++ {
		switch x := r.Intn(100); {
		case x < 35:
			if r.Chance(50) {
				web = 1 - web // web seeds on <-> off
			}
			ru.Exec(fmt.Sprintf("rdx bys conf %d %d %d", r.Intn(3), r.Intn(2), web))
		case x < 55:
			ru.Exec(fmt.Sprintf("rdx bys phave %d %d", 1+r.Intn(n-1), r.Intn(2)))
		case x < 65:
			ru.Exec(fmt.Sprintf("rdx bys pbitmap %d", r.Intn(2)))
		case x < 72:
			ru.Exec("rdx bys unchoke")
		case x < 77:
			ru.Exec("rdx bys interested")
		case x < 82:
			ru.Exec(fmt.Sprintf("rdx bys announce %d", r.Intn(2)))
		case x < 86:
			ru.Exec("rdx bys stats")
		case x < 90:
			ru.Exec("rdx bys avail")
		case x < 93:
			ru.Exec("rdx bys droppeer")
		case x < 97:
			ru.Exec(fmt.Sprintf("rdx evict %d", r.Intn(n))) // expiry: TorHave(false)
		default:
			h := hp{1 + r.Intn(n-1), []int{-1, 0, 1, 5}[r.Intn(4)]}
			if !ru.IsComplete(h.i) {
				ru.Exec(fmt.Sprintf("rdx treq %d %d 1 1", h.i, h.p))
				held = append(held, h)
			}
		}
		ru.Exec("rdx settle")
	}
	// the waits are still live: verifications wake them
	for i := 1; i < n; i++ {
		if !ru.IsComplete(i) && r.Chance(60) {
			ru.Exec(fmt.Sprintf("rdx complete %d", i))
		}
	}
	ru.Exec("rdx settle")
	for _, ri := range ru.Readers() {
		if ri.Blocked {
			ru.Exec(fmt.Sprintf("rdx cancel %d", ri.Rid))
		}
	}
	ru.Exec("rdx settle")
	for _, ri := range ru.Readers() {
		if !ri.Closed {
			ru.Exec(fmt.Sprintf("rdx close %d", ri.Rid))
		}
	}
	for _, h := range held {
		ru.Exec(fmt.Sprintf("rdx treq %d %d 0 0", h.i, h.p))
	}
	ru.Exec("rdx bys conf 0 0 0")
	ru.Exec("rdx settle")
	if !ru.Dead() && !Aborted.Load() && !ru.LastSnapEmpty() {
		ru.violate("leak:after-everybody-left", fmt.Sprintf("Torrent.requested not empty after every consumer withdrew: %v", ru.lastSnap))
	}
	ru.Close()
}

// GenStallCase: everything the consumers wait for has been received (from a corrupting
// peer) and only awaits its hash check, a web seed is enabled, a peer unchokes us: the loop
// finds nothing to ask for right now, but must keep polling — the data is about to be
// thrown away.  Then the honest data arrives and everybody is woken.
func GenStallCase(r *vhlib.Rand, ru *Runner, rate int) {
	ps := r.PickInt(16384, 32768)
	n := 3 + r.Intn(3)
	total := int64(n*ps - r.PickInt(0, 1, 9000))
	ru.Exec(fmt.Sprintf("rd new %d %d %d %d s:%d+w", ps, total, r.Intn(1000), rate, total))
	if ru.S == nil {
		return
	}
	n = ru.S.N
	ru.Exec(fmt.Sprintf("rdx bys conf %d %d 1", r.Intn(3), r.Intn(2)))
	type hp struct{ i, p int }
	var held []hp
	seen := map[int]bool{}
	for k := 0; k < 1+r.Intn(2); k++ {
		h := hp{r.Intn(n), []int{0, 1, 5}[r.Intn(3)]}
		ru.Exec(fmt.Sprintf("rdx treq %d %d 1 1", h.i, h.p))
		held = append(held, h)
		if !seen[h.i] {
			seen[h.i] = true
			ru.Exec(fmt.Sprintf("rdx bys phave %d 1", h.i))
			ru.Exec(fmt.Sprintf("rdx garbage %d w", h.i))
		}
	}
	ru.Exec("rdx bys unchoke")
	ru.Exec("rdx settle")
	for i := range seen {
		for try := 0; try < 3 && !ru.IsComplete(i); try++ {
			ru.Exec(fmt.Sprintf("rdx complete %d", i))
		}
	}
	ru.Exec("rdx settle")
	for _, h := range held {
		ru.Exec(fmt.Sprintf("rdx treq %d %d 0 0", h.i, h.p))
	}
	ru.Exec("rdx bys conf 0 0 0")
	ru.Exec("rdx settle")
	ru.Close()
}

// GenIdleCase: no consumer at all; the idle prefetcher is the only requester.  Torrents in
// every completion state around the idle budget (0, 1, 2, budget-1, budget, budget+1
// incomplete pieces, some partially received), pieces that peers have / nobody has / a web
// seed; real ticks; pieces complete, are evicted, complete again; at the end everything is
// verified and the request set must be empty.
func GenIdleCase(r *vhlib.Rand, ru *Runner, rate int) {
	ps := r.PickInt(16384, 32768, 65536, 131072)
	budget := int(float64(2*IdleRateForCases)*60/float64(ps) + 0.5)
	if budget < 2 {
		budget = 2
	}
	k := r.PickInt(0, 1, 2, budget-1, budget, budget+1) // incomplete pieces
	if k < 0 {
		k = 0
	}
	n := k + 1 + r.Intn(4)
	if n > 12 {
		n = 12
		if k > n {
			k = n
		}
	}
	total := int64(n*ps - r.PickInt(0, 1, 9000))
	web := r.Chance(35)
	lay := fmt.Sprintf("s:%d", total)
	if web {
		lay += "+w"
	}
	ru.Exec(fmt.Sprintf("rd new %d %d %d %d %s", ps, total, r.Intn(1000), rate, lay))
	if ru.S == nil {
		return
	}
	n = ru.S.N
	if web {
		ru.Exec(fmt.Sprintf("rdx bys conf %d %d 1", r.Intn(3), r.Intn(2)))
	}
	perm := make([]int, n)
	for i := range perm {
		perm[i] = i
	}
	for i := n - 1; i > 0; i-- {
		j := r.Intn(i + 1)
		perm[i], perm[j] = perm[j], perm[i]
	}
	inc := map[int]bool{}
	for _, i := range perm[:min(k, n)] {
		inc[i] = true
	}
	for i := 0; i < n; i++ {
		switch x := r.Intn(100); {
		case x < 60:
			ru.Exec(fmt.Sprintf("rdx bys phave %d 1", i)) // a peer has it
		case x < 70:
			ru.Exec(fmt.Sprintf("rdx bys phave %d 1", i))
			ru.Exec(fmt.Sprintf("rdx bys phave %d 1", i))
		}
		if !inc[i] {
			ru.Exec(fmt.Sprintf("rdx complete %d", i))
		} else if r.Chance(30) && i%2 == 1 {
			ru.Exec(fmt.Sprintf("rdx garbage %d", i)) // partially received (first block)
		}
	}
	ru.Exec("rdx idle")
	ru.Exec("rdx settle")
	for step := 0; step < 4+r.Intn(6) && !Aborted.Load(); step++ {
		i := r.Intn(n)
		switch x := r.Intn(100); {
		case x < 40:
			ru.Exec(fmt.Sprintf("rdx complete %d", i))
		case x < 55:
			ru.Exec(fmt.Sprintf("rdx evict %d", i))
		case x < 65:
			ru.Exec(fmt.Sprintf("rdx bys phave %d %d", i, r.Intn(2)))
		case x < 72:
			ru.Exec(fmt.Sprintf("rdx bys conf %d %d %d", r.Intn(3), r.Intn(2), r.Intn(2)))
		}
		ru.Exec("rdx idle")
		ru.Exec("rdx settle")
	}
	// everything arrives
	for i := 0; i < n; i++ {
		for try := 0; try < 3 && !ru.IsComplete(i); try++ {
			ru.Exec(fmt.Sprintf("rdx complete %d", i))
		}
	}
	ru.Exec("rdx idle")
	ru.Exec("rdx settle")
	ru.Exec("rdx idle")
	ru.Exec("rdx settle")
	ru.Close()
}

// IdleRateForCases is the idle download rate the harnesses configure (config.SetIdleRate):
// with it the idle budget int(2*rate*60/ps+0.5) is 15, 8, 4, 2 pieces for 16, 32, 64, 128 KiB
// pieces — small enough for the generated torrents to be around it.
const IdleRateForCases = 2048
