package torsim

// Oracle-only ops (`rdx …`, answered "x" by the Lean drivers): schedules the sequential `rd`
// stream cannot produce.
//
//   - a HELD event loop: the loop is parked inside a harmless handler while Reads queue their
//     TorRequest and the harness verifies / evicts / corrupts pieces; at release the harness
//     chooses whether a TorHave is handled before or after the requests that were waiting —
//     the two halves of Torrent.Request (completeness test on the caller's goroutine,
//     requestPiece on the loop) interleave with completions in both orders;
//   - CONCURRENT reads on one FUSE handle through the real fuse node methods (no mount), each
//     with its own context.
//
// The oracle is the property itself: bytes equal the reference content, a Read whose piece
// is verified and in memory returns (it may not stay parked), a parked Read is registered, a
// cancelled read returns promptly, nothing stays registered for a reader that left.

import (
	"context"
	"errors"
	"fmt"
	"io"
	"sort"
	"strings"
	"time"

	bfuse "bazil.org/fuse"
	"bazil.org/fuse/fs"

	"github.com/jech/storrent/bitmap"
	"github.com/jech/storrent/config"
	sfuse "github.com/jech/storrent/fuse"
	"github.com/jech/storrent/peer"
	"github.com/jech/storrent/tor"

	"verifharness/vhlib"
)

type fuseHandle struct {
	h          fs.Handle
	foff, flen int64
	released   bool
}

type fuseRead struct {
	id        int
	hid       int
	off       int64
	size      int
	cancel    context.CancelFunc
	cancelled bool
	res       chan fuseRes
	done      bool
}

type fuseRes struct {
	data  []byte
	err   error
	panic string
}

// asyncOp: a consumer call that may block while the queue of the held loop is full (that is
// correct behaviour); it must complete once the loop runs again.
type asyncOp struct {
	what string
	done chan struct{}
	fin  func() // bookkeeping once it has returned (harness goroutine)
}

func (ru *Runner) noteVerified(i int) {
	if ru.verTotal == nil {
		ru.verTotal = map[int]int{}
	}
	ru.verTotal[i]++
}

func (ru *Runner) async(what string, f func(), fin func()) {
	a := &asyncOp{what: what, done: make(chan struct{}), fin: fin}
	ru.asyncs = append(ru.asyncs, a)
	go func() {
		defer close(a.done)
		if p := vhlib.Recover(f); p != "" {
			a.what = "PANIC " + p + " in " + a.what
		}
	}()
	if !ru.S.Held() {
		ru.waitAsyncs()
	} else {
		time.Sleep(200 * time.Microsecond) // let it reach the queue (schedule choice only)
	}
}

func (ru *Runner) waitAsyncs() {
	for _, a := range ru.asyncs {
		select {
		case <-a.done:
			if strings.HasPrefix(a.what, "PANIC") {
				ru.violate("panic:consumer", a.what)
			} else if a.fin != nil {
				a.fin()
			}
		case <-time.After(ru.Watchdog):
			ru.violate("hang:consumer", fmt.Sprintf("%s did not return although the event loop is running again", a.what))
		}
	}
	ru.asyncs = nil
}

// xDirect: wake-up oracle for the channels handed to direct consumers in an oracle-only
// section, evaluated at quiescence: closed only if its piece was verified since, or the
// wait was abandoned (entry gone); verified since => closed.
func (ru *Runner) xDirect(snap []tor.VerifRequestedPiece) {
	present := map[int]bool{}
	for _, e := range snap {
		present[int(e.Index)] = true
	}
	for k, d := range ru.direct {
		verified := ru.verTotal[d.piece] > d.verAt
		cl := isClosed(d.ch)
		if cl && d.closedAt < 0 {
			d.closedAt = len(ru.Lines)
			if !verified && !d.gaveUp && d.prio > int(tor.IdlePriority) {
				ru.violate("wake:unjustified", fmt.Sprintf("channel #%d of piece %d (priority %d) is closed although the piece has not been verified since it was handed out and its consumer has not withdrawn (still requested: %v)", k, d.piece, d.prio, present[d.piece]))
			}
		}
		if !cl && verified {
			ru.violate("wake:lost:direct", fmt.Sprintf("channel #%d of piece %d still open although the piece was verified and every notification handled", k, d.piece))
		}
	}
}

// xNotify (fake peer): one TorHave(i, true) per successful verification of piece i.
func (ru *Runner) xNotify() {
	if ru.S.Fake == nil || ru.dead {
		return
	}
	for i := ru.S.Lo; i <= ru.S.Hi; i++ {
		h, v := ru.S.HaveCount(uint32(i)), ru.verTotal[i]
		if h > v {
			ru.violate("notify:duplicate", fmt.Sprintf("piece %d: %d completion notifications handled for %d successful verifications", i, h, v))
		} else if h < v {
			ru.violate("notify:missing", fmt.Sprintf("piece %d: %d completion notifications handled for %d successful verifications", i, h, v))
		}
	}
}

func (ru *Runner) execX(ws []string) {
	ru.racing = true
	num := func(k int) (int64, bool) {
		if k >= len(ws) {
			return 0, false
		}
		return atoi(ws[k])
	}
	piece := func(k int) (uint32, bool) {
		v, ok := num(k)
		if !ok || v < 0 || int(v) >= ru.S.N {
			return 0, false
		}
		return uint32(v), true
	}
	sync := func() {
		if !ru.S.Held() && !ru.dead {
			// exact quiescence: queue drained, no verification goroutine alive, their
			// notifications handled
			if !ru.S.Quiesce() && !ru.S.LoopDead() {
				ru.violate("hang:quiesce", "the torrent did not come to rest within the watchdog (a piece stays in the hashing state, or verifications keep being started)")
			}
		}
	}
	switch ws[1] {
	case "open":
		rid, ok1 := num(2)
		off, ok2 := num(3)
		ln, ok3 := num(4)
		if !(ok1 && ok2 && ok3) || ru.readers[int(rid)] != nil {
			return
		}
		inner, cancel := context.WithCancel(context.Background())
		ctx := &sigCtx{Context: inner, entered: make(chan (<-chan struct{}), 64)}
		rs := &RState{rid: int(rid), ctx: ctx, cancel: cancel, offset: off, length: ln}
		rs.r = ru.S.T.NewReader(ctx, off, ln)
		ctx.r = rs.r
		ru.readers[int(rid)] = rs
	case "hold":
		if !ru.dead {
			ru.S.Hold()
			ru.tag("x:hold")
		}
	case "release":
		// `rdx release h3 h1`: TorHave(3,true), TorHave(1,true) are handled before the
		// events that were waiting; verifications not announced yet follow through the
		// normal channel
		var front []peer.TorEvent
		for _, w := range ws[2:] {
			if len(w) > 1 && w[0] == 'h' {
				if v, ok := atoi(w[1:]); ok && v >= 0 && int(v) < ru.S.N {
					front = append(front, peer.TorHave{Index: uint32(v), Have: true})
					for k, f := range ru.finPend {
						if f == uint32(v) {
							ru.finPend = append(ru.finPend[:k], ru.finPend[k+1:]...)
							break
						}
					}
				}
			}
		}
		ru.S.Release(front)
		for _, f := range ru.finPend {
			ru.S.T.Have(f, true)
		}
		ru.finPend = nil
		sync()
	case "read":
		rid, ok1 := num(2)
		n, ok2 := num(3)
		rs := ru.readers[int(rid)]
		if !(ok1 && ok2) || rs == nil || rs.pend != nil || rs.closed || n < 0 || n > 1<<22 {
			return
		}
		before := len(ru.S.T.Event)
		buf := make([]byte, n)
		res := make(chan readRes, 1)
		rs.pend = &pendRead{int(n), buf, res}
		rs.ctx.errs.Store(0)
		go func() {
			var k int
			var err error
			p := vhlib.Recover(func() { k, err = rs.r.Read(buf) })
			res <- readRes{k, err, p}
		}()
		ru.tag("x:read")
		if ru.S.Held() {
			// wait until the Read has queued its request (or has returned without
			// needing the loop); only the choice of schedule depends on this wait
			for t := 0; t < 4000 && len(ru.S.T.Event) <= before && before < cap(ru.S.T.Event) && len(res) == 0; t++ {
				time.Sleep(500 * time.Microsecond)
			}
		} else {
			ru.settle(rs)
		}
	case "fin":
		if i, ok := piece(2); ok {
			if done, _ := ru.S.Verify(i); done {
				ru.complete[i] = true
				ru.noteVerified(int(i))
				ru.finPend = append(ru.finPend, i)
				if !ru.S.Held() {
					ru.S.T.Have(i, true)
					ru.finPend = ru.finPend[:len(ru.finPend)-1]
				}
			}
			sync()
		}
	case "complete":
		if i, ok := piece(2); ok {
			sync() // not while the real code is hashing what is there
			before := ru.S.T.Pieces.Complete(i)
			done, _ := ru.S.Complete(i)
			sync()
			// the real getChunks may have found the full piece first and verified it
			// itself (its own TorHave): what counts is that it is verified now
			if done || (!before && !ru.dead && ru.S.T.Pieces.Complete(i)) {
				ru.complete[i] = true
				ru.noteVerified(int(i))
			}
		}
	case "corrupt":
		if i, ok := piece(2); ok {
			ru.S.Corrupt(i)
			sync()
		}
	case "garbage":
		if i, ok := piece(2); ok {
			ru.S.Garbage(i, i%2 == 0 || (len(ws) > 3 && ws[3] == "w"))
		}
	case "evict":
		if i, ok := piece(2); ok {
			for _, e := range ru.S.Evict(i) {
				ru.complete[e] = false
			}
			sync()
		}
	case "cancel":
		if rid, ok := num(2); ok {
			if rs := ru.readers[int(rid)]; rs != nil {
				rs.cancel()
				rs.cancelled = true
			}
		}
	case "close":
		if rid, ok := num(2); ok {
			if rs := ru.readers[int(rid)]; rs != nil && rs.pend == nil && !rs.closed {
				if p := vhlib.Recover(func() { rs.r.Close() }); p != "" {
					ru.violate("panic:close", p)
				}
				rs.closed = true
			}
		}
	case "bys":
		// an event of the loop that is none of the consumers' business: it must leave
		// their priorities and their channels alone
		if ru.S.Held() || ru.dead || len(ws) < 3 {
			return
		}
		t := ru.S.T
		send := func(e peer.TorEvent) {
			select {
			case t.Event <- e:
			case <-t.Done:
			}
		}
		switch ws[2] {
		case "conf": // rdx bys conf <dht 0..2> <trackers 0|1> <webseeds 0|1>
			d, ok1 := num(3)
			tr, ok2 := num(4)
			wb, ok3 := num(5)
			if ok1 && ok2 && ok3 && d >= 0 && d <= 2 {
				t.SetConf(peer.TorConf{DhtMode: config.DhtMode(d), UseTrackers: tr == 1, UseWebseeds: wb == 1})
				ru.webOn = wb == 1
			}
		case "phave": // rdx bys phave <i> <0|1>: some peer gained / lost piece i
			if i, ok := piece(3); ok {
				b, _ := num(4)
				if b == 1 {
					ru.avail[i]++
					send(peer.TorPeerHave{Index: i, Have: true})
				} else if ru.avail[i] > 0 {
					ru.avail[i]--
					send(peer.TorPeerHave{Index: i, Have: false})
				}
			}
		case "pbitmap": // a peer with every live piece arrives (1) / leaves (0)
			b, _ := num(3)
			bm := bitmap.New(ru.S.N)
			for i := ru.S.Lo; i <= ru.S.Hi; i++ {
				bm.Set(i)
			}
			if b == 1 {
				ru.seeds++
				send(peer.TorPeerBitmap{Bitmap: bm, Have: true})
			} else if ru.seeds > 0 {
				ru.seeds--
				send(peer.TorPeerBitmap{Bitmap: bm, Have: false})
			}
		case "unchoke":
			send(peer.TorPeerUnchoke{Unchoke: true})
			// a peer unchoking us makes the loop look for work (maybeRequest).  While a
			// consumer wants a piece that can be fetched (some peer has it, or a web seed
			// is enabled) the request ticker must stay armed afterwards: whatever is in
			// flight or being hashed now may be lost (hash failure, eviction, the peer
			// leaving) and only the next tick asks again.
			if snap, ok := ru.S.Snapshot(); ok && ru.S.Interval >= 0 {
				for _, e := range snap {
					i := e.Index
					client := false
					for _, p := range e.Prio {
						client = client || p > tor.IdlePriority
					}
					// (without web seeds and without connected peers the loop rightly stops polling)
					fetchable := ru.webCfg && ru.webOn
					if client && fetchable && int(i) < len(ru.complete) && !ru.complete[i] && ru.S.Interval == 0 {
						ru.violate("sched:ticker-stopped", fmt.Sprintf("piece %d is wanted at %v, not complete and fetchable, but the request ticker is stopped after an unchoke: nothing will ask for it again", i, e.Prio))
						break
					}
				}
			}
		case "interested":
			send(peer.TorPeerInterested{Interested: true})
		case "announce":
			send(peer.TorAnnounce{IPv6: len(ws) > 3 && ws[3] == "1"})
		case "stats":
			t.GetStats()
		case "avail":
			t.GetAvailable()
		case "droppeer":
			t.DropPeer()
		default:
			return
		}
		sync()
		ru.tag("x:bys:" + ws[2])
	case "idle":
		// one tick of the request ticker with no consumer around: the idle prefetcher
		// (real periodicRequest -> pickIdlePieces) is the only requester
		if ru.S.Held() || ru.dead {
			return
		}
		before := 0
		if snap, ok := ru.S.Snapshot(); ok {
			before = len(snap)
		}
		ru.S.Tick()
		sync()
		snap, ok := ru.S.Snapshot()
		if !ok {
			return
		}
		// budget of periodicRequest's idle branch: int(rate*60/ps + 0.5), at least 2,
		// rate = 2*IdleRate (nothing is being downloaded)
		budget := int(float64(2*config.IdleRate())*60/float64(ru.S.PS) + 0.5)
		if budget < 2 {
			budget = 2
		}
		idle := 0
		allComplete := true
		for i := ru.S.Lo; i <= ru.S.Hi; i++ {
			allComplete = allComplete && ru.S.T.Pieces.Complete(uint32(i))
		}
		for _, e := range snap {
			if len(e.Prio) != 0 {
				continue
			}
			idle++
			ru.idleAdds[int(e.Index)] = true
			if int(e.Index) < ru.S.N && ru.S.T.Pieces.Complete(e.Index) {
				ru.violate("idle:requests-complete-piece", fmt.Sprintf("after an idle tick piece %d, which is verified and in memory, is requested at IdlePriority: no notification will ever retire it (requested=%v)", e.Index, snap))
				break
			}
		}
		if idle > budget && idle > before {
			ru.violate("idle:over-budget", fmt.Sprintf("%d idle entries after a tick, the idle budget is %d (requested=%v)", idle, budget, snap))
		}
		if allComplete && len(snap) != 0 {
			ru.violate("idle:never-drains", fmt.Sprintf("every piece is verified and no consumer is present, but the request set is %v", snap))
		}
		ru.tag("x:idle")
	case "fill":
		if ru.S.Held() {
			ru.S.Fill()
			ru.tag("x:fill")
		}
	case "aclose":
		if rid, ok := num(2); ok {
			if rs := ru.readers[int(rid)]; rs != nil && rs.pend == nil && !rs.closed {
				rs.closed = true
				ru.async(fmt.Sprintf("Close of reader %d", rid), func() { rs.r.Close() }, func() {
					if reqs, _, _ := rs.r.VerifRequested(); len(reqs) != 0 {
						ru.violate("leak:after-close", fmt.Sprintf("reader %d still holds %v after Close", rs.rid, reqs))
					}
				})
				ru.tag("x:aclose")
			}
		}
	case "treq":
		// `rdx treq i p request want`: a direct consumer; may block while the queue is full
		i, ok1 := num(2)
		p, ok2 := num(3)
		if !(ok1 && ok2) || len(ws) != 6 || i < 0 || int(i) >= ru.S.N || p < -127 || p > 127 {
			return
		}
		request, want := ws[4] == "1", ws[5] == "1"
		key := [2]int{int(i), int(p)}
		if !request {
			if ru.holds[key] <= 0 {
				return
			}
			ru.holds[key]--
			for _, dc := range ru.direct {
				if dc.piece == int(i) && dc.prio == int(p) && !dc.gaveUp {
					dc.gaveUp = true // the wait is abandoned by the consumer itself
					break
				}
			}
		}
		var d bool
		var ch <-chan struct{}
		var err error
		verAt := ru.verTotal[int(i)]
		ru.async(fmt.Sprintf("Torrent.Request(%d,%d,%v,%v)", i, p, request, want),
			func() { d, ch, err = ru.S.T.Request(uint32(i), int8(p), request, want) },
			func() {
				if request && d && err == nil {
					ru.holds[key]++
				}
				if ch != nil {
					ru.direct = append(ru.direct, &directCh{ch: ch, piece: int(i), closedAt: -1, verAt: verAt, prio: int(p)})
				}
			})
		ru.tag("x:treq")
	case "tdata":
		// `rdx tdata i wrong k`: the last block of piece i arrives k times (k peers) through
		// the real TorData handler and the real finalisePiece goroutines
		i, ok := piece(2)
		wrong, ok2 := num(3)
		k, ok3 := num(4)
		if !(ok && ok2 && ok3) || k < 1 || k > 3 || int(i) < ru.S.Lo || int(i) > ru.S.Hi || ru.S.Held() || ru.dead {
			return
		}
		before := ru.S.T.Pieces.Complete(i)
		ru.S.LastBlock(i, wrong == 1, int(k))
		sync()
		if now := ru.S.T.Pieces.Complete(i); now && !before {
			if wrong == 1 {
				ru.violate("verify:corrupt-accepted", fmt.Sprintf("piece %d with a wrong block passed verification", i))
			}
			ru.complete[i] = true
			ru.noteVerified(int(i))
		}
		ru.tag("x:tdata")
	case "settle":
		// the loop runs: every Read in flight returns, or stays parked for a reason
		if ru.S.Held() {
			ru.S.Release(nil)
		}
		sync()
		ru.waitAsyncs()
		sync()
		var rids []int
		for rid, rs := range ru.readers {
			if rs.pend != nil {
				rids = append(rids, rid)
			}
		}
		sort.Ints(rids)
		for _, rid := range rids {
			rs := ru.readers[rid]
			if rs.parked && !isClosed(rs.waitCh) && !ru.dead && !rs.cancelled {
				// still parked on the same open channel: no new signal will come;
				// it must have a reason to wait (piece not verified, registered)
				ru.checkBlocked(rs)
				continue
			}
			ru.settle(rs) // finishRead / checkBlocked evaluate the oracle
		}
		if !ru.dead {
			if snap, ok := ru.S.Snapshot(); ok {
				ru.checkBalance(snap)
				ru.xDirect(snap)
				ru.lastSnap = snap
			}
			ru.xNotify()
		}
		ru.tag("x:settle")
	case "fopen":
		ru.fuseOpen(ws)
	case "fread":
		ru.fuseRead(ws)
	case "fcancel":
		ru.fuseCancel(ws)
	case "fsettle":
		sync()
		ru.fuseSettle()
	case "frelease":
		ru.fuseRelease(ws)
	}
}

// ---------------------------------------------------------------- FUSE handles
func (ru *Runner) fuseOpen(ws []string) {
	hid, ok1 := atoi(ws2(ws, 2))
	fi, ok2 := atoi(ws2(ws, 3))
	if !(ok1 && ok2) || fi < 0 || int(fi) >= len(ru.Files) || ru.fuseH[int(hid)] != nil {
		return
	}
	if ru.fuseH == nil {
		ru.fuseH = map[int]*fuseHandle{}
		ru.fuseR = map[int]*fuseRead{}
	}
	var foff int64
	for i := 0; i < int(fi); i++ {
		foff += ru.Files[i].Length
	}
	name := ru.Files[fi].Name
	if ru.Single {
		name = ru.S.T.Name
	}
	var h fs.Handle
	var err error
	var resp bfuse.OpenResponse
	pn := vhlib.Recover(func() {
		h, err = sfuse.VerifFile(ru.S.T.Hash, name).(fs.NodeOpener).Open(context.Background(),
			&bfuse.OpenRequest{Flags: bfuse.OpenReadOnly}, &resp)
	})
	if pn != "" || err != nil || h == nil {
		ru.violate("fuse:open", fmt.Sprintf("Open(%q): %v %v", name, pn, err))
		return
	}
	if o, l, ok := sfuse.VerifHandleRange(h); !ok || o != foff || l != ru.Files[fi].Length {
		ru.violate("fuse:range", fmt.Sprintf("handle of %q covers (%d,%d), the file is (%d,%d)", name, o, l, foff, ru.Files[fi].Length))
	}
	ru.fuseH[int(hid)] = &fuseHandle{h: h, foff: foff, flen: ru.Files[fi].Length}
	ru.tag("fuse:open")
}

func ws2(ws []string, k int) string {
	if k < len(ws) {
		return ws[k]
	}
	return ""
}

func (ru *Runner) fuseRead(ws []string) {
	hid, ok1 := atoi(ws2(ws, 2))
	id, ok2 := atoi(ws2(ws, 3))
	off, ok3 := atoi(ws2(ws, 4))
	size, ok4 := atoi(ws2(ws, 5))
	fh := ru.fuseH[int(hid)]
	if !(ok1 && ok2 && ok3 && ok4) || fh == nil || fh.released || ru.fuseR[int(id)] != nil || off < 0 || size < 0 || size > 1<<22 {
		return
	}
	ctx, cancel := context.WithCancel(context.Background())
	fr := &fuseRead{id: int(id), hid: int(hid), off: off, size: int(size), cancel: cancel, res: make(chan fuseRes, 1)}
	ru.fuseR[int(id)] = fr
	go func() {
		resp := &bfuse.ReadResponse{Data: make([]byte, 0, size)}
		var err error
		pn := vhlib.Recover(func() {
			err = fh.h.(fs.HandleReader).Read(ctx, &bfuse.ReadRequest{Offset: off, Size: int(size)}, resp)
		})
		fr.res <- fuseRes{resp.Data, err, pn}
	}()
	// give it the chance to take the handle before the next read is started, so that the
	// order of the reads on the handle is the order of the ops (schedule choice only)
	time.Sleep(2 * time.Millisecond)
	ru.tag("fuse:read")
}

// fuseFinish: oracle for a FUSE read that returned.
func (ru *Runner) fuseFinish(fr *fuseRead, x fuseRes) {
	fr.done = true
	fh := ru.fuseH[fr.hid]
	if x.panic != "" {
		ru.violate("panic:fuse-read", x.panic)
		return
	}
	if x.err != nil {
		intr := x.err == bfuse.EINTR || errors.Is(x.err, bfuse.EINTR) || errors.Is(x.err, context.Canceled)
		switch {
		case intr && fr.cancelled:
			ru.tag("fuse:ret:intr")
		case errors.Is(x.err, tor.ErrTorrentDead) && ru.dead:
			ru.tag("fuse:ret:dead")
		default:
			ru.violate("fuse:error", fmt.Sprintf("read #%d (off %d size %d, cancelled=%v) failed with %v", fr.id, fr.off, fr.size, fr.cancelled, x.err))
		}
		return
	}
	// bytes == reference slice [off, off+size) clipped at the file length
	end := fr.off + int64(fr.size)
	if end > fh.flen {
		end = fh.flen
	}
	var want []byte
	if fr.off < end {
		want = ru.S.Ref(fh.foff+fr.off, fh.foff+end)
	}
	if string(want) != string(x.data) {
		ru.violate("fuse:bytes-mismatch", fmt.Sprintf("read #%d off %d size %d of file(%d,%d): got %d bytes, want %d, or contents differ", fr.id, fr.off, fr.size, fh.foff, fh.flen, len(x.data), len(want)))
	}
	ru.tag("fuse:ret:ok")
}

func (ru *Runner) fuseCancel(ws []string) {
	id, ok := atoi(ws2(ws, 2))
	fr := ru.fuseR[int(id)]
	if !ok || fr == nil || fr.done {
		return
	}
	fr.cancel()
	fr.cancelled = true
	ru.tag("fuse:cancel")
	// a read whose context is cancelled returns promptly, whether it holds the handle
	// (blocked in Reader.Read) or waits for it behind another read
	select {
	case x := <-fr.res:
		ru.fuseFinish(fr, x)
	case <-time.After(ru.Watchdog):
		fr.done = true
		ru.violate("fuse:cancel-not-honoured", fmt.Sprintf("read #%d on handle %d did not return within %v of its context being cancelled", fr.id, fr.hid, ru.Watchdog))
		Aborted.Store(true)
	}
}

// needs: are all pieces under [off, off+size) of the handle verified and in memory?
func (ru *Runner) fuseAvail(fr *fuseRead) bool {
	fh := ru.fuseH[fr.hid]
	end := fr.off + int64(fr.size)
	if end > fh.flen {
		end = fh.flen
	}
	if fr.off >= end {
		return true
	}
	for i := (fh.foff + fr.off) / int64(ru.S.PS); i <= (fh.foff+end-1)/int64(ru.S.PS); i++ {
		if !ru.complete[i] {
			return false
		}
	}
	return true
}

// fuseSettle: reads are serialised per handle; if every unfinished read of a handle has its
// data available (or is cancelled, or the torrent is dead) they must all finish.
func (ru *Runner) fuseSettle() {
	var hids []int
	for hid := range ru.fuseH {
		hids = append(hids, hid)
	}
	sort.Ints(hids)
	for _, hid := range hids {
		var open []*fuseRead
		all := true
		for _, fr := range ru.fuseR {
			if fr.hid == hid && !fr.done {
				open = append(open, fr)
				if !(ru.dead || fr.cancelled || ru.fuseAvail(fr)) {
					all = false
				}
			}
		}
		sort.Slice(open, func(i, j int) bool { return open[i].id < open[j].id })
		for _, fr := range open {
			if all {
				select {
				case x := <-fr.res:
					ru.fuseFinish(fr, x)
				case <-time.After(ru.Watchdog):
					fr.done = true
					fr.cancel()
					ru.violate("hang:fuse", fmt.Sprintf("read #%d (off %d size %d) on handle %d did not return although its data is verified and in memory", fr.id, fr.off, fr.size, hid))
				}
			} else {
				select {
				case x := <-fr.res:
					ru.fuseFinish(fr, x)
				default:
				}
			}
		}
	}
}

func (ru *Runner) fuseRelease(ws []string) {
	hid, ok := atoi(ws2(ws, 2))
	fh := ru.fuseH[int(hid)]
	if !ok || fh == nil || fh.released {
		return
	}
	for _, fr := range ru.fuseR {
		if fr.hid == int(hid) && !fr.done {
			return // Release waits for the reads; the generator finishes them first
		}
	}
	fh.released = true
	done := make(chan string, 1)
	go func() {
		var err error
		pn := vhlib.Recover(func() { err = fh.h.(fs.HandleReleaser).Release(context.Background(), &bfuse.ReleaseRequest{}) })
		done <- fmt.Sprint(pn, err)
	}()
	select {
	case r := <-done:
		if r != "<nil>" {
			ru.violate("fuse:release", "Release: "+r)
		}
		ru.tag("fuse:release")
	case <-time.After(ru.Watchdog):
		ru.violate("hang:fuse-release", fmt.Sprintf("Release of handle %d did not return", hid))
	}
}

// closeFuse: end of case — every read still out is cancelled and must return, handles are
// released.
func (ru *Runner) closeFuse() {
	if ru.S != nil && ru.S.Held() {
		ru.S.Release(nil)
	}
	if ru.S != nil {
		ru.waitAsyncs()
	}
	var ids []int
	for id, fr := range ru.fuseR {
		if !fr.done {
			ids = append(ids, id)
		}
	}
	sort.Ints(ids)
	for _, id := range ids {
		ru.fuseCancel([]string{"rdx", "fcancel", fmt.Sprint(id)})
	}
	for hid := range ru.fuseH {
		ru.fuseRelease([]string{"rdx", "frelease", fmt.Sprint(hid)})
	}
	_ = io.EOF
}
