// Package torsim: a real tor.Torrent with its real event loop, no network, for the C02 and
// C10 harnesses.  The torrent is built by tor.ReadTorrent from a generated .torrent;
// pieces are injected with Pieces.AddData + Finalise + Torrent.Have (the path of
// finalisePiece), evicted with Pieces.Expire and the real callback, and Torrent.requested
// is read by the event loop itself: a harmless event (TorDrop at an odd offset) makes the
// loop call t.Log.Printf, and the log writer — running on the loop's goroutine — takes the
// snapshot.
package torsim

import (
	"bytes"
	"context"
	"crypto/sha1"
	"errors"
	"fmt"
	"net/http"
	"net/http/httptest"
	"reflect"
	"runtime"
	"sort"
	"strings"
	"sync"
	"sync/atomic"
	"time"

	"github.com/zeebo/bencode"

	"github.com/jech/storrent/config"
	"github.com/jech/storrent/hash"
	"github.com/jech/storrent/path"
	"github.com/jech/storrent/peer"
	"github.com/jech/storrent/tor"
	"github.com/jech/storrent/tor/piece"
)

// Content is the reference content of every generated torrent: never zero, not periodic
// in the piece size, cheap to recompute on the Lean side.
func ContentByte(salt uint32, x int64) byte {
	v := uint64(x)*2654435761 + uint64(salt)*40503 + uint64(x>>8)*97
	return byte(v>>7)%251 + 1
}

func Content(salt uint32, n int64) []byte {
	b := make([]byte, n)
	for i := range b {
		b[i] = ContentByte(salt, int64(i))
	}
	return b
}

type File struct {
	Name   string
	Length int64
}

type Sim struct {
	T        *tor.Torrent
	Content  []byte // nil for a sparse torrent: use Ref
	Salt     uint32
	Total    int64
	Lo, Hi   int // the pieces that have real hashes (all of them unless sparse)
	Fake     *peer.Peer
	Interval int64 // Torrent.requestInterval at the last snapshot (-1: field not found)
	// set once the case can make the real code start finalisePiece goroutines (last blocks
	// through TorData, fully received unverified pieces found by getChunks)
	mayFinalise atomic.Bool
	haveMu      sync.Mutex
	haves       map[uint32]int // PeerHave{i,true} broadcasts seen by the fake peer
	PS          uint32
	N           int // number of pieces
	Files       []File
	Cancel      context.CancelFunc
	snapMu      sync.Mutex
	snapCh      chan []tor.VerifRequestedPiece
	heldCh      chan chan []peer.TorEvent
	rel         chan []peer.TorEvent
	LogLines    []string
	killed      bool
}

type logWriter struct{ s *Sim }

const probeMsg = "TorDrop: odd offset"
const holdMsg = "TorData: odd offset"

func (w logWriter) Write(p []byte) (int, error) {
	if strings.Contains(string(p), probeMsg) {
		// on the event loop's goroutine
		snap := w.s.T.VerifRequested()
		sort.Slice(snap, func(i, j int) bool { return snap[i].Index < snap[j].Index })
		// the interval of the request ticker (0 = stopped), read by the loop itself
		if f := reflect.ValueOf(w.s.T).Elem().FieldByName("requestInterval"); f.IsValid() && f.CanInt() {
			w.s.Interval = f.Int()
		} else {
			w.s.Interval = -1
		}
		w.s.snapCh <- snap
		return len(p), nil
	}
	if strings.Contains(string(p), holdMsg) {
		// on the event loop's goroutine: park the loop until the harness releases it;
		// the events handed over at release are handled first, as if they had been
		// queued ahead of everything that piled up meanwhile
		rel := make(chan []peer.TorEvent)
		w.s.heldCh <- rel
		for _, e := range <-rel {
			if f, ok := e.(func()); ok {
				f() // something the loop does by itself (a tick), on the loop's goroutine
			} else {
				tor.VerifHandleEvent(context.Background(), w.s.T, e)
			}
		}
		return len(p), nil
	}
	w.s.snapMu.Lock()
	if len(w.s.LogLines) < 100 {
		w.s.LogLines = append(w.s.LogLines, strings.TrimSpace(string(p)))
	}
	w.s.snapMu.Unlock()
	return len(p), nil
}

// TorrentFile builds a .torrent for the given layout (single file when len(files)==1 and
// single is true).
func TorrentFile(name string, ps uint32, files []File, single bool, content []byte) []byte {
	return TorrentFileSparse(name, ps, files, single, func(a, b int64) []byte { return content[a:b] }, 0, -1)
}

// TorrentFileSparse: only pieces lo..hi get their real hash (hi < 0: all); the others get a
// dummy one, so that geometries of several GiB cost nothing.  Only lo..hi may be injected.
var estOnce sync.Once

// InitProcess does what storrent's main does before any torrent exists: the global rate
// estimators must be initialised, or periodicRequest computes with NaN.
func InitProcess() {
	estOnce.Do(func() {
		peer.UploadEstimator.Init(3 * time.Second)
		peer.UploadEstimator.Start()
		peer.DownloadEstimator.Init(3 * time.Second)
		peer.DownloadEstimator.Start()
		if config.MemoryMark == 0 {
			config.MemoryMark = 1 << 30 // main's -mem default is half the RAM: far above what the cases allocate
		}
	})
}

var webOnce sync.Once
var webURL string

// WebSeedURL: a local server that answers 404 to everything — a configured, enabled web
// seed that never delivers.
func WebSeedURL() string {
	webOnce.Do(func() {
		srv := httptest.NewServer(http.HandlerFunc(func(w http.ResponseWriter, r *http.Request) {
			http.Error(w, "no such file", http.StatusNotFound)
		}))
		webURL = srv.URL + "/seed/"
	})
	return webURL
}

// WithWebSeed: the next torrents built get a url-list (set by NewOpt's caller through the
// argument; kept as a parameter of TorrentFileSparse2).
func TorrentFileSparse(name string, ps uint32, files []File, single bool, ref func(a, b int64) []byte, lo, hi int) []byte {
	return TorrentFileSparse2(name, ps, files, single, ref, lo, hi, nil)
}

func TorrentFileSparse2(name string, ps uint32, files []File, single bool, ref func(a, b int64) []byte, lo, hi int, urlList []string) []byte {
	var total int64
	for _, f := range files {
		total += f.Length
	}
	np := int((total + int64(ps) - 1) / int64(ps))
	hashes := make([]byte, 20*np)
	for i := 0; i < np; i++ {
		if hi >= 0 && (i < lo || i > hi) {
			continue
		}
		off := int64(i) * int64(ps)
		end := off + int64(ps)
		if end > total {
			end = total
		}
		h := sha1.Sum(ref(off, end))
		copy(hashes[20*i:], h[:])
	}
	info := map[string]interface{}{
		"name":         name,
		"piece length": int64(ps),
		"pieces":       hashes,
	}
	if single {
		info["length"] = total
	} else {
		var fl []interface{}
		for _, f := range files {
			fl = append(fl, map[string]interface{}{
				"length": f.Length,
				"path":   []string(path.Parse(f.Name)),
			})
		}
		info["files"] = fl
	}
	ib, err := bencode.EncodeBytes(info)
	if err != nil {
		panic(err)
	}
	top := map[string]interface{}{"info": bencode.RawMessage(ib)}
	if len(urlList) > 0 {
		top["url-list"] = urlList
	}
	tb, err := bencode.EncodeBytes(top)
	if err != nil {
		panic(err)
	}
	return tb
}

// Ref returns the reference content [a, b).
func (s *Sim) Ref(a, b int64) []byte {
	if s.Content != nil {
		return s.Content[a:b]
	}
	out := make([]byte, b-a)
	for i := range out {
		out[i] = ContentByte(s.Salt, a+int64(i))
	}
	return out
}

// New builds the torrent with tor.ReadTorrent and starts its event loop (tor.AddTorrent).
func New(name string, salt uint32, ps uint32, files []File, single bool) (*Sim, error) {
	return NewOpt(name, salt, ps, files, single, 0, -1, false)
}

// NewOpt: lo..hi = pieces with real hashes (hi < 0: all, dense content); fakePeer adds a
// peer without goroutines whose event channel the harness drains (it sees the PeerHave
// broadcast of every TorHave the loop handles).
func NewOpt(name string, salt uint32, ps uint32, files []File, single bool, lo, hi int, fakePeer bool) (*Sim, error) {
	return NewOpt2(name, salt, ps, files, single, lo, hi, fakePeer, false)
}

// NewOpt2: webSeed configures a web seed (disabled until SetConf enables web seeds).
func NewOpt2(name string, salt uint32, ps uint32, files []File, single bool, lo, hi int, fakePeer, webSeed bool) (*Sim, error) {
	InitProcess()
	var total int64
	for _, f := range files {
		total += f.Length
	}
	s := &Sim{Salt: salt, Total: total, PS: ps, Files: files,
		snapCh: make(chan []tor.VerifRequestedPiece, 4), heldCh: make(chan chan []peer.TorEvent, 1),
		haves: map[uint32]int{}}
	if hi < 0 {
		s.Content = Content(salt, total)
	}
	var urls []string
	if webSeed {
		urls = []string{WebSeedURL()}
		// with a web seed the request ticker can be armed: getChunks may hand a fully
		// received piece to finalisePiece at any tick
		s.mayFinalise.Store(true)
	}
	tb := TorrentFileSparse2(name, ps, files, single, s.Ref, lo, hi, urls)
	t, err := tor.ReadTorrent("", bytes.NewReader(tb))
	if err != nil {
		return nil, err
	}
	s.T, s.N = t, t.Pieces.Num()
	s.Lo, s.Hi = lo, hi
	if hi < 0 {
		s.Lo, s.Hi = 0, s.N-1
	}
	t.Log.SetFlags(0)
	t.Log.SetOutput(logWriter{s})
	if fakePeer {
		s.Fake = peer.VerifNewPeer(peer.VerifPeerOpts{Hash: t.Hash, Id: t.MyId, Pieces: &t.Pieces, WriterCap: 4})
		t.VerifAddPeer(s.Fake) // before the loop exists
		go s.drainFake()
	}
	ctx, cancel := context.WithCancel(context.Background())
	s.Cancel = cancel
	t2, err := tor.AddTorrent(ctx, t)
	if err != nil {
		cancel()
		return nil, err
	}
	if t2 != t {
		cancel()
		return nil, errors.New("AddTorrent returned another torrent")
	}
	return s, nil
}

func (s *Sim) drainFake() {
	for {
		select {
		case e := <-s.Fake.Event:
			switch e := e.(type) {
			case peer.PeerHave:
				if e.Have {
					s.haveMu.Lock()
					s.haves[e.Index]++
					s.haveMu.Unlock()
				}
			case peer.PeerGetStatus:
				close(e.Ch)
			case drainMarker:
				close(e.ch)
			}
		case <-s.T.Deleted:
			return
		}
	}
}

// HaveCount: how many TorHave(i, true) the loop has handled (fake peer only).  Call after
// Sync: the broadcast precedes the end of the handler, the drain may lag by a moment.
func (s *Sim) HaveCount(i uint32) int {
	// a marker through the fake peer's own channel: when the drain goroutine answers it,
	// every broadcast the loop sent before (FIFO) has been counted
	m := drainMarker{make(chan struct{})}
	select {
	case s.Fake.Event <- m:
		select {
		case <-m.ch:
		case <-s.T.Deleted:
		}
	case <-s.T.Deleted:
	}
	s.haveMu.Lock()
	defer s.haveMu.Unlock()
	return s.haves[i]
}

type drainMarker struct{ ch chan struct{} }

// Fill stuffs Torrent.Event to capacity with harmless events (TorHave{_, false}: a
// broadcast to nobody).  Only meaningful while the loop is held.
func (s *Sim) Fill() int {
	n := 0
	for {
		select {
		case s.T.Event <- peer.TorHave{Index: 0, Have: false}:
			n++
		default:
			return n
		}
	}
}

// LastBlock delivers piece i the way two peers' goroutines would: AddData of every block
// (right or wrong content), then k TorData{Complete: true} events for the last block, so
// that the REAL handler starts the REAL finalisePiece goroutine(s), which announce through
// the real Torrent.Have.  Returns whether AddData reported the piece complete.
func (s *Sim) LastBlock(i uint32, wrong bool, k int) bool {
	s.mayFinalise.Store(true)
	off, end := s.PieceRange(i)
	data := append([]byte(nil), s.Ref(off, end)...)
	if wrong {
		data[len(data)/3] ^= 0x3c
	}
	const cs = 16384
	complete := false
	lastB, lastL := 0, 0
	for b := 0; b < len(data); b += cs {
		e := b + cs
		if e > len(data) {
			e = len(data)
		}
		_, c, err := s.T.Pieces.AddData(i, uint32(b), data[b:e], ^uint32(0))
		if err != nil {
			return false
		}
		complete = c
		lastB, lastL = b, e-b
	}
	if !complete {
		return false
	}
	for j := 0; j < k; j++ {
		select {
		case s.T.Event <- peer.TorData{Index: i, Begin: uint32(lastB), Length: uint32(lastL), Complete: true}:
		case <-s.T.Done:
			return false
		}
	}
	return true
}

// Quiesce waits until no piece of lo..hi is being hashed and the loop has handled what the
// hashing goroutines sent.
// LoopDead: has the event loop stopped?
func (s *Sim) LoopDead() bool {
	select {
	case <-s.T.Done:
		return true
	default:
		return false
	}
}

// finalising: is a goroutine of tor.finalisePiece alive anywhere in the process?  (It exists
// from the moment the TorData handler / getChunks executes the `go` statement until it has
// returned from Torrent.Have and Torrent.BadPeers, i.e. until its notifications are in the
// loop's queue.)  Exact: read from the runtime's goroutine table, not inferred from timing.
func finalising() bool {
	buf := make([]byte, 1<<20)
	for {
		n := runtime.Stack(buf, true)
		if n < len(buf) {
			return bytes.Contains(buf[:n], []byte("tor.finalisePiece"))
		}
		buf = make([]byte, 2*len(buf))
	}
}

// Quiesce returns when (1) every event sent so far has been handled, (2) no finalisePiece
// goroutine exists, (3) every event those goroutines sent has been handled, and (4) handling
// them started no new one.  The waits poll a condition; no verdict depends on their length.
// False: the loop is dead, or the condition was not reached within the watchdog.
func (s *Sim) Quiesce() bool {
	if !s.mayFinalise.Load() {
		return s.Sync()
	}
	deadline := time.Now().Add(15 * time.Second)
	for {
		if !s.Sync() { // goroutines started by queued TorData / unchoke events now exist
			return false
		}
		for finalising() {
			if time.Now().After(deadline) {
				return false
			}
			time.Sleep(200 * time.Microsecond)
		}
		if !s.Sync() { // their TorHave / TorBadPeer events are handled
			return false
		}
		if !finalising() { // … and the handlers (or a tick) started no new verification
			return true
		}
		if time.Now().After(deadline) {
			return false
		}
	}
}

// Snapshot returns Torrent.requested as read by the event loop after every event sent
// before this call has been handled.  nil, false when the loop is dead.
func (s *Sim) Snapshot() ([]tor.VerifRequestedPiece, bool) {
	select {
	case s.T.Event <- peer.TorDrop{Index: 0, Begin: 1, Length: 0}:
	case <-s.T.Done:
		return nil, false
	}
	select {
	case snap := <-s.snapCh:
		return snap, true
	case <-s.T.Done:
		// the probe may still have been handled before the loop stopped
		select {
		case snap := <-s.snapCh:
			return snap, true
		case <-time.After(200 * time.Millisecond):
			return nil, false
		}
	case <-time.After(10 * time.Second):
		panic("torsim: snapshot probe not answered (event loop stuck)")
	}
}

// Hold parks the event loop inside a harmless handler (TorData at an odd offset logs and
// returns): events sent from now on pile up in Torrent.Event.  False if the loop is dead.
func (s *Sim) Hold() bool {
	if s.rel != nil {
		return true
	}
	select {
	case s.T.Event <- peer.TorData{Begin: 1}:
	case <-s.T.Done:
		return false
	}
	select {
	case s.rel = <-s.heldCh:
		return true
	case <-s.T.Done:
		return false
	case <-time.After(10 * time.Second):
		panic("torsim: hold probe not answered (event loop stuck)")
	}
}

func (s *Sim) Held() bool { return s.rel != nil }

// Release lets the loop go on; `front` is handled first (events that were sent before the
// ones now waiting in the queue, by a sender that was faster).
func (s *Sim) Release(front []peer.TorEvent) {
	if s.rel == nil {
		return
	}
	s.rel <- front
	s.rel = nil
}

// Tick runs one real periodicRequest on the loop's goroutine (what the request ticker does).
func (s *Sim) Tick() bool {
	if !s.Hold() {
		return false
	}
	s.Release([]peer.TorEvent{func() { tor.VerifPeriodicRequest(context.Background(), s.T) }})
	return true
}

// Sync waits until every event sent so far has been handled by the loop.
func (s *Sim) Sync() bool {
	_, ok := s.Snapshot()
	return ok
}

func (s *Sim) PieceRange(i uint32) (int64, int64) {
	off := int64(i) * int64(s.PS)
	end := off + int64(s.PS)
	if end > s.Total {
		end = s.Total
	}
	return off, end
}

// Complete injects the true data of piece i the way a peer would (AddData block by block,
// Finalise with the torrent's hash, Have).  It returns whether Finalise verified it now.
func (s *Sim) Complete(i uint32) (bool, error) {
	return s.inject(i, false)
}

// Corrupt injects wrong data for piece i (hash failure expected).
func (s *Sim) Corrupt(i uint32) (bool, error) {
	return s.inject(i, true)
}

// Verify does what Complete does except telling the loop: the caller delivers the
// TorHave(i, true) itself (Release).
func (s *Sim) Verify(i uint32) (bool, error) { return s.injectOpt(i, false, false) }

// Garbage stores wrong bytes in piece i the way a corrupting peer's blocks would land
// (AddData only, no verification): the whole piece, or its first block only.
func (s *Sim) Garbage(i uint32, whole bool) {
	if whole {
		s.mayFinalise.Store(true) // a full bitmap: getChunks will hand it to finalisePiece
	}
	off, end := s.PieceRange(i)
	data := append([]byte(nil), s.Ref(off, end)...)
	for k := range data {
		data[k] ^= 0xA5
	}
	const cs = 16384
	for b := 0; b < len(data); b += cs {
		e := b + cs
		if e > len(data) {
			e = len(data)
		}
		s.T.Pieces.AddData(i, uint32(b), data[b:e], 9)
		if !whole {
			break
		}
	}
}

func (s *Sim) inject(i uint32, corrupt bool) (bool, error) { return s.injectOpt(i, corrupt, true) }

func (s *Sim) injectOpt(i uint32, corrupt bool, have bool) (bool, error) {
	off, end := s.PieceRange(i)
	data := append([]byte(nil), s.Ref(off, end)...)
	if corrupt {
		data[len(data)/2] ^= 0x5a
	}
	const cs = 16384
	complete := false
	for b := 0; b < len(data); b += cs {
		e := b + cs
		if e > len(data) {
			e = len(data)
		}
		_, c, err := s.T.Pieces.AddData(i, uint32(b), data[b:e], 7)
		if err != nil {
			return false, err
		}
		complete = c
	}
	if !complete {
		return false, nil // busy or already complete
	}
	done, _, err := s.T.Pieces.Finalise(i, s.T.PieceHashes[i])
	if done && have {
		s.T.Have(i, true)
	}
	if errors.Is(err, piece.ErrHashMismatch) {
		return false, nil
	}
	return done, err
}

// Evict evicts exactly piece i (if it holds data) through Pieces.Expire with the callback
// tor.Expire uses (Torrent.Have(index, false)).  Returns the pieces the callback reported.
func (s *Sim) Evict(i uint32) []uint32 {
	for j := s.Lo; j <= s.Hi; j++ {
		s.T.Pieces.VerifSetTime(uint32(j), 0xFFFFFFFF)
	}
	s.T.Pieces.VerifSetTime(i, 0)
	if !s.T.Pieces.VerifPiece(i).HasData {
		return nil
	}
	var evicted []uint32
	bytes := s.T.Pieces.Bytes() - int64(s.PS)
	s.T.Pieces.Expire(bytes, nil, func(index uint32) {
		evicted = append(evicted, index)
		s.T.Have(index, false)
	})
	for j := s.Lo; j <= s.Hi; j++ {
		s.T.Pieces.VerifSetTime(uint32(j), 0)
	}
	return evicted
}

// Kill stops the torrent the way the UI does and waits for the loop to be gone.
func (s *Sim) Kill() error {
	if s.killed {
		return nil
	}
	s.Release(nil)
	s.killed = true
	err := s.T.Kill(context.Background())
	select {
	case <-s.T.Deleted:
	case <-time.After(10 * time.Second):
		return fmt.Errorf("torrent not deleted 10 s after Kill (err=%v)", err)
	}
	s.Cancel()
	return err
}

func (s *Sim) HashString() string { return hash.Hash(s.T.Hash).String() }
