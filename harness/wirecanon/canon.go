// Package wirecanon: canonical text form of protocol messages (shared by the C04/C05/C06/
// C11/C16 harnesses; the Lean drivers print the same form) and a generator of messages
// built from the repo's own structs.
package wirecanon

import (
	"fmt"
	"net/netip"
	"sort"
	"strings"

	"github.com/jech/storrent/pex"
	"github.com/jech/storrent/protocol"

	"verifharness/vhlib"
)

func peers(ps []pex.Peer) string {
	var sb strings.Builder
	sb.WriteByte('[')
	for i, p := range ps {
		if i > 0 {
			sb.WriteByte(',')
		}
		a := p.Addr.Addr()
		var ip []byte
		if a.Is4() {
			v := a.As4()
			ip = v[:]
		} else {
			v := a.As16()
			ip = v[:]
		}
		fmt.Fprintf(&sb, "%s:%d:%d", vhlib.Hex(ip), p.Addr.Port(), p.Flags)
	}
	sb.WriteByte(']')
	return sb.String()
}

func addr(a netip.Addr) string {
	if !a.IsValid() {
		return "-"
	}
	return vhlib.Hex(a.AsSlice())
}

// Canon renders a protocol.Message; "nil" for a nil message, "?<type>" for unknown types.
// Long payloads are abbreviated as #len:fnv64.
func Canon(m protocol.Message) string { return canon(m, vhlib.Payload) }

// CanonFull is Canon with every payload in full hex (used in op lines, which the Lean
// driver parses back into a message).
func CanonFull(m protocol.Message) string { return canon(m, vhlib.Hex) }

func canon(m protocol.Message, pl func([]byte) string) string {
	switch m := m.(type) {
	case nil:
		return "nil"
	case protocol.KeepAlive:
		return "KeepAlive"
	case protocol.Choke:
		return "Choke"
	case protocol.Unchoke:
		return "Unchoke"
	case protocol.Interested:
		return "Interested"
	case protocol.NotInterested:
		return "NotInterested"
	case protocol.Have:
		return fmt.Sprintf("Have %d", m.Index)
	case protocol.Bitfield:
		return "Bitfield " + pl(m.Bitfield)
	case protocol.Request:
		return fmt.Sprintf("Request %d %d %d", m.Index, m.Begin, m.Length)
	case protocol.Piece:
		return fmt.Sprintf("Piece %d %d %s", m.Index, m.Begin, pl(m.Data))
	case protocol.Cancel:
		return fmt.Sprintf("Cancel %d %d %d", m.Index, m.Begin, m.Length)
	case protocol.Port:
		return fmt.Sprintf("Port %d", m.Port)
	case protocol.SuggestPiece:
		return fmt.Sprintf("Suggest %d", m.Index)
	case protocol.HaveAll:
		return "HaveAll"
	case protocol.HaveNone:
		return "HaveNone"
	case protocol.RejectRequest:
		return fmt.Sprintf("Reject %d %d %d", m.Index, m.Begin, m.Length)
	case protocol.AllowedFast:
		return fmt.Sprintf("AllowedFast %d", m.Index)
	case protocol.Extended0:
		keys := make([]string, 0, len(m.Messages))
		for k := range m.Messages {
			keys = append(keys, k)
		}
		sort.Strings(keys)
		var ms []string
		for _, k := range keys {
			ms = append(ms, fmt.Sprintf("%s:%d", vhlib.Hex([]byte(k)), m.Messages[k]))
		}
		b := func(v bool) int {
			if v {
				return 1
			}
			return 0
		}
		return fmt.Sprintf("Ext0 v=%s p=%d reqq=%d ipv4=%s ipv6=%s ms=%d m=[%s] uo=%d e=%d",
			vhlib.Hex([]byte(m.Version)), m.Port, m.ReqQ, addr(m.IPv4), addr(m.IPv6),
			m.MetadataSize, strings.Join(ms, ";"), b(m.UploadOnly), b(m.Encrypt))
	case protocol.ExtendedPex:
		return fmt.Sprintf("Pex %d a=%s d=%s", m.Subtype, peers(m.Added), peers(m.Dropped))
	case protocol.ExtendedMetadata:
		return fmt.Sprintf("Meta %d %d %d %d %s", m.Subtype, m.Type, m.Piece, m.TotalSize,
			pl(m.Data))
	case protocol.ExtendedDontHave:
		return fmt.Sprintf("DontHave %d %d", m.Subtype, m.Index)
	case protocol.ExtendedUploadOnly:
		v := 0
		if m.Value {
			v = 1
		}
		return fmt.Sprintf("UploadOnly %d %d", m.Subtype, v)
	case protocol.ExtendedUnknown:
		return fmt.Sprintf("ExtUnknown %d", m.Subtype)
	case protocol.Unknown:
		s := fmt.Sprintf("%v", m) // {tpe}
		return "Unknown " + strings.Trim(s, "{}")
	case protocol.Error:
		return fmt.Sprintf("Error %v", m.Error)
	case protocol.Flush:
		return "Flush"
	default:
		return fmt.Sprintf("?%T", m)
	}
}

var boundary32 = []uint32{0, 1, 2, 7, 8, 255, 256, 16383, 16384, 16385, 65535, 65536,
	1<<20 - 1, 1 << 20, 1<<31 - 1, 1 << 31, 1<<32 - 2, 1<<32 - 1}

func U32(r *vhlib.Rand) uint32 {
	if r.Chance(60) {
		return boundary32[r.Intn(len(boundary32))]
	}
	if r.Chance(50) {
		return uint32(r.Intn(100000))
	}
	return r.U32()
}

func payloadLen(r *vhlib.Rand, max int) int {
	switch r.Intn(10) {
	case 0:
		return 0
	case 1:
		return 1
	case 2:
		return 16384
	case 3:
		return r.PickInt(16383, 16385, 32768, 4096, 33)
	case 4:
		if r.Chance(15) {
			return max
		}
		return r.Intn(200)
	default:
		return r.Intn(64)
	}
}

func RandPeer(r *vhlib.Rand, v6 bool) pex.Peer {
	var a netip.Addr
	if v6 {
		var b [16]byte
		copy(b[:], r.Bytes(16))
		if r.Chance(15) { // 4-in-6
			copy(b[:], []byte{0, 0, 0, 0, 0, 0, 0, 0, 0, 0, 0xff, 0xff})
		}
		a = netip.AddrFrom16(b)
	} else {
		var b [4]byte
		copy(b[:], r.Bytes(4))
		a = netip.AddrFrom4(b)
	}
	return pex.Peer{Addr: netip.AddrPortFrom(a, uint16(U32(r))), Flags: byte(r.PickInt(0, 1, 2, 3, 0x10, 0x13, 255))}
}

func randPeers(r *vhlib.Rand, flags bool) []pex.Peer {
	n := r.PickInt(0, 0, 1, 2, 3, 7)
	var ps []pex.Peer
	for i := 0; i < n; i++ {
		p := RandPeer(r, r.Bool())
		if !flags {
			p.Flags = 0
		}
		ps = append(ps, p)
	}
	return ps
}

// RandMsg draws a message storrent can emit (every case of protocol.Write).
// maxPayload bounds Piece/Bitfield/Metadata payloads.
func RandMsg(r *vhlib.Rand, maxPayload int) protocol.Message {
	switch r.Intn(20) {
	case 0:
		return protocol.KeepAlive{}
	case 1:
		return protocol.Choke{}
	case 2:
		return protocol.Unchoke{}
	case 3:
		return protocol.Interested{}
	case 4:
		return protocol.NotInterested{}
	case 5:
		return protocol.Have{Index: U32(r)}
	case 6:
		return protocol.Bitfield{Bitfield: r.Bytes(payloadLen(r, maxPayload))}
	case 7:
		return protocol.Request{Index: U32(r), Begin: U32(r), Length: U32(r)}
	case 8:
		return protocol.Piece{Index: U32(r), Begin: U32(r), Data: r.Bytes(payloadLen(r, maxPayload-8))}
	case 9:
		return protocol.Cancel{Index: U32(r), Begin: U32(r), Length: U32(r)}
	case 10:
		return protocol.Port{Port: uint16(U32(r))}
	case 11:
		return protocol.SuggestPiece{Index: U32(r)}
	case 12:
		return protocol.HaveAll{}
	case 13:
		return protocol.HaveNone{}
	case 14:
		return protocol.RejectRequest{Index: U32(r), Begin: U32(r), Length: U32(r)}
	case 15:
		return protocol.AllowedFast{Index: U32(r)}
	case 16:
		m := protocol.Extended0{}
		if r.Bool() {
			m.Version = string(r.Bytes(r.Intn(12)))
		}
		if r.Bool() {
			m.Port = uint16(U32(r))
		}
		if r.Bool() {
			m.ReqQ = U32(r)
		}
		if r.Bool() {
			m.MetadataSize = U32(r)
		}
		if r.Chance(30) {
			var b [4]byte
			copy(b[:], r.Bytes(4))
			m.IPv4 = netip.AddrFrom4(b)
		}
		if r.Chance(30) {
			var b [16]byte
			copy(b[:], r.Bytes(16))
			m.IPv6 = netip.AddrFrom16(b)
		}
		if r.Bool() {
			m.Messages = map[string]uint8{}
			names := []string{"ut_pex", "ut_metadata", "lt_donthave", "upload_only", "x", ""}
			k := r.Intn(5)
			for i := 0; i < k; i++ {
				m.Messages[names[r.Intn(len(names))]] = uint8(r.U64())
			}
			if len(m.Messages) == 0 && r.Bool() {
				m.Messages = nil
			}
		}
		m.UploadOnly = r.Bool()
		m.Encrypt = r.Bool()
		return m
	case 17:
		sub := uint8(1 + r.Intn(255))
		return protocol.ExtendedPex{Subtype: sub, Added: randPeers(r, true), Dropped: randPeers(r, false)}
	case 18:
		sub := uint8(1 + r.Intn(255))
		m := protocol.ExtendedMetadata{Subtype: sub, Type: uint8(r.PickInt(0, 1, 2, 3, 255)), Piece: U32(r)}
		if r.Bool() {
			m.TotalSize = U32(r)
		}
		if r.Bool() {
			m.Data = r.Bytes(payloadLen(r, maxPayload-64))
			if len(m.Data) == 0 {
				m.Data = nil
			}
		}
		return m
	default:
		sub := uint8(1 + r.Intn(255))
		return protocol.ExtendedDontHave{Subtype: sub, Index: U32(r)}
	}
}
