package piecelib

import (
	"crypto/sha1"
	"fmt"
	"runtime"
	"strconv"
	"strings"
	"sync/atomic"
	"time"

	"github.com/jech/storrent/alloc"
	"github.com/jech/storrent/config"
	"github.com/jech/storrent/hash"
	"github.com/jech/storrent/peer"
	"github.com/jech/storrent/tor"

	"verifharness/vhlib"
)

// tor.Expire cases: real torrents in the global table, filled with complete pieces,
// config.MemoryMark swept (0 and tiny values included), the verif yield between the
// alloc.Bytes() sample and the table walk used to delete / unregister torrents.
//   tex <mark> <ps:cnt;ps:cnt…|-> <none|pd:k|td:k|pdall|tdall> [q:<free>:<step>]
// `q:free:step` = queue pressure: when a torrent answers GetAvailable (i.e. just before its
// eviction pass starts) its event queue (capacity 512, nobody draining) is filled up to
// `free` remaining slots; the pass must BLOCK in Torrent.Have(index,false) rather than lose
// a notification.  Once everything has come to rest, `step` events are drained (room
// appears little by little), then the queue is drained completely: exactly one
// TorHave{i,false} per complete piece discarded must come out of it.

type ptor struct {
	t     *tor.Torrent
	ps    uint32
	cnt   int
	haves atomic.Int64
	stop  chan struct{}
	// queue pressure
	free    int      // -1: no pressure (the queue is always drained)
	drainCh chan int // how many events to drain next (-1: from now on, everything)
	filled  atomic.Bool
}

type fillerEvent struct{} // a harmless event nobody interprets

func (p *ptor) handle(e peer.TorEvent) {
	switch ev := e.(type) {
	case peer.TorGetAvailable:
		if p.free >= 0 && !p.filled.Load() {
			// the torrent's loop is "busy": its queue fills up and is not drained
			for len(p.t.Event) < cap(p.t.Event)-p.free {
				select {
				case p.t.Event <- fillerEvent{}:
				default:
				}
			}
			p.filled.Store(true)
		}
		ev.Ch <- make([]uint16, p.t.Pieces.Num())
		close(ev.Ch)
	case peer.TorHave:
		if !ev.Have {
			p.haves.Add(1)
		}
	}
}

func (p *ptor) serve() {
	for {
		if p.filled.Load() { // under pressure: drain only what the controller allows
			select {
			case n := <-p.drainCh:
				if n < 0 {
					p.filled.Store(false)
					p.free = -1
					continue
				}
				for ; n > 0; n-- {
					select {
					case e := <-p.t.Event:
						p.handle(e)
					default:
					}
				}
			case <-p.stop:
				return
			}
			continue
		}
		select {
		case e := <-p.t.Event:
			p.handle(e)
		case <-p.stop:
			return
		}
	}
}

// waitRest waits until nothing moves any more: allocation, queue lengths and the number
// of goroutines unchanged for 40 ms (a pass blocked in Have, or finished); bounded.
func waitRest(pts []*ptor) {
	sig := func() string {
		s := fmt.Sprint(alloc.Bytes(), runtime.NumGoroutine())
		for _, p := range pts {
			s += fmt.Sprint(" ", len(p.t.Event), p.t.Pieces.Count())
		}
		return s
	}
	last, same := sig(), 0
	for w := 0; w < 10000 && same < 40; w++ {
		time.Sleep(time.Millisecond)
		if c := sig(); c == last {
			same++
		} else {
			last, same = c, 0
		}
	}
}

func genPolicyCase(c *vhlib.Ctx, r *vhlib.Rand, idx int) {
	n := r.PickInt(0, 1, 1, 2, 2, 3, 4)
	var ts []string
	var space int64
	for k := 0; k < n; k++ {
		ps := r.PickInt(16384, 16384, 32768, 65536)
		cnt := r.PickInt(0, 1, 2, 3, 5, 8)
		ts = append(ts, fmt.Sprintf("%d:%d", ps, cnt))
		space += int64(ps) * int64(cnt)
	}
	var mark int64
	switch r.Intn(8) {
	case 0:
		mark = 0
	case 1:
		mark = 1 + int64(r.Intn(8))
	case 2:
		mark = space
	case 3:
		mark = space * 8 / 7
	case 4:
		mark = space*2 + 1
	default:
		mark = int64(r.Intn(int(space) + 2))
	}
	act := "none"
	if n > 0 {
		switch r.Intn(8) {
		case 0:
			act = fmt.Sprintf("pd:%d", r.Intn(n))
		case 1:
			act = fmt.Sprintf("td:%d", r.Intn(n))
		case 2:
			act = "pdall"
		case 3:
			act = "tdall"
		}
	}
	t := "-"
	if len(ts) > 0 {
		t = strings.Join(ts, ";")
	}
	line := fmt.Sprintf("tex %d %s %s", mark, t, act)
	if n > 0 && r.Chance(45) {
		line += fmt.Sprintf(" q:%d:%d", r.PickInt(0, 0, 0, 1, 2, 5), r.PickInt(0, 0, 1, 1, 3))
	}
	doPolicy(c, line)
}

func doPolicy(c *vhlib.Ctx, line string) {
	f := strings.Fields(line)
	if len(f) != 4 && len(f) != 5 {
		return
	}
	qfree, qstep := -1, 0
	if len(f) == 5 {
		if n, _ := fmt.Sscanf(f[4], "q:%d:%d", &qfree, &qstep); n != 2 || qfree < 0 || qfree > 511 || qstep < 0 || qstep > 1024 {
			return
		}
	}
	c.NewCase()
	journal(line)
	progress.Add(1)
	failLeft.Store(0)
	curEngine = nil // goroutines spawned by tor.Expire run freely through the yield points
	mark, _ := strconv.ParseInt(f[1], 10, 64)
	var pts []*ptor
	base := alloc.Bytes()
	if f[2] != "-" {
		for k, s := range strings.Split(f[2], ";") {
			a := strings.Split(s, ":")
			if len(a) != 2 {
				return
			}
			ps, _ := strconv.Atoi(a[0])
			cnt, _ := strconv.Atoi(a[1])
			if ps < CS || ps%CS != 0 || ps > 1<<20 || cnt < 0 || cnt > 64 || k > 8 {
				return
			}
			hh := sha1.Sum([]byte(fmt.Sprintf("verif-torrent-%d", k)))
			t, err := tor.New("", hash.Hash(hh[:]), fmt.Sprintf("t%d", k), nil, 0, nil, nil)
			if err != nil {
				return
			}
			tor.VerifInit(t, 512, uint64(k))
			np := cnt + 2
			t.Pieces.MetadataComplete(uint32(ps), int64(np)*int64(ps))
			for i := 0; i < cnt; i++ {
				data := contentSlice(uint64(k+1), i*ps, ps)
				for b := 0; b < ps; b += CS {
					t.Pieces.AddData(uint32(i), uint32(b), data[b:b+CS], 1)
				}
				h := sha1.Sum(data)
				if done, _, _ := t.Pieces.Finalise(uint32(i), hash.Hash(h[:])); !done {
					c.Violate("expire-policy:setup", "could not fill a piece", []string{line})
				}
				t.Pieces.VerifSetTime(uint32(i), uint32(1+i))
			}
			p := &ptor{t: t, ps: uint32(ps), cnt: cnt, stop: make(chan struct{}), free: qfree,
				drainCh: make(chan int)}
			tor.VerifAdd(t)
			go p.serve()
			pts = append(pts, p)
		}
	}
	act := f[3]
	sel := func() []*ptor {
		switch {
		case act == "pdall" || act == "tdall":
			return pts
		case strings.HasPrefix(act, "pd:") || strings.HasPrefix(act, "td:"):
			k, err := strconv.Atoi(act[3:])
			if err == nil && k >= 0 && k < len(pts) {
				return pts[k : k+1]
			}
		}
		return nil
	}()
	tor.VerifSetExpireYield(func() {
		for _, p := range sel {
			if strings.HasPrefix(act, "pd") {
				p.t.Pieces.Del()
			} else {
				tor.VerifDel(p.t.Hash)
			}
		}
	})
	old := config.MemoryMark
	config.MemoryMark = mark
	time.Sleep(time.Millisecond)
	g0 := runtime.NumGoroutine()
	rc := 0
	type res struct {
		rc int
		p  string
	}
	ch := make(chan res, 1)
	go func() {
		var rr res
		rr.p = vhlib.Recover(func() { rr.rc = tor.Expire() })
		ch <- rr
	}()
	obs := ""
	panicked := ""
	select {
	case rr := <-ch:
		rc, panicked = rr.rc, rr.p
	case <-time.After(60 * time.Second):
		panicked = "hang"
	}
	if qfree >= 0 && panicked == "" {
		// let every pass run until it has finished or is blocked on the full queue, then
		// make room: first `qstep` events, finally everything
		release := func(n int) {
			for _, p := range pts {
				if p.filled.Load() {
					select {
					case p.drainCh <- n:
					case <-time.After(5 * time.Second):
					}
				}
			}
		}
		waitRest(pts)
		if qstep > 0 {
			release(qstep)
			waitRest(pts)
		}
		release(-1)
	}
	// quiescence: the per-torrent eviction goroutines have returned
	for w := 0; w < 20000 && runtime.NumGoroutine() > g0; w++ {
		time.Sleep(500 * time.Microsecond)
	}
	for w := 0; w < 2000; w++ {
		busy := false
		for _, p := range pts {
			if len(p.t.Event) > 0 {
				busy = true
			}
		}
		if !busy {
			break
		}
		time.Sleep(500 * time.Microsecond)
	}
	time.Sleep(time.Millisecond)
	config.MemoryMark = old
	tor.VerifSetExpireYield(nil)
	var fin, hv []string
	evictedOK := true
	for _, p := range pts {
		cn := p.t.Pieces.Count()
		fin = append(fin, fmt.Sprint(cn))
		hv = append(hv, fmt.Sprint(p.haves.Load()))
		before := p.cnt
		isPd := strings.HasPrefix(act, "pd") && func() bool {
			for _, q := range sel {
				if q == p {
					return true
				}
			}
			return false
		}()
		if !isPd && int(p.haves.Load()) != before-cn {
			evictedOK = false
		}
	}
	if panicked != "" {
		obs = "panic " + canonPanic(panicked)
		c.Violate("expire-policy:panic:"+canonPanic(panicked)+":"+policyShape(mark, len(pts), act),
			"tor.Expire() panicked: "+panicked, []string{line})
	} else {
		j := func(l []string) string {
			if len(l) == 0 {
				return "-"
			}
			return strings.Join(l, ";")
		}
		obs = fmt.Sprintf("rc=%d final=%s have=%s", rc, j(fin), j(hv))
		low := mark * 7 / 8
		if act == "none" && rc < 0 && alloc.Bytes()-base > low {
			c.Violate("expire-policy:low-mark-missed", fmt.Sprintf("after the pass alloc.Bytes()=%d, low mark %d", alloc.Bytes()-base, low), []string{line})
		}
		if !evictedOK && qfree >= 0 {
			c.Violate("notify:lost-piece-unreported", "complete pieces were discarded while the torrent's event queue was full and their Have(false) notifications never arrived (the pass must block until there is room): "+obs, []string{line})
		} else if !evictedOK {
			c.Violate("expire-policy:have-events", "the evicted complete pieces were not all reported by Have(false): "+obs, []string{line})
		}
		if rc >= 0 {
			for k, p := range pts {
				if fin[k] != fmt.Sprint(p.cnt) && !strings.HasPrefix(act, "pd") {
					c.Violate("expire-policy:evicted-below-high-mark", "pieces were evicted although the pass reported nothing to do: "+obs, []string{line})
				}
			}
		}
	}
	c.Emit(line, obs)
	tag := "tex " + act[:2]
	if qfree >= 0 {
		tag += " q"
	}
	if panicked != "" {
		tag += " -> panic"
	} else {
		tag += fmt.Sprintf(" -> rc=%d", rc)
	}
	c.Count(tag, line, true)
	for _, p := range pts {
		close(p.stop)
		tor.VerifDel(p.t.Hash)
		p.t.Pieces.Del()
	}
	if d := alloc.Bytes() - base; d != 0 {
		c.Violate("leak:case-end", fmt.Sprintf("%d bytes still accounted after every torrent was deleted", d), []string{line})
	}
}

func policyShape(mark int64, n int, act string) string {
	m := "mark>0"
	if mark == 0 {
		m = "mark=0"
	}
	t := "torrents>0"
	if n == 0 {
		t = "torrents=0"
	}
	return m + "," + t + "," + act[:2]
}
