// Package piecelib: harness shared by cmd/c01 and cmd/c03.  It drives the REAL
// piece.Pieces (tor/piece/piece.go) with worker goroutines whose interleaving is fixed
// by the yield controller: exactly one goroutine is runnable at any time, it runs from
// one named yield point of piece.go to the next (= one atomic step of the Lean model),
// and the schedule is drawn from the seed.  Every segment is one op line + one
// observation line (correspondence with lean/Storrent/Model/PieceThreads.lean), and after
// every segment the property oracle (oracle.go) is evaluated on the real store.
package piecelib

import (
	"crypto/sha1"
	"errors"
	"fmt"
	"os"
	"strings"
	"sync/atomic"
	"syscall"
	"time"

	"github.com/jech/storrent/alloc"
	"github.com/jech/storrent/hash"
	"github.com/jech/storrent/mono"
	"github.com/jech/storrent/tor/piece"

	"verifharness/vhlib"
)

const CS = 16384

// ---------------------------------------------------------------- reference content

func contentByte(seed uint64, o uint64) byte {
	z := seed + (o/8+1)*0x9E3779B97F4A7C15
	z = (z ^ (z >> 30)) * 0xBF58476D1CE4E5B9
	z = (z ^ (z >> 27)) * 0x94D049BB133111EB
	z = z ^ (z >> 31)
	return byte(z>>(8*(o%8))) | 1
}

func contentSlice(seed uint64, src, n int) []byte {
	b := make([]byte, n)
	for k := range b {
		b[k] = contentByte(seed, uint64(src+k))
	}
	return b
}

// ---------------------------------------------------------------- stores

type psnap struct {
	State   uint32
	HasData bool
	DataLen int
	Bitmap  []byte
	Peers   []uint32
	Data    []byte // copy of the buffer (nil if none)
}

type store struct {
	sid     int
	ps      *piece.Pieces
	psize   uint32
	length  int64
	cseed   uint64
	n       int
	ref     []byte
	refHash [][]byte
	last    []psnap // state after the last segment (= current state: nothing else runs)
	// oracle bookkeeping
	verified         []bool // Finalise against the metainfo hash succeeded and the piece was not dropped since
	times            []uint32
	delDone          bool // Pieces.Del() has returned
	delBegun         bool
	delLatchedBefore bool // ... before the segment now running began
}

func (st *store) pieceLen(i int) int {
	if i < 0 || i >= st.n {
		return 0
	}
	if i == st.n-1 {
		return int(st.length - int64(i)*int64(st.psize))
	}
	return int(st.psize)
}

func (st *store) chunks(i int) int { return (st.pieceLen(i) + CS - 1) / CS }

func newStore(sid int, psize uint32, length int64, cseed uint64) *store {
	st := &store{sid: sid, psize: psize, length: length, cseed: cseed}
	st.ps = &piece.Pieces{}
	st.ps.MetadataComplete(psize, length)
	st.n = st.ps.Num()
	st.ref = contentSlice(cseed, 0, int(length))
	for i := 0; i < st.n; i++ {
		lo := i * int(psize)
		h := sha1.Sum(st.ref[lo : lo+st.pieceLen(i)])
		st.refHash = append(st.refHash, h[:])
	}
	st.last = make([]psnap, st.n)
	st.verified = make([]bool, st.n)
	st.times = make([]uint32, st.n)
	return st
}

func (st *store) snapPiece(i int, withData bool) psnap {
	v := st.ps.VerifPiece(uint32(i))
	s := psnap{State: v.State, HasData: v.HasData, DataLen: v.DataLen, Bitmap: v.Bitmap, Peers: v.Peers}
	if withData && v.HasData {
		s.Data = st.ps.VerifData(uint32(i))
	}
	return s
}

func natsStr(l []uint32) string {
	if len(l) == 0 {
		return "-"
	}
	var sb strings.Builder
	for i, v := range l {
		if i > 0 {
			sb.WriteByte(';')
		}
		fmt.Fprintf(&sb, "%d", v)
	}
	return sb.String()
}

func (s *psnap) str(buf bool) string {
	dl, fv := "-", "-"
	if s.HasData {
		dl, fv = "+", "."
		if buf { // the segment may have written this buffer: length and digest
			dl = fmt.Sprint(s.DataLen)
			fv = fmt.Sprint(vhlib.Fnv64(s.Data))
		}
	}
	return fmt.Sprintf("%d,%s,%s,%s,%s", s.State, dl, vhlib.Hex(s.Bitmap), natsStr(s.Peers), fv)
}

// ---------------------------------------------------------------- workers and the yield controller

type segReport struct {
	yield bool
	point string
	idx   uint32
	ret   string
	cbs   []uint32
}

type callInfo struct {
	api      string
	st       *store
	idx      int
	contract bool // arguments respect the callers' contract (index in range, off >= 0)
	// add
	begin    uint32
	data     []byte
	peer     uint32
	count    uint32
	cpl      bool
	panicked string
	// fin
	hash  []byte
	right bool
	// read
	off int64
	buf []byte
	got int
	err error
	// exp
	target     int64
	now        uint32
	avail      []uint16
	ages       []uint32
	visits     []uint32
	evicted    int
	otherAdds  bool
	busySkips  bool
	allocStart int64
	// delall
	delFrom int
}

type worker struct {
	tid    int
	start  chan func() string
	resume chan struct{}
	report chan segReport
	call   *callInfo // nil when idle
	point  string    // where it is paused
	idx    uint32
	cbs    []uint32
}

type engine struct {
	cur     *worker
	workers []*worker
}

var curEngine *engine

func yieldFn(point string, idx uint32) {
	e := curEngine
	if e == nil || e.cur == nil {
		return
	}
	w := e.cur
	cbs := w.cbs
	w.cbs = nil
	w.report <- segReport{yield: true, point: point, idx: idx, cbs: cbs}
	<-w.resume
}

func canonPanic(p string) string {
	for _, k := range []string{"index out of range", "slice bounds out of range", "integer divide by zero",
		"Negative pieces count", "wrong piece state", "nil pointer dereference"} {
		if strings.Contains(p, k) {
			return k
		}
	}
	if len(p) > 80 {
		p = p[:80]
	}
	return strings.ReplaceAll(p, "\n", " ")
}

func (w *worker) loop() {
	for f := range w.start {
		res := ""
		p := vhlib.Recover(func() { res = f() })
		if p != "" {
			res = "r:panic " + canonPanic(p)
		}
		cbs := w.cbs
		w.cbs = nil
		w.report <- segReport{ret: res, cbs: cbs}
	}
}

func newEngine(nthreads int) *engine {
	e := &engine{}
	for i := 0; i < nthreads; i++ {
		w := &worker{tid: i, start: make(chan func() string), resume: make(chan struct{}),
			report: make(chan segReport)}
		e.workers = append(e.workers, w)
		go w.loop()
	}
	return e
}

func (e *engine) stop() {
	for _, w := range e.workers {
		if w.call == nil {
			close(w.start)
		}
	}
}

// failLeft: the next failLeft calls of alloc.Alloc fail (op `failalloc k`); consulted by the
// hook alloc.VerifSetFailAlloc from whichever goroutine allocates.
var failLeft atomic.Int64

func failAllocFn(size int) bool {
	for {
		n := failLeft.Load()
		if n <= 0 {
			return false
		}
		if failLeft.CompareAndSwap(n, n-1) {
			return true
		}
	}
}

var journalF *os.File

func journal(s string) {
	if journalF != nil {
		journalF.WriteString(s + "\n")
	}
}

// watchdog: the controller bumps `progress` at every segment; if nothing moves for 30 s
// (a worker never reaches a yield point, or the store's lock was left held and the
// controller's own snapshot blocks) the case is reported as a hang by the supervisor.
var progress atomic.Int64

func startWatchdog() {
	go func() {
		last, since := int64(-1), time.Now()
		for {
			time.Sleep(500 * time.Millisecond)
			if p := progress.Load(); p != last {
				last, since = p, time.Now()
			} else if time.Since(since) > 30*time.Second {
				journal("HANG")
				fmt.Fprintln(os.Stderr, "HANG: no progress for 30 s (a call never returned or the store's lock is held)")
				os.Exit(3)
			}
		}
	}()
}

func (e *engine) wait(w *worker) segReport {
	progress.Add(1)
	r := <-w.report
	progress.Add(1)
	return r
}

func (e *engine) startCall(w *worker, f func() string) segReport {
	e.cur = w
	w.start <- f
	r := e.wait(w)
	e.cur = nil
	return r
}

func (e *engine) resumeW(w *worker) segReport {
	e.cur = w
	w.resume <- struct{}{}
	r := e.wait(w)
	e.cur = nil
	return r
}

// ---------------------------------------------------------------- API closures

func errTok(err error) string {
	switch {
	case err == nil:
		return "ok"
	case errors.Is(err, piece.ErrDeleted):
		return "deleted"
	case errors.Is(err, piece.ErrHashMismatch):
		return "mismatch"
	case errors.Is(err, syscall.ENOMEM):
		return "nomem"
	case err.Error() == "adding data at odd offset":
		return "odd"
	case err.Error() == "adding data beyond end of piece":
		return "beyond"
	}
	return "other:" + err.Error()
}

func b01(b bool) int {
	if b {
		return 1
	}
	return 0
}

func (w *worker) closure(ci *callInfo) func() string {
	st := ci.st
	switch ci.api {
	case "add":
		return func() string {
			c, cpl, err := st.ps.AddData(uint32(ci.idx), ci.begin, ci.data, ci.peer)
			ci.count, ci.cpl, ci.err = c, cpl, err
			return fmt.Sprintf("r:add c=%d cpl=%d e=%s", c, b01(cpl), errTok(err))
		}
	case "fin":
		return func() string {
			done, peers, err := st.ps.Finalise(uint32(ci.idx), hash.Hash(ci.hash))
			ci.got = b01(done)
			ci.err = err
			return fmt.Sprintf("r:fin done=%d peers=%s e=%s", b01(done), natsStr(peers), errTok(err))
		}
	case "exp":
		return func() string {
			mono.VerifSetAge(ci.now)
			n := st.ps.Expire(ci.target, ci.avail, func(index uint32) {
				w.cbs = append(w.cbs, index)
			})
			ci.got = n
			return fmt.Sprintf("r:exp n=%d", n)
		}
	case "delall":
		return func() string {
			st.ps.Del()
			return "r:del"
		}
	case "read":
		return func() string {
			n, err := st.ps.ReadAt(ci.buf, ci.off)
			ci.got = n
			ci.err = err
			e := "ok"
			if err != nil {
				e = "eof"
				if err.Error() != "EOF" {
					e = "other:" + err.Error()
				}
			}
			return fmt.Sprintf("r:read n=%d e=%s fnv=%d", n, e, vhlib.Fnv64(ci.buf[:n]))
		}
	case "hole":
		return func() string {
			a, b := st.ps.Hole(uint32(ci.idx), ci.begin)
			return fmt.Sprintf("r:hole %d %d", a, b)
		}
	case "upd":
		return func() string {
			mono.VerifSetAge(ci.now)
			c := st.ps.UpdateTime(uint32(ci.idx))
			return fmt.Sprintf("r:upd %d", b01(c))
		}
	case "settime":
		return func() string {
			st.ps.VerifSetTime(uint32(ci.idx), ci.now)
			return "r:settime"
		}
	case "bitmap":
		return func() string {
			bm := st.ps.Bitmap()
			return fmt.Sprintf("r:bm %s all=%d", vhlib.Hex(bm), b01(st.ps.All()))
		}
	}
	return func() string { return "r:?" }
}

// ---------------------------------------------------------------- a case

type caseRun struct {
	c         *vhlib.Ctx
	e         *engine
	stores    []*store
	base      int64 // alloc.Bytes() at case start
	segs      int
	lastAlloc int64
	seenKinds map[string]bool
}

func (cr *caseRun) storeBy(sid int) *store {
	for _, s := range cr.stores {
		if s.sid == sid {
			return s
		}
	}
	return nil
}

func (cr *caseRun) snapStr(st *store, touched func(int) bool) string {
	var sb strings.Builder
	fmt.Fprintf(&sb, "cnt=%d del=%d al=%d", st.ps.Count(), b01(st.ps.VerifDeleted()), alloc.Bytes()-cr.base)
	for i := 0; i < st.n; i++ {
		fmt.Fprintf(&sb, " P%d=%s", i, st.last[i].str(touched(i)))
	}
	return sb.String()
}

func (cr *caseRun) emit(op, obs string) {
	cr.c.Emit(op, obs)
	cr.segs++
}

// refresh takes the new snapshot of st; data copies only for the touched pieces (all at `end`)
func (cr *caseRun) refresh(st *store, touched func(int) bool) (prev []psnap) {
	prev = st.last
	cur := make([]psnap, st.n)
	for i := 0; i < st.n; i++ {
		cur[i] = st.snapPiece(i, true)
	}
	st.last = cur
	return prev
}

// doSegment runs one segment of worker w (start of a call when ci != nil, else a resume),
// emits the line and evaluates the oracle.
func (cr *caseRun) doSegment(w *worker, ci *callInfo, opLine string) {
	journal(opLine)
	var rep segReport
	var st *store
	pausedAt, pausedIdx := "", uint32(0)
	if ci != nil {
		w.call = ci
		st = ci.st
		rep = cr.e.startCall(w, w.closure(ci))
	} else {
		ci = w.call
		st = ci.st
		pausedAt, pausedIdx = w.point, w.idx
		rep = cr.e.resumeW(w)
	}
	cb := "-"
	if len(rep.cbs) > 0 {
		cb = natsStr(rep.cbs)
	}
	ev := ""
	if rep.yield {
		w.point, w.idx = rep.point, rep.idx
		if rep.point == "expire.visit" {
			ev = "y:expire.visit cb=" + cb
		} else {
			ev = fmt.Sprintf("y:%s:%d", rep.point, rep.idx)
		}
	} else {
		ev = rep.ret
		if ci.api == "exp" && strings.HasPrefix(ev, "r:exp") {
			ev += " cb=" + cb
		}
		w.call = nil
		w.point = ""
	}
	tidx := -1
	switch {
	case ci.api == "add" && pausedAt == "adddata.prelock", ci.api == "fin" && pausedAt == "finalise.hashed":
		tidx = ci.idx // the critical sections that can change a buffer
	case ci.api == "exp" && pausedAt == "expire.visit":
		tidx = int(pausedIdx)
	}
	touched := func(i int) bool { return i == tidx }
	prev := cr.refresh(st, touched)
	cr.emit(opLine, ev+" | "+cr.snapStr(st, touched))
	cr.oracle(w, ci, st, prev, rep, pausedAt, pausedIdx, ev)
	tag := ci.api
	if pausedAt != "" {
		tag += "@" + pausedAt
	}
	evk := ev
	if i := strings.Index(evk, " "); i > 0 && !strings.HasPrefix(evk, "r:add") && !strings.HasPrefix(evk, "r:fin") {
		evk = evk[:i]
	}
	if strings.HasPrefix(evk, "y:") {
		if j := strings.LastIndex(evk, ":"); j > 2 {
			evk = evk[:j]
		}
	}
	if strings.HasPrefix(evk, "r:add") {
		// c=<n> varies: keep complete flag and error
		f := strings.Fields(evk)
		evk = "r:add " + strings.Join(f[2:], " ")
	}
	if strings.HasPrefix(evk, "r:fin") {
		f := strings.Fields(evk)
		evk = "r:fin " + f[1] + " " + f[3]
	}
	cr.c.Count(tag+" -> "+evk, opLine, true)
}
