package piecelib

import (
	"encoding/json"
	"flag"
	"fmt"
	"os"
	"os/exec"
	"path/filepath"
	"strconv"
	"strings"
	"time"

	"github.com/jech/storrent/alloc"
	"github.com/jech/storrent/tor/piece"

	"verifharness/vhlib"
)

// Config selects the mix of a family (c01: blocks/finalise/reads; c03: eviction, deletion,
// several stores, tor.Expire).
type Config struct {
	Family      string
	WAdd        int
	WFin        int
	WRead       int
	WExp        int
	WDel        int
	WMisc       int // hole / upd / settime / bitmap
	MaxStores   int
	PolicyEvery int // every k-th case is a tor.Expire case (0: never)
}

var (
	childFlag = flag.Bool("child", false, "run the cases in this process (set by the supervisor)")
	fromFlag  = flag.Int("from", 0, "first case index")
	toFlag    = flag.Int("to", -1, "one past the last case index (-1: n)")
)

const noX = 99999999

// ---------------------------------------------------------------- generation of one call

var psizes = []uint32{16384, 16384, 16384, 32768, 32768, 32768, 49152, 65536, 65536, 40000,
	131072, 131072, 147456, 262144, 1048576}

func (cr *caseRun) genStore(r *vhlib.Rand, sid int, big bool) {
	ps := psizes[r.Intn(len(psizes))]
	if !big && ps > 262144 {
		ps = 131072
	}
	np := 1 + r.Intn(4)
	if ps >= 1048576 {
		np = 1 + r.Intn(2)
	}
	var length int64
	switch r.Intn(4) {
	case 0: // exact multiple
		length = int64(np) * int64(ps)
	case 1: // short last piece, short last block
		length = int64(np-1)*int64(ps) + 1 + int64(r.Intn(int(ps)-1))
	case 2: // last piece a whole number of blocks
		length = int64(np-1)*int64(ps) + int64(CS*(1+r.Intn(int(ps+CS-1)/CS)))
		if length > int64(np)*int64(ps) {
			length = int64(np) * int64(ps)
		}
	default: // tiny last piece
		length = int64(np-1)*int64(ps) + 1 + int64(r.Intn(300))
	}
	cseed := r.U64() >> 2
	line := fmt.Sprintf("new %d %d %d %d", sid, ps, length, cseed)
	cr.doNew(line)
}

func (cr *caseRun) doNew(line string) bool {
	f := strings.Fields(line)
	if len(f) != 5 {
		return false
	}
	sid, _ := strconv.Atoi(f[1])
	ps, _ := strconv.ParseUint(f[2], 10, 32)
	length, _ := strconv.ParseInt(f[3], 10, 64)
	cseed, _ := strconv.ParseUint(f[4], 10, 64)
	if ps == 0 || length <= 0 || length > 64<<20 || cr.storeBy(sid) != nil {
		return false
	}
	journal(line)
	st := newStore(sid, uint32(ps), length, cseed)
	cr.stores = append(cr.stores, st)
	cr.emit(line, fmt.Sprintf("n=%d", st.n))
	return true
}

// doFailAlloc: `failalloc k` — the next k calls of alloc.Alloc fail with ENOMEM
func (cr *caseRun) doFailAlloc(line string) bool {
	f := strings.Fields(line)
	if len(f) != 2 {
		return false
	}
	k, err := strconv.Atoi(f[1])
	if err != nil || k < 0 || k > 1000 {
		return false
	}
	journal(line)
	failLeft.Store(int64(k))
	cr.emit(line, "ok")
	cr.c.Count("failalloc", line, true)
	return true
}

// pick a piece, biased by what the call wants
func pickPiece(r *vhlib.Rand, st *store, want func(p *psnap, i int) bool) int {
	var c []int
	for i := range st.last {
		if want(&st.last[i], i) {
			c = append(c, i)
		}
	}
	if len(c) > 0 && r.Chance(80) {
		return c[r.Intn(len(c))]
	}
	return r.Intn(st.n)
}

func (cr *caseRun) genCall(r *vhlib.Rand, cfg *Config, st *store) string {
	tot := cfg.WAdd + cfg.WFin + cfg.WRead + cfg.WExp + cfg.WDel + cfg.WMisc
	x := r.Intn(tot)
	full := func(p *psnap, i int) bool {
		if p.State != 0 || !p.HasData {
			return false
		}
		for c := 0; c < st.chunks(i); c++ {
			if !bit(p.Bitmap, c) {
				return false
			}
		}
		return true
	}
	switch {
	case x < cfg.WAdd:
		i := pickPiece(r, st, func(p *psnap, i int) bool { return p.State == 0 && !full(p, i) })
		pl := st.pieceLen(i)
		nch := st.chunks(i)
		c := r.Intn(nch)
		if r.Chance(70) { // prefer a missing block
			var miss []int
			for k := 0; k < nch; k++ {
				if !bit(st.last[i].Bitmap, k) {
					miss = append(miss, k)
				}
			}
			if len(miss) > 0 {
				c = miss[r.Intn(len(miss))]
			}
		}
		begin := c * CS
		blen := pl - begin
		if blen > CS {
			blen = CS
		}
		src := i*int(st.psize) + begin
		n := blen
		xpos, xval := noX, 0
		idx := i
		switch k := r.Intn(100); {
		case k < 55: // one valid block
		case k < 67: // several blocks, possibly up to / beyond the end of the piece
			n = blen + CS*r.Intn(4)
			if r.Chance(50) && begin+n > pl {
				n = pl - begin
			}
		case k < 76: // corrupt
			xpos, xval = r.Intn(n), 1+r.Intn(255)
		case k < 81: // over-long
			n = blen + 1 + r.Intn(20000)
		case k < 85: // short
			n = r.Intn(blen)
		case k < 89: // misaligned
			begin += 1 + r.Intn(CS-1)
		case k < 92: // beyond the end
			begin = pl + CS*r.Intn(3)
			if r.Chance(50) {
				begin = ((pl + CS - 1) / CS) * CS
			}
		case k < 96: // foreign data (right size, other place)
			src = r.Intn(int(st.length))
		case k < 98: // empty
			n = 0
		default: // index out of range (outside the callers' contract)
			idx = st.n + r.Intn(3)
		}
		peer := uint32(r.Intn(5))
		if r.Chance(10) {
			peer = ^uint32(0)
		}
		return fmt.Sprintf("add %d %d %d %d %d %d %d", idx, begin, src, n, xpos, xval, peer)
	case x < cfg.WAdd+cfg.WFin:
		i := pickPiece(r, st, full)
		h := st.refHash[i]
		if r.Chance(22) {
			// (hashes of a length other than 20 are outside the callers' contract:
			// hash.Equal panics on them and Finalise then leaves the piece busy for ever)
			switch r.Intn(2) {
			case 0:
				h = st.refHash[(i+1)%st.n]
				if st.n == 1 {
					h = make([]byte, 20)
				}
			default:
				h = append([]byte(nil), h...)
				h[r.Intn(20)] ^= byte(1 + r.Intn(255))
			}
		}
		if r.Chance(1) {
			i = st.n + r.Intn(2)
		}
		return fmt.Sprintf("fin %d %s", i, vhlib.Hex(h))
	case x < cfg.WAdd+cfg.WFin+cfg.WRead:
		var off int64
		i := pickPiece(r, st, func(p *psnap, i int) bool { return p.State == 1 })
		pl := st.pieceLen(i)
		switch k := r.Intn(100); {
		case k < 60:
			off = int64(i)*int64(st.psize) + int64(r.Intn(pl))
		case k < 75: // near the end of the piece
			off = int64(i)*int64(st.psize) + int64(pl-1-r.Intn(min(pl, 40)))
		case k < 85:
			off = int64(i) * int64(st.psize)
		case k < 93:
			off = st.length - 1 + int64(r.Intn(5))
		case k < 97:
			off = st.length + int64(r.Intn(100000))
		default:
			off = -int64(1 + r.Intn(2*int(st.psize)))
		}
		n := r.PickInt(0, 1, 100, CS, CS+1, 40000, 70000, r.Intn(300000))
		return fmt.Sprintf("read %d %d", off, n)
	case x < cfg.WAdd+cfg.WFin+cfg.WRead+cfg.WExp:
		by := st.ps.Bytes()
		var target int64
		switch r.Intn(5) {
		case 0:
			target = 0
		case 1:
			target = by
		case 2:
			target = -int64(r.Intn(100000))
		default:
			target = int64(r.Intn(int(by) + 2))
		}
		now := uint32(1 + r.Intn(20000))
		na := r.Intn(st.n + 2)
		var av []string
		for k := 0; k < na; k++ {
			av = append(av, fmt.Sprint(r.Intn(4)))
		}
		a := "-"
		if len(av) > 0 {
			a = strings.Join(av, ";")
		}
		return fmt.Sprintf("exp %d %d %s", target, now, a)
	case x < cfg.WAdd+cfg.WFin+cfg.WRead+cfg.WExp+cfg.WDel:
		return "delall"
	default:
		i := r.Intn(st.n)
		switch r.Intn(5) {
		case 0:
			off := r.Intn(st.pieceLen(i) + CS)
			if r.Chance(50) {
				off = off / CS * CS
			}
			return fmt.Sprintf("hole %d %d", i, off)
		case 1:
			return fmt.Sprintf("upd %d %d", i, 1+r.Intn(20000))
		case 2, 3:
			return fmt.Sprintf("settime %d %d", i, r.PickInt(0, 1, 100, 5000, 9000, 12000, 12000, r.Intn(20000)))
		default:
			return "bitmap"
		}
	}
}

// parseCall builds the callInfo of `call <sid> <api> args…` (nil if malformed)
func (cr *caseRun) parseCall(f []string) *callInfo {
	if len(f) < 2 {
		return nil
	}
	sid, err := strconv.Atoi(f[0])
	st := cr.storeBy(sid)
	if err != nil || st == nil {
		return nil
	}
	ci := &callInfo{api: f[1], st: st, contract: true}
	a := f[2:]
	num := func(s string) int64 { v, _ := strconv.ParseInt(s, 10, 64); return v }
	switch ci.api {
	case "add":
		if len(a) != 7 {
			return nil
		}
		ci.idx = int(num(a[0]))
		ci.begin = uint32(num(a[1]))
		src, n, xpos, xval := int(num(a[2])), int(num(a[3])), int(num(a[4])), int(num(a[5]))
		if n < 0 || n > 4<<20 || src < 0 || ci.idx < 0 {
			return nil
		}
		ci.peer = uint32(num(a[6]))
		ci.data = contentSlice(st.cseed, src, n)
		if xpos >= 0 && xpos < n {
			ci.data[xpos] ^= byte(xval)
		}
		ci.contract = ci.idx < st.n
	case "fin":
		if len(a) != 2 {
			return nil
		}
		ci.idx = int(num(a[0]))
		if ci.idx < 0 {
			return nil
		}
		ci.hash = vhlib.UnHex(a[1])
		if len(ci.hash) != 20 {
			return nil
		}
		ci.contract = ci.idx < st.n
		ci.right = ci.contract && string(ci.hash) == string(st.refHash[ci.idx])
	case "read":
		if len(a) != 2 {
			return nil
		}
		ci.off = num(a[0])
		n := int(num(a[1]))
		if n < 0 || n > 4<<20 {
			return nil
		}
		ci.buf = make([]byte, n)
		ci.contract = ci.off >= 0
	case "exp":
		if len(a) != 3 {
			return nil
		}
		ci.target = num(a[0])
		ci.now = uint32(num(a[1]))
		if ci.now < 1 {
			return nil
		}
		if a[2] != "-" {
			for _, s := range strings.Split(a[2], ";") {
				ci.avail = append(ci.avail, uint16(num(s)))
			}
		}
		for i := 0; i < st.n; i++ {
			age := uint32(0)
			if ci.now >= st.times[i] {
				age = ci.now - st.times[i]
			}
			ci.ages = append(ci.ages, age)
		}
	case "delall", "bitmap":
		if len(a) != 0 {
			return nil
		}
	case "hole":
		if len(a) != 2 {
			return nil
		}
		ci.idx = int(num(a[0]))
		ci.begin = uint32(num(a[1]))
		ci.contract = ci.idx >= 0 && ci.idx < st.n
	case "upd", "settime":
		if len(a) != 2 {
			return nil
		}
		ci.idx = int(num(a[0]))
		ci.now = uint32(num(a[1]))
		if ci.idx < 0 || ci.idx >= st.n || (ci.api == "upd" && ci.now < 1) {
			return nil
		}
		if ci.api == "settime" || st.times[ci.idx] < ci.now {
			st.times[ci.idx] = ci.now
		}
	default:
		return nil
	}
	return ci
}

// enabled: a thread waiting in del()'s poll loop makes progress only when the piece is
// no longer busy (resuming it earlier just polls again — allowed, rarely chosen)
func (cr *caseRun) blocked(w *worker) bool {
	return w.call != nil && w.point == "del.wait" && w.call.st.last[w.idx].State == 2
}

func (cr *caseRun) goLine(w *worker) string {
	if w.point == "expire.visit" {
		return fmt.Sprintf("T%d go %d", w.tid, w.idx)
	}
	return fmt.Sprintf("T%d go", w.tid)
}

func (cr *caseRun) drain(r *vhlib.Rand) {
	for guard := 0; guard < 10000; guard++ {
		var run []*worker
		for _, w := range cr.e.workers {
			if w.call != nil && !cr.blocked(w) {
				run = append(run, w)
			}
		}
		if len(run) == 0 {
			break
		}
		w := run[0]
		if r != nil {
			w = run[r.Intn(len(run))]
		}
		cr.doSegment(w, nil, cr.goLine(w))
	}
}

func (cr *caseRun) finish() {
	cr.drain(nil)
	journal("end")
	var parts []string
	for _, st := range cr.stores {
		cr.refresh(st, nil)
		parts = append(parts, fmt.Sprintf("S%d ", st.sid)+cr.snapStr(st, func(int) bool { return true }))
	}
	cr.emit("end", strings.Join(parts, " / "))
	cr.accounting()
	// cleanup outside the op stream: give everything back
	curEngine = nil
	failLeft.Store(0)
	stuck := false
	for _, w := range cr.e.workers {
		if w.call != nil {
			stuck = true
		}
	}
	cr.e.stop()
	if stuck {
		cr.violate("hang:thread-never-returns", "a call was still waiting at the end of the case with nothing left to wait for")
		return
	}
	for _, st := range cr.stores {
		for i := range st.last {
			if st.last[i].State == 2 {
				cr.violate("hang:piece-left-busy", fmt.Sprintf("piece %d is still busy although no Finalise is running", i))
				return
			}
		}
		p := vhlib.Recover(func() { st.ps.Del() })
		if p != "" && !st.delDone {
			cr.violate("panic:delall:"+canonPanic(p), "Pieces.Del() panicked during cleanup: "+p)
		}
	}
	if d := alloc.Bytes() - cr.base; d != 0 {
		cr.violate("leak:case-end", fmt.Sprintf("%d bytes still accounted after every store was deleted", d))
	}
}

func (cr *caseRun) begin(c *vhlib.Ctx, line string, nthreads int) {
	c.NewCase()
	journal(line)
	cr.c = c
	cr.e = newEngine(nthreads)
	curEngine = cr.e
	cr.base = alloc.Bytes()
	cr.lastAlloc = cr.base
	failLeft.Store(0)
	cr.emit(line, "ok")
}

func genCase(c *vhlib.Ctx, cfg *Config, idx int, seed uint64) {
	r := vhlib.NewRand(seed*1000003 + uint64(idx))
	if cfg.PolicyEvery > 0 && idx%cfg.PolicyEvery == cfg.PolicyEvery-1 {
		genPolicyCase(c, r, idx)
		return
	}
	cr := &caseRun{}
	nthreads := 1 + r.Intn(4)
	cr.begin(c, fmt.Sprintf("case %d", idx), nthreads)
	ns := 1
	if cfg.MaxStores > 1 && r.Chance(40) {
		ns = 1 + r.Intn(cfg.MaxStores)
	}
	big := r.Chance(12)
	for s := 0; s < ns; s++ {
		cr.genStore(r, s, big)
	}
	steps := 20 + r.Intn(90)
	for k := 0; k < steps; k++ {
		if r.Chance(3) { // allocation failures: mmap refused for the next allocation(s)
			cr.doFailAlloc(fmt.Sprintf("failalloc %d", r.PickInt(1, 1, 1, 2, 3, 0)))
		}
		w := cr.e.workers[r.Intn(nthreads)]
		if cr.blocked(w) && !r.Chance(8) {
			continue
		}
		if w.call != nil {
			cr.doSegment(w, nil, cr.goLine(w))
			continue
		}
		st := cr.stores[r.Intn(len(cr.stores))]
		args := cr.genCall(r, cfg, st)
		if args == "delall" && k < steps*2/3 && !r.Chance(12) {
			continue // deletion mostly late in a case: what follows it is refused anyway
		}
		if !st.delBegun && r.Chance(10) {
			for i := range st.last {
				if st.last[i].State == 2 { // a Finalise is between begin and end: Del has to wait
					args = "delall"
				}
			}
		}
		if args == "delall" {
			st.delBegun = true
		}
		line := fmt.Sprintf("T%d call %d %s", w.tid, st.sid, args)
		ci := cr.parseCall(strings.Fields(line)[2:])
		if ci == nil {
			continue
		}
		cr.doSegment(w, ci, line)
	}
	cr.drain(r)
	cr.finish()
}

// ---------------------------------------------------------------- replay

func replay(c *vhlib.Ctx, lines []string) {
	var cr *caseRun
	closeCase := func() {
		if cr != nil {
			cr.finish()
			cr = nil
		}
	}
	for _, l := range lines {
		f := strings.Fields(l)
		if len(f) == 0 {
			continue
		}
		switch {
		case f[0] == "case":
			closeCase()
			cr = &caseRun{}
			cr.begin(c, l, 8)
		case f[0] == "tex":
			closeCase()
			doPolicy(c, l)
		case cr == nil:
			continue
		case f[0] == "new":
			cr.doNew(l)
		case f[0] == "failalloc":
			cr.doFailAlloc(l)
		case f[0] == "end":
			closeCase()
		case strings.HasPrefix(f[0], "T") && len(f) >= 2:
			tid, err := strconv.Atoi(f[0][1:])
			if err != nil || tid < 0 || tid >= len(cr.e.workers) {
				continue
			}
			w := cr.e.workers[tid]
			if f[1] == "call" && w.call == nil {
				if ci := cr.parseCall(f[2:]); ci != nil {
					cr.doSegment(w, ci, l)
				}
			} else if f[1] == "go" && w.call != nil {
				cr.doSegment(w, nil, cr.goLine(w))
			}
		}
	}
	closeCase()
}

// ---------------------------------------------------------------- child / supervisor

func runChild(cfg *Config) {
	c := vhlib.Init(cfg.Family)
	c.Rep.Rule = "one case = one op sequence under one deterministic interleaving; distinct = distinct op lines hitting a model branch"
	jf, err := os.OpenFile(filepath.Join(c.OutDir, "journal.txt"), os.O_CREATE|os.O_TRUNC|os.O_WRONLY, 0o644)
	if err == nil {
		journalF = jf
	}
	piece.VerifSetYield(yieldFn)
	alloc.VerifSetFailAlloc(failAllocFn)
	startWatchdog()
	if c.Replay != "" {
		replay(c, c.ReplayLines())
	} else {
		to := *toFlag
		if to < 0 || to > c.N {
			to = c.N
		}
		for i := *fromFlag; i < to; i++ {
			genCase(c, cfg, i, c.Seed)
		}
	}
	c.Close()
}

func argValue(name, def string) string {
	for i, a := range os.Args {
		if a == name && i+1 < len(os.Args) {
			return os.Args[i+1]
		}
		if strings.HasPrefix(a, name+"=") {
			return a[len(name)+1:]
		}
	}
	return def
}

func withArgs(base []string, kv map[string]string) []string {
	var out []string
	skip := false
	for _, a := range base {
		if skip {
			skip = false
			continue
		}
		drop := false
		for k := range kv {
			if a == k {
				drop, skip = true, true
			} else if strings.HasPrefix(a, k+"=") {
				drop = true
			}
		}
		if !drop {
			out = append(out, a)
		}
	}
	for k, v := range kv {
		out = append(out, k, v)
	}
	return out
}

// supervise runs the cases [from,to) in a child process writing into out; if the child
// dies (SIGSEGV on a freed mapping, runtime fatal error, hang) the crashing case becomes a
// violation and the rest is run in further children.
func supervise(family string, from, to int, out string, depth int) vhlib.Report {
	os.MkdirAll(out, 0o755)
	args := withArgs(os.Args[1:], map[string]string{"-from": fmt.Sprint(from), "-to": fmt.Sprint(to), "-out": out})
	args = append(args, "-child")
	cmd := exec.Command(os.Args[0], args...)
	var errb strings.Builder
	cmd.Stderr = &errb
	cmd.Stdout = os.Stdout
	done := make(chan error, 1)
	cmd.Start()
	go func() { done <- cmd.Wait() }()
	var err error
	select {
	case err = <-done:
	case <-time.After(45 * time.Minute):
		cmd.Process.Kill()
		err = fmt.Errorf("timeout")
	}
	var rep vhlib.Report
	if err == nil {
		data, _ := os.ReadFile(filepath.Join(out, "oracle.json"))
		json.Unmarshal(data, &rep)
		return rep
	}
	// crashed: find the case
	jl, _ := os.ReadFile(filepath.Join(out, "journal.txt"))
	lines := strings.Split(strings.TrimSpace(string(jl)), "\n")
	start := 0
	for i, l := range lines {
		if strings.HasPrefix(l, "case ") || strings.HasPrefix(l, "tex ") {
			start = i
		}
	}
	ops := lines[start:]
	crashed := -1
	if f := strings.Fields(lines[start]); len(f) >= 2 && f[0] == "case" {
		crashed, _ = strconv.Atoi(f[1])
	}
	stderr := errb.String()
	kind := "crash:exit"
	switch {
	case len(ops) > 0 && ops[len(ops)-1] == "HANG":
		kind = "hang:no-progress"
		ops = ops[:len(ops)-1]
	case strings.Contains(stderr, "SIGSEGV") || strings.Contains(stderr, "unexpected fault address"):
		kind = "crash:sigsegv"
	case strings.Contains(stderr, "fatal error"):
		kind = "crash:fatal"
	case strings.Contains(stderr, "panic:"):
		kind = "crash:panic"
	}
	if len(stderr) > 1500 {
		stderr = stderr[:1500]
	}
	v := vhlib.Violation{Kind: kind, Detail: "the process running the store died: " + strings.ReplaceAll(stderr, "\n", " | "), Ops: ops}
	replayMode := argValue("-replay", "") != ""
	if replayMode || crashed < 0 || depth > 20 {
		rep = vhlib.Report{Family: family, Branches: map[string]int{}}
		rep.Violations = append(rep.Violations, v)
		os.WriteFile(filepath.Join(out, "ops.txt"), nil, 0o644)
		os.WriteFile(filepath.Join(out, "impl.out"), nil, 0o644)
		writeReport(out, rep)
		return rep
	}
	a := supervise(family, from, crashed, filepath.Join(out, "partA"), depth+1)
	b := supervise(family, crashed+1, to, filepath.Join(out, "partB"), depth+1)
	rep = mergeReports(a, b)
	rep.Violations = append(rep.Violations, v)
	for _, f := range []string{"ops.txt", "impl.out"} {
		x, _ := os.ReadFile(filepath.Join(out, "partA", f))
		y, _ := os.ReadFile(filepath.Join(out, "partB", f))
		os.WriteFile(filepath.Join(out, f), append(x, y...), 0o644)
	}
	writeReport(out, rep)
	return rep
}

func mergeReports(a, b vhlib.Report) vhlib.Report {
	r := a
	if r.Branches == nil {
		r.Branches = map[string]int{}
	}
	r.Evaluations += b.Evaluations
	r.Distinct += b.Distinct
	for k, v := range b.Branches {
		r.Branches[k] += v
	}
	r.Samples = append(r.Samples, b.Samples...)
	if len(r.Samples) > 12 {
		r.Samples = r.Samples[:12]
	}
	r.Violations = append(r.Violations, b.Violations...)
	r.Notes = append(r.Notes, b.Notes...)
	if r.Rule == "" {
		r.Rule = b.Rule
	}
	return r
}

func writeReport(out string, rep vhlib.Report) {
	data, _ := json.MarshalIndent(rep, "", " ")
	os.WriteFile(filepath.Join(out, "oracle.json"), data, 0o644)
}

// Main is the entry point of cmd/c01 and cmd/c03.
func Main(cfg Config) {
	for _, a := range os.Args[1:] {
		if a == "-child" || a == "--child" {
			runChild(&cfg)
			return
		}
	}
	n, _ := strconv.Atoi(argValue("-n", "100"))
	out := argValue("-out", ".")
	supervise(cfg.Family, 0, n, out, 0)
}
