package piecelib

import (
	"bytes"
	"fmt"
	"strings"

	"github.com/jech/storrent/alloc"
)

// The property oracle: a direct restatement of C01 / C03 on what the real store shows
// after every segment (every point of the deterministic interleaving is quiescent: no
// goroutine holds the lock).  It shares nothing with the Lean model.

func (cr *caseRun) violate(kind, detail string) {
	if cr.seenKinds == nil {
		cr.seenKinds = map[string]bool{}
	}
	if cr.seenKinds[kind] { // once per case and kind
		return
	}
	cr.seenKinds[kind] = true
	cr.c.Violate(kind, detail, cr.c.Case())
}

func bit(bm []byte, i int) bool {
	return i>>3 < len(bm) && bm[i>>3]&(1<<(7-uint(i&7))) != 0
}

func allZero(b []byte) bool {
	for _, v := range b {
		if v != 0 {
			return false
		}
	}
	return true
}

// expire key: "least-recently-accessed first; beyond two hours commonest first"
func expLess(ages []uint32, avail []uint16, a, b uint32) bool { // a strictly before b
	ta, tb := ages[a], ages[b]
	if ta >= 7200 && tb >= 7200 {
		var aa, ab uint16
		if int(a) < len(avail) {
			aa = avail[a]
		}
		if int(b) < len(avail) {
			ab = avail[b]
		}
		if aa != ab {
			return aa > ab
		}
	}
	return ta > tb
}

func (cr *caseRun) accounting() {
	var sum int64
	for _, st := range cr.stores {
		cnt := 0
		for i := range st.last {
			p := &st.last[i]
			if p.HasData {
				cnt++
				sum += int64(st.pieceLen(i))
				if p.DataLen != st.pieceLen(i) {
					cr.violate("accounting:buffer-length", fmt.Sprintf("store %d piece %d: buffer of %d bytes, piece length %d", st.sid, i, p.DataLen, st.pieceLen(i)))
				}
			}
		}
		if c := st.ps.Count(); c != cnt || c < 0 {
			cr.violate("accounting:count", fmt.Sprintf("store %d: Count()=%d but %d pieces hold a buffer", st.sid, c, cnt))
		}
		if b := st.ps.Bytes(); b != int64(cnt)*int64(st.psize) {
			cr.violate("accounting:bytes", fmt.Sprintf("store %d: Bytes()=%d, %d pieces of %d hold a buffer", st.sid, b, cnt, st.psize))
		}
	}
	if got := alloc.Bytes() - cr.base; got != sum {
		cr.violate("accounting:alloc", fmt.Sprintf("alloc.Bytes() moved by %d but the pieces holding data total %d bytes", got, sum))
	}
}

func (cr *caseRun) oracle(w *worker, ci *callInfo, st *store, prev []psnap, rep segReport, pausedAt string, pausedIdx uint32, ev string) {
	cur := st.last
	allocNow := alloc.Bytes()
	defer func() { cr.lastAlloc = allocNow }()
	cr.accounting()

	panicked := strings.HasPrefix(ev, "r:panic")
	if panicked && ci.contract {
		cr.violate("panic:"+ci.api+":"+strings.TrimPrefix(ev, "r:panic "), "the store panicked on in-contract arguments: "+ev)
	}

	for i := range cur {
		p, q := &cur[i], &prev[i]
		lo := i * int(st.psize)
		if p.State == 1 {
			if !p.HasData || !bytes.Equal(p.Data, st.ref[lo:lo+st.pieceLen(i)]) {
				cr.violate("complete:content", fmt.Sprintf("piece %d is complete but its buffer is not the torrent's content", i))
			}
			if q.State != 1 && !(ci.api == "fin" && ci.idx == i && pausedAt == "finalise.hashed") {
				cr.violate("complete:without-finalise", fmt.Sprintf("piece %d became complete outside the end of its Finalise", i))
			}
		}
		if !p.HasData && (p.State != 0 || !allZero(p.Bitmap) || len(p.Peers) != 0) {
			cr.violate("nodata:state", fmt.Sprintf("piece %d holds no buffer but state=%d bitmap=%x peers=%v", i, p.State, p.Bitmap, p.Peers))
		}
		for c := st.chunks(i); c < 8*len(p.Bitmap); c++ {
			if bit(p.Bitmap, c) {
				cr.violate("bitmap:beyond-chunks", fmt.Sprintf("piece %d: bit %d set, piece has %d blocks", i, c, st.chunks(i)))
			}
		}
		if q.State == 2 && !(ci.api == "fin" && ci.idx == i && pausedAt == "finalise.hashed") {
			// a buffer handed to the hasher is neither modified nor freed nor re-stated
			if p.State != 2 || !p.HasData || !bytes.Equal(p.Data, q.Data) {
				cr.violate("busy:buffer-touched", fmt.Sprintf("piece %d was being hashed and was modified, freed or changed state by %s", i, ci.api))
			}
		}
		if q.HasData && p.HasData {
			for c := 0; c < st.chunks(i); c++ {
				if bit(q.Bitmap, c) {
					a, b := c*CS, c*CS+CS
					if b > st.pieceLen(i) {
						b = st.pieceLen(i)
					}
					if !bit(p.Bitmap, c) || !bytes.Equal(p.Data[a:b], q.Data[a:b]) {
						cr.violate("overwrite:set-block", fmt.Sprintf("piece %d block %d was stored and has been modified/cleared by %s", i, c, ci.api))
					}
				}
			}
		}
		if q.HasData && !p.HasData {
			st.verified[i] = false
		}
		if st.delDone && p.HasData {
			cr.violate("del:alloc-after-delete", fmt.Sprintf("store %d: piece %d holds a buffer after Pieces.Del() returned", st.sid, i))
		}
	}

	// ---- per API
	switch ci.api {
	case "add":
		if rep.yield || panicked {
			break
		}
		if pausedAt == "adddata.prelock" {
			for _, ow := range cr.e.workers {
				if ow.call != nil && ow.call.api == "exp" && ow.call.st == st {
					ow.call.otherAdds = true
				}
			}
		}
		i := ci.idx
		p, q := &cur[i], &prev[i]
		pl := st.pieceLen(i)
		if int(ci.count) > len(ci.data) || (ci.count > 0 && int(ci.begin)+int(ci.count) > pl) {
			cr.violate("add:count-range", fmt.Sprintf("AddData consumed %d of %d bytes at %d, piece length %d", ci.count, len(ci.data), ci.begin, pl))
		}
		if ci.count > 0 && (int(ci.begin)+int(ci.count))%CS != 0 && int(ci.begin)+int(ci.count) != pl {
			cr.violate("add:partial-block", fmt.Sprintf("AddData consumed %d bytes at %d: not whole blocks", ci.count, ci.begin))
		}
		if ci.err != nil || q.State != 0 {
			if ci.count != 0 || p.HasData != q.HasData || !bytes.Equal(p.Data, q.Data) || !bytes.Equal(p.Bitmap, q.Bitmap) {
				cr.violate("add:refused-but-changed", fmt.Sprintf("AddData refused (%v, state %d) but the piece changed", ci.err, q.State))
			}
		}
		if st.delLatchedBefore && ci.err == nil && q.State == 0 {
			cr.violate("del:add-accepted", "AddData accepted data after Pieces.Del() had returned")
		}
		if (ci.begin%CS != 0 || int(ci.begin) >= pl) && ci.err == nil && q.State == 0 {
			cr.violate("add:bad-begin-accepted", fmt.Sprintf("AddData accepted begin=%d (piece length %d)", ci.begin, pl))
		}
		// newly set bits: inside [begin, begin+count), holding exactly the bytes given
		for c := 0; c < 8*len(p.Bitmap); c++ {
			if bit(p.Bitmap, c) && !bit(q.Bitmap, c) {
				a, b := c*CS, c*CS+CS
				if b > pl {
					b = pl
				}
				if a < int(ci.begin) || b > int(ci.begin)+int(ci.count) {
					cr.violate("add:bit-outside-range", fmt.Sprintf("block %d marked present by AddData(begin=%d) that consumed %d bytes", c, ci.begin, ci.count))
				} else if !bytes.Equal(p.Data[a:b], ci.data[a-int(ci.begin):b-int(ci.begin)]) {
					cr.violate("add:stored-wrong-bytes", fmt.Sprintf("block %d does not hold the bytes given to AddData", c))
				}
			}
		}
	case "fin":
		if rep.yield || panicked {
			break
		}
		if ci.got == 1 {
			if !ci.right {
				cr.violate("finalise:wrong-hash-accepted", fmt.Sprintf("Finalise(%d) succeeded against a hash that is not the metainfo's", ci.idx))
			}
			st.verified[ci.idx] = ci.right
			if st.delLatchedBefore {
				cr.violate("del:finalise-accepted", "Finalise completed a piece after Pieces.Del() had returned")
			}
		}
	case "read":
		if panicked {
			break
		}
		n := ci.got
		if (ci.off >= st.length) != (ci.err != nil) {
			cr.violate("read:eof", fmt.Sprintf("ReadAt(off=%d) err=%v, length %d", ci.off, ci.err, st.length))
		}
		if n > 0 {
			i := int(ci.off / int64(st.psize))
			switch {
			case n > len(ci.buf) || ci.off+int64(n) > st.length || !bytes.Equal(ci.buf[:n], st.ref[ci.off:ci.off+int64(n)]):
				cr.violate("read:content", fmt.Sprintf("ReadAt(off=%d,len=%d) returned %d bytes that are not the torrent's content at that offset", ci.off, len(ci.buf), n))
			case (ci.off+int64(n)-1)/int64(st.psize) != int64(i):
				cr.violate("read:crosses-piece", fmt.Sprintf("ReadAt(off=%d) returned %d bytes across a piece boundary", ci.off, n))
			}
			if i < len(prev) && prev[i].State != 1 {
				cr.violate("read:not-complete", fmt.Sprintf("ReadAt(off=%d) returned %d bytes from piece %d in state %d", ci.off, n, i, prev[i].State))
			} else if i < len(prev) && !st.verified[i] {
				cr.violate("read:unverified", fmt.Sprintf("ReadAt(off=%d) returned bytes of piece %d which never passed Finalise against the metainfo hash", ci.off, i))
			}
			if st.delDone {
				cr.violate("read:after-delete", "ReadAt returned data of a deleted torrent")
			}
		}
	case "exp":
		if pausedAt == "" {
			ci.allocStart = allocNow
		}
		if pausedAt == "expire.visit" {
			v := int(pausedIdx)
			q, p := &prev[v], &cur[v]
			evictable := q.HasData && q.State != 2
			if q.HasData && q.State == 2 {
				ci.busySkips = true
			}
			if evictable && p.HasData {
				cr.violate("expire:not-evicted", fmt.Sprintf("Expire visited evictable piece %d and left it", v))
			}
			if evictable {
				ci.evicted++
			}
			wantCb := evictable && q.State == 1
			gotCb := len(rep.cbs) == 1 && int(rep.cbs[0]) == v
			if wantCb != gotCb || len(rep.cbs) > 1 {
				cr.violate("expire:callback", fmt.Sprintf("Expire visited piece %d (state %d, data %v): callbacks %v", v, q.State, q.HasData, rep.cbs))
			}
			if allocNow > cr.lastAlloc {
				cr.violate("expire:alloc-increased", "an eviction step increased alloc.Bytes()")
			}
		}
		if rep.yield && rep.point == "expire.visit" {
			v := rep.idx
			for _, u := range ci.visits {
				if u == v {
					cr.violate("expire:visited-twice", fmt.Sprintf("piece %d visited twice", v))
				}
			}
			if k := len(ci.visits); k > 0 && int(v) < len(ci.ages) && expLess(ci.ages, ci.avail, v, ci.visits[k-1]) {
				cr.violate("expire:order", fmt.Sprintf("Expire visits piece %d (age %d) after piece %d (age %d)", v, ci.ages[v], ci.visits[k-1], ci.ages[ci.visits[k-1]]))
			}
			ci.visits = append(ci.visits, v)
		}
		if !rep.yield && !panicked {
			if ci.got != ci.evicted {
				cr.violate("expire:count", fmt.Sprintf("Expire returned %d, evicted %d", ci.got, ci.evicted))
			}
			if !ci.otherAdds && !ci.busySkips && st.ps.Bytes() > ci.target && st.ps.Count() > 0 {
				cr.violate("expire:target-missed", fmt.Sprintf("Expire(%d) returned with Bytes()=%d and evictable pieces left", ci.target, st.ps.Bytes()))
			}
		}
	case "delall":
		if !rep.yield && !panicked {
			st.delDone = true
			if !st.ps.VerifDeleted() {
				cr.violate("del:not-latched", "Pieces.Del() returned without latching deleted")
			}
			for i := range cur {
				if cur[i].HasData {
					cr.violate("del:data-survives", fmt.Sprintf("store %d: piece %d still holds %d bytes when Pieces.Del() returns", st.sid, i, cur[i].DataLen))
				}
			}
		}
	}
	st.delLatchedBefore = st.delDone
}
