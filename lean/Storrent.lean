import Storrent.Util
