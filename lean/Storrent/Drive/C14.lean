import Storrent.Model.Files
/- line-protocol driver for the C14 streams (see harness/cmd/c14/main.go for the op grammar) -/
namespace Storrent.Drive.C14
open Storrent Storrent.Files

/-- positional content pattern shared with the harness -/
def pat (seed k : Nat) : UInt8 :=
  UInt8.ofNat ((k * 7 + k / 256 * 13 + k / 65536 * 17 + seed) % 256)

def patBytes (seed pos n : Nat) : Bytes := (List.range' pos n).map (pat seed)

/-- reference content of a torrent: zeros in padding files, the pattern elsewhere -/
def refBytes (seed : Nat) (pads : List (Nat × Nat)) (pos n : Nat) : Bytes :=
  (List.range' pos n).map fun x => if pads.any (fun p => p.1 ≤ x ∧ x < p.2) then 0 else pat seed x

def padRanges : Option (List FileEnt) → List (Nat × Nat)
  | none => []
  | some fs => fs.filterMap fun f => if f.pad then some (f.offset.toNat, (f.offset + f.length).toNat) else none

def fnv64 (bs : Bytes) : UInt64 :=
  bs.foldl (fun h c => (h ^^^ c.toUInt64) * 1099511628211) 14695981039346656037

/-- one writer of a multi-writer case -/
structure WSlot where
  st : Store := ⟨0, .opn, []⟩
  w : W := newWriter 0 0
  pos : Nat := 0
  seed : Nat := 0
  base : Nat := 0

structure DS where
  st : Store := ⟨0, .opn, []⟩
  w : W := newWriter 0 0
  pos : Nat := 0            -- bytes of the stream consumed so far
  seed : Nat := 0
  base : Nat := 0           -- stream byte i is content byte base+i of the piece
  -- g family
  ps : Nat := 0
  total : Nat := 0
  files : Option (List FileEnt) := none
  index : Nat := 0
  infl : List Nat := []     -- blocks of the piece marked in flight (never released by the harness)
  -- multi-writer cases: the writers are independent; `w.sel` swaps the current one in and out
  multi : Bool := false
  cur : Nat := 0
  others : List (Nat × WSlot) := []

def fixedCode : Bool := true

def errStr : WErr → String
  | .nil => "nil" | .closed => "closed" | .shortWrite => "short" | .eof => "eof" | .rfail => "rfail"
  | .store .deleted => "deleted" | .store .odd => "odd" | .store .beyond => "beyond"
  | .store .none => "nil"

def evStr : Ev → String
  | .data b c k => s!"D{b}+{c}{if k then "c" else ""}"
  | .drop b c => s!"X{b}+{c}"

def evsStr (evs : List Ev) : String :=
  if evs.isEmpty then "-" else ",".intercalate (evs.map evStr)

def outStr (w : W) (o : Out) : String :=
  if o.panic then "panic"
  else s!"n={o.n} err={errStr o.err} off={w.offset} cnt={w.count} buf={w.buf.length} ev={evsStr o.evs}"

def nblocks (pl : Nat) : Nat := (pl + CS - 1) / CS

def mkStore (seed pl : Nat) (prefill : String) : Store :=
  let nb := nblocks pl
  let pf := prefill.toList
  let blocks := (List.range nb).map fun b =>
    if pf.getD b '0' = '1' then
      some (patBytes seed (b * CS) (if (b + 1) * CS ≤ pl then CS else pl - b * CS))
    else none
  ⟨pl, .opn, blocks⟩

def fillStore (seed pbase : Nat) (pads : List (Nat × Nat)) (s : Store) : Store :=
  let blocks := (List.range s.blocks.length).map fun b =>
    match s.blocks.getD b none with
    | some d => some d
    | none => some (refBytes seed pads (pbase + b * CS) (if (b + 1) * CS ≤ s.pl then CS else s.pl - b * CS))
  { s with mode := .frozen, blocks := blocks }

def dumpStr (s : Store) : String :=
  let bm := String.ofList (s.blocks.map fun b => if b.isSome then '1' else '0')
  let hs := s.blocks.filterMap fun b => b.map fun d => s!"{d.length}:{fnv64 d}"
  s!"bm={if bm.isEmpty then "-" else bm} h={if hs.isEmpty then "-" else ",".intercalate hs}"

def parseItems (seed base pos : Nat) (s : String) : Option Src :=
  if s == "-" then some [] else
  let rec go (items : List String) (pos : Nat) (acc : Src) : Option Src :=
    match items with
    | [] => some acc.reverse
    | it :: rest =>
      match it.splitOn ":" with
      | [ls, es] =>
        match ls.toNat?, (if es == "n" then some RErr.none else if es == "e" then some .eof
                          else if es == "f" then some .fail else none) with
        | some l, some e => go rest (pos + l) ((patBytes seed (base + pos) l, e) :: acc)
        | _, _ => none
      | _ => none
  go (s.splitOn ",") pos []

def parseFiles (s : String) : Option (Option (List FileEnt)) :=
  if s == "-" then some none else
  let rec go (items : List String) (off : Int) (acc : List FileEnt) : Option (List FileEnt) :=
    match items with
    | [] => some acc.reverse
    | it :: rest =>
      match it.splitOn ":" with
      | [ls, ps] =>
        match ls.toInt? with
        | some l => go rest (off + l) (mkFileEnt off l (if ps == "f" then "" else ps) :: acc)
        | none => none
      | _ => none
  (go (s.splitOn ",") 0 []).map some

def fcStr (fc : FileChunk) : String :=
  s!"{fc.idx}:{fc.filelength}:{fc.offset}:{fc.length}:{if fc.pad then "p" else "f"}"

def fcsStr (fcs : List FileChunk) : String :=
  if fcs.isEmpty then "-" else ";".intercalate (fcs.map fcStr)

def strOfHex (h : String) : Option (List Char) :=
  match ofHex h with
  | none => none
  | some bs => (String.fromUTF8? (ByteArray.mk bs.toArray)).map (·.toList)

/-- a response script `status;cl;crhex;fileoff:len:junk;fin` for the file chunk `fc` -/
def parseResp (d : DS) (fc : FileChunk) (s : String) : Option Resp :=
  if s == "pad" then some .pad
  else if s == "T" then some .transport
  else match s.splitOn ";" with
    | [sts, cls, crh, body, fin] =>
      match sts.toNat?, strOfHex crh, body.splitOn ":" with
      | some status, some cr, [fo, ln, jk] =>
        match fo.toNat?, ln.toNat?, jk.toNat? with
        | some fo, some ln, some jk =>
          let fileBase : Nat := match d.files with
            | none => 0
            | some fs => ((fs.getD fc.idx ⟨0, 0, false⟩).offset).toNat
          let bytes := patBytes d.seed (fileBase + fo) ln ++ patBytes (d.seed + 7) 0 jk
          let e := if fin == "f" then RErr.fail else .eof
          some (.http status (if cls == "-" then [] else cls.toList) cr [(bytes, e)])
        | _, _, _ => none
      | _, _, _ => none
    | _ => none

def parseResps (d : DS) (fcs : List FileChunk) (s : String) : Option (List Resp) :=
  let items := if s == "-" then [] else s.splitOn "/"
  let rec go (items : List String) (fcs : List FileChunk) (acc : List Resp) : Option (List Resp) :=
    match items, fcs with
    | [], _ => some acc.reverse
    | it :: rest, fc :: fcs' =>
      match parseResp d fc it with
      | some r => go rest fcs' (r :: acc)
      | none => none
    | _ :: _, [] => some acc.reverse
  go items fcs []

def reqStr (r : Nat × Int × Int) : String := s!"{r.1}:{r.2.1}-{r.2.2}"

def dataSum (evs : List Ev) : Nat :=
  evs.foldl (fun a e => match e with | .data _ c _ => a + c | _ => a) 0

def dropStr (evs : List Ev) : String :=
  match evs.filterMap (fun e => match e with | .drop b c => some s!"{b}+{c}" | _ => none) with
  | [] => "none"
  | l => ",".intercalate l

def step (d : DS) (ws : List String) : DS × String :=
  match ws with
  | ["w.new", pl, off, cnt, seed, prefill] =>
    match pl.toNat?, off.toNat?, cnt.toNat?, seed.toNat? with
    | some pl, some off, some cnt, some seed =>
      ({ st := mkStore seed pl (if prefill == "-" then "" else prefill), w := newWriter off cnt,
         pos := 0, seed := seed, base := off }, "ok")
    | _, _, _, _ => (d, "bad-op")
  | ["mw.begin"] => ({ multi := true }, "ok")
  | ["w.sel", i] =>
    match i.toNat? with
    | some i =>
      if !d.multi || i ≥ 3 then (d, "bad-op") else
      let me : WSlot := { st := d.st, w := d.w, pos := d.pos, seed := d.seed, base := d.base }
      let others := (d.others.filter (·.1 ≠ d.cur)) ++ [(d.cur, me)]
      let nx : WSlot := ((others.find? (·.1 = i)).map (·.2)).getD {}
      ({ d with st := nx.st, w := nx.w, pos := nx.pos, seed := nx.seed, base := nx.base,
                cur := i, others := others }, "ok")
    | none => (d, "bad-op")
  | ["w.open", pl, off, cnt, seed, prefill] =>
    match pl.toNat?, off.toNat?, cnt.toNat?, seed.toNat? with
    | some pl, some off, some cnt, some seed =>
      if !d.multi || pl = 0 then (d, "bad-op") else
      ({ d with st := mkStore seed pl (if prefill == "-" then "" else prefill), w := newWriter off cnt,
                pos := 0, seed := seed, base := off }, "ok")
    | _, _, _, _ => (d, "bad-op")
  | ["w.write", n] =>
    match n.toNat? with
    | some n =>
      let p := patBytes d.seed (d.base + d.pos) n
      let (st, w, o) := write addData d.st d.w p
      ({ d with st := st, w := w, pos := d.pos + o.n }, outStr w o)
    | none => (d, "bad-op")
  | ["w.readfrom", items] =>
    match parseItems d.seed d.base d.pos items with
    | some src =>
      let (st, w, o) := readFrom addData fixedCode d.st d.w src
      ({ d with st := st, w := w, pos := d.pos + o.n }, outStr w o)
    | none => (d, "bad-op")
  | ["w.close"] =>
    let (w, o) := close d.w
    ({ d with w := w }, outStr w o)
  | ["s.fill"] =>
    if d.st.mode = .opn then
      -- a block that is not the reference content (a lying server) would make Finalise fail
      let pads := padRanges d.files
      let okRef := (List.range d.st.blocks.length).all fun b =>
        match d.st.blocks.getD b none with
        | some x => x == refBytes d.seed pads (d.index * d.ps + b * CS) x.length
        | none => true
      if okRef then ({ d with st := fillStore d.seed (d.index * d.ps) pads d.st }, "ok") else (d, "skip")
    else (d, "ok")
  | ["s.delete"] =>
    ({ d with st := { d.st with mode := .deleted, blocks := d.st.blocks.map fun _ => none } }, "ok")
  | ["w.dump"] => (d, dumpStr d.st)
  | ["fc", ps, total, files, index, offset, length] =>
    match ps.toNat?, total.toNat?, parseFiles files, index.toNat?, offset.toNat?, length.toNat? with
    | some ps, some total, some fs, some i, some o, some l =>
      (d, fcsStr (fileChunks ps total fs i o l))
    | _, _, _, _, _, _ => (d, "bad-op")
  | ["g.new", ps, total, files, index, seed, prefill] =>
    match ps.toNat?, total.toNat?, parseFiles files, index.toNat?, seed.toNat? with
    | some ps, some total, some fs, some i, some seed =>
      let pl := if (i + 1) * ps ≤ total then ps else total - i * ps
      let st0 := mkStore 0 pl (if prefill == "-" then "" else prefill)
      -- prefilled blocks carry the torrent's reference content
      let blocks := (List.range st0.blocks.length).map fun b =>
        match st0.blocks.getD b none with
        | some x => some (refBytes seed (padRanges fs) (i * ps + b * CS) x.length)
        | none => none
      ({ st := { st0 with blocks := blocks }, seed := seed, ps := ps, total := total, files := fs,
         index := i }, "ok")
    | _, _, _, _, _ => (d, "bad-op")
  | ["g.fetch", offset, length, resps] =>
    match offset.toNat?, length.toNat? with
    | some o, some l =>
      let fcs := fileChunks d.ps d.total d.files d.index o l
      match parseResps d fcs resps with
      | some rs =>
        let (st, out) := webseedGR addData fixedCode d.st fcs o l rs
        if out.panic then ({ d with st := st }, "panic")
        else
          let reqs := if out.reqs.isEmpty then "-" else ",".intercalate (out.reqs.map reqStr)
          let lg := if out.log.isEmpty then "-" else ",".intercalate out.log
          ({ d with st := st },
            s!"req={reqs} log={lg} data={dataSum out.evs} drop={dropStr out.evs}")
      | none => (d, "bad-op")
    | _, _ => (d, "bad-op")
  | ["g.maybe", mode] =>
    if mode != "h" && mode != "e" then (d, "bad-op") else
    match maybeRange d.st d.infl 0 with
    | none => (d, "ok=0 res=- data=0 drop=none")
    | some (o, l) =>
      let fcs := fileChunks d.ps d.total d.files d.index o l
      -- every server answers honestly (mode h) or with 404 (mode e)
      let rs : List Resp := fcs.map fun fc =>
        if fc.pad then Resp.pad
        else if mode == "e" then Resp.http 404 [] [] [([110, 111], RErr.eof)]
        else
          let fileBase : Nat := match d.files with
            | none => 0
            | some fs => ((fs.getD fc.idx ⟨0, 0, false⟩).offset).toNat
          let cr := s!"bytes {fc.offset}-{fc.offset + fc.length - 1}/{fc.filelength}"
          Resp.http 206 [] cr.toList
            [(patBytes d.seed (fileBase + fc.offset.toNat) fc.length.toNat, RErr.eof)]
      let (st, out) := webseedGR addData fixedCode d.st fcs o l rs
      if out.panic then ({ d with st := st }, "panic")
      else
        let res := reserve o l
        ({ d with st := st, infl := d.infl ++ res },
          s!"ok=1 res={res.headD 0}+{res.length} log={if out.log.isEmpty then "-" else ",".intercalate out.log} data={dataSum out.evs} drop={dropStr out.evs}")
  | ["h.fetch", offset, length, resp] =>
    match offset.toNat?, length.toNat?, resp.splitOn ";" with
    | some o, some l, [sts, cls, ln, jk, fin] =>
      match sts.toNat?, ln.toNat?, jk.toNat? with
      | some status, some ln, some jk =>
        let w := newWriter o l
        let bytes := refBytes d.seed (padRanges d.files) (d.index * d.ps + o) ln ++ patBytes (d.seed + 7) 0 jk
        let e := if fin == "f" then RErr.fail else .eof
        match hDecide status (if cls == "-" then [] else cls.toList) l with
        | .reject why =>
          let (_, oc) := close w
          (d, s!"log={why} data=0 drop={dropStr oc.evs}")
        | .accept lim =>
          let src : Src := hSrc lim [(bytes, e)] l
          let (st, w', o1) := readFrom addData fixedCode d.st w src
          if o1.panic then ({ d with st := st }, "panic") else
          let (_, oc) := close w'
          ({ d with st := st }, s!"log=- data={dataSum o1.evs} drop={dropStr oc.evs}")
      | _, _, _ => (d, "bad-op")
    | _, _, _ => (d, "bad-op")
  | ["url", base, name, comps] =>
    let file : Option (Option (List Bytes)) :=
      if comps == "nil" then some none
      else if comps == "." then some (some [])
      else ((comps.splitOn ",").mapM ofHex).map some
    match ofHex base, ofHex name, file with
    | some b, some n, some f => (d, toHex (buildUrl b n f))
    | _, _, _ => (d, "bad-op")
  | ["pcr", h] =>
    match strOfHex h with
    | some cs =>
      match parseContentRange cs with
      | some (o, l, fl) => (d, s!"ok {o} {l} {fl}")
      | none => (d, "err")
    | none => (d, "bad-op")
  | _ => (d, "bad-op")

end Storrent.Drive.C14

def main : IO Unit := Storrent.runLines Storrent.Drive.C14.step {}
