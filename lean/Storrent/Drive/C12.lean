import Storrent.Model.Metadata
import Storrent.Drive.MetaLine
import Storrent.Model.MetaSha1
/- driver for the C12 stream (one torrent at a time):
   `new <hash> <authentic info> E | B <psLen> <name> <name8> <pl> <|pieces|> <length> <files>`
   `vote <size>` `resize <size>` `req <guess> <picks>` `got <index> <size> <dataspec>` `join`
   every answer: `<tag> [guess-ok= picks-ok=] c= n= f= b= r= v=` (state digest).
   SHA-1 is computed here; MetadataComplete of the authentic dictionary is C13's model
   applied to the BInfo the real decoder produced for it. -/
namespace Storrent.Drive.C12
open Storrent Storrent.Metadata

structure DState where
  s : MState
  ti : Bytes            -- authentic info dictionary
  mcTrue : McRes        -- MetadataComplete's outcome on it

def tagStr : Tag → String
  | .eComplete => "e-complete" | .eBadSize => "e-bad-size" | .eUnknownSize => "e-unknown-size"
  | .eSize => "e-size" | .eBeyond => "e-beyond" | .eLength => "e-length" | .dup => "dup"
  | .stored => "stored" | .eMismatch => "e-mismatch" | .eParse => "e-parse" | .done => "done"
  | .ok => "ok" | .panic => "panic"

def fnv64 (bs : Bytes) : UInt64 :=
  bs.foldl (fun h c => (h ^^^ c.toUInt64) * 1099511628211) 14695981039346656037

def insertSorted (x : Nat) : List Nat → List Nat
  | [] => [x]
  | y :: r => if x ≤ y then x :: y :: r else y :: insertSorted x r

def sortNat (l : List Nat) : List Nat := l.foldr insertSorted []

def insertKV (x : Nat × Nat) : List (Nat × Nat) → List (Nat × Nat)
  | [] => [x]
  | y :: r => if x.1 ≤ y.1 then x :: y :: r else y :: insertKV x r

def joinOr (l : List String) : String := if l.isEmpty then "-" else ",".intercalate l

def digest (s : MState) : String :=
  let b := joinOr ((sortNat s.bitmap).map toString)
  let r := joinOr (s.requested.map (fun c => toString c.toNat))
  let v := joinOr ((s.votes.foldr insertKV []).map (fun kv => s!"{kv.1}:{kv.2}"))
  s!"c={boolStr s.complete} n={s.info.length} f={(fnv64 s.info).toNat} b={b} r={r} v={v}"

def prng (seed : Nat) (k : Nat) : UInt8 :=
  let x : UInt32 := (UInt32.ofNat (seed + k)) * 2654435761
  (x >>> 13).toUInt8

def dataOf (ti : Bytes) (spec : String) : Option Bytes :=
  let body := (spec.drop 1).toString
  match spec.front with
  | 'H' => body.toNat?.map (fun i => (ti.drop (i * 16384)).take 16384)
  | 'T' =>
    match body.splitOn ":" with
    | [i, l] => do
      let i ← i.toNat?
      let l ← l.toNat?
      pure ((ti.drop (i * 16384)).take l)
    | _ => none
  | 'X' =>
    match body.splitOn ":" with
    | [i, p] => do
      let i ← i.toNat?
      let p ← p.toNat?
      let blk := (ti.drop (i * 16384)).take 16384
      pure (blk.take p ++ ((blk.drop p).take 1).map (· ^^^ 255) ++ blk.drop (p + 1))
    | _ => none
  | 'Z' =>
    match body.splitOn ":" with
    | [l, sd] => do
      let l ← l.toNat?
      let sd ← sd.toNat?
      pure ((List.range l).map (prng sd))
    | _ => none
  | 'R' => ofHex body
  | _ => none

/-- segment spec of the authentic dictionary: `x<hex>`, `p<k>`, `z<len>:<seed>` joined by `+` -/
def expand (spec : String) : Option Bytes :=
  (spec.splitOn "+").foldlM (fun acc seg =>
    let body := (seg.drop 1).toString
    match seg.front with
    | 'x' => (ofHex body).map (acc ++ ·)
    | 'p' => body.toNat?.map (fun k => acc ++ List.replicate k 112)
    | 'z' =>
      match body.splitOn ":" with
      | [l, sd] => do
        let l ← l.toNat?
        let sd ← sd.toNat?
        pure (acc ++ (List.range l).map (prng sd))
      | _ => none
    | _ => none) []

def parsePicks (s : String) : Option (List Nat) :=
  if s == "-" then some [] else (s.splitOn ",").mapM String.toNat?

/-- requestMetadata sorts a permutation of the block indexes once (absent blocks first,
    then by request count) and hands its first entries to the peers: the picks are
    distinct absent blocks, their counts are non-decreasing, and no absent block that was
    not picked has a smaller count than the last pick. -/
def picksOk (s : MState) (picks : List Nat) : Bool :=
  let cnt (i : Nat) : Nat := (s.requested.getD i 0).toNat
  let absent (i : Nat) : Bool := i < s.requested.length && !s.bitmap.contains i
  let rec nondecr : List Nat → Bool
    | a :: b :: r => decide (cnt a ≤ cnt b) && nondecr (b :: r)
    | _ => true
  picks.all absent && picks.eraseDups.length == picks.length && nondecr picks &&
  (match picks.getLast? with
   | none => true
   | some l => (List.range s.requested.length).all (fun j =>
       !absent j || picks.contains j || decide (cnt l ≤ cnt j)))

/-- requestMetadata as called by the driver: the observed guess is len(Info) after the
    call, which is meaningful only when there are votes -/
def request (s : MState) (g : Nat) (picks : List Nat) : (MState × Tag) × Bool × Bool :=
  let g := if s.votes.isEmpty then 0 else g
  let r := requestMetadata s g picks
  let base := (requestMetadata s g []).1
  let gok := s.complete || guessAllowed s.votes g
  let pok := if r.2 == Tag.ok then picksOk base picks else picks.isEmpty
  (r, gok, pok)

def mcOf (d : DState) (info : Bytes) : McRes := if info = d.ti then d.mcTrue else .err

def u32? (s : String) : Option UInt32 :=
  match s.toNat? with
  | some n => if n < 4294967296 then some (UInt32.ofNat n) else none
  | none => none

def parseMc (ws : List String) : Option McRes :=
  match ws with
  | ["E"] => some .err
  | "B" :: rest =>
    match MetaLine.parseBInfo rest with
    | some (psl, bi) =>
      match Meta.metadataComplete psl bi with
      | .ok _ => some .ok
      | .err _ => some .err
      | .panic _ => some .panic
    | none => none
  | _ => none

def out (d : DState) (r : MState × Tag) (extra : String := "") : DState × String :=
  ({ d with s := r.1 }, s!"{tagStr r.2}{extra} {digest r.1}")

def step (d : DState) (ws : List String) : DState × String :=
  match ws with
  | "new" :: h :: info :: rest =>
    match ofHex h, expand info, parseMc rest with
    | some h, some info, some m =>
      let d' : DState := { s := init h, ti := info, mcTrue := m }
      (d', "new " ++ digest d'.s)
    | _, _, _ => (d, "bad-op")
  | ["join"] =>
    -- a peer joins (TorAddPeer), is served, and leaves: the metadata state is untouched
    (d, "join " ++ digest d.s)
  | ["vote", sz] =>
    match u32? sz with
    | some sz => out d (metadataVote d.s sz)
    | none => (d, "bad-op")
  | ["resize", sz] =>
    match u32? sz with
    | some sz => out d (resizeMetadata d.s sz)
    | none => (d, "bad-op")
  | [rq, g, picks] =>
    if rq != "req" && rq != "reqn" then (d, "bad-op") else
    match g.toNat?, parsePicks picks with
    | some g, some picks =>
      let (r, gok, pok) := request d.s g picks
      out d r s!" guess-ok={boolStr gok} picks-ok={boolStr pok}"
    | _, _ => (d, "bad-op")
  | ["votev", sz, g, picks] =>
    match u32? sz, g.toNat?, parsePicks picks with
    | some sz, some g, some picks =>
      -- tor.handleEvent, case TorPeerExtended
      if d.s.complete || sz == 0 then
        ({ d with s := d.s }, s!"ev guess-ok=1 picks-ok={boolStr picks.isEmpty} {digest d.s}")
      else
        let (s1, t1) := metadataVote d.s sz
        if t1 != Tag.ok then
          ({ d with s := s1 }, s!"ev guess-ok=1 picks-ok={boolStr picks.isEmpty} {digest s1}")
        else
          let (r, gok, pok) := request s1 g picks
          ({ d with s := r.1 }, s!"ev guess-ok={boolStr gok} picks-ok={boolStr pok} {digest r.1}")
    | _, _, _ => (d, "bad-op")
  | ["gotev", i, sz, spec, g, picks] =>
    match u32? i, u32? sz, dataOf d.ti spec, g.toNat?, parsePicks picks with
    | some i, some sz, some data, some g, some picks =>
      -- tor.handleEvent, case TorMetaData
      if d.s.complete then
        (d, s!"ev guess-ok=1 picks-ok={boolStr picks.isEmpty} {digest d.s}")
      else
        let (s1, t1) := gotMetadata Sha1.sha1 (mcOf d) d.s i sz data
        if t1 == Tag.panic then ({ d with s := s1 }, s!"panic {digest s1}")
        else if t1 == Tag.dup || t1 == Tag.stored then
          let (r, gok, pok) := request s1 g picks
          ({ d with s := r.1 }, s!"ev guess-ok={boolStr gok} picks-ok={boolStr pok} {digest r.1}")
        else
          ({ d with s := s1 }, s!"ev guess-ok=1 picks-ok={boolStr picks.isEmpty} {digest s1}")
    | _, _, _, _, _ => (d, "bad-op")
  | ["got", i, sz, spec] =>
    match u32? i, u32? sz, dataOf d.ti spec with
    | some i, some sz, some data =>
      out d (gotMetadata Sha1.sha1 (mcOf d) d.s i sz data)
    | _, _, _ => (d, "bad-op")
  | _ => (d, "bad-op")

end Storrent.Drive.C12

def main : IO Unit :=
  Storrent.runLines Storrent.Drive.C12.step
    { s := Storrent.Metadata.init [], ti := [], mcTrue := .err }
