import Storrent.Util
import Storrent.Model.WireParse
import Storrent.Model.PeerOut
import Storrent.Model.PexFeed
/- line-protocol driver for the C11 stream (see harness/cmd/c11):
   new / m … / e … / t … / x … act on one peer; adv, fc, tc are stateless. -/
namespace Storrent.Drive.C11
open Storrent Storrent.Wire Storrent.PeerOut Storrent.Requests Storrent.Pex

def natList (s : String) : Option (List Nat) :=
  if s == "-" then some [] else (s.splitOn ",").mapM (·.toNat?)

def kOf (w : String) : Option (Option Nat) := do
  let v ← kvVal "k" w
  if v == "inf" then pure none else (v.toNat?).map some

def bool? (s : String) : Option Bool :=
  if s == "1" then some true else if s == "0" then some false else none

def optNat (s : String) : Option (Option Nat) :=
  if s == "-" then some none else (s.toNat?).map some

def joinWith (sep : String) (l : List String) : String := sep.intercalate l

def bmStr : Option PBitmap.Bitmap → String
  | none => "nil"
  | some b => payloadStr b

def reqStr (r : Req) : String := s!"{r.index}" ++ (if r.cancelled then "*" else "")

def digest (p : Peer) : String :=
  s!"u={boolStr p.unchoked} q=[{joinWith "," (p.requests.queue.map reqStr)}] " ++
  s!"r=[{joinWith "," (p.requests.requested.map reqStr)}] rb={bmStr p.rbitmap} " ++
  s!"my={payloadStr p.myBitmap} seed={boolStr p.isSeed} reqq={p.reqQ} " ++
  s!"fast=[{joinWith "," (p.fast.map toString)}] si={boolStr p.shouldInterested} " ++
  s!"ai={boolStr p.amInterested} px={p.pexExt} dh={p.dontHaveExt} wl={p.wq.length} " ++
  s!"pex={peersStr p.pex.pending}/{peersStr p.pex.pendingDel}/{peersStr p.pex.sent} " ++
  s!"info={boolStr p.hasInfo}"

def resStr : PeerOut.Res → String
  | .ok => "ok" | .err => "err" | .panic => "panic" | .dead => "dead"

def obs (isDrain : Bool) (p : Peer) (o : PeerOut.Out) : String :=
  s!"{resStr o.res} out=[{joinWith "|" (o.emits.map (fun e => canon e.msg))}] " ++
  s!"drops=[{joinWith "," (o.drops.map (fun d => s!"{d.1}:{d.2}"))}] " ++
  (if isDrain then s!"drained=[{joinWith "|" (o.drained.map canon)}] " else "") ++ digest p

def parseOp (ws : List String) : Option PeerOut.Op :=
  match ws with
  | ["m", "choke"] => some .mChoke
  | ["m", "unchoke"] => some .mUnchoke
  | ["m", "have", i] => i.toNat?.map .mHave
  | ["m", "bitfield", h] => do
    let bs ← ofHex h
    if bs.isEmpty then none else pure (.mBitfield bs)
  | ["m", "haveall"] => some .mHaveAll
  | ["m", "havenone"] => some .mHaveNone
  | ["m", "allowedfast", i] => i.toNat?.map .mAllowedFast
  | ["m", "reject", i, b, k] => do pure (.mReject (← i.toNat?) (← b.toNat?) (← kOf k))
  | ["m", "piece", i, b, len, n, k] => do
    pure (.mPiece (← i.toNat?) (← b.toNat?) (← len.toNat?) (← n.toNat?) (← kOf k))
  | ["m", "ext0", q, px, dh] => do
    let q ← q.toNat?
    let px ← optNat px
    let dh ← optNat dh
    match px, dh with
    | some a, some b => pure (.mExt0 q (some (a, b)))
    | none, none => pure (.mExt0 q none)
    | _, _ => none
  | ["m", "donthave", i] => i.toNat?.map .mDontHave
  | ["e", "request", cs, k] => do pure (.eRequest (← natList cs) (← kOf k))
  | ["e", "cancel", c] => c.toNat?.map .eCancel
  | ["e", "cancelpiece", i] => i.toNat?.map .eCancelPiece
  | ["e", "have", i, h] => do pure (.eHave (← i.toNat?) (← bool? h))
  | ["e", "interested", b] => (bool? b).map .eInterested
  | ["e", "metadata"] => some .eMetadata
  | ["e", "pex", a, ps] => do pure (.ePex (← bool? a) (← parsePeers ps))
  | ["t", "expire", rto, k] => do
    let r ← kvVal "rto" rto
    pure (.expire (← r.toNat?) (← kOf k))
  | ["t", "sendpex"] => some .sendPex
  | ["x", "age", d] => do
    let d ← d.toNat?
    -- the harness's virtual clock advances in multiples of 10 s
    if d % 10000 != 0 then none else pure (.age d)
  | ["x", "drain", k] => k.toNat?.map .drain
  | ["x", "wblock", b] => (bool? b).map .wblock
  | _ => none

def u32ok (n : Nat) : Bool := n < 4294967296

def opOk : PeerOut.Op → Bool
  | .mHave i | .mAllowedFast i | .mDontHave i | .eCancel i | .eCancelPiece i => u32ok i
  | .mReject i b _ => u32ok i && u32ok b
  | .mPiece i b len n _ => u32ok i && u32ok b && u32ok len && u32ok n
  | .eHave i _ => u32ok i
  | .eRequest cs _ => cs.all u32ok
  | .mExt0 q m => u32ok q && (match m with | none => true | some (a, b) => a < 256 && b < 256)
  | _ => true

def parseNew (ws : List String) : Option Peer :=
  match ws with
  | [ps, ln, info, fast, wcap, my] => do
    let ps ← (← kvVal "ps" ps).toNat?
    let ln ← (← kvVal "len" ln).toNat?
    let info ← bool? (← kvVal "info" info)
    let fast ← bool? (← kvVal "fast" fast)
    let wcap ← (← kvVal "wcap" wcap).toNat?
    let my ← ofHex (← kvVal "my" my)
    -- the model's geometry precondition: a piece holds at least one block
    if ps < 16384 || ps ≥ 4294967296 || ln == 0 then none
    else pure { ps := UInt32.ofNat ps, length := ln, hasInfo := info, canFast := fast,
                wcap := wcap, myBitmap := my }
  | _ => none

def advObs (ws : List String) : Option String :=
  match ws with
  | [ps, ln, info, fast, ext, my] => do
    let ps ← (← kvVal "ps" ps).toNat?
    let ln ← (← kvVal "len" ln).toNat?
    let info ← bool? (← kvVal "info" info)
    let fast ← bool? (← kvVal "fast" fast)
    let _ ← bool? (← kvVal "ext" ext)
    let my ← ofHex (← kvVal "my" my)
    if ps < 16384 || ps ≥ 4294967296 || ln == 0 then none else
    match advertise my (numPiecesOf (UInt32.ofNat ps) ln) info fast with
    | none => pure "adv panic"
    | some ms => pure s!"adv [{joinWith "|" (ms.map canon)}]"
  | _ => none

def step (s : Option Peer) (ws : List String) : Option Peer × String :=
  match ws with
  | "new" :: rest =>
    match parseNew rest with
    | some p => (some p, "ok " ++ digest p)
    | none => (none, "bad-op")
  | "adv" :: rest => (s, (advObs rest).getD "bad-op")
  | ["fc", ps, ln, c] =>
    match ps.toNat?, ln.toNat?, c.toNat? with
    | some ps, some ln, some c =>
      if !(u32ok ps && u32ok c) then (s, "bad-op") else
      match fromChunk (u32 ps) (u32 c) with
      | none => (s, "fc panic")
      | some (i, b) => (s, s!"fc {i.toNat} {b.toNat} {(chunkSize ln (u32 c)).toNat}")
    | _, _, _ => (s, "bad-op")
  | ["tc", ps, i, b] =>
    match ps.toNat?, i.toNat?, b.toNat? with
    | some ps, some i, some b =>
      if !(u32ok ps && u32ok i && u32ok b) then (s, "bad-op") else
      match toChunk (u32 ps) (u32 i) (u32 b) with
      | none => (s, "tc panic")
      | some c => (s, s!"tc {c.toNat}")
    | _, _, _ => (s, "bad-op")
  | ["h", "rate", "big"] => (s, "h")
  | ["h", "rate", "zero"] => (s, "h")
  | ["h", "rtt", n] => (s, if n.toNat?.isSome then "h" else "bad-op")
  | _ =>
    match s, parseOp ws with
    | some p, some op =>
      if !opOk op then (s, "bad-op") else
      let (p', o) := PeerOut.step p op
      (some p', obs (match op with | .drain _ => true | _ => false) p' o)
    | _, _ => (s, "bad-op")

end Storrent.Drive.C11

/-- `model-c11 --tags`: print the model's branch tag of every peer op instead of the
    observation (coverage measurement; not part of the diffed stream) -/
def Storrent.Drive.C11.stepTags (s : Option Storrent.PeerOut.Peer) (ws : List String) :
    Option Storrent.PeerOut.Peer × String :=
  match s, Storrent.Drive.C11.parseOp ws with
  | some p, some op =>
    if ws.head? == some "new" || !Storrent.Drive.C11.opOk op then (Storrent.Drive.C11.step s ws).1 |> (·, "-")
    else ((Storrent.PeerOut.step p op).1, (Storrent.PeerOut.step p op).2.tag)
  | _, _ => ((Storrent.Drive.C11.step s ws).1, ws.headD "-")

/-- the `feed` stream: the torrent-side PEX feed (Model/PexFeed.lean) -/
def Storrent.Drive.C11.feedEv : Storrent.PexFeed.Ev → String
  | .add id port flags => s!"a {id}:{port}:{flags}"
  | .del id port => s!"d {id}:{port}"

structure Storrent.Drive.C11.DS where
  p : Option Storrent.PeerOut.Peer := none
  feed : Storrent.PexFeed.Feed := {}

open Storrent.Drive.C11 in
def Storrent.Drive.C11.stepAll (tags : Bool) (s : DS) (ws : List String) : DS × String :=
  let feedOp (op : Storrent.PexFeed.Op) : DS × String :=
    let (f, evs) := Storrent.PexFeed.step s.feed op
    ({ s with feed := f }, "feed [" ++ joinWith "|" (evs.map feedEv) ++ "]")
  match ws with
  | ["feed", "new"] => ({ s with feed := {} }, "feed ok")
  | ["feed", "join", id, port, inc] =>
    match id.toNat?, port.toNat?, bool? inc with
    | some id, some port, some inc =>
      if port < 65536 && id < 250 then feedOp (.join id port inc) else (s, "bad-op")
    | _, _, _ => (s, "bad-op")
  | ["feed", "ext0", id, pp] =>
    match id.toNat?, pp.toNat? with
    | some id, some pp => if pp < 65536 then feedOp (.ext0 id pp) else (s, "bad-op")
    | _, _ => (s, "bad-op")
  | ["feed", "leave", id] =>
    match id.toNat? with
    | some id => feedOp (.leave id)
    | none => (s, "bad-op")
  | _ =>
    let (p', o) := if tags then stepTags s.p ws else step s.p ws
    ({ s with p := p' }, o)

def main (args : List String) : IO Unit :=
  Storrent.runLines (Storrent.Drive.C11.stepAll (args.contains "--tags")) {}
