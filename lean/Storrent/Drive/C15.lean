import Storrent.Model.Tracker
/- line-protocol driver for the C15 stream (see harness/cmd/c15/main.go for the op grammar) -/
namespace Storrent.Drive.C15
open Storrent Storrent.Tracker

def errStr : Err → String
  | .nil => "nil" | .notReady => "notready" | .parse => "parse" | .wr => "wr" | .rd => "rd"
  | .ctx => "ctx" | .deadline => "deadline" | .eof => "eof" | .ueof => "ueof"
  | .actionMismatch => "action" | .tidMismatch => "tid"
  | .trackerMsg m => "msg:" ++ toHex m | .failure m => "fail:" ++ toHex m
  | .dial => "dial" | .status => "status" | .bdec => "bdec" | .url => "url"

def parseErr (s : String) : Option Err :=
  match s.splitOn ":" with
  | ["nil"] => some .nil | ["notready"] => some .notReady | ["parse"] => some .parse
  | ["wr"] => some .wr | ["rd"] => some .rd | ["ctx"] => some .ctx
  | ["deadline"] => some .deadline | ["eof"] => some .eof | ["ueof"] => some .ueof
  | ["action"] => some .actionMismatch | ["tid"] => some .tidMismatch
  | ["dial"] => some .dial | ["status"] => some .status | ["bdec"] => some .bdec
  | ["url"] => some .url
  | ["msg", h] => (ofHex h).map .trackerMsg
  | ["fail", h] => (ofHex h).map .failure
  | _ => none

def timeStr (t : Int) : String := if t = zeroTime then "z" else toString t
def parseTime (s : String) : Option Int := if s == "z" then some zeroTime else s.toInt?

def peerStr (p : Peer) : String := toHex p.addr ++ "/" ++ toString p.port
def peersStr (ps : List Peer) : String :=
  if ps.isEmpty then "-" else ",".intercalate (ps.map peerStr)

def insertSorted (s : String) : List String → List String
  | [] => [s]
  | x :: xs => if s < x then s :: x :: xs else x :: insertSorted s xs
def sortStrs (l : List String) : List String := l.foldr insertSorted []
def peersSorted (ps : List Peer) : String :=
  if ps.isEmpty then "-" else ",".intercalate (sortStrs (ps.map peerStr))

def parseAttempt (s : String) : Option Attempt :=
  match s with
  | "c" => some .ctxTop | "d" => some .deadline | "w" => some .writeFail
  | "k" => some .ctxMid | "r" => some .readFail
  | _ => if s.startsWith "b" then (ofHex (s.drop 1).toString).map .bytes else none

def parseAttempts (s : String) : Option (List Attempt) :=
  if s == "-" then some [] else (s.splitOn ",").mapM parseAttempt

def parseUdpFam (s : String) : Option UdpFam :=
  match s.splitOn ":" with
  | ["D"] => some { dialOk := false, tidC := 0, connect := [], tidA := 0, announce := [] }
  | ["U", tc, c, ta, a] => do
    let tc ← tc.toNat?
    let ta ← ta.toNat?
    let c ← parseAttempts c
    let a ← parseAttempts a
    pure { dialOk := true, tidC := tc, connect := c, tidA := ta, announce := a }
  | _ => none

def parseRetry (s : String) : Option Retry :=
  if s == "e" then some .empty
  else if s == "never" then some .never
  else if s == "x" then some .bad
  else if s.startsWith "n" then (s.drop 1).toString.toInt?.map .num
  else none

def parseDictPeer (s : String) : Option DictPeer :=
  match s.splitOn "/" with
  | [ip, port] => do
    let port ← port.toNat?
    if ip == "x" then pure { ip := none, port := port }
    else
      let a ← ofHex ip
      pure { ip := some a, port := port }
  | _ => none

def parseOptBytes (s : String) : Option (Option Bytes) :=
  if s == "x" then some none else (ofHex s).map some

def parseDec2 (s : String) : Option (Option (List DictPeer)) :=
  if s == "x" then some none
  else if s == "-" then some (some [])
  else ((s.splitOn ",").mapM parseDictPeer).map some

def parseHttpFam (s : String) : Option HttpFam :=
  match s.splitOn ":" with
  | ["T", e] => (parseErr e).map .transport
  | ["R", fl, rt, iv, d1, d2, p6] => do
    let fl ← ofHex fl
    let rt ← parseRetry rt
    let iv ← iv.toInt?
    let d1 ← parseOptBytes d1
    let d2 ← parseDec2 d2
    let p6 ← ofHex p6
    pure (.reply { failure := fl, retry := rt, interval := iv, dec1 := d1, dec2 := d2, peers6 := p6 })
  | _ => none

def annObs : AnnRes → String
  | .panic => "panic"
  | .done b ret c p4 p6 =>
    s!"r={errStr ret} c={boolStr c} t={timeStr b.time} i={b.interval} e={errStr b.err} l={boolStr b.locked} p={peersSorted (p4 ++ p6)}"

def annBase (b : Base) : AnnRes → Base
  | .panic => b
  | .done b' _ _ _ _ => b'

def stateStr : State → String
  | .busy => "busy" | .idle => "idle" | .ready => "ready" | .error => "error"

def step (b : Base) (ws : List String) : Base × String :=
  match ws with
  | ["new", _, ub, _] => (Base.fresh (ub == "1"), "ok")
  | ["set", t, i] =>
    match parseTime t, i.toInt? with
    | some t, some i => ({ b with time := t, interval := i }, "ok")
    | _, _ => (b, "bad-op")
  | ["ready", now] =>
    match now.toInt? with
    | some now => (b, boolStr (ready b now))
    | none => (b, "bad-op")
  | ["state", now] =>
    match now.toInt? with
    | some now =>
      (match getState b now with
       | none => (b, "panic")
       | some (b', st, e) => (b', s!"{stateStr st} {errStr e} l={boolStr b'.locked}"))
    | none => (b, "bad-op")
  | ["upd", i, e] =>
    match i.toInt?, parseErr e with
    | some i, some e =>
      let b' := updateInterval b i e
      (b', s!"i={b'.interval} e={errStr b'.err}")
    | _, _ => (b, "bad-op")
  | ["trylock"] => let r := tryLock b; (r.1, boolStr r.2)
  | ["unlock"] =>
    (match unlock b with
     | none => (b, "panic")
     | some b' => (b', "ok"))
  | ["rr", mn, act, tid, atts] =>
    match mn.toNat?, act.toNat?, tid.toNat?, parseAttempts atts with
    | some mn, some act, some tid, some atts =>
      (match udpRequestReply true mn act tid atts with
       | .panic => (b, "panic")
       | .err e => (b, "err " ++ errStr e)
       | .reader r => (b, "reader " ++ toHex r))
    | _, _, _, _ => (b, "bad-op")
  | ["fudp", fam, f] =>
    match (if fam == "4" then some Fam.v4 else if fam == "6" then some Fam.v6 else none), parseUdpFam f with
    | some fam, some f =>
      (match announceUDP true fam f with
       | .panic => (b, "panic")
       | .done i e ps => (b, s!"i={i} e={errStr e} p={peersStr ps}"))
    | _, _ => (b, "bad-op")
  | ["fhttp", _, f, _] =>
    match parseHttpFam f with
    | some f =>
      (match announceHTTP f with
       | none => (b, "panic")
       | some o =>
         let b' := applySet b o.setInterval
         (b', s!"i={o.interval} e={errStr o.err} ti={b'.interval} p={peersStr o.peers}"))
    | none => (b, "bad-op")
  | ["audp", now, f4, f6] =>
    match now.toInt?, parseUdpFam f4, parseUdpFam f6 with
    | some now, some f4, some f6 =>
      let r := announceUDPAll true b now 0 f4 f6
      (annBase b r, annObs r)
    | _, _, _ => (b, "bad-op")
  | ["caudp", now, f4, f6, _] =>
    match now.toInt?, parseUdpFam f4, parseUdpFam f6 with
    | some now, some f4, some f6 =>
      let r := announceUDPAll true b now 0 f4 f6
      (annBase b r, annObs r)
    | _, _, _ => (b, "bad-op")
  | ["ahttp", now, proxy, f4, f6, last, _, _] =>
    match now.toInt?, parseHttpFam f4, parseHttpFam f6 with
    | some now, some f4, some f6 =>
      let r := announceHTTPAll b now 0 (proxy == "1") f4 f6 (last == "6")
      (annBase b r, annObs r)
    | _, _, _ => (b, "bad-op")
  | ["tick", perm, tiers] =>
    let parseState (c : String) : Option TState :=
      if c == "d" then some .disabled else if c == "e" then some .error else if c == "b" then some .busy
      else if c == "i" then some .idle else if c == "r" then some .ready else none
    let parseTier (t : String) : Option (List TState) :=
      if t == "-" then some [] else (t.splitOn ",").mapM parseState
    let pm : Option (List Nat) := if perm == "-" then some [] else (perm.splitOn ",").mapM (·.toNat?)
    let ts : Option (List (List TState)) := if tiers == "." then some [] else (tiers.splitOn "|").mapM parseTier
    let pr (l : List (Nat × Nat)) : String :=
      if l.isEmpty then "-" else ",".intercalate (l.map fun x => s!"{x.1}.{x.2}")
    match pm, ts with
    | some pm, some ts =>
      (match walkTiers ts pm with
       | none => (b, "panic")
       | some w => (b, s!"gs={pr w.visited} start={pr w.started}"))
    | _, _ => (b, "bad-op")
  | _ => (b, "bad-op")

end Storrent.Drive.C15

def main : IO Unit := Storrent.runLines Storrent.Drive.C15.step (Storrent.Tracker.Base.fresh false)
