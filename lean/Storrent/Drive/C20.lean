import Storrent.Model.Namespace
/- line-protocol driver for the C20 stream (see harness/cmd/c20/main.go for the op list).
   State: the table of live torrents (the last one is "current"). -/
namespace Storrent.Drive.C20
open Storrent Storrent.Http Storrent.NS

structure St where
  table : List Torrent := []      -- oldest first; the last one is the current torrent

def allHex (ws : List String) : Option (List Str) := ws.mapM ofHex

def showPath (p : Path) : String := "(" ++ ",".intercalate (p.map toHex) ++ ")"

def showRow : Row → String
  | .dir p => "d" ++ showPath p
  | .file p _ => "f" ++ showPath p

def showList (xs : List String) : String := if xs.isEmpty then "empty" else " ".intercalate xs

def showT : DType → String
  | .dir => "d"
  | .file => "f"

def showEnt (e : Str × DType) : String := toHex e.1 ++ ":" ++ showT e.2

def entLe (a b : Str × DType) : Bool :=
  if ltStr a.1 b.1 then true else if ltStr b.1 a.1 then false
  else (a.2 == .dir) || (b.2 == .file)

def insEnt (e : Str × DType) : List (Str × DType) → List (Str × DType)
  | [] => [e]
  | x :: xs => if entLe e x then e :: x :: xs else x :: insEnt e xs

def sortEnts (l : List (Str × DType)) : List (Str × DType) := l.foldr insEnt []

def splitAtSlash (ws : List String) : List String × List String :=
  (ws.takeWhile (· ≠ "/"), (ws.dropWhile (· ≠ "/")).drop 1)

def cur (s : St) : Option Torrent := s.table.getLast?

def setCur (s : St) (t : Torrent) : St := { table := s.table.dropLast ++ [t] }

def showNode : Option Node → String
  | none => "enoent"
  | some (.dir h n) => s!"dir {toHex h} {toHex n}"
  | some (.file h n) => s!"file {toHex h} {toHex n}"

def step (s : St) (ws : List String) : St × String :=
  match ws with
  | ["reset"] => ({}, "ok")
  | ["new", h, n, "single", len] =>
    match ofHex h, ofHex n, len.toInt? with
    | some h, some n, some l =>
      ({ table := s.table ++ [⟨h, n, true, none, l⟩] }, "ok")
    | _, _, _ => (s, "bad-op")
  | ["new", h, n, "multi"] =>
    match ofHex h, ofHex n with
    | some h, some n => ({ table := s.table ++ [⟨h, n, true, some [], 0⟩] }, "ok")
    | _, _ => (s, "bad-op")
  | ["new", h, n, "magnet"] =>
    match ofHex h, ofHex n with
    | some h, some n => ({ table := s.table ++ [⟨h, n, false, none, 0⟩] }, "ok")
    | _, _ => (s, "bad-op")
  | "file" :: pad :: len :: comps =>
    match cur s, len.toInt?, allHex comps with
    | some t, some l, some p =>
      match t.files with
      | some fs =>
        let f : File := ⟨p, t.length, l, pad == "1"⟩
        (setCur s { t with files := some (fs ++ [f]), length := t.length + l }, "ok")
      | none => (s, "bad-op")
    | _, _, _ => (s, "bad-op")
  | ["complete", "single", len] =>
    match cur s, len.toInt? with
    | some t, some l => (setCur s { t with complete := true, files := none, length := l }, "ok")
    | _, _ => (s, "bad-op")
  | ["complete", "multi"] =>
    match cur s with
    | some t => (setCur s { t with complete := true, files := some [], length := 0 }, "ok")
    | none => (s, "bad-op")
  | ["kill", h] =>
    match ofHex h with
    | some h => ({ table := s.table.filter fun t => t.hash != h }, "ok")
    | none => (s, "bad-op")
  | ["nfile", h, f] =>
    match ofHex h, ofHex f with
    | some h, some f =>
      (s, match getByHash s.table h with
        | none => "enoent"
        | some t => match fileOpen t f, fileAttr t f with
          | some (o, l), some sz => s!"ok {o} {l} size={sz}"
          | _, _ => "enoent")
    | _, _ => (s, "bad-op")
  | ["ndir", h, d] =>
    match ofHex h, ofHex d with
    | some h, some d =>
      (s, match getByHash s.table h with
        | none => "enoent"
        | some t => match dirReadDir t d with
          | none => "enoent"
          | some es => showList (es.map showEnt))
    | _, _ => (s, "bad-op")
  | ["nlook", h, d, n] =>
    match ofHex h, ofHex d, ofHex n with
    | some h, some d, some n =>
      (s, match getByHash s.table h with
        | none => "enoent"
        | some t => showNode (dirLookup t d n))
    | _, _, _ => (s, "bad-op")
  | "parms" :: comps =>
    match cur s, allHex comps with
    | some t, some p =>
      (s, match fileParms t p with | some (o, l) => s!"ok {o} {l}" | none => "enoent")
    | _, _ => (s, "bad-op")
  | "list" :: comps =>
    match cur s, allHex comps with
    | some t, some p =>
      (s, match listing t p with | .ok rows => showList (rows.map showRow) | .panic => "panic")
    | _, _ => (s, "bad-op")
  | "plist" :: comps =>
    match cur s, allHex comps with
    | some t, some p =>
      (s, match playlist t p with
        | .notFound => "404" | .incomplete => "504" | .panic => "panic"
        | .entries ps => showList (ps.map fun q => "e" ++ showPath q))
    | _, _ => (s, "bad-op")
  | ["hget", sh, mode] =>
    match cur s, ofHex sh with
    | some t, some str =>
      (s, match torHandler t str (mode == "playlist") with
        | .dirPage rows => "dir " ++ showList (rows.map showRow)
        | .file o l => s!"file {o} {l}"
        | .plist ps => "pl " ++ showList (ps.map fun q => "e" ++ showPath q)
        | .notFound => "404"
        | .incomplete => "504"
        | .panic => "panic")
    | _, _ => (s, "bad-op")
  | ["parse", h] =>
    match ofHex h with
    | some f => (s, showPath (parse f) ++ " " ++ toHex (pstring (parse f)))
    | none => (s, "bad-op")
  | "cmp" :: rest =>
    let (a, b) := splitAtSlash rest
    match allHex a, allHex b with
    | some p, some q =>
      (s, s!"{NS.compare p q} w={boolStr (within p q)} e={boolStr (equal p q)}")
    | _, _ => (s, "bad-op")
  | ["rlookup", n] =>
    match ofHex n with
    | some n => (s, showNode (rootLookup s.table n))
    | none => (s, "bad-op")
  | ["rreaddir"] => (s, showList ((sortEnts (rootReadDir s.table)).map showEnt))
  | ["flookup", d, n] =>
    match cur s, ofHex d, ofHex n with
    | some t, some d, some n => (s, showNode (dirLookup t d n))
    | _, _, _ => (s, "bad-op")
  | ["freaddir", d] =>
    match cur s, ofHex d with
    | some t, some d =>
      (s, match dirReadDir t d with
        | none => "enoent"
        | some es => showList (es.map showEnt))
    | _, _ => (s, "bad-op")
  | ["fopen", f] =>
    match cur s, ofHex f with
    | some t, some f =>
      (s, match fileOpen t f, fileAttr t f with
        | some (o, l), some sz => s!"ok {o} {l} size={sz}"
        | _, _ => "enoent")
    | _, _ => (s, "bad-op")
  | "x" :: _ => (s, "x")
  | _ => (s, "bad-op")

end Storrent.Drive.C20

def main : IO Unit := Storrent.runLines Storrent.Drive.C20.step {}
