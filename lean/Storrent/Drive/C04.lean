import Storrent.Model.WireCanon
import Storrent.Gen.WireTable
/- line-protocol driver for the C04 stream: `dec <hex>` / `decs <hex> <cuts> <hex|->` / `decx <hex>` -/
namespace Storrent.Drive.C04
open Storrent Storrent.Wire

def obsOf (bs : Bytes) : String :=
  let o := decodeWith Gen.wireGuards Gen.frameCap leanBDec bs
  let isExt := bs.length ≥ 5 ∧ rdBE (bs.take 4) ≠ 0 ∧ (bs.drop 4).head? = some 20
  match o.res with
  | .msg m => s!"msg {canon m} c={o.consumed}"
  | .err e =>
    if isExt then
      (match e with | .parse => "err parse c=?" | _ => "err exterr c=?")
    else
      let cls := match e with | .eof => "eof" | .tooLong => "toolong" | .parse => "parse" | .ext => "ext"
      s!"err {cls} c={o.consumed}"
  | .nilnil => s!"nilnil c={o.consumed}"
  | .panic => "panic"

def step (_ : Unit) (ws : List String) : Unit × String :=
  match ws with
  | ["dec", h] => match ofHex h with
    | some bs => ((), obsOf bs)
    | none => ((), "bad-op")
  | ["decs", h, _, _] => match ofHex h with
    -- delivery in short reads, another connection decoding in the gaps: the outcome is a
    -- function of the byte sequence alone (the model takes nothing else)
    | some bs => ((), obsOf bs)
    | none => ((), "bad-op")
  | ["decx", _] => ((), "x")
  | _ => ((), "bad-op")

end Storrent.Drive.C04

def main : IO Unit := Storrent.runLines Storrent.Drive.C04.step ()
