import Storrent.Model.PieceThreads
/- driver for the C01 stream (piece store under a deterministic interleaving):
   see Model/PieceThreads.lean for the line protocol. -/
def main : IO Unit := Storrent.runLines Storrent.Piece.dstep {}
