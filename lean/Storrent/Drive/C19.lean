import Storrent.Model.Http
/- line-protocol driver for the C19 stream:
   `cl <hostHex>`                         checkLocal           -> ok | 400 | 403
   `he <hex>`                             html.EscapeString    -> <hex>
   `pu <compHex>*`                        pathUrl              -> ok <hex> | panic
   `m3u <hostHex> <hash20Hex> <compHex>*` m3uentry             -> ok <hex> | panic
   `x …`                                  oracle-only op       -> x -/
namespace Storrent.Drive.C19
open Storrent Storrent.Http

def allHex (ws : List String) : Option (List Str) := ws.mapM ofHex

def step (_ : Unit) (ws : List String) : Unit × String :=
  match ws with
  | ["cl", h] => match ofHex h with
    | some bs => ((), match checkLocal bs with | .ok => "ok" | .badRequest => "400" | .forbidden => "403")
    | none => ((), "bad-op")
  | ["he", h] => match ofHex h with
    | some bs => ((), toHex (htmlEscape bs))
    | none => ((), "bad-op")
  | "pu" :: comps => match allHex comps with
    | some p => ((), match pathUrl p with | .ok u => s!"ok {toHex u}" | .panic => "panic")
    | none => ((), "bad-op")
  | "m3u" :: host :: hash :: comps => match ofHex host, ofHex hash, allHex comps with
    | some h, some hs, some p =>
      ((), match m3uentry h hs p with | .ok u => s!"ok {toHex u}" | .panic => "panic")
    | _, _, _ => ((), "bad-op")
  | "x" :: _ => ((), "x")
  | _ => ((), "bad-op")

end Storrent.Drive.C19

def main : IO Unit := Storrent.runLines Storrent.Drive.C19.step ()
