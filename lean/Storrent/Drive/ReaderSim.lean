import Storrent.Util
import Storrent.Model.Requested
import Storrent.Model.Reader
/-
Shared line-protocol interpreter of the `rd …` ops (C02 stream, and the event-loop mode of
the C10 stream): a world (piece store + Requested), any number of readers, direct
`Torrent.Request` consumers.  The harness runs the real event loop and serialises the ops
(every op is followed by a round trip through the loop), so one op = one atomic model step
plus the wake-ups it enables.
-/
namespace Storrent.Drive.ReaderSim
open Storrent Storrent.Requested Storrent.Reader

/-- reference content, same formula as harness/torsim.ContentByte -/
def contentByte (salt : Nat) (x : Nat) : UInt8 :=
  let v := (x * 2654435761 + salt * 40503 + (x / 256) * 97) % 18446744073709551616
  UInt8.ofNat ((v / 128) % 256 % 251 + 1)

def contentSlice (salt : Nat) (a b : Nat) : Bytes :=
  (List.range (b - a)).map (fun k => contentByte salt (a + k))

def fnv64 (bs : Bytes) : Nat :=
  (bs.foldl (fun (h : UInt64) c => (h ^^^ c.toUInt64) * 1099511628211) 14695981039346656037).toNat

def payload (bs : Bytes) : String :=
  if bs.length ≤ 32 then toHex bs else s!"#{bs.length}:{fnv64 bs}"

/-- `uint32(x)` of a non-negative float: truncation, modulo 2^32 (amd64 behaviour for the
    values that occur: x < 2^63) -/
def cfgOfRate (ps rate : Nat) : Cfg where
  pf := fun remain =>
    -- uint32((rate*5 - remain)/ps + 0.5); the value is > -1 whenever remain ≤ ps, so a
    -- negative numerator truncates to 0
    if ps = 0 then 0
    else if 2 * (rate * 5) + ps < 2 * remain then 0
    else UInt32.ofNat ((2 * (rate * 5) + ps - 2 * remain) / (2 * ps))
  aggr := fun remain => decide (remain < rate * 2)

structure Pending where
  n : Nat
  c : Nat
  deriving Inhabited

structure RSlot where
  rid : Nat
  r : Rd
  pend : Option Pending := none
  deriving Inhabited

structure DState where
  salt : Nat := 0
  rate : Nat := 0
  w : World := { ps := 0, total := 0, numHashes := 0, data := [] }
  readers : List RSlot := []
  direct : List Nat := []     -- channels returned to direct consumers, in order
  holds : List (Nat × Int) := []  -- registrations held by direct consumers
  /-- pieces holding unverified blocks of a corrupting peer (AddData without Finalise): not
      complete, never readable; the next verification of such a piece fails and drops it -/
  dirty : List Nat := []
  deriving Inhabited

def DState.cfg (s : DState) : Cfg := cfgOfRate s.w.ps s.rate

def numPieces (ps total : Nat) : Nat := if ps = 0 then 0 else (total + ps - 1) / ps

/-- printing -/
def showEntryB (ke : Nat × Entry) : String :=
  let ps := ",".intercalate (ke.2.prio.map showInt)
  let d := match ke.2.done with | none => "0" | some _ => "1"
  s!"{ke.1}:[{ps}]:{d}"

def showMapB (m : PMap) : String :=
  if m.isEmpty then "{}" else "{" ++ " ".intercalate ((sortMap m).map showEntryB) ++ "}"

def showReq (l : List (Nat × Int)) : String :=
  "[" ++ ",".intercalate (l.map (fun c => s!"{c.1}:{showInt c.2}")) ++ "]"

def showTErr : TErr → String
  | .metaIncomplete => "meta" | .beyond => "beyond" | .dead => "dead"

def showRErr : Option RErr → String
  | none => "-"
  | some .closed => "closed" | some .eof => "eof" | some .ctx => "ctx" | some .dead => "dead"
  | some (.tor e) => showTErr e

/-- after the torrent died `requestedIndex` depends on which ready alternative Go's `select`
    picked (both end with the same error and nothing registered): not compared -/
def showRd (dead : Bool) (r : Rd) : String :=
  let ri := if dead then "?" else showInt r.requestedIndex
  s!"pos={showInt r.position} ri={ri} req={showReq r.requested}"

def showOut : Outcome → String
  | .ret bs e => s!"ret n={bs.length} d={payload bs} err={showRErr e}"
  | .block _ => "block"
  | .panic => "panic"
  | .spin => "spin"

def getSlot (s : DState) (rid : Nat) : Option RSlot := s.readers.find? (·.rid == rid)

def setSlot (s : DState) (sl : RSlot) : DState :=
  { s with readers := (s.readers.filter (fun x => !(x.rid == sl.rid))) ++ [sl] }

def insertSlot (x : RSlot) : List RSlot → List RSlot
  | [] => [x]
  | y :: r => if x.rid ≤ y.rid then x :: y :: r else y :: insertSlot x r

def sortedSlots (s : DState) : List RSlot := s.readers.foldr insertSlot []

def applyRes (s : DState) (sl : RSlot) (n : Nat) (res : RdRes) : DState × String :=
  let pend := match res.out with | .block c => some { n := n, c := c : Pending } | _ => none
  let s' := setSlot { s with w := res.w } { sl with r := res.r, pend := pend }
  (s', s!"{showOut res.out} {showRd res.w.dead res.r}")

/-- wake every blocked reader whose select has an enabled alternative (rid order;
    precedence dead, ctx, done — the harness never makes two alternatives differ) -/
def wakeAll (s : DState) : DState × String :=
  (sortedSlots s).foldl (fun (acc : DState × String) sl0 =>
    let s := acc.1
    match getSlot s sl0.rid with
    | none => acc
    | some sl =>
      match sl.pend with
      | none => acc
      | some p =>
        let k? : Option Wake :=
          if wakeEnabled s.w sl.r p.c .dead then some .dead
          else if wakeEnabled s.w sl.r p.c .ctx then some .ctx
          else if wakeEnabled s.w sl.r p.c .done then some .done
          else none
        match k? with
        | none => acc
        | some k =>
          let res := wake s.cfg s.w sl.r p.n p.c k
          let (s', o) := applyRes s sl p.n res
          (s', acc.2 ++ s!" | wake r{sl.rid}: {o}")) (s, "")

def directClosed (s : DState) : String :=
  "[" ++ ",".intercalate (s.direct.map (fun c => boolStr (isClosed s.w.rs c))) ++ "]"

def tail (s : DState) : String :=
  if s.w.dead then s!" | dc={directClosed s} map=dead"
  else s!" | dc={directClosed s} map={showMapB s.w.rs.pieces}"

def finish (s : DState) (o : String) : DState × String :=
  let (s', wk) := wakeAll s
  (s', o ++ wk ++ tail s')

def parseInt (t : String) : Option Int := t.toInt?

def pieceData (s : DState) (i : Nat) : Bytes :=
  contentSlice s.salt (i * s.w.ps) (Nat.min ((i + 1) * s.w.ps) s.w.total)

def step (s : DState) (ws : List String) : Option (DState × String) :=
  match ws with
  | ["rd", "new", ps, total, salt, rate, _layout] => do
    let ps ← ps.toNat?; let total ← total.toNat?; let salt ← salt.toNat?; let rate ← rate.toNat?
    let n := numPieces ps total
    let w0 : World := { ps := ps, total := total, numHashes := n, data := List.replicate n none }
    let s' : DState := { salt := salt, rate := rate, w := w0 }
    pure (s', s!"ok n={n}")
  | ["rd", "open", rid, off, len] => do
    let rid ← rid.toNat?; let off ← parseInt off; let len ← parseInt len
    if (getSlot s rid).isSome then none else
    pure (finish (setSlot s { rid := rid, r := { offset := off, length := len } }) "ok")
  | ["rd", "seek", rid, o, wh] => do
    let rid ← rid.toNat?; let o ← parseInt o; let wh ← wh.toNat?
    let sl ← getSlot s rid
    if sl.pend.isSome then none else
    let (r', pos, e) := seek sl.r o wh
    let es := match e with
      | none => "-" | some .closed => "closed" | some .whence => "whence" | some .negative => "negative"
    pure (finish (setSlot s { sl with r := r' }) s!"pos={showInt pos} err={es}")
  | ["rd", "read", rid, n] => do
    let rid ← rid.toNat?; let n ← n.toNat?
    let sl ← getSlot s rid
    if sl.pend.isSome then none else
    let res := read s.cfg s.w sl.r n
    let (s', o) := applyRes s sl n res
    pure (finish s' o)
  | ["rd", "close", rid] => do
    let rid ← rid.toNat?
    let sl ← getSlot s rid
    if sl.pend.isSome then none else
    let (w', r', p) := close s.cfg s.w sl.r
    pure (finish (setSlot { s with w := w' } { sl with r := r' })
      ((if p then "panic " else "ok ") ++ showRd w'.dead r'))
  | ["rd", "cancel", rid] => do
    let rid ← rid.toNat?
    let sl ← getSlot s rid
    pure (finish (setSlot s { sl with r := { sl.r with cancelled := true } }) "ok")
  | ["rd", "complete", i] => do
    let i ← i.toNat?
    match s.w.data[i]? with
    | some none =>
      if s.w.dead then pure (finish s "done=0") else
      if s.dirty.contains i then
        -- the garbage blocks stay (AddData skips blocks it has), the hash fails, the piece is dropped
        pure (finish { s with dirty := s.dirty.filter (· != i) } "done=0") else
      -- Finalise succeeded, TorHave(i, true) handled by the loop
      let w' := { s.w with data := s.w.data.set i (some (pieceData s i)),
                           rs := torHave s.w.rs i true }
      pure (finish { s with w := w' } "done=1")
    | some (some _) => pure (finish s "done=0")
    | none => none
  | ["rd", "corrupt", i] => do
    let i ← i.toNat?
    if i < s.w.data.length then pure (finish { s with dirty := s.dirty.filter (· != i) } "done=0") else none
  | ["rd", "garbage", i] => do
    let i ← i.toNat?
    match s.w.data[i]? with
    | some none =>
      if s.w.dead || s.dirty.contains i then pure (finish s "ok")
      else pure (finish { s with dirty := s.dirty ++ [i] } "ok")
    | some (some _) => pure (finish s "ok")
    | none => none
  | ["rd", "evict", i] => do
    let i ← i.toNat?
    match s.w.data[i]? with
    | some (some _) =>
      pure (finish { s with w := { s.w with data := s.w.data.set i none } } s!"evicted=[{i}]")
    | some none => pure (finish { s with dirty := s.dirty.filter (· != i) } "evicted=[]")
    | none => none
  | ["rd", "kill"] =>
    let w' := { s.w with dead := true, data := s.w.data.map (fun _ => none) }
    -- Torrent.requested is not observable any more (`tail` prints map=dead)
    some (finish { s with w := w', dirty := [] } "ok")
  | ["rd", "treq", i, p, rq, want] => do
    let i ← i.toNat?; let p ← parseInt p
    let rq := rq == "1"; let want := want == "1"
    -- a consumer only withdraws what it holds (anything else is a harness error)
    if !rq && !(s.holds.contains (i, p)) then none else
    let s := if rq then s else { s with holds := s.holds.erase (i, p) }
    match torRequest s.w i p rq want with
    | (w', none) => pure (finish { s with w := w' } "panic")
    | (w', some res) =>
      let s' := { s with w := w', direct := (match res.ch with | some c => s.direct ++ [c] | none => s.direct),
                         holds := if rq && res.d && res.err.isNone && p > idlePriority then s.holds ++ [(i, p)] else s.holds }
      let es := match res.err with | none => "-" | some e => showTErr e
      pure (finish s' s!"d={boolStr res.d} ch={boolStr res.ch.isSome} err={es}")
  | ["rd", "setconf"] =>
    if s.w.dead then some (finish s "dead")
    else some (finish { s with w := { s.w with rs := delIdle s.w.rs } } "ok")
  | ["rd", "chunks", pos, limit] => do
    let pos ← parseInt pos; let limit ← parseInt limit
    match chunks s.cfg s.w.ps pos limit with
    | none => pure (s, "panic")
    | some l => pure (s, showReq l)
  | ["rd", "http", foff, flen, a, b] => do
    -- what a correct file server returns for `Range: bytes=a-b` of the file at
    -- [foff, foff+flen): only generated when the needed pieces are complete
    let foff ← foff.toNat?; let flen ← flen.toNat?; let a ← a.toNat?; let b ← b.toNat?
    if a > b ∨ a ≥ flen then pure (finish s "416") else
    let b := Nat.min b (flen - 1)
    let bs := contentSlice s.salt (foff + a) (foff + b + 1)
    pure (finish s s!"206 {a}-{b}/{flen} d={payload bs}")
  | _ => none

end Storrent.Drive.ReaderSim
