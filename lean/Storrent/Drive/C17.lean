import Storrent.Model.Lifecycle
import Storrent.Gen.Blocking
/- line-protocol driver for the C17 stream:
   `call op=… stop=… … got=<outcome>`  → accept iff <outcome> is the result of some maximal run
                                          of the model for that operation and stop point
   `after op=… stop=… got=… peers=n closed=k readers=r rdead=k listed= done= mem= gor= opconn=`
                                        → accept iff that is the terminal state of the deletion model -/
namespace Storrent.Drive.C17
open Storrent Storrent.Lifecycle

def kv (ws : List String) (k : String) : Option String :=
  ws.findSome? (fun w => match w.splitOn "=" with
    | [a, b] => if a == k then some b else none
    | _ => none)

def resStr : Option Res → String
  | some .ok => "ok" | some .dead => "dead" | some .ctx => "ctx" | some .gone => "gone"
  | none => "hang"

def Cmd.leaked : Cmd → Bool
  | .queued _ => true
  | _ => false

def termsOf (op stop : String) : Option (Spec × List Term) := do
  let sp ← specOf Gen.blocking op
  let st ← Stop.ofString stop
  pure (sp, outcomes sp st (op == "KillCtx"))

def callObs (ws : List String) : String :=
  match kv ws "op", kv ws "stop", kv ws "got" with
  | some op, some stop, some got =>
    match termsOf op stop with
    | none => "bad-op"
    | some (_, ts) =>
      let names := ts.map (fun t => resStr t.res)
      let okRet := got == "ret" && names.any (· != "hang")
      if names.contains got || okRet then "accept"
      else "reject allowed=" ++ String.intercalate "," names.eraseDups
  | _, _, _ => "bad-op"

/-- run the deletion model to its terminal configuration -/
def delFinal (f : DelFacts) (n r : Nat) : Del :=
  let d0 : Del := ⟨0, List.replicate n false, List.replicate r none⟩
  let ls : List DLabel := [.exit, .tearNext, .tearNext, .tearNext]
    ++ (List.range n).map .peerExit ++ (List.range r).map .readerWake
  ls.foldl (fun d l => (dstep f d l).getD d) d0

def afterObs (ws : List String) : String :=
  match kv ws "op", kv ws "stop", kv ws "got", (kv ws "peers").bind String.toNat?,
        (kv ws "closed").bind String.toNat?, (kv ws "readers").bind String.toNat?,
        (kv ws "rdead").bind String.toNat? with
  | some op, some stop, some got, some n, some closed, some r, some rdead =>
    match termsOf op stop with
    | none => "bad-op"
    | some (sp, ts) =>
      let f := delFactsOf Gen.blocking (Gen.peerDoneDeferBeforeReturns && Gen.peerDoneCloseFirst)
      let d := delFinal f n r
      let expClosed := d.peers.count true
      let expDead := d.readers.count (some .dead)
      let b := fun (x : Bool) => if x then "1" else "0"
      let base :=
        closed == expClosed && rdead == expDead
        && kv ws "listed" == some (b (!unlisted Gen.teardown d))
        && kv ws "done" == some (b (doneClosed Gen.teardown d))
        && kv ws "mem" == some (b (piecesFreed Gen.teardown d))
        && kv ws "gor" == some (b (f.peerDoneAlways && expClosed == n && expDead == r))
        && kv ws "getters" == some (b f.peerDoneAlways)
      let mine := ts.filter (fun t => resStr t.res == got || (got == "ret" && t.res.isSome))
      let conn :=
        match kv ws "opconn" with
        | some "none" => !sp.carriesConn
        | some "open" => sp.carriesConn && mine.any (fun t => Cmd.leaked t.cmd)
        | some "closed" => sp.carriesConn && mine.any (fun t => !Cmd.leaked t.cmd)
        | _ => false
      if base && conn then "accept"
      else s!"reject expected closed={expClosed} rdead={expDead} listed=0 done=1 mem=1 gor=1 conn-ok={b conn}"
  | _, _, _, _, _, _, _ => "bad-op"

def connFacts : ConnFacts :=
  connFactsOf Gen.addPeerRunsPeer Gen.addPeerExitsBeforeRun Gen.newPeerReturns Gen.peerRunClosesConnFirst

/-- a connection handed to NewPeer: what the connection model's maximal runs allow for this
    hand-over and this stop point (closed — or stranded in the dead loop's queue) -/
def connObs (ws : List String) : String :=
  match (kv ws "branch").bind Branch.ofString, (kv ws "stop").bind Stop.ofString, kv ws "got",
        kv ws "closed" with
  | some br, some st, some got, some closed =>
    let ts := connOutcomes connFacts br st
    -- "a+b": two hand-overs with different results; each must be possible
    let gots := got.splitOn "+"
    let mine := ts.filter (fun t => gots.contains (resStr t.res))
    let possible := gots.all (fun g => ts.any (fun t => resStr t.res == g))
    let ok :=
      if closed == "1" then mine.any (fun t => t.conn == .closed)
      else mine.any (fun t => t.conn != .closed)
    if possible && ok then "accept" else "reject closed expected"
  | _, _, _, _ => "bad-op"

def step (_ : Unit) (ws : List String) : Unit × String :=
  match ws with
  | "call" :: rest => ((), callObs rest)
  | "after" :: rest => ((), afterObs rest)
  | "connlife" :: rest => ((), connObs rest)
  -- after the teardown has run (tear = 4) the torrent is unlisted: found through no lookup path
  | "listing" :: rest =>
    let d : Del := ⟨4, [], []⟩
    match kv rest "listed" with
    | some l => ((), if (l == "-") == unlisted Gen.teardown d then "accept" else "reject unlisted expected")
    | none => ((), "bad-op")
  | _ => ((), "bad-op")

end Storrent.Drive.C17

def main : IO Unit := Storrent.runLines Storrent.Drive.C17.step ()
