import Storrent.Model.PieceThreads
/- driver for the C03 streams (piece store: eviction / deletion / accounting over several
   stores sharing alloc's counter; `pol` lines: the arithmetic of tor.Expire). -/
def main : IO Unit := Storrent.runLines Storrent.Piece.dstep {}
