import Storrent.Util
import Storrent.Model.Sched
/- driver for the C09 stream (see harness/cmd/c09): one op line in, one observation line out:
   `<result> | <whole bookkeeping state>`; `init` starts a new case. -/
namespace Storrent.Drive.C09
open Storrent Storrent.Sched

def nat? (s : String) : Option Nat := s.toNat?

def natList? (s : String) : Option (List Nat) :=
  if s == "-" then some [] else (s.splitOn ",").mapM (fun x => x.toNat?)

def bool? (s : String) : Option Bool :=
  if s == "1" then some true else if s == "0" then some false else none

def joinNat (l : List Nat) : String :=
  if l.isEmpty then "-" else ",".intercalate (l.map toString)

def evStr : TorEv → String
  | .data src i b l c =>
    let s := match src with | some p => s!"p{p}" | none => "ws"
    s!"data:{s}:{i}:{b}:{l}:{boolStr c}"
  | .drop i b l => s!"drop:{i}:{b}:{l}"
  | .bitmap p bits h => s!"bitmap:p{p}:{joinNat bits}:{boolStr h}"
  | .phave p i h => s!"have:p{p}:{i}:{boolStr h}"
  | .unchoke p b => s!"unchoke:p{p}:{boolStr b}"
  | .goaway p => s!"goaway:p{p}"

def pevStr : PeerEv → String
  | .request cs => s!"request:{joinNat cs}"
  | .cancel c => s!"cancel:{c}"
  | .cancelPiece i => s!"cancelpiece:{i}"
  | .done => "done"
  | .metadata => "meta"

def resStr : Res → String
  | .ok => "ok" | .err => "err" | .congested => "congested" | .eof => "eof" | .dead => "dead"
  | .none => "none" | .block => "block" | .panic => "panic" | .bad => "bad-op"
  | .ev e => evStr e | .pev e => pevStr e | .num n => s!"n={n}" | .res o l => s!"res={o}:{l}"
  | .fin b => s!"fin={boolStr b}" | .tag t => t

def reqStr (r : Req) : String := toString r.chunk ++ (if r.canc then "*" else "")

def peerStr (i : Nat) (p : Peer) : String :=
  let bits := joinNat (bitList p.bits)
  let q := if p.queue.isEmpty then "-" else ",".intercalate (p.queue.map reqStr)
  let r := if p.requested.isEmpty then "-" else ",".intercalate (p.requested.map reqStr)
  if p.alive then
    s!"p{i}: a=1{boolStr p.present} u={boolStr p.unchoked} i={boolStr p.hasInfo}{boolStr p.isSeed} nil={boolStr p.bmNil} b={bits} f={joinNat p.fast} q={q} r={r} ev={p.evq.length} ov={p.overflow.length} w={p.wlen}"
  else
    s!"p{i}: a=0{boolStr p.present} rq={joinNat (p.evq.flatMap reqChunks)} ov={p.overflow.length}"

def writerStr (j : Nat) (w : Writer) : String :=
  s!"w{j}: {w.idx} {w.offset} {w.count} {w.buflen} {boolStr w.isOpen}"

def enumFrom {α : Type} (i : Nat) : List α → List (Nat × α)
  | [] => []
  | x :: xs => (i, x) :: enumFrom (i+1) xs

def stateStr (s : State) : String :=
  let ps := (enumFrom 0 s.peers).map (fun (i, p) => peerStr i p)
  let ws := (enumFrom 0 s.writers).map (fun (j, w) => writerStr j w)
  let pcs := " ".intercalate (s.pieces.map (fun pc =>
    String.ofList (pc.bits.map (fun b => if b then '1' else '0')) ++ (if pc.complete then "C" else "")))
  let inf := if s.hasMeta then joinNat s.inFlight else "-"
  let pcs := if s.hasMeta then pcs else ""
  s!"if={inf} av={joinNat s.avail} te={s.tEvent.length} fl={boolStr s.sat}{boolStr s.under}{boolStr s.aunder} pc={pcs} | " ++
    "; ".intercalate ps ++ " | " ++ "; ".intercalate ws

def parseMsg : List String → Option Msg
  | ["piece", i, b, l] => do pure (.piece (← nat? i) (← nat? b) (← nat? l))
  | ["reject", i, b] => do pure (.reject (← nat? i) (← nat? b))
  | ["choke"] => some .choke
  | ["unchoke"] => some .unchoke
  | ["have", i] => do pure (.haveMsg (← nat? i))
  | ["bitfield", l] => do pure (.bitfield (← natList? l))
  | ["haveall"] => some .haveAll
  | ["havenone"] => some .haveNone
  | ["donthave", i] => do pure (.dontHave (← nat? i))
  | ["allowedfast", i] => do pure (.allowedFast (← nat? i))
  | ["bad"] => some .bad
  | _ => none

def parseOp : List String → Option Op
  | ["conn", f, e, w] => do pure (.connect (← bool? f) (← nat? e) (← nat? w))
  | ["req", p, cs, a] => do pure (.request (← nat? p) (← natList? cs) (← bool? a))
  | ["push", p, "cancel", c] => do pure (.push (← nat? p) (.cancel (← nat? c)))
  | ["push", p, "cancelpiece", i] => do pure (.push (← nat? p) (.cancelPiece (← nat? i)))
  | ["push", p, "done"] => do pure (.push (← nat? p) .done)
  | ["push", p, "meta"] => do pure (.push (← nat? p) .metadata)
  | ["pev", p, sl] => do pure (.peerEvent (← nat? p) (← bool? sl))
  | "msg" :: p :: sl :: rest => do pure (.peerMsg (← nat? p) (← parseMsg rest) (← bool? sl))
  | ["tick", p, rto, sl] => do pure (.tick (← nat? p) (← nat? rto) (← bool? sl))
  | ["age", p, d] => do pure (.age (← nat? p) (← nat? d))
  | ["exit", p] => do pure (.exit (← nat? p))
  | ["flush", p] => do pure (.flush (← nat? p))
  | ["tev"] => some .torEvent
  | ["wdrain", p] => do pure (.wdrain (← nat? p))
  | ["wfill", p, k] => do pure (.wfill (← nat? p) (← nat? k))
  | ["ws", i] => do pure (.wsReserve (← nat? i))
  | ["ww", w, n] => do pure (.wWrite (← nat? w) (← nat? n))
  | ["wc", w] => do pure (.wClose (← nat? w))
  | ["fin", i] => do pure (.finalise (← nat? i))
  | ["metac"] => some .metaComplete
  | _ => none

def stepLine (s : State) (ws : List String) : State × String :=
  match ws with
  | ["init", ps, len, tcap] =>
    match nat? ps, nat? len, nat? tcap with
    | some ps, some len, some tcap =>
      let g : Geom := { ps := ps, len := len }
      if decide g.Valid then
        let s := Sched.init g tcap
        (s, "init | " ++ stateStr s)
      else (s, "bad-geom")
    | _, _, _ => (s, "bad-op")
  | ["minit", ps, len, tcap] =>
    match nat? ps, nat? len, nat? tcap with
    | some ps, some len, some tcap =>
      let g : Geom := { ps := ps, len := len }
      if decide g.Valid then
        let s := Sched.initMagnet g tcap
        (s, "init | " ++ stateStr s)
      else (s, "bad-geom")
    | _, _, _ => (s, "bad-op")
  | ["chunk", ps, len, c] =>
    match nat? ps, nat? len, nat? c with
    | some ps, some len, some c =>
      let g : Geom := { ps := ps, len := len }
      if decide g.Valid then
        let ib := fromChunk g c
        (s, s!"chunk {ib.1} {ib.2} {chunkSize g c} {toChunk g ib.1 ib.2}")
      else (s, "bad-geom")
    | _, _, _ => (s, "bad-op")
  | _ =>
    match parseOp ws with
    | none => (s, "bad-op")
    | some op =>
      let r := step s op
      (r.1, resStr r.2 ++ " | " ++ stateStr r.1)

end Storrent.Drive.C09

def main : IO Unit :=
  Storrent.runLines Storrent.Drive.C09.stepLine (Storrent.Sched.init { ps := 16384, len := 16384 } 512)
