import Storrent.Model.PeerMsg
/- line-protocol driver of the C05 stream (see harness/cmd/c05):
   new <info> <infoLen> <ps> <len> <fast> <myhex> <wcap> <iphex> <port> <nHashes> <ge>
   msg <skip><complete> <ta> <canonical message | nil | Flush | Error eof|read>
   pev <ta> <MetadataComplete il ps len | Request c,c | Have i h | Cancel c | CancelPiece i |
             Interested b | GetMetadata i | Unchoke b | Done>
   tev <guess:getmeta:hashok:parseok:ps:len:nh> <ta> <event>
   treq c,c,..      the torrent's scheduler reserves these chunks
   exit <ta>
   env drain k | fill | wdone | rate b | age | script r,r,..
   `ta` = bytes the real code allocated (measured); answered by aok / abad. -/
namespace Storrent.Drive.C05
open Storrent Storrent.Wire Storrent.PeerMsg Storrent.RequestsI

structure St where
  p : PeerState := {}
  t : TorState := {}

def natList (s : String) : Option (List Nat) :=
  if s == "-" then some [] else (s.splitOn ",").mapM String.toNat?

def b01 (s : String) : Option Bool := if s == "1" then some true else if s == "0" then some false else none

def listStr (l : List String) : String := "[" ++ ",".intercalate l ++ "]"

def optBm : Option Bytes → String
  | none => "nil"
  | some b => payloadStr b

def tevStr (full : Bool) (e : TEv) : String :=
  let pl := fun (b : Bytes) => if full then toHex b else payloadStr b
  match e with
  | .peerUnchoke b => s!"PeerUnchoke {boolStr b}"
  | .peerInterested b => s!"PeerInterested {boolStr b}"
  | .peerHave i h => s!"PeerHave {i} {boolStr h}"
  | .peerBitmap bm h => s!"PeerBitmap {pl bm} {boolStr h}"
  | .peerExtended n => s!"PeerExtended {n}"
  | .addKnown ip port kind v => s!"AddKnown {toHex ip} {port} {kind} {toHex v}"
  | .metaData size index d => s!"MetaData {size} {index} {pl d}"
  | .data i b l c => s!"Data {i} {b} {l} {boolStr c}"
  | .drop i b l => s!"Drop {i} {b} {l}"
  | .goaway => "Goaway"

def outStr : PeerMsg.Out → String
  | .msg (.metadata sub 1 p tot d) => s!"m:Meta {sub} 1 {p} {tot} #{d.length}"
  | .msg m => "m:" ++ canon m
  | .ev e => "e:" ++ tevStr false e

def resStr : PeerMsg.Res → String
  | .ok => "ok"
  | .err e => "err:" ++ e.replace " " "_"
  | .panic _ => "panic"

def peerSnap (s : PeerState) : String :=
  let q := listStr (s.requests.queue.map toString)
  let r := listStr (s.requests.requested.map (fun r => toString r.index ++ (if r.cancelled then "*" else "")))
  let up := listStr (s.upload.map (fun (i, b, l) => s!"{i}/{b}/{l}"))
  let fast := listStr (s.fast.map toString)
  -- the membership bitmap over every block number plus a margin
  let nb := 16 + (if s.info then chunksOf s.length else 0)
  let mb := listStr (((List.range nb).filter (fun c => bGet s.requests.bits c)).map toString)
  -- once the metadata is known the flag is a cache that the status getters refresh
  -- (`isSeed(peer)`) and no handler reads: printed only before
  let seed := if s.info then "-" else boolStr s.isSeed
  s!"info={boolStr s.info} bm={optBm s.bitmap} seed={seed} un={boolStr s.unchoked} in={boolStr s.interested} au={boolStr s.amUnchoking} si={boolStr s.shouldInterested} ai={boolStr s.amInterested} ge={boolStr s.gotExtended} ext={s.pexExt},{s.metadataExt},{s.dontHaveExt},{s.uploadOnlyExt} uo={boolStr s.uploadOnly} port={s.port} rq={s.reqQ} q={q} r={r} mb={mb} up={up} fast={fast} pex={peersStr s.pex} tick={boolStr s.uploadTicking} my={payloadStr s.myBitmap} w={s.wlen}"

def sparseStr (v : Sparse) : String :=
  s!"{v.len}:" ++ "{" ++ ",".intercalate (v.nz.map (fun kv => s!"{kv.1}:{kv.2}")) ++ "}"

def insertVote (kv : Nat × Nat) : List (Nat × Nat) → List (Nat × Nat)
  | [] => [kv]
  | x :: xs => if kv.1 < x.1 then kv :: x :: xs else x :: insertVote kv xs

def denseStr (l : List Nat) : String :=
  let nz := (l.zipIdx).filter (fun (v, _) => v != 0)
  s!"{l.length}:" ++ "{" ++ ",".intercalate (nz.map (fun (v, i) => s!"{i}:{v}")) ++ "}"

def torSnap (t : TorState) : String :=
  let votes := (t.votes.foldl (fun acc kv => insertVote kv acc) []).map (fun kv => s!"{kv.1}:{kv.2}")
  s!"ic={boolStr t.infoComplete} ps={t.pieceSize} len={t.length} av={sparseStr t.available} if={sparseStr t.inFlight} il={t.infoLen} ib={payloadStr t.infoBits} ir={denseStr t.infoRequested} votes={listStr votes}"

def allocStr (ta model : Nat) : String :=
  if ta ≤ 2 * model + 262144 then "aok" else s!"abad(model={model})"

def isMsg : PeerMsg.Out → Bool
  | .msg _ => true
  | .ev _ => false

/-- the harness reads two separate queues: messages first, then events -/
def sortedOuts (l : List PeerMsg.Out) : List PeerMsg.Out := l.filter isMsg ++ l.filter (fun o => !isMsg o)

def resultLine (r : Result) (ta : Nat) : String :=
  s!"res={resStr r.res} out={listStr ((sortedOuts r.outs).map outStr)} {peerSnap r.s} {allocStr ta (r.cost.alloc + r.cost.store)} tag={r.tag}"

def parsePMsg (ws : List String) : Option PMsg :=
  match ws with
  | ["nil"] => some .nil
  | ["Flush"] => some .flush
  | ["Error", "eof"] => some (.error true)
  | ["Error", _] => some (.error false)
  | _ => (parseMsg ws).map .wire

def parsePEv (ws : List String) : Option PEv :=
  match ws with
  | ["MetadataComplete", il, ps, len] => do pure (.metadataComplete (← il.toNat?) (← ps.toNat?) (← len.toNat?))
  | ["Request", cs] => (natList cs).map .request
  | ["Have", i, h] => do pure (.have (← i.toNat?) (← b01 h))
  | ["Cancel", c] => c.toNat?.map .cancel
  | ["CancelPiece", i] => i.toNat?.map .cancelPiece
  | ["Interested", b] => (b01 b).map .interested
  | ["GetMetadata", i] => i.toNat?.map .getMetadata
  | ["Unchoke", b] => (b01 b).map .unchoke
  | ["Done"] => some .done
  | _ => none

def parseTEv (ws : List String) : Option TEv :=
  match ws with
  | ["PeerUnchoke", b] => (b01 b).map .peerUnchoke
  | ["PeerInterested", b] => (b01 b).map .peerInterested
  | ["PeerHave", i, h] => do pure (.peerHave (← i.toNat?) (← b01 h))
  | ["PeerBitmap", bm, h] => do pure (.peerBitmap (← ofHex bm) (← b01 h))
  | ["PeerExtended", n] => n.toNat?.map .peerExtended
  | ["AddKnown", ip, port, kind, v] => do pure (.addKnown (← ofHex ip) (← port.toNat?) (← kind.toNat?) (← ofHex v))
  | ["MetaData", size, index, d] => do pure (.metaData (← size.toNat?) (← index.toNat?) (← ofHex d))
  | ["Data", i, b, l, c] => do pure (.data (← i.toNat?) (← b.toNat?) (← l.toNat?) (← b01 c))
  | ["Drop", i, b, l] => do pure (.drop (← i.toNat?) (← b.toNat?) (← l.toNat?))
  | ["Goaway"] => some .goaway
  | _ => none

def parseEnv (s : String) : Option TorEnv :=
  match s.splitOn ":" with
  | [g, m, h, p, ps, len, nh, rs] => do
    let rs ← if rs == "-" then some [] else (rs.splitOn ".").mapM String.toNat?
    let gm ← if m == "-" then some none else m.toNat?.map some
    let g ← g.toNat?
    let h ← b01 h
    let p ← b01 p
    let ps ← ps.toNat?
    let len ← len.toNat?
    let nh ← nh.toNat?
    pure { guess := g, getMeta := gm, hashOk := h, parseOk := p, pieceSize := ps, length := len, nHashes := nh, reserved := rs }
  | _ => none

def parseW (s : String) : Option WRes :=
  if s == "ok" then some .ok else if s == "congested" then some .congested
  else if s == "eof" then some .eof else none

def reserve (t : TorState) (cs : List Nat) : TorState :=
  cs.foldl (fun t c =>
    if c < t.inFlight.len then
      let v := t.inFlight.get c
      if v ≥ 255 then t else { t with inFlight := t.inFlight.set c (v + 1) }
    else t) t

def step (st : St) (ws0 : List String) : St × String :=
  let ws := match ws0 with
    | "tev" :: r => "TEV" :: r
    | "tevs" :: r => "TEV" :: r
    | "pevt" :: r => "pev" :: r
    | w => w
  match ws with
  | "new" :: info :: il :: ps :: len :: fast :: my :: wcap :: ip :: port :: nh :: ge :: _ =>
    match (do
      let info ← b01 info
      let il ← il.toNat?
      let ps ← ps.toNat?
      let len ← len.toNat?
      let fast ← b01 fast
      let my ← ofHex my
      let wcap ← wcap.toNat?
      let ip ← ofHex ip
      let port ← port.toNat?
      let nh ← nh.toNat?
      let ge ← b01 ge
      let p : PeerState := { info := info, infoLen := il, pieceSize := ps, length := len, canFast := fast, myBitmap := my, wcap := wcap, ip := ip, port := port }
      let t : TorState := { infoComplete := info, pieceSize := ps, length := len, nHashes := nh, inFlight := { len := if info then chunksOf len else 0 }, metaGuardGe := ge }
      pure (St.mk p t)) with
    | some st' => (st', "ok")
    | none => (st, "bad-op")
  | "msg" :: ae :: ta :: rest =>
    match parsePMsg rest, ta.toNat?, ae.toList with
    | some m, some ta, [sk, cp] =>
      let r := handleMessage st.p m { skip := sk == '1', complete := cp == '1' }
      ({ st with p := r.s }, resultLine r ta)
    | _, _, _ => (st, "bad-op")
  | "pev" :: ta :: rest =>
    match parsePEv rest, ta.toNat? with
    | some e, some ta =>
      let r := handleEvent st.p e
      ({ st with p := r.s }, resultLine r ta)
    | _, _ => (st, "bad-op")
  | ["exit", ta] =>
    match ta.toNat? with
    | some ta =>
      let r := PeerMsg.exit st.p
      ({ st with p := r.s }, resultLine r ta)
    | none => (st, "bad-op")
  | "TEV" :: env :: ta :: rest =>
    match parseTEv rest, parseEnv env, ta.toNat? with
    | some e, some env, some ta =>
      let r0 := torHandle st.t e env
      let r := { r0 with t := reserve r0.t env.reserved }
      let snap := match r.res with | .panic _ => "?" | _ => torSnap r.t
      ({ st with t := r.t }, s!"res={resStr r.res} {snap} {allocStr ta (r.alloc + r.store)} tag={r.tag}")
    | _, _, _ => (st, "bad-op")
  | ["sched", _] => (st, "ok")
  | ["e2e", _] => (st, "ok")
  | ["tick", rs] =>
    match (if rs == "-" then some [] else (rs.splitOn ".").mapM String.toNat?) with
    | some l => ({ st with t := reserve st.t l }, "res=ok")
    | none => (st, "bad-op")
  | ["env", "hold"] => (st, "ok")
  | ["env", "release"] => (st, "ok")
  | ["env", "setw", k] =>
    match k.toNat? with
    | some k => ({ st with p := { st.p with wlen := k } }, "ok")
    | none => (st, "bad-op")
  | ["treq", cs] =>
    match natList cs with
    | some cs => let t := reserve st.t cs; ({ st with t := t }, torSnap t)
    | none => (st, "bad-op")
  | ["env", "drain", k] =>
    match k.toNat? with
    | some k => ({ st with p := { st.p with wlen := st.p.wlen - k } }, "ok")
    | none => (st, "bad-op")
  | ["env", "fill"] => ({ st with p := { st.p with wlen := st.p.wcap } }, "ok")
  | ["env", "wdone"] => ({ st with p := { st.p with wlen := st.p.wcap, wdone := true } }, "ok")
  | ["env", "rate", b] =>
    match b01 b with
    | some b => ({ st with p := { st.p with fastRate := b } }, "ok")
    | none => (st, "bad-op")
  | ["env", "age"] => ({ st with p := { st.p with activeOld := true } }, "ok")
  | ["env", "script", rs] =>
    match (rs.splitOn ",").mapM parseW with
    | some l => ({ st with p := { st.p with wscript := l } }, "ok")
    | none => (st, "bad-op")
  | _ => (st, "bad-op")

end Storrent.Drive.C05

/-- split "obs tag=T" into (obs, T) -/
def Storrent.Drive.C05.splitTag (o : String) : String × String :=
  match o.splitOn " tag=" with
  | [a, t] => (a, t)
  | _ => (o, "")

partial def Storrent.Drive.C05.loop (h out : IO.FS.Stream) (st : Storrent.Drive.C05.St)
    (tags : List (String × Nat)) : IO (List (String × Nat)) := do
  let line ← h.getLine
  if line.isEmpty then
    out.flush
    return tags
  let ws := Storrent.words line
  if ws.isEmpty then Storrent.Drive.C05.loop h out st tags
  else
    let (st', o) := Storrent.Drive.C05.step st ws
    let (obs, tag) := Storrent.Drive.C05.splitTag o
    out.putStrLn obs
    let tags' := if tag.isEmpty then tags else
      (tag.splitOn "+").foldl (fun acc t =>
        match acc.find? (fun kv => kv.1 == t) with
        | some _ => acc.map (fun kv => if kv.1 == t then (kv.1, kv.2 + 1) else kv)
        | none => acc ++ [(t, 1)]) tags
    Storrent.Drive.C05.loop h out st' tags'

/-- one observation line per op line on stdout (the branch tag is stripped); the histogram
    of model branch tags goes to the file named by $C05_TAGFILE, if set -/
def main : IO Unit := do
  let i ← IO.getStdin
  let o ← IO.getStdout
  let tags ← Storrent.Drive.C05.loop i o {} []
  match (← IO.getEnv "C05_TAGFILE") with
  | some f => IO.FS.writeFile f (String.intercalate "\n" (tags.map (fun kv => s!"{kv.2} {kv.1}")) ++ "\n")
  | none => pure ()
