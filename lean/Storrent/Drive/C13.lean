import Storrent.Drive.MetaLine
import Storrent.Model.MetaDecode
import Storrent.Model.MetaSha1
/- driver for the C13 stream:
   `mc <psLen> <name> <name8> <pl> <|pieces|> <length> <files>` -> MetadataComplete on a BInfo
   `slice <hex> <D1|D0>`      -> the raw info value found by infoSlice: length and SHA-1
   `rt`                       -> ReadTorrent over the raw bytes of the current file (set by `slice`) with the Lean decoder
   `magnet <hex> U0 | U1 <scheme> <xts>`  -> ReadMagnet's decision
   `wt <tiers> <webseeds>`    -> WriteTorrent's field selection and ReadTorrent's reading of it -/
namespace Storrent.Drive.C13
open Storrent Storrent.Meta

def pathStr (p : List Bytes) : String :=
  if p.isEmpty then "." else "/".intercalate (p.map toHex)

def fileStr (f : GFile) : String :=
  s!"{pathStr f.path}|{f.offset}|{f.length}|{boolStr f.padding}"

def errStr : MErr → String
  | .oddPieces => "odd-pieces" | .oddPiece => "odd-piece" | .both => "both"
  | .neither => "neither" | .noPath => "no-path" | .badFileLength => "bad-file-length"
  | .tooLarge => "too-large" | .wrongHashes => "wrong-hashes" | .noName => "no-name"
  | .badFilePath => "bad-file-path" | .dupPath => "dup-path" | .fileIsDir => "file-is-dir"
  | .badName => "bad-name"

def resStr : Res Geom → String
  | .err e => "err " ++ errStr e
  | .panic _ => "panic"
  | .ok g =>
    let fs := if g.files.isEmpty then "-" else ";".intercalate (g.files.map fileStr)
    let np := g.nPieces
    let sums := if np ≤ 20000 then
        s!"{((List.range np).map (pieceLengthAt g)).foldl (· + ·) 0}/{((List.range np).map (pieceBlocks g)).foldl (· + ·) 0}"
      else "-"
    s!"ok name={toHex g.name} pl={g.pieceLength} len={g.length} nif={g.nInFlight} np={g.nPieces} nh={g.nHashes} files={fs} pls={pieceLengthAt g 0},{pieceLengthAt g (np - 2)},{pieceLengthAt g (np - 1)},{pieceLengthAt g np} sums={sums}"

/-- URL in hex; "~" is the empty URL ("-" is the empty list) -/
def ofHexU (s : String) : Option Bytes := if s == "~" then some [] else ofHex s
def toHexU (b : Bytes) : String := if b.isEmpty then "~" else toHex b

def parseList (sep : String) (s : String) : Option (List Bytes) :=
  if s == "-" then some [] else (s.splitOn sep).mapM ofHexU

def parseTiers (s : String) : Option (List (List Bytes)) :=
  if s == "-" then some []
  else (s.splitOn ";").mapM (fun t => if t == "." then some [] else (t.splitOn ",").mapM ofHexU)

def parseWs (s : String) : Option (List (WsKind × Bytes)) :=
  if s == "-" then some []
  else (s.splitOn ",").mapM (fun w =>
    match w.splitOn ":" with
    | ["G", h] => (ofHex h).map (fun u => (WsKind.getright, u))
    | ["H", h] => (ofHex h).map (fun u => (WsKind.hoffman, u))
    | _ => none)

def listStr (l : List Bytes) : String := if l.isEmpty then "-" else ",".intercalate (l.map toHexU)

def tiersStr (ts : List (List Bytes)) : String :=
  if ts.isEmpty then "-"
  else ";".intercalate (ts.map (fun t => if t.isEmpty then "." else ",".intercalate (t.map toHexU)))

def wsStr (ws : List (WsKind × Bytes)) : String :=
  if ws.isEmpty then "-"
  else ",".intercalate (ws.map (fun w =>
    (match w.1 with | .getright => "G:" | .hoffman => "H:") ++ toHex w.2))

/-- the state is the file of the current case: `slice` sets it, `rt` and `wtb` use it (the
    bytes travel once per case) -/
def step (cur : Bytes) (ws : List String) : Bytes × String :=
  match ws with
  | "mc" :: rest =>
    match MetaLine.parseBInfo rest with
    | some (psl, bi) => (cur, resStr (metadataComplete psl bi))
    | none => (cur, "bad-op")
  | "mc2" :: dn :: rest =>
    -- a magnet's metadata delivered twice: MetadataComplete WITH its assignments
    match ofHex dn, MetaLine.parseBInfo rest with
    | some dn, some (_, bi) =>
      let st0 : TState := { name := dn, inFlight := none, nHashes := none, psLen := 0, pieceSize := 0,
                            nPieces := 0, files := none, complete := false }
      let trace (st : TState) : String :=
        let l := (if st.psLen ≠ 0 ∨ st.pieceSize ≠ 0 ∨ st.nPieces ≠ 0 then ["pieces"] else []) ++
          (if st.inFlight.getD 0 ≠ 0 then ["inflight"] else []) ++
          (if st.nHashes.getD 0 ≠ 0 then ["hashes"] else []) ++
          (if st.files.isSome then ["files"] else []) ++
          (if st.name ≠ dn then ["name"] else []) ++
          (if st.complete then ["complete"] else [])
        if l.isEmpty then "-" else ",".intercalate l
      let one (r : TState × Res Unit) : String :=
        match r.2 with
        | .ok _ => "ok"
        | .err e => s!"err {errStr e} trace={trace r.1}"
        | .panic _ => "panic"
      let r1 := metadataCompleteSt st0 bi
      match r1.2 with
      | .err _ => (cur, s!"{one r1} | {one (metadataCompleteSt r1.1 bi)}")
      | _ => (cur, one r1)
    | _, _ => (cur, "bad-op")
  | ["wtb", tiers, wsl, cdate] =>
    -- the bytes WriteTorrent produces for the torrent read from the current file, and what
    -- ReadTorrent-over-bytes makes of them
    match parseTiers tiers, parseWs wsl, cdate.toInt?, topInfo cur with
    | some ts, some wl, some cd, some ol0 =>
      let info := sliceBytes cur ol0
      let out := writeTorrentBytes info cd (writeFields ts wl)
      let back := match topInfo out with
        | some ol => if sliceBytes out ol == info then "same-info" else "other-info"
        | none => "no-info"
      (cur, s!"{out.length} {toHex (Sha1.sha1 out)} {back}")
    | _, _, _, _ => (cur, "bad-op")
  | ["rt"] =>
    -- ReadTorrent over the raw bytes of the current file, with the Lean decoder
    match readTorrentBytes cur with
    | .ok info g => (cur, s!"{resStr (.ok g)} ih={toHex (Sha1.sha1 info)}")
    | .noInfo => (cur, "rejected")
    | .badInfo => (cur, "rejected")
    | .err e => (cur, "err " ++ errStr e)
    | .panic _ => (cur, "panic")
  | ["slice", h, d] =>
    match ofHex h with
    | none => (cur, "bad-op")
    | some bs =>
      if d == "D0" then (bs, "noinfo")
      else if d == "D1" then
        match infoSlice bs with
        | none => (bs, "nosplit")
        | some ol =>
          let sl := sliceBytes bs ol
          (bs, s!"info {sl.length} {toHex (Sha1.sha1 sl)}")
      else (cur, "bad-op")
  | "magnet" :: h :: rest =>
    match ofHex h with
    | none => (cur, "bad-op")
    | some m =>
      let url : Option (Option (Bytes × List Bytes)) :=
        match rest with
        | ["U0"] => some none
        | ["U1", sch, xts] =>
          match ofHex sch, parseList "," xts with
          | some sch, some xts => some (some (sch, xts))
          | _, _ => none
        | _ => none
      match url with
      | none => (cur, "bad-op")
      | some url =>
        match readMagnet m url with
        | .notMagnet => (cur, "nil")
        | .err => (cur, "err")
        | .torrent hh => (cur, "hash " ++ toHex hh)
  | ["wt", tiers, wsl] =>
    match parseTiers tiers, parseWs wsl with
    | some ts, some wl =>
      let f := writeFields ts wl
      let back := readFields (fun _ => true) (fun _ => true) f
      let al := match f.announceList with | none => "nil" | some a => tiersStr a
      (cur, s!"a={toHexU f.announce} al={al} ul={listStr f.urlList} hs={listStr f.httpSeeds} back={tiersStr back.1}|{wsStr back.2}")
    | _, _ => (cur, "bad-op")
  | _ => (cur, "bad-op")

end Storrent.Drive.C13

def main : IO Unit := Storrent.runLines Storrent.Drive.C13.step []
