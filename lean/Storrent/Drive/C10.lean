import Storrent.Drive.ReaderSim
/-
line-protocol driver for the C10 stream:
  `rq …`  the real Requested / requestPiece / TorHave handler driven directly (no goroutines)
  `rd …`  the real event loop with readers and direct consumers (Drive/ReaderSim.lean)
-/
namespace Storrent.Drive.C10
open Storrent Storrent.Requested Storrent.Drive.ReaderSim

structure QState where
  rs : RS := {}
  numHashes : Nat := 0
  complete : List Bool := []
  deriving Inhabited

structure S where
  q : QState := {}
  d : DState := {}
  deriving Inhabited

def showCh : Option Nat → String
  | none => "-"
  | some c => s!"c{c}"

def qtail (q : QState) : String :=
  s!" | map={showMap q.rs.pieces} closed={showClosed q.rs}" ++ (if q.rs.panicked then " PANICKED" else "")

def qstep (q : QState) (ws : List String) : Option (QState × String) :=
  match ws with
  | ["rq", "new", n] => do
    let n ← n.toNat?
    pure ({ numHashes := n, complete := List.replicate n false }, s!"ok n={n}")
  | ["rq", "add", i, p, want] => do
    let i ← i.toNat?; let p ← p.toInt?
    let r := add q.rs i p (want == "1")
    let q' := { q with rs := r.1 }
    pure (q', s!"ch={showCh r.2.1} added={boolStr r.2.2}" ++ qtail q')
  | ["rq", "del", i, p] => do
    let i ← i.toNat?; let p ← p.toInt?
    let r := del q.rs i p
    let q' := { q with rs := r.1 }
    pure (q', s!"removed={boolStr r.2}" ++ qtail q')
  | ["rq", "done", i] => do
    let i ← i.toNat?
    let q' := { q with rs := done q.rs i }
    pure (q', "ok" ++ qtail q')
  | ["rq", "delidle"] =>
    let q' := { q with rs := delIdle q.rs }
    some (q', "ok" ++ qtail q')
  | ["rq", "setconf"] =>
    let q' := { q with rs := delIdle q.rs }
    some (q', "ok" ++ qtail q')
  | ["rq", "rp", i, p, rq, want] => do
    let i ← i.toNat?; let p ← p.toInt?
    match requestPiece q.rs q.numHashes q.complete[i]? i p (rq == "1") (want == "1") with
    | (rs, .panic) => pure ({ q with rs := rs }, "panic" ++ qtail { q with rs := rs })
    | (rs, .ret ch added cancel) =>
      let q' := { q with rs := rs }
      pure (q', s!"ch={showCh ch} added={boolStr added} cancel={boolStr cancel}" ++ qtail q')
  | ["rq", "fin", i] => do
    let i ← i.toNat?
    match q.complete[i]? with
    | some false => pure ({ q with complete := q.complete.set i true }, "done=1")
    | some true => pure (q, "done=0")
    | none => none
  | ["rq", "evict", i] => do
    let i ← i.toNat?
    match q.complete[i]? with
    | some true => pure ({ q with complete := q.complete.set i false }, s!"evicted=[{i}]")
    | some false => pure (q, "evicted=[]")
    | none => none
  | ["rq", "have", i, b] => do
    let i ← i.toNat?
    let q' := { q with rs := torHave q.rs i (b == "1") }
    pure (q', "ok" ++ qtail q')
  | _ => none

def step (s : S) (ws : List String) : S × String :=
  match ws with
  | "rq" :: _ =>
    (match qstep s.q ws with
     | some (q', o) => ({ s with q := q' }, o)
     | none => (s, "bad-op"))
  | "rd" :: _ =>
    (match ReaderSim.step s.d ws with
     | some (d', o) => ({ s with d := d' }, o)
     | none => (s, "bad-op"))
  | ["x", _] => (s, "x")
  | "rdx" :: _ => (s, "x")   -- oracle-only ops (held event loop, concurrent FUSE reads)
  | _ => (s, "bad-op")

end Storrent.Drive.C10

def main : IO Unit := Storrent.runLines Storrent.Drive.C10.step {}
