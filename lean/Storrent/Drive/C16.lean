import Storrent.Model.Upload
/- line-protocol driver for the C16 stream (harness/cmd/c16):
   reset <ps> <length> <salt> <rate> | peer <fast> <info> <cap> | store add|evict|partial|bad <j>
   msg <k> <free> <dead> <Interested|NotInterested|Request i b l|Cancel i b l>
   unch <k> <free> <dead> <0|1> | tick <k> <free> <dead> <cong> <allow> | meta <k> | exit <k>
   `free` = number of writes that succeed before the writer is congested (or EOF when dead). -/
namespace Storrent.Drive.C16
open Storrent Storrent.Wire Storrent.Upload

def mix64 (x : UInt64) : UInt64 :=
  let z := x + 0x9E3779B97F4A7C15
  let z := (z ^^^ (z >>> 30)) * 0xBF58476D1CE4E5B9
  let z := (z ^^^ (z >>> 27)) * 0x94D049BB133111EB
  z ^^^ (z >>> 31)

/-- the reference content (same function as the harness's `contentByte`) -/
def contentByte (salt : UInt64) (k : Nat) : UInt8 :=
  let w := mix64 (salt + (UInt64.ofNat (k / 8)) * 0x9E3779B97F4A7C15)
  (w >>> (UInt64.ofNat (8 * (k % 8)))).toUInt8

structure DPeer where
  cap : Nat
  errored : Bool
  scan : Option OSt
  gotExt : Bool := false   -- an extended handshake has been received

structure DState where
  active : Bool
  s : State
  dps : List DPeer
  real : Option (List Nat) := none   -- sparse geometry: the only pieces that can hold data

def DState.init : DState :=
  { active := false, s := State.init { ps := 0, length := 0, held := [], content := fun _ => 0 }, dps := [] }

def qhash (q : List Req) : UInt64 :=
  q.foldl (fun h r =>
    (h ^^^ (UInt64.ofNat r.i * 65537 + UInt64.ofNat r.b * 257 + UInt64.ofNat r.l + 1)) * 1099511628211)
    14695981039346656037

def insertSorted (x : Nat) : List Nat → List Nat
  | [] => [x]
  | y :: ys => if x ≤ y then x :: y :: ys else y :: insertSorted x ys

def sortNat (l : List Nat) : List Nat := l.foldl (fun acc x => insertSorted x acc) []

def ascending : List Nat → Bool
  | a :: b :: rest => a < b && ascending (b :: rest)
  | _ => true

def numPieces (st : Store) : Nat := if st.ps = 0 then 0 else (st.length + st.ps - 1) / st.ps

def U32 (n : Nat) : Bool := n < 4294967296

def hexLower (s : String) : Bool :=
  s.toList.all (fun c => ('0' ≤ c && c ≤ '9') || ('a' ≤ c && c ≤ 'f'))

/-- the remote messages of the stream; `np` = number of pieces (well-formedness of the
    "state diversity" messages, which the upload path must ignore) -/
def parseRemote (np : Nat) (ws : List String) : Option Msg :=
  match ws with
  | ["Interested"] => some .interested
  | ["NotInterested"] => some .notInterested
  | ["KeepAlive"] => some .keepAlive
  | ["Choke"] => some .choke
  | ["Unchoke"] => some .unchoke
  | ["HaveAll"] => some .haveAll
  | ["HaveNone"] => some .haveNone
  | ["Have", i] => do
    let i ← i.toNat?
    if i < np && U32 i then pure (.have i) else none
  | ["AllowedFast", i] => do
    let i ← i.toNat?
    if i < np && U32 i then pure (.allowedFast i) else none
  | ["Suggest", i] => do
    let i ← i.toNat?
    if i < np && U32 i then pure (.suggest i) else none
  | ["Bitfield", h] =>
    if h == "-" || !hexLower h then none else do
      let b ← ofHex h
      if b.length != (np + 7) / 8 then none
      else if np % 8 != 0 && (b.getLast?.getD 0).toNat % (2 ^ (8 - np % 8)) != 0 then none
      else pure (.bitfield b)
  | ["Ext0", reqq, ms, uo, enc, port, mset] => do
    let reqq ← reqq.toNat?; let ms ← ms.toNat?; let uo ← uo.toNat?; let enc ← enc.toNat?
    let port ← port.toNat?; let mset ← mset.toNat?
    if U32 reqq && U32 ms && uo ≤ 1 && enc ≤ 1 && port ≤ 65535 && mset ≤ 3 then
      pure (.ext0 { version := [], port := port, reqq := reqq, ipv4 := none, ipv6 := none,
                    metadataSize := ms, messages := [], uploadOnly := uo != 0, encrypt := enc != 0 })
    else none
  | ["Request", i, b, l] => do
    let i ← i.toNat?; let b ← b.toNat?; let l ← l.toNat?
    if U32 i && U32 b && U32 l then pure (.request i b l) else none
  | ["Cancel", i, b, l] => do
    let i ← i.toNat?; let b ← b.toNat?; let l ← l.toNat?
    if U32 i && U32 b && U32 l then pure (.cancel i b l) else none
  | _ => none

/-- handler errors of the diversity messages (they end the peer; the upload state is
    untouched): a second extended handshake, Fast-extension messages from a non-Fast peer -/
def otherErr (p : Peer) (dp : DPeer) : Msg → Option String
  | .ext0 _ => if dp.gotExt then some "dupext" else none
  | .haveAll | .haveNone | .allowedFast _ | .suggest _ => if p.canFast then none else some "nofast"
  | _ => none

def wenv (cap free : Nat) (dead : Bool) : WEnv :=
  if dead then ⟨[], .eof⟩
  else ⟨List.replicate (if cap = 0 then free else min free cap) .ok, .congested⟩

def errTok : Upload.Err → String
  | .none => "ok" | .eof => "eof" | .congested => "cong" | .nometa => "nometa" | .dupmeta => "dupmeta"
  | .range => "range"

def scanMany (o : Option OSt) (evs : List Ev) : Option OSt := o.bind (fun x => scan x evs)

/-- run a peer op: `mk` builds the model op from the write environment -/
def peerOp (d : DState) (k free : Nat) (dead : Bool) (isExit : Bool) (recvd : Option Msg)
    (mk : WEnv → Op) : DState × String :=
  match d.s.peers[k]?, d.dps[k]? with
  | some p, some dp =>
    if !p.live then (d, "dead")
    else if dp.errored && !isExit then (d, "errored")
    else if !p.hasInfo && (match recvd with
        | some (.have _) | some (.bitfield _) | some .haveAll | some .haveNone => true
        | _ => false) then (d, "bad-op")   -- availability before the metadata: not this stream
    else
      let dead' := dead || p.dead
      let s0 : State := { d.s with peers := d.s.peers.set k { p with dead := dead' } }
      let op := mk (wenv dp.cap free dead')
      let (s1, o) := step s0 op
      let evs : List Ev := (match recvd with | some m => [Ev.recv m] | none => []) ++ o.msgs.map Ev.sent
      let sc := scanMany dp.scan evs
      let ferr : Option String := match recvd with
        | some m => otherErr p dp m
        | none => none
      let isExt := match recvd with | some (.ext0 _) => true | _ => false
      let dp' : DPeer := { dp with errored := dp.errored || o.err ≠ .none || o.panic || ferr.isSome,
                                   scan := sc, gotExt := dp.gotExt || isExt }
      let d' : DState := { d with s := s1, dps := d.dps.set k dp' }
      let a : String :=
        match op, p.requested with
        | .tick _ _ _ _, r :: _ =>
          if r.l ≥ 65536 then (if o.alloc ≥ 100000 then "big" else "small") else "-"
        | _, _ => "-"
      let res := match ferr with
        | some e => e
        | none => if o.panic then "panic" else errTok o.err
      let tag := match ferr with
        | some e => o.tag ++ "!" ++ e
        | none => o.tag
      let (told, pend) := match sc with
        | some x => (boolStr x.told, toString x.pending.length)
        | none => ("VIOLATED", "?")
      match s1.peers[k]? with
      | some q =>
        (d', s!"{tag} r={res} m=[{";".intercalate (o.msgs.map canon)}] a={a} | u={boolStr q.amUnchoking} i={boolStr q.interested} h={boolStr q.hasInfo} t={boolStr q.ticking} q={q.requested.length}:{(qhash q.requested).toNat} x={q.items} n={s1.num} | told={told} pend={pend}")
      | none => (d', "internal")
  | _, _ => (d, "nopeer")

def bit (s : String) : Option Bool :=
  if s == "0" then some false else if s == "1" then some true else none

def step (d : DState) (ws : List String) : DState × String :=
  match ws with
  | "reset" :: ps :: len :: salt :: rate :: rest =>
    -- reset <ps> <length> <salt> <rate> [@j1,j2,...]   (the list: sparse geometry, > 4 GiB)
    match ps.toNat?, len.toNat?, salt.toNat?, rate.toNat? with
    | some ps, some len, some salt, some rate =>
      if ps > 0 && ps % 16384 == 0 && ps ≤ 8388608 && len > 0 && len ≤ 17179869184 && rate ≤ 4194304
          && salt < 18446744073709551616 then
        let np := (len + ps - 1) / ps
        let real : Option (Option (List Nat)) := match rest with
          | [] => some none
          | [l] =>
            if l.startsWith "@" && l.length > 1 then
              match ((l.drop 1).toString.splitOn ",").mapM String.toNat? with
              | some js =>
                if js.length ≤ 16 && js.all (· < np) && ascending js then some (some js) else none
              | none => none
            else none
          | _ => none
        match real with
        | none => (d, "bad-op")
        | some real =>
          if real.isNone && len > 8388608 then (d, "bad-op") else
          ({ active := true,
             s := State.init { ps := ps, length := len, held := [],
                               content := contentByte (UInt64.ofNat salt) },
             dps := [], real := real }, "ok")
      else (d, "bad-op")
    | _, _, _, _ => (d, "bad-op")
  | ["e2e", n] =>
    -- end-to-end scenario with the real Run: oracle only, the expected line is constant
    match n.toNat? with
    | some n => if n < 1000 then ({ d with active := false }, "e2e ok") else (d, "bad-op")
    | none => (d, "bad-op")
  | ["e2x", n] =>
    -- exit matrix with the real Run (state x torrent side x cause x bystander): oracle only
    match n.toNat? with
    | some n => if n < 66 then ({ d with active := false }, "e2x ok") else (d, "bad-op")
    | none => (d, "bad-op")
  | ["huge", n] =>
    -- oracle-only probe of the int64 offset arithmetic on a store with 4 GiB pieces
    match n.toNat? with
    | some n => if n < 4 then ({ d with active := false }, "huge ok") else (d, "bad-op")
    | none => (d, "bad-op")
  | _ =>
    if !d.active then (d, "bad-op") else
    match ws with
    | "peer" :: fast :: info :: cap :: bits =>
      -- optional 4th argument: reserved bits of the handshake (1 = Extended, 2 = DHT)
      let bitsOk := match bits with
        | [] => true
        | [x] => (match x.toNat? with | some n => n ≤ 3 | none => false)
        | _ => false
      match bit fast, bit info, cap.toNat? with
      | some f, some i, some c =>
        if bitsOk && (c == 0 || c == 64) && d.s.peers.length < 8 then
          let (s1, _) := Upload.step d.s (.newPeer f i)
          ({ d with s := s1, dps := d.dps ++ [{ cap := c, errored := false, scan := some OSt.init }] },
           s!"peer {d.s.peers.length}")
        else (d, "bad-op")
      | _, _, _ => (d, "bad-op")
    | ["store", kind, j] =>
      match j.toNat? with
      | some j =>
        if j < numPieces d.s.store && (match d.real with | some l => l.contains j | none => true) then
          let s1 := match kind with
            | "add" => some (Upload.step d.s (.storeAdd j)).1
            | "evict" => some (Upload.step d.s (.storeEvict j)).1
            | "partial" => some d.s
            | "bad" => some d.s
            | _ => none
          match s1 with
          | some s1 =>
            ({ d with s := s1 },
             "store [" ++ ",".intercalate ((sortNat s1.store.held).map toString) ++ "]")
          | none => (d, "bad-op")
        else (d, "bad-op")
      | none => (d, "bad-op")
    | "msg" :: k :: free :: dead :: rest =>
      match k.toNat?, free.toNat?, bit dead, parseRemote (numPieces d.s.store) rest with
      | some k, some free, some dead, some m =>
        if free ≤ 1000 then peerOp d k free dead false (some m) (fun w => .recv k m w) else (d, "bad-op")
      | _, _, _, _ => (d, "bad-op")
    | ["unch", k, free, dead, b] =>
      match k.toNat?, free.toNat?, bit dead, bit b with
      | some k, some free, some dead, some b =>
        if free ≤ 1000 then peerOp d k free dead false none (fun w => .unchoke k b w) else (d, "bad-op")
      | _, _, _, _ => (d, "bad-op")
    | ["tick", k, free, dead, cong, allow] =>
      match k.toNat?, free.toNat?, bit dead, bit cong, bit allow with
      | some k, some free, some dead, some cong, some allow =>
        if free ≤ 1000 then
          peerOp d k free dead false none (fun w => .tick k cong (fun _ => allow) w)
        else (d, "bad-op")
      | _, _, _, _, _ => (d, "bad-op")
    | ["meta", k] =>
      match k.toNat? with
      | some k => peerOp d k 64 false false none (fun _ => .gotMeta k)
      | none => (d, "bad-op")
    | ["exit", k] =>
      match k.toNat? with
      | some k => peerOp d k 64 false true none (fun _ => .exit k)
      | none => (d, "bad-op")
    | _ => (d, "bad-op")

end Storrent.Drive.C16

def main : IO Unit := Storrent.runLines Storrent.Drive.C16.step Storrent.Drive.C16.DState.init
