import Storrent.Model.WireParse
import Storrent.Gen.WireTable
/- driver for the C06 stream:
   `enc <msg>`            -> `<hex|#len:fnv of encode m> rt=<canon (decode (encode m))>`
   `stream <hex> <cuts>`  -> canonical sequence decoded from the flat bytes -/
namespace Storrent.Drive.C06
open Storrent Storrent.Wire

def resStr : Res → String
  | .msg m => canon m
  | .err .eof => "!eof"
  | .err .tooLong => "!toolong"
  | .err .parse => "!parse"
  | .err .ext => "!ext"
  | .nilnil => "!nilnil"
  | .panic => "!panic"

def step (_ : Unit) (ws : List String) : Unit × String :=
  match ws with
  | "enc" :: rest =>
    match parseMsg rest with
    | none => ((), "bad-op")
    | some m =>
      match encode m with
      | none => ((), "noenc")
      | some bs =>
        let o := decodeWith Gen.wireGuards Gen.frameCap leanBDec bs
        let isExt := (bs.drop 4).head? == some 20
        let rt := match o.res with
          | .err .eof => if isExt then "!ext" else "!eof"
          | r => resStr r
        let cs := match o.res with
          | .err _ => if isExt then "?" else toString o.consumed
          | _ => toString o.consumed
        ((), s!"{payloadStr bs} rt={rt} c={cs}")
  | "wstream" :: rest =>
    -- messages separated by ";;": concatenation of the independent encodings
    let groups := (rest.foldl (fun (acc : List (List String)) w =>
      if w == ";;" then [] :: acc
      else match acc with
        | g :: gs => (g ++ [w]) :: gs
        | [] => [[w]]) [[]]).reverse
    let encs := groups.map (fun g => (parseMsg g).bind encode)
    if encs.any Option.isNone then ((), "bad-op")
    else ((), payloadStr (encs.filterMap id).flatten)
  | ["stream", h, _] =>
    match ofHex h with
    | none => ((), "bad-op")
    | some bs =>
      let rs := decodeAll Gen.wireGuards Gen.frameCap leanBDec (bs.length + 1) bs
      let clean := match rs.getLast? with | some (.msg _) => true | none => true | _ => false
      ((), " | ".intercalate (rs.map resStr ++ (if clean then ["!eof"] else [])))
  | _ => ((), "bad-op")

end Storrent.Drive.C06

def main : IO Unit := Storrent.runLines Storrent.Drive.C06.step ()
