import Storrent.Model.MseCrypto
/- line-protocol driver for the C07 stream (see harness/cmd/c07):
   variant <trunc><policy>
   pc o=<bits> ih=<hex> id=<hex> ep=<hex;…> ch=<sizes;…>          protocol.ClientHandshake(crypto=false)
   mc o=<bits> ih=<hex> id=<hex> x=<hex> pad=<hex> ep=… ch=…        protocol.ClientHandshake(crypto=true)
   sv o=<bits> hs=<hash:id,…> x=<hex> pad=<hex> ep=… ch=…           protocol.ServerHandshake
   sizes: comma separated `n` or `nxr` (r chunks of n bytes); `-` = the epoch is one chunk.
   The chunked interpreter `Handshake.run` is executed with the real SHA-1/RC4/DH. -/
namespace Storrent.Drive.C07
open Storrent Storrent.Chunked Storrent.Handshake Storrent.Policy

def fnv64 (bs : Bytes) : UInt64 :=
  bs.foldl (fun h c => (h ^^^ c.toUInt64) * 1099511628211) 14695981039346656037

def payload (bs : Bytes) : String :=
  if bs.length ≤ 32 then toHex bs else s!"#{bs.length}:{(fnv64 bs).toNat}"

def errStr : HsErr → String
  | .eof => "eof" | .stall => "stall" | .sync => "sync" | .badHandshake => "badHandshake"
  | .unexpectedInfoHash => "unexpectedInfoHash" | .plaintextForbidden => "plaintextForbidden"
  | .cryptoHashMismatch => "cryptoHashMismatch" | .unknownTorrent => "unknownTorrent"
  | .cryptoForbidden => "cryptoForbidden" | .trivialKey => "trivialKey"
  | .mseUnknownTorrent => "mseUnknownTorrent" | .badVC => "badVC" | .noKnownAlgo => "noKnownAlgo"
  | .extraData => "extraData" | .cantNegotiate => "cantNegotiate"
  | .peerDidntNegotiate => "peerDidntNegotiate" | .peerDidNegotiate => "peerDidNegotiate"
  | .badSelect => "badSelect" | .panic => "panic"

def kv (ws : List String) (k : String) : Option String :=
  ws.findSome? fun w =>
    match w.splitOn "=" with
    | [a, b] => if a == k then some b else none
    | _ => none

def parseSizes (s : String) : Option (List Nat) :=
  if s == "-" then some []
  else (s.splitOn ",").foldr (fun t acc => do
    let acc ← acc
    match t.splitOn "x" with
    | [a] => do let n ← a.toNat?; pure (n :: acc)
    | [a, r] => do let n ← a.toNat?; let k ← r.toNat?; pure (List.replicate k n ++ acc)
    | _ => none) (some [])

def parseEpochs (ep ch : String) : Option (List Src) := do
  let es ← (ep.splitOn ";").mapM ofHex
  let cs ← (ch.splitOn ";").mapM parseSizes
  if es.length ≠ cs.length then none
  else pure ((es.zip cs).map fun (e, c) => cut c e)

def parseHashes (s : String) : Option (List (Bytes × Bytes)) :=
  if s == "-" then some []
  else (s.splitOn ",").mapM fun t =>
    match t.splitOn ":" with
    | [a, b] => do let x ← ofHex a; let y ← ofHex b; pure (x, y)
    | _ => none

def obs (r : Res HsResult) : String :=
  match r with
  | .ok a st =>
    let rest := st.cur.flatten ++ (st.later.map List.flatten).flatten
    s!"ok h={toHex a.hash} id={toHex a.id} caps={boolStr a.dht}{boolStr a.fast}{boolStr a.ext} rc4={boolStr a.rc4} init={payload st.buf} rest={payload rest} w={payload st.out.flatten} nw={st.out.length}"
  | .err e _ => s!"err {errStr e}"

def runOn (v : Variant) (p : Prog HsResult) (eps : List Src) : String :=
  obs (run v.trunc p ⟨[], eps.headD [], eps.tail, []⟩)

def total (eps : List Src) : Nat := (eps.map (fun e => e.flatten.length)).sum

def step (v : Variant) (ws : List String) : Variant × String :=
  match ws with
  | ["variant", s] =>
    match s.toList with
    | [a, b] => (⟨a == '1', b == '1'⟩, "ok")
    | _ => (v, "bad-op")
  | "pc" :: rest =>
    match (do
      let o ← (← kv rest "o").toNat?
      let ih ← ofHex (← kv rest "ih")
      let id ← ofHex (← kv rest "id")
      let eps ← parseEpochs (← kv rest "ep") (← kv rest "ch")
      pure (runOn v (plainClient v (Options.ofBits o) ih id) eps)) with
    | some s => (v, s)
    | none => (v, "bad-op")
  | "mc" :: rest =>
    match (do
      let o ← (← kv rest "o").toNat?
      let ih ← ofHex (← kv rest "ih")
      let id ← ofHex (← kv rest "id")
      let x ← ofHex (← kv rest "x")
      let pad ← ofHex (← kv rest "pad")
      let eps ← parseEpochs (← kv rest "ep") (← kv rest "ch")
      let cr := MseCrypto.real (1024 + total eps + 256)
      pure (runOn v (cryptoClient cr (Options.ofBits o) x pad ih id) eps)) with
    | some s => (v, s)
    | none => (v, "bad-op")
  | "sv" :: rest =>
    match (do
      let o ← (← kv rest "o").toNat?
      let hs ← parseHashes (← kv rest "hs")
      let x ← ofHex (← kv rest "x")
      let pad ← ofHex (← kv rest "pad")
      let eps ← parseEpochs (← kv rest "ep") (← kv rest "ch")
      let cr := MseCrypto.real (1024 + total eps + 256)
      pure (runOn v (server v cr (Options.ofBits o) x pad hs) eps)) with
    | some s => (v, s)
    | none => (v, "bad-op")
  | "live" :: _ => (v, "x")     -- live runs are oracle-only (their segmentation is timing dependent)
  | _ => (v, "bad-op")

end Storrent.Drive.C07

def main : IO Unit := Storrent.runLines Storrent.Drive.C07.step Storrent.Handshake.repaired
