import Storrent.Model.Privacy
import Storrent.Gen.PrivacyGates
/- line-protocol driver for the C18 stream (see harness/cmd/c18/main.go for the lines) -/
namespace Storrent.Drive.C18
open Storrent Storrent.Privacy

structure DS where
  fx : Fixed := ⟨false, true⟩
  conf : Conf := ⟨false, false, .none⟩
  defaults : Conf := ⟨false, false, .none⟩
  live : Bool := false

def ports : Ports := ⟨6883, 6882, 6881⟩

def kv (ws : List String) (k : String) : Option String :=
  ws.findSome? (fun w => match w.splitOn "=" with
    | [a, b] => if a == k then some b else none
    | _ => none)

def kb (ws : List String) (k : String) : Option Bool :=
  match kv ws k with
  | some "1" => some true
  | some "0" => some false
  | _ => none

def kn (ws : List String) (k : String) : Option Nat := (kv ws k).bind String.toNat?

def b01 (b : Bool) : String := if b then "1" else "0"

def dhtStr (os : List (Conf × Obs)) : String :=
  let ds := os.filterMap (fun o => match o.2 with
    | .dht v6 p => some s!"{b01 v6}:{p}"
    | _ => none)
  if ds.isEmpty then "dht -" else "dht " ++ " ".intercalate ds

def fetchCount (os : List (Conf × Obs)) : Nat :=
  (os.filter (fun o => o.2 == .fetch)).length

def wsStr (os : List (Conf × Obs)) (k : Nat) : String :=
  if fetchCount os == k then "ws-ok" else s!"ws-REJECT model={fetchCount os}"

def trStr (os : List (Conf × Obs)) : String :=
  match os.findSome? (fun o => match o.2 with
    | .tracker a b => some (a, b)
    | _ => none) with
  | some (a, b) => s!"tr {a},{b}"
  | none => "tr none"

def confOf (ws : List String) (t w d : String) : Option Conf := do
  let ut ← kb ws t
  let uw ← kb ws w
  let dn ← kn ws d
  if dn > 2 then none else pure ⟨ut, uw, DhtMode.fromNat dn⟩

def confStr (c : Conf) : String := s!"conf t={b01 c.useTrackers} w={b01 c.useWebseeds} d={c.dht.toNat}"

def step (s : DS) (ws : List String) : DS × String :=
  let run := fun (st : Step) => Privacy.step Gen.privacyGates ports s.fx s.conf st
  match ws with
  | "new" :: rest =>
    match kb rest "p", confOf rest "gt" "gw" "gd" with
    | some p, some c => ({ fx := ⟨p, true⟩, conf := c, defaults := c, live := true }, confStr c)
    | _, _ => (s, "bad-op")
  | "route" :: rest =>
    -- proxy-string classes: only the empty setting goes direct
    match kv rest "proxy" with
    | some cls =>
      let p : ProxySetting :=
        if cls == "none" then .empty
        else if cls == "reachable" || cls.startsWith "unreachable" then .wellFormed else .malformed
      (s, s!"direct={b01 (directReachable Gen.proxyRoutes p)}")
    | none => (s, "bad-op")
  | "realtick" :: rest =>
    match kb rest "p", confOf rest "t" "w" "d" with
    | some p, some c =>
      let (_, os) := Privacy.step Gen.privacyGates ports ⟨p, true⟩ c (.slowTick false true)
      match os.findSome? (fun o => match o.2 with
        | .tracker a b => some (a, b)
        | _ => none) with
      | some (a, b) => (s, s!"tr=1 p4={a} p6={b}")
      | none => (s, "tr=0")
    | _, _ => (s, "bad-op")
  | op :: rest =>
    if !s.live then (s, "bad-op") else
    match op with
    | "add" => let (c, os) := run .add; ({ s with conf := c }, dhtStr os)
    -- AddTorrent for a hash that is running: refused before anything else happens
    | "readd" => (s, "dht -")
    -- … for a hash that has just been unlisted: a new torrent with the global defaults
    | "readd-deleted" =>
      let (_, os) := Privacy.step Gen.privacyGates ports s.fx s.defaults .add
      (s, dhtStr os)
    | "announce" =>
      match kb rest "v6" with
      | some v6 => let (c, os) := run (.announce v6); ({ s with conf := c }, dhtStr os)
      | none => (s, "bad-op")
    | "setconf" =>
      match confOf rest "t" "w" "d", kn rest "started" with
      | some nc, some k =>
        let (c, os) := run (.setConf nc k)
        ({ s with conf := c }, dhtStr os ++ " " ++ wsStr os k)
      | _, _ => (s, "bad-op")
    | "slowtick" =>
      match kb rest "stale", kb rest "ready" with
      | some st, some rd =>
        let (c, os) := run (.slowTick st rd); ({ s with conf := c }, dhtStr os ++ " " ++ trStr os)
      | _, _ => (s, "bad-op")
    -- in-flight activities finish and the queued events run through the handler / the
    -- metadata completes / ordinary peer traffic: scheduler passes (web-seed fetches are
    -- the only outbound action they can reach); no tracker, DHT or handshake message
    | "settle" =>
      match kn rest "started" with
      | some k => let (c, os) := run (.reqTick k); ({ s with conf := c }, "tr none " ++ wsStr os k ++ " late -")
      | none => (s, "bad-op")
    | "metadata" =>
      match kn rest "started" with
      | some k => let (c, os) := run (.reqTick k); ({ s with conf := c }, "complete=1 " ++ wsStr os k ++ " late -")
      | none => (s, "bad-op")
    | "traffic" =>
      match kn rest "started" with
      | some k => let (c, os) := run (.reqTick k); ({ s with conf := c }, wsStr os k ++ " late -")
      | none => (s, "bad-op")
    | "reqtick" | "webseed" | "want" =>
      match kn rest "started" with
      | some k => let (c, os) := run (.reqTick k); ({ s with conf := c }, wsStr os k)
      | none => (s, "bad-op")
    | "peer" =>
      match kb rest "dht", kb rest "ext", kb rest "v6seen" with
      | some d, some e, some v =>
        let (_, os) := run (.peerStart d e v)
        let p := match os.findSome? (fun o => match o.2 with
          | .portMsg n => some n
          | _ => none) with
          | some n => s!"port={n}"
          | none => "port=none"
        let x := match os.findSome? (fun o => match o.2 with
          | .ext0 a b c => some (a, b, c)
          | _ => none) with
          | some (a, b, c) => s!"ext0={b01 a},{b},{b01 c}"
          | none => "ext0=none"
        (s, p ++ " " ++ x)
      | _, _, _ => (s, "bad-op")
    -- the hash was offered (an unproxied torrent with it was listed when the handshake began);
    -- after the handshake tor.Server finds this torrent: the NewPeer call site's gate decides
    | "incoming-swap" =>
      let e : Env := { conf := s.conf, fx := s.fx }
      let acc := gate Gen.privacyGates e "tor.Server" "t.NewPeer"
        "t.proxy, conn, netip.AddrPortFrom(ipp, 0), true, result, init"
      (s, s!"offered=1 accepted={b01 acc}")
    | "incoming" =>
      let (_, os) := run .incoming
      (s, s!"offered={b01 (os.any (fun o => o.2 == .offer))} accepted={b01 (os.any (fun o => o.2 == .accept))}")
    | _ => (s, "bad-op")
  | [] => (s, "bad-op")

end Storrent.Drive.C18

def main : IO Unit := Storrent.runLines Storrent.Drive.C18.step {}
