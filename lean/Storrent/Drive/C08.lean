import Storrent.Model.MseCrypto
import Storrent.Model.CryptoConn
/- line-protocol driver for the C08 stream (see harness/cmd/c08):
   variant <trunc><policy>
   pol <plain|mse> <oc> <os>                      -> c=<mode> s=<mode>          (Policy.negotiate)
   sel <os> <provide>                             -> <crypto_select | 0>        (Policy.serverSelect)
   chk <oc> <select>                              -> <mode>                     (Policy.clientCheck)
   dial <o>                                       -> first kind, retry after each kind
   cw key=<hex> pos=<n> seed=<n> w=<sizes> fail=<p>:<e>|-     Conn.Write sequence
   cr key=<hex> pos=<n> seed=<n> len=<n> ch=<sizes> rd=<sizes>  Conn.Read sequence
   cre … ch=<n|n!e,…> rd=<sizes>   Conn.Read with bytes delivered together with errors
   sha1 <hex> / rc4 <key hex> <n> / dh <x hex> <y hex>   the Lean primitives against Go's -/
namespace Storrent.Drive.C08
open Storrent Storrent.Chunked Storrent.Policy Storrent.CryptoConn Storrent.Handshake

def fnv64 (bs : Bytes) : UInt64 :=
  bs.foldl (fun h c => (h ^^^ c.toUInt64) * 1099511628211) 14695981039346656037

def payload (bs : Bytes) : String :=
  if bs.length ≤ 32 then toHex bs else s!"#{bs.length}:{(fnv64 bs).toNat}"

def kv (ws : List String) (k : String) : Option String :=
  ws.findSome? fun w =>
    match w.splitOn "=" with
    | [a, b] => if a == k then some b else none
    | _ => none

def parseSizes (s : String) : Option (List Nat) :=
  if s == "-" then some []
  else (s.splitOn ",").foldr (fun t acc => do
    let acc ← acc
    match t.splitOn "x" with
    | [a] => do let n ← a.toNat?; pure (n :: acc)
    | [a, r] => do let n ← a.toNat?; let k ← r.toNat?; pure (List.replicate k n ++ acc)
    | _ => none) (some [])

/-- chunks `n` or `n!e` (the chunk's last byte arrives together with error code e) -/
def parseEChunks (s : String) : Option (List (Nat × Option Nat)) :=
  if s == "-" then some []
  else (s.splitOn ",").mapM fun t =>
    match t.splitOn "!" with
    | [a] => do let n ← a.toNat?; pure (n, none)
    | [a, e] => do let n ← a.toNat?; let c ← e.toNat?; pure (n, some c)
    | _ => none

/-- cut the wire into error-carrying chunks; a remainder is a last chunk without error -/
def ecut : List (Nat × Option Nat) → Bytes → CryptoConn.ESrc
  | [], bs => if bs.isEmpty then [] else [(bs, none)]
  | (k, e) :: ks, bs => if bs.isEmpty then [] else (bs.take k, e) :: ecut ks (bs.drop k)

/-- the test plaintext: byte i of the stream is (i*7 + seed) mod 256 -/
def pattern (seed : Nat) (from' n : Nat) : Bytes :=
  (List.range n).map fun i => UInt8.ofNat (((from' + i) * 7 + seed) % 256)

def splitBy : List Nat → Nat → Nat → List Bytes
  | [], _, _ => []
  | k :: ks, seed, off => pattern seed off k :: splitBy ks seed (off + k)

def kindStr : Kind → String
  | .plain => "plain" | .mse => "mse"

def werrStr : Option WErr → String
  | none => "nil" | some (.under e) => s!"e{e}" | some .shortWrite => "short"

/-- environment of the underlying writes for "the write reaching stream offset p is cut
    there and answers e" (e = 0: short write without error) -/
def envFor (sizes : List Nat) (p e : Nat) : List WResp :=
  -- the underlying writes are the 32 KiB pieces of each Write, in order
  let pieces := sizes.flatMap fun n => List.replicate (n / stage) stage ++ (if n % stage = 0 then [] else [n % stage])
  let rec go : List Nat → Nat → List WResp
    | [], _ => []
    | m :: ms, start =>
      if p < start + m then [⟨p - start, if e = 0 then none else some e⟩]
      else ⟨m, none⟩ :: go ms (start + m)
  go pieces 0

def step (v : Variant) (ws : List String) : Variant × String :=
  match ws with
  | ["variant", s] =>
    match s.toList with
    | [a, b] => (⟨a == '1', b == '1'⟩, "ok")
    | _ => (v, "bad-op")
  | ["pol", k, oc, os] =>
    match (do
      let kind ← if k == "plain" then some Kind.plain else if k == "mse" then some Kind.mse else none
      let a ← oc.toNat?; let b ← os.toNat?
      let (mc, ms) := negotiate v.policy kind (Options.ofBits a) (Options.ofBits b)
      pure s!"c={mc.str} s={ms.str}") with
    | some s => (v, s) | none => (v, "bad-op")
  | ["sel", os, pr] =>
    match (do let b ← os.toNat?; let p ← pr.toNat?; pure (toString (serverSelect (Options.ofBits b) p))) with
    | some s => (v, s) | none => (v, "bad-op")
  | ["chk", oc, se] =>
    match (do let a ← oc.toNat?; let s ← se.toNat?; pure (clientCheck (Options.ofBits a) s).str) with
    | some s => (v, s) | none => (v, "bad-op")
  | ["dial", o] =>
    match o.toNat? with
    | some n =>
      let op := Options.ofBits n
      let r := fun k => match dialRetry op k with | none => "-" | some k' => kindStr k'
      (v, s!"first={kindStr (dialFirst op)} retry-mse={r .mse} retry-plain={r .plain}")
    | none => (v, "bad-op")
  | "cw" :: rest =>
    match (do
      let key ← ofHex (← kv rest "key")
      let pos ← (← kv rest "pos").toNat?
      let seed ← (← kv rest "seed").toNat?
      let sizes ← parseSizes (← kv rest "w")
      let fail ← kv rest "fail"
      let env ← if fail == "-" then some [] else
        match fail.splitOn ":" with
        | [p, e] => do pure (envFor sizes (← p.toNat?) (← e.toNat?))
        | _ => none
      let total := sizes.foldl (· + ·) 0
      let t := MseCrypto.rc4Stream key (1024 + pos + total + 16)
      let ks := discard1024 t
      let (rs, _, wire) := writeAll ks ⟨pos, 0, none⟩ (splitBy sizes seed 0) env
      let r := " ".intercalate (rs.map fun (n, e) => s!"{n}/{werrStr e}")
      pure s!"{r} wire={payload wire}") with
    | some s => (v, s) | none => (v, "bad-op")
  | "cr" :: rest =>
    match (do
      let key ← ofHex (← kv rest "key")
      let pos ← (← kv rest "pos").toNat?
      let seed ← (← kv rest "seed").toNat?
      let len ← (← kv rest "len").toNat?
      let ch ← parseSizes (← kv rest "ch")
      let rd ← parseSizes (← kv rest "rd")
      let t := MseCrypto.rc4Stream key (1024 + pos + len + 16)
      let ks := discard1024 t
      -- the wire carries the pattern encrypted at `pos`
      let wire := xorAt ks pos (pattern seed 0 len)
      let (gs, c, src) := CryptoConn.readAll ks ⟨0, pos, none⟩ rd (cut ch wire)
      let lens := ",".intercalate (gs.map fun g => toString g.length)
      pure s!"n={lens} data={payload gs.flatten} dec={c.decPos} left={src.flatten.length}") with
    | some s => (v, s) | none => (v, "bad-op")
  | "cre" :: rest =>
    match (do
      let key ← ofHex (← kv rest "key")
      let pos ← (← kv rest "pos").toNat?
      let seed ← (← kv rest "seed").toNat?
      let len ← (← kv rest "len").toNat?
      let ch ← parseEChunks (← kv rest "ch")
      let rd ← parseSizes (← kv rest "rd")
      let t := MseCrypto.rc4Stream key (1024 + pos + len + 16)
      let ks := discard1024 t
      let wire := xorAt ks pos (pattern seed 0 len)
      let (gs, c, src) := CryptoConn.readAllErr ks ⟨0, pos, none⟩ rd (ecut ch wire)
      let rs := ",".intercalate (gs.map fun (g, e) => s!"{g.length}/{match e with | none => "nil" | some n => s!"e{n}"}")
      pure s!"r={rs} data={payload (gs.map (·.1)).flatten} dec={c.decPos} left={src.bytes.length}") with
    | some s => (v, s) | none => (v, "bad-op")
  | ["sha1", h] =>
    match ofHex h with
    | some bs => (v, toHex (MseCrypto.sha1 bs)) | none => (v, "bad-op")
  | ["rc4", k, n] =>
    match (do let key ← ofHex k; let m ← n.toNat?; pure (payload (MseCrypto.rc4Stream key m).toList)) with
    | some s => (v, s) | none => (v, "bad-op")
  | ["dh", x, y] =>
    match (do let a ← ofHex x; let b ← ofHex y
              let cr := MseCrypto.real 0
              pure s!"{toHex (cr.pub a)} {toHex (cr.dh a b)}") with
    | some s => (v, s) | none => (v, "bad-op")
  | "tap" :: _ => (v, "x")      -- wire-tap / payload lines are oracle-only
  | _ => (v, "bad-op")

end Storrent.Drive.C08

def main : IO Unit := Storrent.runLines Storrent.Drive.C08.step Storrent.Handshake.repaired
