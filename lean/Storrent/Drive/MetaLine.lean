import Storrent.Model.Meta
/- line-protocol parsing of a BInfo, shared by the C12 and C13 drivers -/
namespace Storrent.Drive.MetaLine
open Storrent Storrent.Meta

def parsePath (s : String) : Option (Option (List Bytes)) :=
  if s == "~" then some none
  else if s == "." then some (some [])
  else (s.splitOn "/").mapM ofHex |>.map some

def parseFile (s : String) : Option BFile :=
  match s.splitOn "," with
  | [p, p8, l, a] => do
    let p ← parsePath p
    let p8 ← parsePath p8
    let l ← l.toInt?
    let a ← ofHex a
    pure { path := p, path8 := p8, length := Int64.ofInt l, attr := a }
  | _ => none

def parseFiles (s : String) : Option (Option (List BFile)) :=
  if s == "nil" then some none
  else if s == "[]" then some (some [])
  else (s.splitOn ";").mapM parseFile |>.map some

/-- `<psLen> <name> <name8> <pl> <|pieces|> <length> <files>` -/
def parseBInfo (ws : List String) : Option (Int × BInfo) :=
  match ws with
  | [psl, name, name8, pl, np, len, files] =>
    match psl.toInt?, ofHex name, ofHex name8, pl.toNat?, np.toNat?, len.toInt?, parseFiles files with
    | some psl, some name, some name8, some pl, some np, some len, some files =>
      if pl ≥ 4294967296 ∨ len < -9223372036854775808 ∨ len > 9223372036854775807 then none
      else some (psl, { name := name, name8 := name8, pieceLength := UInt32.ofNat pl,
                        pieces := List.replicate np 0, length := Int64.ofInt len, files := files })
    | _, _, _, _, _, _, _ => none
  | _ => none

end Storrent.Drive.MetaLine
