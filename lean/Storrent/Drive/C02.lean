import Storrent.Drive.ReaderSim
/- line-protocol driver for the C02 stream (`rd …` ops, see Drive/ReaderSim.lean) -/
namespace Storrent.Drive.C02
open Storrent Storrent.Drive.ReaderSim

def step (s : DState) (ws : List String) : DState × String :=
  match ws with
  | ["x", _] => (s, "x")
  | "rdx" :: _ => (s, "x")   -- oracle-only ops (held event loop, concurrent FUSE reads)
  | _ =>
    match ReaderSim.step s ws with
    | some r => r
    | none => (s, "bad-op")

end Storrent.Drive.C02

def main : IO Unit := Storrent.runLines Storrent.Drive.C02.step {}
