/-
Shared, core-only helpers for the executable model and its line-protocol drivers.
No Mathlib import: everything under Model/ and Drive/ must link into a native exe.
-/
namespace Storrent

abbrev Bytes := List UInt8

def hexDigit (n : Nat) : Char :=
  if n < 10 then Char.ofNat (48 + n) else Char.ofNat (87 + n)

def hexOfByte (b : UInt8) : String :=
  String.ofList [hexDigit (b.toNat / 16), hexDigit (b.toNat % 16)]

def toHex (bs : Bytes) : String :=
  if bs.isEmpty then "-" else String.join (bs.map hexOfByte)

def hexVal (c : Char) : Option Nat :=
  if '0' ≤ c ∧ c ≤ '9' then some (c.toNat - 48)
  else if 'a' ≤ c ∧ c ≤ 'f' then some (c.toNat - 87)
  else if 'A' ≤ c ∧ c ≤ 'F' then some (c.toNat - 55)
  else none

def ofHexChars : List Char → Option Bytes
  | [] => some []
  | [_] => none
  | a :: b :: rest => do
    let x ← hexVal a
    let y ← hexVal b
    let r ← ofHexChars rest
    pure (UInt8.ofNat (x * 16 + y) :: r)

/-- "-" is the empty byte string; otherwise lowercase/uppercase hex. -/
def ofHex (s : String) : Option Bytes :=
  if s == "-" then some [] else ofHexChars s.toList

def be16 (n : Nat) : Bytes := [UInt8.ofNat (n / 256 % 256), UInt8.ofNat (n % 256)]

def be32 (n : Nat) : Bytes :=
  [UInt8.ofNat (n / 16777216 % 256), UInt8.ofNat (n / 65536 % 256),
   UInt8.ofNat (n / 256 % 256), UInt8.ofNat (n % 256)]

def rdBE : Bytes → Nat
  | bs => bs.foldl (fun acc b => acc * 256 + b.toNat) 0

def words (line : String) : List String :=
  (line.splitOn " ").filter (· ≠ "") |>.map (fun s => (s.trimAscii).toString)

/-- Generic one-line-in / one-line-out loop. `step` returns the new state and the
    observation line.  Unknown lines must be answered with "bad-op" by `step`. -/
partial def lineLoop {σ : Type} (h : IO.FS.Stream) (out : IO.FS.Stream)
    (step : σ → List String → σ × String) (s : σ) : IO Unit := do
  let line ← h.getLine
  if line.isEmpty then
    out.flush
    return ()
  let ws := words line
  if ws.isEmpty then
    lineLoop h out step s
  else
    let (s', o) := step s ws
    out.putStrLn o
    lineLoop h out step s'

def runLines {σ : Type} (step : σ → List String → σ × String) (init : σ) : IO Unit := do
  let i ← IO.getStdin
  let o ← IO.getStdout
  lineLoop i o step init

def boolStr (b : Bool) : String := if b then "1" else "0"

end Storrent
