/- Expected content of Gen/UploadTable.lean (regenerated from peer/peer.go on every run by
   harness/cmd/extract/upload.go): what Model/Upload.lean assumes about the source. -/
namespace Storrent.Upload

/-- `case protocol.Request`: the guards that return at once, before peer.requested is
    touched, with what they return — canonical form: one row per top-level `||` disjunct in
    evaluation order (grouping of adjacent guards is immaterial), locals replaced by their
    defining selector or a positional placeholder (their names are immaterial) -/
def expectedRequestGuards : List String :=
  ["peer.Info == nil => reject(peer, m.Index, m.Begin, m.Length)",
   "peer.amUnchoking == 0 => reject(peer, m.Index, m.Begin, m.Length)",
   "m.Length > maxRequestLength => reject(peer, m.Index, m.Begin, m.Length)",
   "m.Index >= uint32(numPieces(peer)) => ErrRange"]

/-- every write of `numUnchoking`: the exit path of Run (guarded by the flag) and the two
    branches of `unchoke` (each next to the store of the flag) -/
def expectedCounterSites : List (String × Int × String) :=
  [("Run", -1, "test amUnchoking != 0"), ("unchoke", 1, "store 1"), ("unchoke", -1, "store 0")]

/-- the head-drop test: `len(peer.requested) >= reqQ`, the right-hand side being the package
    constant itself — not a variable, not a field of the peer (nothing the remote says, such
    as the `reqq` of its extended handshake, may move our queue limit) -/
def expectedHeadDropLimit : String := ">= const reqQ"

/-- the three writes and the load in NumUnchoking -/
def expectedCounterRefs : Nat := 4

end Storrent.Upload
