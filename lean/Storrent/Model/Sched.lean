/-
Model/Sched — the scheduler bookkeeping of storrent (property C09).

One torrent (`tor.Torrent.inFlight`, `available`, `handleEvent` for TorData / TorDrop /
TorPeerBitmap / TorPeerHave / TorPeerGoaway, `request`, `maybeWebseed`'s reservation),
n peers (`peer.handleEvent`, `peer.handleMessage`, `expireRequests`, `maybeRequest`, the exit
path of `Run`, `peer/requests`), web-seed writers (`tor/writer.go`), and the channels between
them as explicit FIFO state: `t.Event` (bounded), every `p.Event` (bounded), every `p.events`
(the unbounded overflow slice behind `writeEvent`).

Every function below transcribes the Go control flow of the REPAIRED tree (fix patches
C09-01 … C09-04, see hooks-staging/J).  `fromChunkOrig` keeps the upstream arithmetic so that
its defect is a theorem too.  `uint32` arithmetic is written as arithmetic modulo 2^32 on
`Nat` (`u32`), the `uint8`/`uint16` counters saturate exactly as `noteInFlight` /
`noteAvailable` do, and a Go run-time fault (index out of range) is the explicit
`panicked` flag.

Environment inputs (not modelled, chosen by the op line): which peer and which chunks the
rate-based scheduler picks, the outcome of Go's `select` when both a send and `Done` are
ready, the float rate estimate (`slow`), the clock (`age`), rtt (`rto`), and when the
connection's writer goroutine drains its queue.

Core-only (no Mathlib): linked into the `model-c09` executable.
-/
namespace Storrent.Sched

def CS : Nat := 16384
def U32 : Nat := 4294967296
def u32 (x : Nat) : Nat := x % U32
def reqQDefault : Nat := 128

/-! ### small list helpers (own definitions: the proofs use only their own lemmas) -/

def getN (l : List Nat) (i : Nat) : Nat :=
  match l, i with
  | [], _ => 0
  | x :: _, 0 => x
  | _ :: xs, i+1 => getN xs i

def setN {α : Type} (l : List α) (i : Nat) (v : α) : List α :=
  match l, i with
  | [], _ => []
  | _ :: xs, 0 => v :: xs
  | x :: xs, i+1 => x :: setN xs i v

def getB (l : List Bool) (i : Nat) : Bool :=
  match l, i with
  | [], _ => false
  | x :: _, 0 => x
  | _ :: xs, i+1 => getB xs i

/-- number of occurrences of `b` -/
def cnt (b : Nat) : List Nat → Nat
  | [] => 0
  | x :: xs => (if x = b then 1 else 0) + cnt b xs

def sumL {α : Type} (f : α → Nat) : List α → Nat
  | [] => 0
  | x :: xs => f x + sumL f xs

/-- `[s, s+1, …, s+n-1]` -/
def chunksFrom (s n : Nat) : List Nat := (List.range n).map (fun k => s + k)

/-- Go's `s[i] = s[len-1]; s = s[:len-1]` (the `del` of peer/requests) -/
def swapRemove {α : Type} (l : List α) (i : Nat) : List α :=
  match l.reverse with
  | [] => []
  | last :: revInit =>
    let ini := revInit.reverse
    if i < ini.length then setN ini i last else ini

/-! ### geometry -/

structure Geom where
  ps : Nat      -- piece length in bytes
  len : Nat     -- total length in bytes
deriving Repr, DecidableEq, Inhabited

namespace Geom
def cpp (g : Geom) : Nat := g.ps / CS
def nchunks (g : Geom) : Nat := (g.len + CS - 1) / CS
def npieces (g : Geom) : Nat := (g.len + g.ps - 1) / g.ps
/-- what `Torrent.MetadataComplete` accepts (plus: the chunk numbers fit `uint32`) -/
def Valid (g : Geom) : Prop :=
  0 < g.ps ∧ g.ps % CS = 0 ∧ 0 < g.len ∧ g.ps < U32 ∧ g.npieces * g.cpp < U32
instance (g : Geom) : Decidable g.Valid := by unfold Valid; exact inferInstance
/-- `Pieces.PieceLength` -/
def pieceLength (g : Geom) (i : Nat) : Nat :=
  let last := g.len / g.ps
  if i < last then g.ps else if i = last then g.len % g.ps else 0
/-- `Pieces.pieceChunks` -/
def pieceChunks (g : Geom) (i : Nat) : Nat := (g.pieceLength i + CS - 1) / CS
end Geom

/-- `peer.toChunk`: `uint32` arithmetic, returns 0 on overflow of the product -/
def toChunk (g : Geom) (index begin : Nat) : Nat :=
  if index > (U32 - 1) / g.cpp then 0 else u32 (index * g.cpp + begin / CS)

/-- `peer.fromChunk` as repaired (fix C09-04): `begin = (chunk % cpp) * ChunkSize` -/
def fromChunk (g : Geom) (chunk : Nat) : Nat × Nat :=
  (chunk / g.cpp, u32 ((chunk % g.cpp) * CS))

/-- `peer.fromChunk` as in upstream 0725d43: `begin = (chunk * ChunkSize) % ps` in `uint32` -/
def fromChunkOrig (g : Geom) (chunk : Nat) : Nat × Nat :=
  (chunk / g.cpp, u32 (chunk * CS) % g.ps)

/-- `peer.chunkSize` -/
def chunkSize (g : Geom) (chunk : Nat) : Nat :=
  if chunk < u32 (g.len / CS) then CS else u32 (g.len % CS)

/-! ### events -/

inductive TorEv where
  | data (src : Option Nat) (idx begin len : Nat) (complete : Bool)
  | drop (idx begin len : Nat)
  | bitmap (p : Nat) (bits : List Nat) (hv : Bool)
  | phave (p : Nat) (idx : Nat) (hv : Bool)
  | unchoke (p : Nat) (b : Bool)
  | goaway (p : Nat)
deriving Repr, DecidableEq, Inhabited

inductive PeerEv where
  | request (chunks : List Nat)
  | cancel (chunk : Nat)
  | cancelPiece (idx : Nat)
  | done
  | metadata
deriving Repr, DecidableEq, Inhabited

/-- The chunks whose in-flight counter `tor.handleEvent` releases for a TorData / TorDrop
    (repaired: the number of blocks is rounded UP, fix C09-01); `[]` when one of the guards
    (`odd offset`, `spans pieces`) makes the handler return early. -/
def covRange (g : Geom) (idx begin len : Nat) : List Nat :=
  if begin % CS ≠ 0 then []
  else if u32 (begin + len) > g.ps then []
  else chunksFrom (idx * g.cpp + begin / CS) ((len + CS - 1) / CS)

def cov (g : Geom) : TorEv → List Nat
  | .data _ idx begin len _ => covRange g idx begin len
  | .drop idx begin len => covRange g idx begin len
  | _ => []

/-! ### peer/requests -/

structure Req where
  chunk : Nat
  rage : Nat := 0      -- ms since rtime
  canc : Bool := false
  cage : Nat := 0      -- ms since ctime
deriving Repr, DecidableEq, Inhabited

def chunksOf (l : List Req) : List Nat := l.map (·.chunk)

def findIdx (l : List Req) (c : Nat) : Option Nat :=
  match l with
  | [] => none
  | r :: rs => if r.chunk = c then some 0 else (findIdx rs c).map (· + 1)

structure Peer where
  alive : Bool := true        -- Run's loop has not exited
  present : Bool := true      -- still in t.peers (TorPeerGoaway not yet handled)
  canFast : Bool := false
  unchoked : Bool := false
  fast : List Nat := []
  bmNil : Bool := true
  bits : List Bool := []      -- grows on demand, like bitmap.Bitmap (bits beyond the end are clear)
  hasInfo : Bool := true      -- peer.Info != nil
  isSeed : Bool := false      -- peer.isSeed (matters only while the metadata is unknown)
  queue : List Req := []
  requested : List Req := []
  evq : List PeerEv := []     -- p.Event
  evcap : Nat := 256
  overflow : List TorEv := [] -- p.events
  wlen : Nat := 0             -- len(p.writer)
  wcap : Nat := 64
deriving Repr, Inhabited

def Peer.member (p : Peer) (c : Nat) : Bool :=
  (chunksOf p.queue).contains c || (chunksOf p.requested).contains c

/-- `write(peer, m)`: succeeds iff the writer queue has room -/
def Peer.write (p : Peer) : Peer × Bool :=
  if p.wlen < p.wcap then ({ p with wlen := p.wlen + 1 }, true) else (p, false)

def Peer.congested (p : Peer) : Bool := p.wlen > p.wcap / 2

def dropEv (g : Geom) (c : Nat) : TorEv :=
  let ib := fromChunk g c
  .drop ib.1 ib.2 CS

def setBits (n : Nat) (l : List Nat) : List Bool :=
  (List.range n).map (fun i => l.contains i)

def bitList (bits : List Bool) : List Nat :=
  (List.range bits.length).filter (fun i => getB bits i)

/-- `Bitmap.Set` extends the bitmap, `Bitmap.Reset` beyond the end is a no-op -/
def setBit (bits : List Bool) (i : Nat) (v : Bool) : List Bool :=
  if v then setN (bits ++ List.replicate (i + 1 - bits.length) false) i true else setN bits i false

/-- accepted piece index of a Have / AllowedFast while the metadata is unknown (`maxPieces`) -/
def maxPieces : Nat := 8388608

/-- `maybeRequest(peer)` loop -/
def maybeRequestLoop (g : Geom) (slow : Bool) : Nat → Peer → List TorEv → Peer × List TorEv
  | 0, p, evs => (p, evs)
  | fuel+1, p, evs =>
    if p.congested then (p, evs) else
    match p.queue with
    | [] => (p, evs)
    | q :: rest =>
      let nr := p.requested.length
      if nr ≥ 2 ∧ (nr ≥ reqQDefault ∨ slow) then (p, evs) else
      let p1 := { p with queue := rest }
      let i := (fromChunk g q.chunk).1
      if (!p1.unchoked && !p1.fast.contains i) || !(getB p1.bits i) then
        maybeRequestLoop g slow fuel p1 (evs ++ [dropEv g q.chunk])
      else
        let (p2, ok) := p1.write
        if ok then
          maybeRequestLoop g slow fuel
            { p2 with requested := p2.requested ++ [{ chunk := q.chunk }] } evs
        else (p2, evs ++ [dropEv g q.chunk])

def maybeRequest (g : Geom) (slow : Bool) (p : Peer) (evs : List TorEv) : Peer × List TorEv :=
  if !p.unchoked && p.fast.isEmpty then (p, evs)
  else maybeRequestLoop g slow (p.queue.length + 1) p evs

/-- `PeerRequest` handler loop -/
def enqueueAll (g : Geom) : List Nat → Peer → List TorEv → Peer × List TorEv
  | [], p, evs => (p, evs)
  | c :: cs, p, evs =>
    let i := (fromChunk g c).1
    if getB p.bits i && !p.member c then
      enqueueAll g cs { p with queue := p.queue ++ [{ chunk := c }] } evs
    else enqueueAll g cs p (evs ++ [dropEv g c])

/-- `cancel(peer, chunk)` -/
def cancelChunk (g : Geom) (p : Peer) (c : Nat) (evs : List TorEv) : Peer × List TorEv :=
  if !p.member c then (p, evs) else
  match findIdx p.requested c with
  | some j =>
    match p.requested[j]? with
    | some r =>
      if r.canc then (p, evs)
      else
        let p1 := { p with requested := setN p.requested j { r with canc := true, cage := 0 } }
        (p1.write.1, evs)       -- docancel; its error is ignored by the callers
    | none => (p, evs)
  | none =>
    match findIdx p.queue c with
    | some j => ({ p with queue := swapRemove p.queue j }, evs ++ [dropEv g c])
    | none => (p, evs)

def cancelPieceLoop (g : Geom) (idx : Nat) : Nat → Nat → Peer → List TorEv → Peer × List TorEv
  | 0, _, p, evs => (p, evs)
  | fuel+1, i, p, evs =>
    let (p1, evs1) := cancelChunk g p (u32 (idx * g.cpp + i)) evs
    cancelPieceLoop g idx fuel (i+1) p1 evs1

/-- `Requests.Expire` as driven by `expireRequests`; `to` in ms -/
def expireLoop (g : Geom) (to : Nat) :
    Nat → Nat → Peer → List TorEv → Bool → Peer × List TorEv × Bool
  | 0, _, p, evs, d => (p, evs, d)
  | fuel+1, i, p, evs, d =>
    match p.requested[i]? with
    | none => (p, evs, d)
    | some r =>
      if r.canc && decide (r.cage ≥ to) then
        match findIdx p.requested r.chunk with
        | some j =>
          expireLoop g to fuel i { p with requested := swapRemove p.requested j }
            (evs ++ [dropEv g r.chunk]) true
        | none => (p, evs, d)   -- Go: panic("Couldn't delete request"); unreachable
      else if !r.canc && decide (r.rage ≥ 30000) then
        let p1 := { p with requested := setN p.requested i { r with canc := true, cage := 0 } }
        expireLoop g to fuel (i+1) p1.write.1 evs d
      else expireLoop g to fuel (i+1) p evs d

/-! ### piece store (only what decides `AddData`'s count, `Hole` and `Finalise`) -/

structure PieceSt where
  bits : List Bool := []
  complete : Bool := false
deriving Repr, Inhabited

def addLoop (pl dlen : Nat) : Nat → Nat → Nat → List Bool → Nat × List Bool
  | 0, _, count, bits => (count, bits)
  | fuel+1, offset, count, bits =>
    if count < dlen then
      let l := min (pl - offset) CS
      if l = 0 ∨ dlen < count + l then (count, bits)
      else
        let bits1 := setN bits (offset / CS) true
        if l % CS ≠ 0 then (count + l, bits1)
        else addLoop pl dlen fuel (offset + l) (count + l) bits1
    else (count, bits)

/-- `Pieces.AddData(index, begin, data)` for `len(data) = dlen`: (count, complete, piece') -/
def addData (g : Geom) (pc : PieceSt) (index begin dlen : Nat) : Nat × Bool × PieceSt :=
  if pc.complete then (0, false, pc) else
  let pl := g.pieceLength index
  if begin % CS ≠ 0 then (0, false, pc) else
  if begin ≥ pl then (0, false, pc) else
  let r := addLoop pl dlen (dlen / CS + 2) begin 0 pc.bits
  (r.1, r.2.all id, { pc with bits := r.2 })

def firstClear (bits : List Bool) (chunks : Nat) : Nat → Nat → Option Nat
  | 0, _ => none
  | fuel+1, i => if i < chunks then (if !getB bits i then some i else firstClear bits chunks fuel (i+1))
                 else none

def holeCount (bits : List Bool) (chunks first : Nat) : Nat → Nat → Nat
  | 0, count => count
  | fuel+1, count => if count < chunks then (if getB bits (first + count) then count
                                             else holeCount bits chunks first fuel (count+1))
                     else count

/-- `Pieces.Hole(index, offset)`; `none` is `(^0, ^0)` -/
def hole (g : Geom) (pc : PieceSt) (index offset : Nat) : Option (Nat × Nat) :=
  if pc.complete then none else
  let chunks := g.pieceChunks index
  match firstClear pc.bits chunks (chunks + 1) (offset / CS) with
  | none => none
  | some first =>
    let count := holeCount pc.bits chunks first (chunks + 1) 1
    if count = chunks then some (first * CS, g.pieceLength index - first * CS)
    else some (first * CS, count * CS)

/-! ### web-seed writer -/

structure Writer where
  idx : Nat
  offset : Nat
  count : Nat
  buflen : Nat := 0
  isOpen : Bool := true
  rsv : List Nat := []   -- ghost: the blocks `maybeWebseed` reserved when it created this writer
deriving Repr, Inhabited

/-! ### global state -/

structure State where
  g : Geom
  inFlight : List Nat := []
  avail : List Nat := []
  tEvent : List TorEv := []
  tcap : Nat := 512
  peers : List Peer := []
  pieces : List PieceSt := []
  writers : List Writer := []
  sat : Bool := false        -- an increment hit the uint8 / uint16 ceiling ("Eek! overflow")
  under : Bool := false      -- an inFlight decrement found 0 ("Eek!  InFlight underflow.")
  aunder : Bool := false     -- an available decrement found 0
  panicked : Bool := false   -- Go would have faulted (index out of range)
  hasMeta : Bool := true     -- t.infoComplete (`inFlight` / `pieces` below are meaningful only then)
  blocked : Bool := false    -- a blocking channel send would not have returned
deriving Repr, Inhabited

def init (g : Geom) (tcap : Nat) : State :=
  { g := g, inFlight := List.replicate g.nchunks 0, tcap := tcap,
    pieces := (List.range g.npieces).map (fun i => { bits := List.replicate (g.pieceChunks i) false }) }

/-- a magnet torrent: the geometry `g` becomes known only with the `metaComplete` step -/
def initMagnet (g : Geom) (tcap : Nat) : State := { init g tcap with hasMeta := false }

/-- `noteInFlight(t, c, true)` -/
def incr (s : State) (c : Nat) : State :=
  if c ≥ s.inFlight.length then { s with panicked := true }
  else if getN s.inFlight c ≥ 255 then { s with sat := true }
  else { s with inFlight := setN s.inFlight c (getN s.inFlight c + 1) }

/-- `noteInFlight(t, c, false)` -/
def decr (s : State) (c : Nat) : State :=
  if c ≥ s.inFlight.length then { s with panicked := true }
  else if getN s.inFlight c = 0 then { s with under := true }
  else { s with inFlight := setN s.inFlight c (getN s.inFlight c - 1) }

def incrAll (s : State) (cs : List Nat) : State := cs.foldl incr s
def decrAll (s : State) (cs : List Nat) : State := cs.foldl decr s

/-- `noteAvailable(t, i, have)` (the slice grows on demand) -/
def noteAvail (s : State) (i : Nat) (hv : Bool) : State :=
  let av := if s.avail.length ≤ i then s.avail ++ List.replicate (i + 1 - s.avail.length) 0 else s.avail
  if hv then
    if getN av i ≥ 65535 then { s with avail := av, sat := true }
    else { s with avail := setN av i (getN av i + 1) }
  else
    if getN av i = 0 then { s with avail := av, aunder := true }
    else { s with avail := setN av i (getN av i - 1) }

/-- `writeEvent(peer, e)`: straight to `t.Event` only when the overflow list is empty and the
    channel has room -/
def emit1 (tcap : Nat) (te ov : List TorEv) (e : TorEv) : List TorEv × List TorEv :=
  if ov.isEmpty && decide (te.length < tcap) then (te ++ [e], ov) else (te, ov ++ [e])

def emitAll (tcap : Nat) (te ov : List TorEv) : List TorEv → List TorEv × List TorEv
  | [] => (te, ov)
  | e :: es => let r := emit1 tcap te ov e; emitAll tcap r.1 r.2 es

/-- install the new peer `p` at index `i` and route the events it emitted -/
def commitPeer (s : State) (i : Nat) (ov : List TorEv) (evq : List PeerEv) (alive : Bool) (p : Peer)
    (evs : List TorEv) : State :=
  let r := emitAll s.tcap s.tEvent ov evs
  -- (the handlers never touch `evq` / `overflow` / `alive`; they are re-installed explicitly)
  { s with tEvent := r.1, peers := setN s.peers i { p with overflow := r.2, evq := evq, alive := alive } }

/-- `Run`'s select moving the overflow list to `t.Event`, as far as there is room -/
def flushLoop (tcap : Nat) : Nat → List TorEv → List TorEv → List TorEv × List TorEv
  | 0, te, ov => (te, ov)
  | fuel+1, te, ov =>
    match ov with
    | [] => (te, ov)
    | e :: rest => if te.length < tcap then flushLoop tcap fuel (te ++ [e]) rest else (te, ov)

/-! ### wire messages and ops -/

inductive Msg where
  | piece (idx begin len : Nat)
  | reject (idx begin : Nat)
  | choke | unchoke
  | haveMsg (i : Nat)
  | bitfield (bits : List Nat)
  | haveAll | haveNone
  | dontHave (i : Nat)
  | allowedFast (i : Nat)
  | bad
deriving Repr, DecidableEq, Inhabited

inductive Op where
  | connect (fast : Bool) (evcap wcap : Nat)
  | request (p : Nat) (chunks : List Nat) (afterDone : Bool)
  | push (p : Nat) (e : PeerEv)          -- the torrent's writePeer of a non-request event
  | peerEvent (p : Nat) (slow : Bool)
  | peerMsg (p : Nat) (m : Msg) (slow : Bool)
  | tick (p : Nat) (rto : Nat) (slow : Bool)
  | age (p : Nat) (d : Nat)
  | exit (p : Nat)
  | flush (p : Nat)
  | torEvent
  | wdrain (p : Nat)
  | wfill (p : Nat) (k : Nat)
  | wsReserve (idx : Nat)
  | wWrite (w : Nat) (n : Nat)
  | wClose (w : Nat)
  | finalise (idx : Nat)
  | metaComplete                         -- the TorMetaData that completes the metadata
deriving Repr, Inhabited

/-- what a step reports (printed by the driver) -/
inductive Res where
  | ok | err | congested | eof | dead | none | block | panic | bad
  | ev (e : TorEv) | pev (e : PeerEv) | num (n : Nat) | res (o l : Nat) | fin (b : Bool)
  | tag (t : String)
deriving Repr, Inhabited

/-- `Requests.Del(c)`: remove the request for `c`, sent (`true`) or only queued (`false`) -/
def delReq (p : Peer) (c : Nat) : Option (Peer × Bool) :=
  if !p.member c then none else
  match findIdx p.requested c with
  | some j => some ({ p with requested := swapRemove p.requested j }, true)
  | none =>
    match findIdx p.queue c with
    | some j => some ({ p with queue := swapRemove p.queue j }, false)
    | none => none

/-- `Requests.DelRequested(c)` -/
def delRequested (p : Peer) (c : Nat) : Option Peer :=
  if !p.member c then none else
  match findIdx p.requested c with
  | some j => some { p with requested := swapRemove p.requested j }
  | none => none

/-- the piece indices a Have / AllowedFast may name -/
def idxBound (g : Geom) (p : Peer) : Nat := if p.hasInfo then g.npieces else maxPieces

/-- length of the bitmap a Bitfield message installs -/
def bfLen (g : Geom) (p : Peer) (bs : List Nat) : Nat :=
  if p.hasInfo then g.npieces else bs.foldl max 0 + 1

/-- `retract` = the `if peer.bitmap != nil { writeEvent(TorPeerBitmap{…, false}) }` prefix of the
    Bitfield / HaveAll / HaveNone handlers -/
def retract (i : Nat) (p : Peer) : List TorEv :=
  if p.bmNil then [] else [.bitmap i (bitList p.bits) false]

/-- `handleMessage(peer, m)`: (peer', emitted events, error?) -/
def handleMsg (g : Geom) (pieces : List PieceSt) (i : Nat) (p : Peer) (m : Msg) (slow : Bool) :
    Peer × List TorEv × Bool × List PieceSt × String :=
  match m with
  | .bad => (p, [], true, pieces, "bad")
  | .choke =>
    let p1 := { p with unchoked := false }
    if p.canFast then
      -- Clear(false, drop): the queue is dropped, sent requests stay
      ({ p1 with queue := [] }, (chunksOf p.queue).map (dropEv g) ++ [.unchoke i false], false, pieces, "choke-fast")
    else
      ({ p1 with queue := [], requested := [] },
        (chunksOf p.requested).map (dropEv g) ++ (chunksOf p.queue).map (dropEv g) ++ [.unchoke i false],
        false, pieces, "choke")
  | .unchoke => ({ p with unchoked := true }, [.unchoke i true], false, pieces, "unchoke")
  | .haveMsg x =>
    if x ≥ idxBound g p then (p, [], true, pieces, "have-range")
    else if !getB p.bits x then
      ({ p with bits := setBit p.bits x true, bmNil := false }, [.phave i x true], false, pieces, "have")
    else (p, [], false, pieces, "have-redundant")
  | .bitfield bs =>
    -- (the length check needs the metadata; before it any bitfield is taken as it comes)
    if p.hasInfo && bs.any (fun x => decide (x ≥ g.npieces)) then (p, [], true, pieces, "bitfield-overlong")
    else
      ({ p with bits := setBits (bfLen g p bs) bs, bmNil := false },
        retract i p ++ [.bitmap i (bitList (setBits (bfLen g p bs) bs)) true], false, pieces,
        if p.bmNil then "bitfield" else "bitfield-change")
  | .haveAll =>
    if !p.canFast then (p, [], true, pieces, "haveall-nofast")
    else if p.hasInfo then
      ({ p with bits := List.replicate g.npieces true, bmNil := false, isSeed := true },
        retract i p ++ [.bitmap i (bitList (List.replicate g.npieces true)) true], false, pieces,
        if p.bmNil then "haveall" else "haveall-change")
    else
      -- metadata unknown: remember `isSeed`, the bitmap is filled in by PeerMetadataComplete
      ({ p with bits := [], bmNil := true, isSeed := true }, retract i p, false, pieces,
        if p.bmNil then "haveall-nometa" else "haveall-nometa-change")
  | .haveNone =>
    if !p.canFast then (p, [], true, pieces, "havenone-nofast")
    else
      ({ p with bits := [], bmNil := true, isSeed := false }, retract i p, false, pieces,
        if p.bmNil then "havenone" else "havenone-change")
  | .dontHave x =>
    if p.isSeed && !p.hasInfo then (p, [], true, pieces, "donthave-seed")
    else if p.hasInfo && decide (x ≥ g.npieces) then ({ p with isSeed := false }, [], true, pieces, "donthave-range")
    else if getB p.bits x then
      ({ p with bits := setBit p.bits x false, isSeed := false }, [.phave i x false], false, pieces, "donthave")
    else ({ p with isSeed := false }, [], false, pieces, "donthave-redundant")
  | .allowedFast x =>
    if !p.canFast || decide (x ≥ idxBound g p) then
      (p, [], true, pieces, "allowedfast-nofast")
    else if p.fast.contains x then (p, [], false, pieces, "allowedfast-dup")
    else ({ p with fast := p.fast ++ [x] }, [], false, pieces, "allowedfast")
  | .reject idx begin =>
    if !p.canFast || !p.hasInfo then (p, [], true, pieces, "reject-nofast")
    else
      let c := toChunk g idx begin
      match delRequested p c with
      | some p1 =>
        let r := maybeRequest g slow p1 [dropEv g c]
        (r.1, r.2, false, pieces, "reject")
      | none =>
        let r := maybeRequest g slow p []
        (r.1, r.2, false, pieces, "reject-unknown")
  | .piece idx begin len =>
    if !p.hasInfo || decide (idx ≥ g.npieces) then (p, [], true, pieces, "piece-range")
    else
      let c := toChunk g idx begin
      match delReq p c with
      | none =>
        let r := maybeRequest g slow p []
        (r.1, r.2, false, pieces, "piece-unrequested")
      | some (p1, _) =>
        match pieces[idx]? with
        | none => (p, [], true, pieces, "piece-range")
        | some pc =>
          let a := addData g pc idx begin len
          let pieces1 := setN pieces idx a.2.2
          if a.1 = len ∧ a.1 = chunkSize g c then
            let r := maybeRequest g slow p1 [.data (some i) idx begin len a.2.1]
            (r.1, r.2, false, pieces1, "piece-data")
          else
            let r := maybeRequest g slow p1 [dropEv g c]
            (r.1, r.2, false, pieces1,
              if len = 0 then "piece-drop-empty" else if len < chunkSize g c then "piece-drop-short"
              else if len > chunkSize g c then "piece-drop-long" else "piece-drop-refused")

/-- `handleEvent(peer, e)` -/
def handlePeerEv (g : Geom) (i : Nat) (p : Peer) (e : PeerEv) (slow : Bool) : Peer × List TorEv × Bool :=
  match e with
  | .request cs =>
    if !p.hasInfo then (p, [], true) else   -- ErrMetadataIncomplete
    let r := enqueueAll g cs p []
    let r2 := maybeRequest g slow r.1 r.2
    (r2.1, r2.2, false)
  | .cancel c => if !p.hasInfo then (p, [], true) else let r := cancelChunk g p c []; (r.1, r.2, false)
  | .cancelPiece idx =>
    if !p.hasInfo then (p, [], true) else let r := cancelPieceLoop g idx g.cpp 0 p []; (r.1, r.2, false)
  | .done => (p, [], true)
  | .metadata =>
    -- PeerMetadataComplete
    if p.hasInfo then (p, [], true)                       -- "duplicate metadata"
    else if p.isSeed then
      if !p.bmNil then ({ p with hasInfo := true }, [], true)   -- "inconsistent bitmap with incomplete metadata"
      else
        ({ p with hasInfo := true, bits := List.replicate g.npieces true, bmNil := false },
          [.bitmap i (bitList (List.replicate g.npieces true)) true], false)
    else if (bitList p.bits).any (fun x => decide (x ≥ g.npieces)) then
      ({ p with hasInfo := true }, [], true)              -- "overlong bitfield"
    else ({ p with hasInfo := true }, [], false)

/-- the deferred exit path of `Run`: `Clear(true, drop)`, `TorPeerBitmap(false)`, `TorPeerGoaway` -/
def exitEvents (g : Geom) (i : Nat) (p : Peer) : List TorEv :=
  (chunksOf p.requested).map (dropEv g) ++ (chunksOf p.queue).map (dropEv g) ++
    [.bitmap i (bitList p.bits) false, .goaway i]

def reqChunks : PeerEv → List Nat
  | .request cs => cs
  | _ => []

/-- `writePeers(t, PeerCancel{c}, except)` to the peers whose loop still runs -/
def castCancel (except : Option Nat) (c : Nat) : Nat → List Peer → List Peer
  | _, [] => []
  | i, p :: ps =>
    (if p.present && p.alive && except ≠ some i then { p with evq := p.evq ++ [.cancel c] } else p)
      :: castCancel except c (i+1) ps

/-- the release loop of the TorData handler -/
def dataLoop (except : Option Nat) : List Nat → State → State
  | [], s => s
  | c :: cs, s =>
    let s1 := decr s c
    let s2 := if getN s1.inFlight c > 0 then { s1 with peers := castCancel except c 0 s1.peers } else s1
    dataLoop except cs s2

/-- `writePeers(t, PeerMetadataComplete{…}, nil)` to the peers whose loop still runs -/
def castMeta (l : List Peer) : List Peer :=
  l.map (fun p => if p.present && p.alive then { p with evq := p.evq ++ [.metadata] } else p)

def needRoom (s : State) (except : Option Nat) (n : Nat) : Bool :=
  (List.range s.peers.length).all (fun i =>
    match s.peers[i]? with
    | some p => !(p.present && p.alive && except ≠ some i) || decide (p.evq.length + n ≤ p.evcap)
    | none => true)

/-- `tor.handleEvent` -/
def handleTorEv (s : State) (e : TorEv) : State :=
  match e with
  | .data src idx begin len _ =>
    let cs := covRange s.g idx begin len
    if !needRoom s src cs.length then { s with blocked := true } else dataLoop src cs s
  | .drop idx begin len => decrAll s (covRange s.g idx begin len)
  | .bitmap _ bits hv => bits.foldl (fun s i => noteAvail s i hv) s
  | .phave _ idx hv => noteAvail s idx hv
  | .unchoke _ _ => s
  | .goaway p =>
    match s.peers[p]? with
    | none => s
    | some pr =>
      if !pr.present then s else
      -- delPeer, then (fix C09-03) release the PeerRequests the peer never consumed
      let s1 := { s with peers := setN s.peers p { pr with present := false, evq := [] } }
      decrAll s1 (pr.evq.flatMap reqChunks)

/-- reservation loop of `maybeWebseed` -/
def wsFind (s : State) (idx : Nat) (pc : PieceSt) : Nat → Nat → Option (Nat × Nat)
  | 0, _ => none
  | fuel+1, o =>
    match hole s.g pc idx o with
    | none => none
    | some (o1, l) =>
      if getN s.inFlight (u32 (idx * s.g.cpp + o1 / CS)) = 0 then some (o1, l)
      else wsFind s idx pc fuel (o1 + CS)

def wsChunks (g : Geom) (idx o l : Nat) : List Nat :=
  (List.range ((l + CS - 1) / CS)).map (fun k => u32 (idx * g.cpp + u32 (o + k * CS) / CS))

def step (s : State) (op : Op) : State × Res :=
  if s.panicked then (s, .panic) else
  match op with
  | .connect fast evcap wcap =>
    ({ s with peers := s.peers ++ [{ canFast := fast, evcap := evcap, wcap := wcap, hasInfo := s.hasMeta,
                                      bits := List.replicate s.g.npieces false }] }, .ok)
  | .request i cs afterDone =>
    match s.peers[i]? with
    | none => (s, .bad)
    | some p =>
      if !p.present then (s, .bad)
      -- (a chunk number beyond the torrent would make `t.inFlight[c]` fault in Go: the real
      --  scheduler only produces valid ones, the model refuses the op)
      else if !s.hasMeta || cs.any (fun c => decide (c ≥ s.g.nchunks)) then (s, .bad)
      else
        -- maybeWritePeer: select { p.Event <- e ; <-p.Done ; default }
        let room := decide (p.evq.length < p.evcap)
        if p.alive && !room then (s, .congested)
        else if !p.alive && !(room && afterDone) then (s, .eof)
        else
          let s1 := { s with peers := setN s.peers i { p with evq := p.evq ++ [.request cs] } }
          (incrAll s1 cs, .ok)
  | .push i e =>
    match s.peers[i]? with
    | none => (s, .bad)
    | some p =>
      if !p.present || !p.alive then (s, .dead)
      else if p.evq.length ≥ p.evcap then (s, .block)
      else match e with
        | .request _ => (s, .bad)
        | _ => ({ s with peers := setN s.peers i { p with evq := p.evq ++ [e] } }, .ok)
  | .peerEvent i slow =>
    match s.peers[i]? with
    | none => (s, .bad)
    | some p =>
      if !p.alive then (s, .dead) else
      match p.evq with
      | [] => (s, .none)
      | e :: rest =>
        let r := handlePeerEv s.g i { p with evq := rest } e slow
        (commitPeer s i p.overflow rest true r.1 r.2.1, if r.2.2 then .err else .pev e)
  | .peerMsg i m slow =>
    match s.peers[i]? with
    | none => (s, .bad)
    | some p =>
      if !p.alive then (s, .dead) else
      let r := handleMsg s.g s.pieces i p m slow
      (commitPeer { s with pieces := r.2.2.2.1 } i p.overflow p.evq true r.1 r.2.1,
        if r.2.2.1 then .err else .tag r.2.2.2.2)
  | .tick i rto slow =>
    match s.peers[i]? with
    | none => (s, .bad)
    | some p =>
      if !p.alive then (s, .dead) else
      if p.requested.isEmpty then (s, .fin false) else
      let to := min rto 5000 + (if p.canFast then 2000 else 0)
      let r := expireLoop s.g to (p.requested.length + 1) 0 p [] false
      let r2 := if r.2.2 then maybeRequest s.g slow r.1 r.2.1 else (r.1, r.2.1)
      (commitPeer s i p.overflow p.evq true r2.1 r2.2, .fin r.2.2)
  | .age i d =>
    match s.peers[i]? with
    | none => (s, .bad)
    | some p =>
      let f := fun (r : Req) => { r with rage := r.rage + d, cage := if r.canc then r.cage + d else r.cage }
      ({ s with peers := setN s.peers i { p with requested := p.requested.map f } }, .ok)
  | .exit i =>
    match s.peers[i]? with
    | none => (s, .bad)
    | some p =>
      if !p.alive then (s, .dead) else
      let evs := exitEvents s.g i p
      let p1 : Peer := { p with alive := false, queue := [], requested := [],
                                bits := List.replicate s.g.npieces false, bmNil := true }
      (commitPeer s i p.overflow p.evq false p1 evs, .ok)
  | .flush i =>
    match s.peers[i]? with
    | none => (s, .bad)
    | some p =>
      let r := flushLoop s.tcap (p.overflow.length + 1) s.tEvent p.overflow
      ({ s with tEvent := r.1, peers := setN s.peers i { p with overflow := r.2 } },
        .num (p.overflow.length - r.2.length))
  | .torEvent =>
    match s.tEvent with
    | [] => (s, .none)
    | e :: rest =>
      let s1 := handleTorEv { s with tEvent := rest } e
      if s1.blocked then ({ s with blocked := true }, .block) else (s1, .ev e)
  | .wdrain i =>
    match s.peers[i]? with
    | none => (s, .bad)
    | some p => ({ s with peers := setN s.peers i { p with wlen := 0 } }, .num p.wlen)
  | .wfill i k =>
    match s.peers[i]? with
    | none => (s, .bad)
    | some p =>
      if p.wlen + k > p.wcap then (s, .bad)
      else ({ s with peers := setN s.peers i { p with wlen := p.wlen + k } }, .ok)
  | .wsReserve idx =>
    match (if s.hasMeta then s.pieces[idx]? else none) with
    | none => (s, .bad)
    | some pc =>
      match wsFind s idx pc (s.g.pieceChunks idx + 1) 0 with
      | none => (s, .fin false)
      | some (o, l0) =>
        let l := if l0 > 1048576 then 1048576 else l0
        -- checked assumption about `Pieces.Hole` (its own correctness belongs to C01/C14): the
        -- hole starts on a block boundary and lies inside the piece
        if o % CS ≠ 0 ∨ o + l > s.g.pieceLength idx then ({ s with panicked := true }, .panic) else
        let s1 := incrAll s (wsChunks s.g idx o l)
        ({ s1 with writers := s1.writers ++ [{ idx := idx, offset := o, count := l, rsv := wsChunks s.g idx o l }] },
          .res o l)
  | .wWrite w n =>
    match s.writers[w]? with
    | none => (s, .bad)
    | some wr =>
      if !wr.isOpen then (s, .dead)
      else if wr.count < wr.buflen then (s, .num 0)   -- ErrShortWrite
      else
        let q := min n (wr.count - wr.buflen)
        let dl := wr.buflen + q
        match s.pieces[wr.idx]? with
        | none => ({ s with panicked := true }, .panic)
        | some pc =>
          let a := addData s.g pc wr.idx wr.offset dl
          if a.1 > 0 then
            if s.tEvent.length ≥ s.tcap then ({ s with blocked := true }, .block)
            else
              ({ s with pieces := setN s.pieces wr.idx a.2.2,
                        tEvent := s.tEvent ++ [.data none wr.idx wr.offset a.1 a.2.1],
                        writers := setN s.writers w
                          { wr with count := wr.count - a.1, offset := u32 (wr.offset + a.1), buflen := dl - a.1 } },
                .num q)
          else
            ({ s with pieces := setN s.pieces wr.idx a.2.2,
                      writers := setN s.writers w { wr with buflen := dl } }, .num q)
  | .wClose w =>
    match s.writers[w]? with
    | none => (s, .bad)
    | some wr =>
      if !wr.isOpen then (s, .dead)
      else if wr.count > 0 then
        if s.tEvent.length ≥ s.tcap then ({ s with blocked := true }, .block)
        else
          ({ s with tEvent := s.tEvent ++ [.drop wr.idx wr.offset wr.count],
                    writers := setN s.writers w { wr with count := 0, isOpen := false } }, .ok)
      else ({ s with writers := setN s.writers w { wr with isOpen := false } }, .ok)
  | .finalise idx =>
    match (if s.hasMeta then s.pieces[idx]? else none) with
    | none => (s, .bad)
    | some pc =>
      if !pc.complete && pc.bits.all id then
        ({ s with pieces := setN s.pieces idx { pc with complete := true } }, .fin true)
      else (s, .fin false)
  | .metaComplete =>
    -- `gotMetadata` succeeded: `writePeers(PeerMetadataComplete)`, the counters exist from now on
    if s.hasMeta then (s, .bad)
    else if !needRoom s none 1 then ({ s with blocked := true }, .block)
    else ({ s with hasMeta := true, peers := castMeta s.peers }, .ok)

def run (s : State) : List Op → State
  | [] => s
  | op :: ops => run (step s op).1 ops

/-! ### the ghost quantities of C09 -/

def covL (g : Geom) (b : Nat) (es : List TorEv) : Nat := sumL (fun e => cnt b (cov g e)) es

def reqOwed (b : Nat) (evq : List PeerEv) : Nat := sumL (fun e => cnt b (reqChunks e)) evq

/-- requests for `b` outstanding at the peer itself (queued or sent) -/
def Peer.outstanding (p : Peer) (b : Nat) : Nat :=
  cnt b (chunksOf p.queue) + cnt b (chunksOf p.requested)

def peerOwed (g : Geom) (b : Nat) (p : Peer) : Nat :=
  reqOwed b p.evq + p.outstanding b + covL g b p.overflow

/-- blocks still reserved by a web-seed writer: what its `Close` would release -/
def Writer.reserved (g : Geom) (w : Writer) : List Nat :=
  if w.isOpen then covRange g w.idx w.offset w.count else []

def owed (s : State) (b : Nat) : Nat :=
  sumL (peerOwed s.g b) s.peers + covL s.g b s.tEvent + sumL (fun w => cnt b (w.reserved s.g)) s.writers

/-- availability carried by an event in transit: `+1` announcements and `-1` retractions of piece `i` -/
def evPlus (i : Nat) : TorEv → Nat
  | .bitmap _ bits true => cnt i bits
  | .phave _ idx true => if idx = i then 1 else 0
  | _ => 0

def evMinus (i : Nat) : TorEv → Nat
  | .bitmap _ bits false => cnt i bits
  | .phave _ idx false => if idx = i then 1 else 0
  | _ => 0

def plusT (s : State) (i : Nat) : Nat :=
  sumL (evPlus i) s.tEvent + sumL (fun p => sumL (evPlus i) p.overflow) s.peers

def minusT (s : State) (i : Nat) : Nat :=
  sumL (evMinus i) s.tEvent + sumL (fun p => sumL (evMinus i) p.overflow) s.peers

/-- number of connected peers whose bitmap advertises piece `i` -/
def advertised (s : State) (i : Nat) : Nat :=
  sumL (fun p => if p.alive && getB p.bits i then 1 else 0) s.peers

/-- number of web-seed reservations made so far that covered block `b` -/
def resv (s : State) (b : Nat) : Nat := sumL (fun w => cnt b w.rsv) s.writers

/-- The enabling conditions of the real scheduler, as a predicate on one step:
    `periodicRequest` asks a peer for a block only while `inFlight < maxInFlight(prio) ≤ 3` (a block
    that occurs several times in one request — one entry per priority level — passes the guard of
    each entry, so the sum stays ≤ 3); the environment hypotheses: no block is covered by more than
    252 web-seed reservations in the whole history, and at most 50 peers (`MaxPeersPerTorrent`)
    ever enter the peer table. -/
def stepGuard (s : State) : Op → Prop
  | .request _ cs _ => ∀ c, 0 < cnt c cs → getN s.inFlight c + cnt c cs ≤ 3
  | .wsReserve idx => ∀ b, resv (step s (.wsReserve idx)).1 b ≤ 252
  | .connect _ _ _ => s.peers.length < 50
  | _ => True

def Guarded (s : State) : List Op → Prop
  | [] => True
  | op :: ops => stepGuard s op ∧ Guarded (step s op).1 ops

/-! ### histories: what was commanded, what was answered -/

def Res.isOk : Res → Bool
  | .ok => true
  | _ => false

/-- blocks still pending at peer `k`: in PeerRequests it has not consumed yet, queued, or sent -/
def pendL (k b : Nat) (l : List Peer) : Nat :=
  match l[k]? with
  | some p => reqOwed b p.evq + p.outstanding b
  | none => 0

def pend (k b : Nat) (s : State) : Nat := pendL k b s.peers

/-- the blocks of the PeerRequest peer `k` accepted in this step (`request` answered `ok`) -/
def stepAccepted (s : State) (op : Op) (k : Nat) : List Nat :=
  match op with
  | .request i cs _ => if i = k ∧ (step s op).2.isOk = true then cs else []
  | _ => []

/-- the events peer `k` emits in this step (its handlers' output, before routing) -/
def stepEmitted (s : State) (op : Op) (k : Nat) : List TorEv :=
  if s.panicked then [] else
  match op with
  | .peerEvent i slow =>
    if i ≠ k then [] else
    match s.peers[i]? with
    | none => []
    | some p =>
      if !p.alive then [] else
      match p.evq with
      | [] => []
      | e :: rest => (handlePeerEv s.g i { p with evq := rest } e slow).2.1
  | .peerMsg i m slow =>
    if i ≠ k then [] else
    match s.peers[i]? with
    | none => []
    | some p => if !p.alive then [] else (handleMsg s.g s.pieces i p m slow).2.1
  | .tick i rto slow =>
    if i ≠ k then [] else
    match s.peers[i]? with
    | none => []
    | some p =>
      if !p.alive then [] else
      if p.requested.isEmpty then [] else
      let to := min rto 5000 + (if p.canFast then 2000 else 0)
      let r := expireLoop s.g to (p.requested.length + 1) 0 p [] false
      if r.2.2 then (maybeRequest s.g slow r.1 r.2.1).2 else r.2.1
  | .exit i =>
    if i ≠ k then [] else
    match s.peers[i]? with
    | none => []
    | some p => if !p.alive then [] else exitEvents s.g i p
  | _ => []

/-- the blocks `delPeer` releases on behalf of peer `k` in this step (requests the peer never consumed) -/
def stepDrained (s : State) (op : Op) (k : Nat) : List Nat :=
  if s.panicked || s.blocked then [] else
  match op with
  | .torEvent =>
    match s.tEvent with
    | .goaway p :: _ =>
      if p ≠ k then [] else
      match s.peers[p]? with
      | none => []
      | some pr => if pr.present then pr.evq.flatMap reqChunks else []
    | _ => []
  | _ => []

def histAccepted (k b : Nat) : State → List Op → Nat
  | _, [] => 0
  | s, op :: ops => cnt b (stepAccepted s op k) + histAccepted k b (step s op).1 ops

/-- number of TorData/TorDrop answers for block `b` emitted by peer `k` over the history -/
def histAnswered (k b : Nat) : State → List Op → Nat
  | _, [] => 0
  | s, op :: ops => covL s.g b (stepEmitted s op k) + histAnswered k b (step s op).1 ops

def histDrained (k b : Nat) : State → List Op → Nat
  | _, [] => 0
  | s, op :: ops => cnt b (stepDrained s op k) + histDrained k b (step s op).1 ops

def quiescent (s : State) : Prop :=
  s.tEvent = [] ∧ ∀ p ∈ s.peers, p.evq = [] ∧ p.overflow = []

end Storrent.Sched
