import Storrent.Model.Wire
/- Canonical text form of messages: must print exactly what harness/wirecanon prints. -/
namespace Storrent.Wire
open Storrent

def fnv64 (bs : Bytes) : UInt64 :=
  bs.foldl (fun h c => (h ^^^ c.toUInt64) * 1099511628211) 14695981039346656037

def payloadStr (bs : Bytes) : String :=
  if bs.length ≤ 32 then toHex bs else s!"#{bs.length}:{(fnv64 bs).toNat}"

def bytesLt : Bytes → Bytes → Bool
  | [], [] => false
  | [], _ :: _ => true
  | _ :: _, [] => false
  | a :: as, b :: bs => if a < b then true else if b < a then false else bytesLt as bs

def insertKV (kv : Bytes × Nat) : List (Bytes × Nat) → List (Bytes × Nat)
  | [] => [kv]
  | x :: xs => if bytesLt kv.1 x.1 then kv :: x :: xs else x :: insertKV kv xs

/-- sorted by key, last binding of a duplicate key wins (Go map semantics) -/
def canonM (m : List (Bytes × Nat)) : List (Bytes × Nat) :=
  let dedup := m.foldl (fun acc kv => (acc.filter (fun x => x.1 != kv.1)) ++ [kv]) []
  dedup.foldl (fun acc kv => insertKV kv acc) []

def peersStr (ps : List PexPeer) : String :=
  "[" ++ ",".intercalate (ps.map (fun p => s!"{toHex p.ip}:{p.port}:{p.flags}")) ++ "]"

def optHex : Option Bytes → String
  | none => "-"
  | some b => toHex b

def canon : Msg → String
  | .keepAlive => "KeepAlive"
  | .choke => "Choke"
  | .unchoke => "Unchoke"
  | .interested => "Interested"
  | .notInterested => "NotInterested"
  | .have i => s!"Have {i}"
  | .bitfield bs => s!"Bitfield {payloadStr bs}"
  | .request i b l => s!"Request {i} {b} {l}"
  | .piece i b d => s!"Piece {i} {b} {payloadStr d}"
  | .cancel i b l => s!"Cancel {i} {b} {l}"
  | .port p => s!"Port {p}"
  | .suggest i => s!"Suggest {i}"
  | .haveAll => "HaveAll"
  | .haveNone => "HaveNone"
  | .reject i b l => s!"Reject {i} {b} {l}"
  | .allowedFast i => s!"AllowedFast {i}"
  | .ext0 e =>
    let ms := ";".intercalate ((canonM e.messages).map (fun kv => s!"{toHex kv.1}:{kv.2}"))
    s!"Ext0 v={toHex e.version} p={e.port} reqq={e.reqq} ipv4={optHex e.ipv4} ipv6={optHex e.ipv6} ms={e.metadataSize} m=[{ms}] uo={boolStr e.uploadOnly} e={boolStr e.encrypt}"
  | .pex sub a d => s!"Pex {sub} a={peersStr a} d={peersStr d}"
  | .metadata sub t p tot data => s!"Meta {sub} {t} {p} {tot} {payloadStr data}"
  | .dontHave sub i => s!"DontHave {sub} {i}"
  | .uploadOnly sub v => s!"UploadOnly {sub} {boolStr v}"
  | .extUnknown sub => s!"ExtUnknown {sub}"
  | .unknown t => s!"Unknown {t}"

end Storrent.Wire
