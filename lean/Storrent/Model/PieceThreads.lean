import Storrent.Model.Piece
import Storrent.Model.PieceSha1
/-
Thread level of the piece-store model and the line-protocol driver shared by model-c01 and
model-c03.  Every exported method of `piece.Pieces` is a little program over the atomic
steps of Model/Piece; a thread is paused at one of the named yield points of
tor/piece/verif_on.go (`adddata.prelock`, `finalise.prelock`, `finalise.hashing`,
`finalise.hashed`, `del.wait`, `expire.visit`) and `resume` runs it to its next pause or to
its return — exactly the segments between which the harness's yield controller lets another
goroutine run.  `Pieces.Expire`'s local state (`todo`, the visiting order) and `Pieces.Del`'s
program counter live here; so does the pure arithmetic of `tor.Expire` (`policy`).

Line protocol (harness/piecelib):
  case <n> | new <sid> <ps> <length> <cseed> | T<k> call <sid> <api> <args…> | T<k> go [<idx>]
  | end | pol <mark> <space> <count> <bytes1 csv> <bytes2 csv>
-/
namespace Storrent.Piece
open Storrent Storrent.Bitmap

/-! ### `Pieces.Expire`: ordering and bookkeeping (thread-local) -/

/-- the comparator handed to `slices.SortFunc` (`t` = ages, `av` = availability);
    negative: `i` first -/
def expCmp (t av : List Nat) (i j : Nat) : Int :=
  let ti := t.getD i 0
  let tj := t.getD j 0
  let ai := av.getD i 0     -- `if i < len(available) { ai = available[i] }`
  let aj := av.getD j 0
  if ti ≥ 7200 ∧ tj ≥ 7200 ∧ ai ≠ aj then (if aj < ai then -1 else 1)
  else if tj < ti then -1 else if tj = ti then 0 else 1

/-- `i` may be visited next: nothing still to visit sorts strictly before it -/
def expLegal (t av : List Nat) (rest : List Nat) (i : Nat) : Bool :=
  rest.contains i && rest.all (fun j => expCmp t av i j ≤ 0)

structure ExpLocal where
  t : List Nat        -- ages sampled (without the lock) at the start of the pass
  av : List Nat
  rest : List Nat     -- indices not yet visited
  todo : Int
  cnt : Nat
deriving Repr

/-- `now.Sub(tm)` -/
def monoSub (now tm : Nat) : Nat := if now < tm then 0 else now - tm

def expStart (g : Geom) (s : State) (target : Int) (now : Nat) (av : List Nat) : ExpLocal :=
  { t := s.pieces.map (fun p => monoSub now p.time), av := av,
    rest := List.range s.pieces.length, todo := bytesOf g s - target, cnt := 0 }

/-- loop head: more to do? -/
def expMore (l : ExpLocal) : Bool := !l.rest.isEmpty && decide (l.todo > 0)

/-- one visit: `del(index,false)`; returns (state, local, callback fired) -/
def expVisit (g : Geom) (s : State) (l : ExpLocal) (i : Nat) : State × ExpLocal × Bool × Obs :=
  let r := del s i false
  let rest := l.rest.erase i
  match r.2 with
  | .del true complete _ =>
    (r.1, { l with rest := rest, todo := l.todo - g.ps, cnt := l.cnt + 1 }, complete, r.2)
  | o => (r.1, { l with rest := rest }, false, o)

/-! ### `tor.Expire`: the arithmetic (REPAIRED: the two zero tests) -/

inductive Policy
  | plus | zero | evict (fair2 : Int) (selected : List Nat) | idle | panic
deriving Repr, DecidableEq

/-- `mark` = config.MemoryMark, `space` = alloc.Bytes() sample, `cnt` = count() walk,
    `b1` = Bytes() of each torrent during the second walk, `b2` during the third.
    `guarded = false` is the code as found (divides by zero). -/
def policy (guarded : Bool) (mark space : Int) (cnt : Nat) (b1 b2 : List Int) : Policy :=
  let low := Int.tdiv (mark * 7) 8
  let high := mark
  let mid := Int.tdiv (low + high) 2
  if space < mid then .plus
  else if space < high then .zero
  else if cnt = 0 then (if guarded then .idle else .panic)
  else
    let fair := Int.tdiv low cnt
    let small := b1.filter (· ≤ fair)
    let bigcount := b1.length - small.length
    let smallspace := small.foldl (· + ·) 0
    if bigcount = 0 then (if guarded then .idle else .panic)
    else
      let fair2 := Int.tdiv (low - smallspace) bigcount
      .evict fair2 ((List.range b2.length).filter (fun i => b2.getD i 0 > fair2))

/-! ### threads -/

inductive Pc
  | addPre (sid i b : Nat) (blk : Bytes) (peer : Nat)
  | finPre (sid i : Nat) (h : Bytes)
  | finHashing (sid i : Nat) (h : Bytes)
  | finHashed (sid i : Nat) (h : Bytes)
  | expVisit (sid : Nat) (l : ExpLocal)
  | delWait (sid k : Nat)

structure DState where
  stores : List (Nat × Geom × State × Nat) := []   -- sid ↦ geometry, state, content seed
  threads : List (Nat × Pc) := []
  failNext : Nat := 0   -- `failalloc k`: the next k calls of alloc.Alloc fail

def DState.store? (d : DState) (sid : Nat) : Option (Geom × State × Nat) :=
  (d.stores.find? (·.1 == sid)).map (·.2)

def DState.setStore (d : DState) (sid : Nat) (s : State) : DState :=
  { d with stores := d.stores.map (fun e => if e.1 == sid then (e.1, e.2.1, s, e.2.2.2) else e) }

def DState.pc? (d : DState) (tid : Nat) : Option Pc := (d.threads.find? (·.1 == tid)).map (·.2)
def DState.setPc (d : DState) (tid : Nat) (pc : Option Pc) : DState :=
  let ts := d.threads.filter (·.1 != tid)
  { d with threads := match pc with | some p => (tid, p) :: ts | none => ts }

/-! ### canonical strings -/

def fnv64 (bs : Bytes) : UInt64 :=
  bs.foldl (fun h c => (h ^^^ c.toUInt64) * 1099511628211) 14695981039346656037

def stStr : PState → String
  | .incomplete => "0" | .complete => "1" | .busy => "2"

def natsStr (l : List Nat) : String :=
  if l.isEmpty then "-" else ";".intercalate (l.map toString)

/-- `buf`: the piece was (possibly) written by this segment: print its buffer length and
    digest; otherwise only whether it holds a buffer (`+`) — lengths and digests of all pieces
    are printed by `end`. -/
def pieceStr (p : Piece) (buf : Bool) : String :=
  let dl := match p.data with
    | none => "-"
    | some (_, d) => if buf then toString d.length else "+"
  let fv := match p.data with
    | none => "-"
    | some (_, d) => if buf then toString (fnv64 d) else "."
  s!"{stStr p.state},{dl},{toHex p.bitmap},{natsStr p.peers},{fv}"

def globalAlloc (d : DState) : Int := d.stores.foldl (fun a e => a + e.2.2.1.allocated) 0

/-- `touched`: pieces whose buffer digest is printed (all when `none`) -/
def snapStr (d : DState) (sid : Nat) (touched : Option (List Nat)) : String :=
  match d.store? sid with
  | none => "nostore"
  | some (_, s, _) =>
    let ps := (List.range s.pieces.length).map (fun i =>
      match s.pieces[i]? with
      | some p => s!"P{i}={pieceStr p (match touched with | none => true | some l => l.contains i)}"
      | none => "")
    s!"cnt={s.count} del={boolStr s.deleted} al={globalAlloc d} " ++ " ".intercalate ps

def errStr : Err → String
  | .ok => "ok" | .deleted => "deleted" | .odd => "odd" | .beyond => "beyond"
  | .mismatch => "mismatch" | .nomem => "nomem"

/-! ### content: the reference bytes of a torrent are a function of (seed, offset) -/
def contentWord (seed : Nat) (w : Nat) : UInt64 :=
  let z0 : UInt64 := UInt64.ofNat seed + (UInt64.ofNat w + 1) * 0x9E3779B97F4A7C15
  let z1 := (z0 ^^^ (z0 >>> 30)) * 0xBF58476D1CE4E5B9
  let z2 := (z1 ^^^ (z1 >>> 27)) * 0x94D049BB133111EB
  z2 ^^^ (z2 >>> 31)

def contentByte (seed : Nat) (o : Nat) : UInt8 :=
  (contentWord seed (o / 8) >>> (UInt64.ofNat (8 * (o % 8)))).toUInt8 ||| 1

/-- bytes `src … src+k-1` prepended to `acc`, built from the end; `(wi, wv)` caches the
    current 8-byte word -/
def contentGo (seed src : Nat) : Nat → Bytes → Nat → UInt64 → Bytes
  | 0, acc, _, _ => acc
  | k + 1, acc, wi, wv =>
    let o := src + k
    let wi' := o / 8
    let wv' := if wi' == wi then wv else contentWord seed wi'
    contentGo seed src k (((wv' >>> (UInt64.ofNat (8 * (o % 8)))).toUInt8 ||| 1) :: acc) wi' wv'

def contentSlice (seed src len : Nat) : Bytes :=
  contentGo seed src len [] ((src + len) / 8 + 1) 0

def xorAt (bs : Bytes) (pos : Nat) (v : UInt8) : Bytes :=
  if pos < bs.length then bs.modify pos (· ^^^ v) else bs

/-! ### running a thread to its next pause -/

abbrev H : Bytes → Bytes := PieceSha1.sum

/-- result of a segment: new driver state, new pc (none = the call returned), event text,
    touched pieces -/
structure Seg where
  d : DState
  pc : Option Pc
  ev : String
  touched : List Nat

def finRetStr : Obs → String
  | .finRet done peers e => s!"r:fin done={boolStr done} peers={natsStr peers} e={errStr e}"
  | .panic w => s!"r:panic {w}"
  | _ => "r:?"

/-- `Pieces.Expire` from a loop head on -/
def expContinue (d : DState) (sid : Nat) (l : ExpLocal) (cb : String) (touched : List Nat) : Seg :=
  if expMore l then ⟨d, some (.expVisit sid l), s!"y:expire.visit cb={cb}", touched⟩
  else ⟨d, none, s!"r:exp n={l.cnt} cb={cb}", touched⟩

/-- `Pieces.Del` (repaired: `deleted` is latched before the loop) from piece `k` on -/
def delAllFrom (sid : Nat) (d : DState) (s : State) : Nat → Nat → List Nat → Seg
  | 0, _, touched => ⟨d.setStore sid s, none, "r:del", touched⟩
  | fuel + 1, k, touched =>
    if k ≥ s.pieces.length then ⟨d.setStore sid s, none, "r:del", touched⟩
    else match del s k true with
      | (s', .panic w) => ⟨d.setStore sid s', none, s!"r:panic {w}", k :: touched⟩
      | (s', .del _ _ true) => ⟨d.setStore sid s', some (.delWait sid k), s!"y:del.wait:{k}", touched⟩
      | (s', _) => delAllFrom sid d s' fuel (k + 1) (k :: touched)

def resume (d : DState) (pc : Pc) (arg : Option Nat) : Seg :=
  match pc with
  | .addPre sid i b blk peer =>
    match d.store? sid with
    | none => ⟨d, none, "nostore", []⟩
    | some (g, s, _) =>
      -- alloc.Alloc is called only when every test passed and the piece has no buffer
      let fails := allocNeeded g s i b && decide (d.failNext > 0)
      let d := if fails then { d with failNext := d.failNext - 1 } else d
      match addDataA g s i b blk peer (!fails) with
      | (s', .add c cpl e) =>
        ⟨d.setStore sid s', none, s!"r:add c={c} cpl={boolStr cpl} e={errStr e}", [i]⟩
      | (s', .panic w) => ⟨d.setStore sid s', none, s!"r:panic {w}", [i]⟩
      | (s', _) => ⟨d.setStore sid s', none, "r:?", [i]⟩
  | .finPre sid i h =>
    match d.store? sid with
    | none => ⟨d, none, "nostore", []⟩
    | some (g, s, _) =>
      match finBegin g s i with
      | (s', .finHash) => ⟨d.setStore sid s', some (.finHashing sid i h), s!"y:finalise.hashing:{i}", []⟩
      | (s', o) => ⟨d.setStore sid s', none, finRetStr o, []⟩
  | .finHashing sid i h =>
    match d.store? sid with
    | none => ⟨d, none, "nostore", []⟩
    | some (_, s, _) =>
      match hashRead s i with
      | (_, .hashed true) => ⟨d, some (.finHashed sid i h), s!"y:finalise.hashed:{i}", []⟩
      | (_, .hashed false) => ⟨d, none, "fault:hasher read a freed or modified buffer", []⟩
      | (_, _) => ⟨d, some (.finHashed sid i h), s!"y:finalise.hashed:{i}", []⟩
  | .finHashed sid i h =>
    match d.store? sid with
    | none => ⟨d, none, "nostore", []⟩
    | some (_, s, _) =>
      match finEnd H s i h with
      | (s', .disabled) => ⟨d.setStore sid s', none, "r:panic wrong piece state", [i]⟩
      | (s', o) => ⟨d.setStore sid s', none, finRetStr o, [i]⟩
  | .expVisit sid l =>
    match d.store? sid, arg with
    | some (g, s, _), some idx =>
      if !expLegal l.t l.av l.rest idx then ⟨d, none, "bad-order", [idx]⟩
      else
        match expVisit g s l idx with
        | (s', _, _, .panic w) => ⟨d.setStore sid s', none, s!"r:panic {w}", [idx]⟩
        | (s', l', cb, _) =>
          expContinue (d.setStore sid s') sid l' (if cb then toString idx else "-") [idx]
    | _, _ => ⟨d, none, "bad-op", []⟩
  | .delWait sid k =>
    match d.store? sid with
    | none => ⟨d, none, "nostore", []⟩
    | some (_, s, _) => delAllFrom sid d s (s.pieces.length + 1) k []

def intsOf (s : String) : Option (List Int) :=
  if s == "-" then some [] else (s.splitOn ";").mapM (fun w => w.toInt?)

def natsOf (s : String) : Option (List Nat) :=
  if s == "-" then some [] else (s.splitOn ";").mapM (fun w => w.toNat?)

/-- start of a call: the segment up to the first yield -/
def call (d : DState) (sid : Nat) (args : List String) : Option Seg :=
  match d.store? sid with
  | none => some ⟨d, none, "nostore", []⟩
  | some (g, s, seed) =>
    match args with
    | ["add", i, b, src, len, xpos, xval, peer] => do
      let i ← i.toNat?; let b ← b.toNat?; let src ← src.toNat?; let len ← len.toNat?
      let xpos ← xpos.toNat?; let xval ← xval.toNat?; let peer ← peer.toNat?
      let blk := xorAt (contentSlice seed src len) xpos (UInt8.ofNat xval)
      match s.pieces[i]? with
      | none => pure ⟨d, none, "r:panic index out of range", []⟩
      | some p =>
        if p.state ≠ .incomplete then pure ⟨d, none, "r:add c=0 cpl=0 e=ok", []⟩
        else pure ⟨d, some (.addPre sid i b blk peer), s!"y:adddata.prelock:{i}", []⟩
    | ["fin", i, h] => do
      let i ← i.toNat?; let h ← ofHex h
      match s.pieces[i]? with
      | none => pure ⟨d, none, "r:panic index out of range", []⟩
      | some p =>
        if p.state ≠ .incomplete then pure ⟨d, none, "r:fin done=0 peers=- e=ok", []⟩
        else pure ⟨d, some (.finPre sid i h), s!"y:finalise.prelock:{i}", []⟩
    | ["exp", target, now, av] => do
      let target ← target.toInt?; let now ← now.toNat?; let av ← natsOf av
      pure (expContinue d sid (expStart g s target now av) "-" [])
    | ["delall"] =>
      let s1 := (step H g s .latch).1
      pure (delAllFrom sid d s1 (s1.pieces.length + 1) 0 [])
    | ["read", off, n] => do
      let off ← off.toInt?; let n ← n.toNat?
      match readAt g s off n with
      | (_, .read bs eof) =>
        pure ⟨d, none, s!"r:read n={bs.length} e={if eof then "eof" else "ok"} fnv={fnv64 bs}", []⟩
      | (_, .panic w) => pure ⟨d, none, s!"r:panic {w}", []⟩
      | _ => pure ⟨d, none, "r:?", []⟩
    | ["hole", i, off] => do
      let i ← i.toNat?; let off ← off.toNat?
      match hole g s i off with
      | (_, .hole a b) => pure ⟨d, none, s!"r:hole {a} {b}", []⟩
      | (_, .panic w) => pure ⟨d, none, s!"r:panic {w}", []⟩
      | _ => pure ⟨d, none, "r:?", []⟩
    | ["upd", i, now] => do
      let i ← i.toNat?; let now ← now.toNat?
      match updateTime s i now with
      | (s', .upd c) => pure ⟨d.setStore sid s', none, s!"r:upd {boolStr c}", []⟩
      | (_, .panic w) => pure ⟨d, none, s!"r:panic {w}", []⟩
      | _ => pure ⟨d, none, "r:?", []⟩
    | ["settime", i, t] => do
      let i ← i.toNat?; let t ← t.toNat?
      match setTime s i t with
      | (s', .unit) => pure ⟨d.setStore sid s', none, "r:settime", []⟩
      | (_, .panic w) => pure ⟨d, none, s!"r:panic {w}", []⟩
      | _ => pure ⟨d, none, "r:?", []⟩
    | ["bitmap"] =>
      pure ⟨d, none, s!"r:bm {toHex (completeBitmap s)} all={boolStr (s.pieces.all (·.state == .complete))}", []⟩
    | _ => none

def policyStr : Policy → String
  | .plus => "rc=1" | .zero => "rc=0" | .idle => "rc=0 idle" | .panic => "panic divide"
  | .evict f sel => s!"rc=-1 fair2={f} sel={natsStr sel}"

/-- a `tex` scenario: torrents `(pieceSize, complete pieces)`; between the `alloc.Bytes()`
    sample and the walk, `act` deletes the pieces of (`pd`) / unregisters (`td`) torrents.
    Result: return code, final piece counts, `Have(false)` events per torrent. -/
def texRun (mark : Int) (ts : List (Nat × Nat)) (act : String) : String :=
  let space : Int := ts.foldl (fun a t => a + (t.1 * t.2 : Nat)) 0
  let hit (k : Nat) : Bool :=
    act == "pdall" || act == "tdall" || act == s!"pd:{k}" || act == s!"td:{k}"
  let isPd := act.startsWith "pd"
  -- (index, ps, cnt at walk time, in table)
  let st := (List.range ts.length).map (fun k =>
    let t := ts.getD k (0, 0)
    (k, t.1, (if hit k && isPd then 0 else t.2), !(hit k && !isPd)))
  let table := st.filter (·.2.2.2)
  let b : List Int := table.map (fun e => ((e.2.1 * e.2.2.1 : Nat) : Int))
  match policy true mark space table.length b b with
  | .evict fair2 sel =>
    let selIdx := sel.map (fun j => (table.getD j (0, 0, 0, false)).1)
    let res := st.map (fun e =>
      let (k, ps, cnt, _) := e
      if selIdx.contains k then
        let todo : Int := (ps * cnt : Nat) - fair2
        let ev := min cnt ((todo + ps - 1) / ps).toNat
        (cnt - ev, ev)
      else (cnt, 0))
    s!"rc=-1 final={natsStr (res.map (·.1))} have={natsStr (res.map (·.2))}"
  | .panic => "panic integer divide by zero"
  | .idle => s!"rc=0 final={natsStr (st.map (·.2.2.1))} have={natsStr (st.map (fun _ => 0))}"
  | p =>
    -- returned before the yield point: nothing was deleted or unregistered
    let rc := match p with | .plus => "rc=1" | _ => "rc=0"
    s!"{rc} final={natsStr (ts.map (·.2))} have={natsStr (ts.map (fun _ => 0))}"

def pairsOf (s : String) : Option (List (Nat × Nat)) :=
  if s == "-" then some [] else (s.splitOn ";").mapM (fun w =>
    match w.splitOn ":" with
    | [a, b] => do let a ← a.toNat?; let b ← b.toNat?; pure (a, b)
    | _ => none)

def tidOf (w : String) : Option Nat :=
  if w.startsWith "T" then (w.drop 1).toNat? else none

def dstep (d : DState) (ws : List String) : DState × String :=
  match ws with
  | ["case", _] => ({}, "ok")
  | ["new", sid, ps, len, seed] =>
    match sid.toNat?, ps.toNat?, len.toNat?, seed.toNat? with
    | some sid, some ps, some len, some seed =>
      if ps = 0 then (d, "panic integer divide by zero") else
      let g : Geom := { ps := ps, length := len, cs := 16384 }
      ({ d with stores := d.stores.filter (·.1 != sid) ++ [(sid, g, init g, seed)] },
       s!"n={g.numPieces}")
    | _, _, _, _ => (d, "bad-op")
  | ["pol", mark, space, cnt, b1, b2] =>
    match mark.toInt?, space.toInt?, cnt.toNat?, intsOf b1, intsOf b2 with
    | some mark, some space, some cnt, some b1, some b2 =>
      (d, policyStr (policy true mark space cnt b1 b2))
    | _, _, _, _, _ => (d, "bad-op")
  | ["tex", mark, ts, act] =>
    match mark.toInt?, pairsOf ts with
    | some mark, some ts => ({}, texRun mark ts act)
    | _, _ => (d, "bad-op")
  | ["tex", mark, ts, act, q] =>
    -- `q:free:step`: the torrents' event queues are full while the passes run.  The passes
    -- block in Have until there is room, so the outcome is that of the undisturbed run.
    match mark.toInt?, pairsOf ts, q.startsWith "q:" with
    | some mark, some ts, true => ({}, texRun mark ts act)
    | _, _, _ => (d, "bad-op")
  | ["failalloc", k] =>
    match k.toNat? with
    | some k => ({ d with failNext := k }, "ok")
    | none => (d, "bad-op")
  | ["end"] =>
    (d, " / ".intercalate (d.stores.map (fun e => s!"S{e.1} " ++ snapStr d e.1 none)))
  | t :: "call" :: sid :: args =>
    match tidOf t, sid.toNat? with
    | some tid, some sid =>
      if (d.pc? tid).isSome then (d, "bad-op thread busy") else
      match call d sid args with
      | none => (d, "bad-op")
      | some seg => (seg.d.setPc tid seg.pc, seg.ev ++ " | " ++ snapStr seg.d sid (some seg.touched))
    | _, _ => (d, "bad-op")
  | t :: "go" :: rest =>
    match tidOf t with
    | none => (d, "bad-op")
    | some tid =>
      match d.pc? tid with
      | none => (d, "bad-op thread idle")
      | some pc =>
        let arg := match rest with | [a] => a.toNat? | _ => none
        let seg := resume d pc arg
        let sid := match pc with
          | .addPre sid .. | .finPre sid .. | .finHashing sid .. | .finHashed sid ..
          | .expVisit sid _ | .delWait sid _ => sid
        (seg.d.setPc tid seg.pc, seg.ev ++ " | " ++ snapStr seg.d sid (some seg.touched))
  | _ => (d, "bad-op")

end Storrent.Piece
