import Storrent.Util
/-
Model of tor/torfile.go (validation layer and byte layer) for C13, reused by C12.

(a) `metadataComplete : Int → BInfo → Res Geom` transcribes Torrent.MetadataComplete
    (the REPAIRED code: piece length 0, negative/overflowing file lengths, a piece table
    of the wrong size, unusable names and path components, duplicate paths and files that
    are also directories are rejected) check by check, in the order written, with Go's
    integer types: PieceLength uint32, lengths int64 (`Int64` fields; the arithmetic is
    done on `Int` with `wrap64` wherever Go's int64 arithmetic could wrap),
    `chunks != int64(uint32(chunks))`, Pieces.MetadataComplete's
    `(length + int64(psize-1)) / int64(psize)` with `psize-1` in uint32, the division
    faulting on 0, `make` faulting on a negative size, the double-call guard
    `ps.length > 0` (first argument = current `Pieces.length`).
    64-bit platform: `chunks != int64(int(chunks))` is always false and is not modelled.
    The reflection decoder (zeebo/bencode) producing the BInfo is a parameter: nil and
    empty slices are distinguished (`Option`).
(b) `infoSlice` locates the value of the top-level `info` key the way zeebo's decoder
    scans it (raw mode: an integer is `i` … up to the next `e`, a string length is what
    strconv.ParseInt(·,10,32) accepts, dictionary keys are not required to start with a
    digit); the info-hash is sha1 of exactly that slice.
(c) `hashParse` (hash.Parse: 40 hex digits or 32 base-32 digits), `readMagnet` decision
    logic with net/url as a parameter, `writeFields`/`readFields` = the field selection of
    WriteTorrent / ReadTorrent.
-/
namespace Storrent.Meta
open Storrent

/-! ## (a) validation layer -/

structure BFile where
  path : Option (List Bytes)      -- `path`, nil when absent (or an empty list, for zeebo)
  path8 : Option (List Bytes)     -- `path.utf-8`
  length : Int64
  attr : Bytes
  deriving Repr, DecidableEq

structure BInfo where
  name : Bytes
  name8 : Bytes
  pieceLength : UInt32
  pieces : Bytes
  length : Int64
  files : Option (List BFile)     -- nil vs. non-nil
  deriving Repr, DecidableEq

inductive MErr where
  | oddPieces | oddPiece | both | neither | noPath | badFileLength | badFilePath
  | dupPath | fileIsDir | tooLarge | wrongHashes | noName | badName
  deriving Repr, DecidableEq

inductive Res (α : Type) where
  | ok (a : α)
  | err (e : MErr)
  | panic (why : String)
  deriving Repr, DecidableEq

structure GFile where
  path : List Bytes
  offset : Int
  length : Int
  padding : Bool
  deriving Repr, DecidableEq

/-- what MetadataComplete leaves in the Torrent / Pieces on success -/
structure Geom where
  name : Bytes
  pieceLength : Nat     -- Pieces.pieceSize
  length : Int          -- Pieces.length
  multi : Bool          -- the `files` branch was taken
  files : List GFile    -- Torrent.Files
  nInFlight : Nat       -- len(Torrent.inFlight)
  nPieces : Nat         -- len(Pieces.pieces)
  nHashes : Nat         -- len(Torrent.PieceHashes)
  deriving Repr, DecidableEq

def maxInt64 : Int := 9223372036854775807

/-- two's-complement reduction of an int64 computation -/
def wrap64 (x : Int) : Int := (x + 9223372036854775808) % 18446744073709551616 - 9223372036854775808

/-- `path := f.Path8; if path == nil { path = f.Path }` -/
def pickPath (f : BFile) : Option (List Bytes) :=
  match f.path8 with
  | some p => some p
  | none => f.path

/-- validComponent: usable as the name of a file or directory -/
def validComponent (c : Bytes) : Bool :=
  c != [] && c != [46] && c != [46, 46] && !c.contains 47

/-- `for _, f := range info.Files { … }`: accumulates Torfiles (reversed) and `length` -/
def layout : List BFile → Int → List GFile → Res (List GFile × Int)
  | [], acc, out => .ok (out.reverse, acc)
  | f :: rest, acc, out =>
    match pickPath f with
    | none => .err .noPath
    | some p =>
      if p = [] then .err .noPath                      -- len(path) == 0
      else if f.length.toInt < 0 ∨ f.length.toInt > maxInt64 - acc then .err .badFileLength
      else if !p.all validComponent then .err .badFilePath
      else layout rest (wrap64 (acc + f.length.toInt))
        ({ path := p, offset := acc, length := f.length.toInt,
           padding := f.attr.contains 112 } :: out)

/-- Path.String(): strings.Join(p, "/") -/
def joinPath : List Bytes → Bytes
  | [] => []
  | [c] => c
  | c :: d :: r => c ++ 47 :: joinPath (d :: r)

/-- first loop over `files`: `if paths[p] { duplicate }; paths[p] = true`; returns the keys -/
def dupCheck : List GFile → List Bytes → Res (List Bytes)
  | [], seen => .ok seen
  | f :: rest, seen =>
    if seen.contains (joinPath f.path) then .err .dupPath
    else dupCheck rest (joinPath f.path :: seen)

/-- `f.Path[:i]` for `1 ≤ i < len(f.Path)` -/
def properPrefixes (p : List Bytes) : List (List Bytes) :=
  (List.range' 1 (p.length - 1)).map (fun i => p.take i)

/-- second loop: a proper prefix of a path is itself a file's path -/
def dirCheck (keys : List Bytes) : List GFile → Res Unit
  | [] => .ok ()
  | f :: rest =>
    if (properPrefixes f.path).any (fun q => keys.contains (joinPath q)) then .err .fileIsDir
    else dirCheck keys rest

def pathChecks (files : List GFile) : Res Unit :=
  match dupCheck files [] with
  | .ok keys => dirCheck keys files
  | .err e => .err e
  | .panic w => .panic w

/-- Pieces.MetadataComplete(psize, length): number of pieces allocated -/
def piecesMetadataComplete (psLen : Int) (psize : UInt32) (length : Int) : Res Nat :=
  if psLen > 0 then .panic "Pieces.Complete() called twice"
  else if psize.toNat = 0 then .panic "integer divide by zero"
  else
    let n := Int.tdiv (wrap64 (length + ((psize - 1).toNat : Int))) (psize.toNat : Int)
    if n < 0 then .panic "makeslice: len out of range" else .ok n.toNat

/-- the length/files alternative -/
def lengthAndFiles (bi : BInfo) : Res (Bool × List GFile × Int) :=
  if bi.length.toInt > 0 then
    if bi.files.isSome then .err .both else .ok (false, [], bi.length.toInt)
  else
    match bi.files with
    | none => .err .neither
    | some fs =>
      match layout fs 0 [] with
      | .ok (gf, l) => .ok (true, gf, l)
      | .err e => .err e
      | .panic w => .panic w

def Res.bind {α β : Type} : Res α → (α → Res β) → Res β
  | .ok a, f => f a
  | .err e, _ => .err e
  | .panic w, _ => .panic w

/-- `chunks := (length + ChunkSize - 1) / ChunkSize`, the uint32 test, the piece-table test,
    `make([]uint8, chunks)`: returns chunks.  int64 arithmetic is arithmetic modulo 2^64,
    hence one reduction (`wrap64`) of each whole sum. -/
def sizeChecks (bi : BInfo) (length : Int) : Res Nat :=
  let chunks := Int.tdiv (wrap64 (length + 16384 - 1)) 16384
  if chunks ≠ chunks % 4294967296 then .err .tooLarge          -- chunks != int64(uint32(chunks))
  else
    let pl : Int := (bi.pieceLength.toNat : Int)
    if ((bi.pieces.length / 20 : Nat) : Int) ≠ Int.tdiv (wrap64 (length + pl - 1)) pl then
      .err .wrongHashes
    else if chunks < 0 then .panic "makeslice: len out of range"
    else .ok chunks.toNat

/-- `if info.Name8 != "" { Name = Name8 } else { Name = info.Name }; if Name == "" …` -/
def pickName (bi : BInfo) : Res Bytes :=
  let name := if bi.name8 ≠ [] then bi.name8 else bi.name
  if name = [] then .err .noName
  else if !validComponent name then .err .badName
  else .ok name

/-- what the checks of MetadataComplete compute before anything is assigned -/
structure Checked where
  multi : Bool
  files : List GFile
  length : Int
  chunks : Nat
  name : Bytes

/-- every test of Torrent.MetadataComplete, in the order written: nothing is assigned to
    the Torrent before the last of them has passed -/
def checks (bi : BInfo) : Res Checked :=
  if bi.pieces.length % 20 ≠ 0 then .err .oddPieces
  else if bi.pieceLength.toNat = 0 ∨ bi.pieceLength.toNat % 16384 ≠ 0 then .err .oddPiece
  else
    (lengthAndFiles bi).bind fun lf =>
    (pathChecks lf.2.1).bind fun _ =>
    (sizeChecks bi lf.2.2).bind fun chunks =>
    (pickName bi).bind fun name =>
      .ok { multi := lf.1, files := lf.2.1, length := lf.2.2, chunks := chunks, name := name }

def metadataComplete (psLen : Int) (bi : BInfo) : Res Geom :=
  (checks bi).bind fun c =>
  (piecesMetadataComplete psLen bi.pieceLength c.length).bind fun n =>
    .ok { name := c.name, pieceLength := bi.pieceLength.toNat, length := c.length,
          multi := c.multi, files := c.files, nInFlight := c.chunks,
          nPieces := n, nHashes := bi.pieces.length / 20 }

/-- the fields of Torrent / Pieces that MetadataComplete assigns (`none` = nil) -/
structure TState where
  name : Bytes                    -- Torrent.Name (a magnet's `dn` before the metadata)
  inFlight : Option Nat           -- len(Torrent.inFlight)
  nHashes : Option Nat            -- len(Torrent.PieceHashes)
  psLen : Int                     -- Pieces.length
  pieceSize : Nat                 -- Pieces.pieceSize
  nPieces : Nat                   -- len(Pieces.pieces)
  files : Option (List GFile)     -- Torrent.Files
  complete : Bool                 -- Torrent.infoComplete
  deriving Repr, DecidableEq

/-- Torrent.MetadataComplete with its ASSIGNMENTS, in the order written: all the checks,
    then inFlight, PieceHashes, Name, Pieces.MetadataComplete (which can still panic on a
    second call), Files, infoComplete -/
def metadataCompleteSt (st : TState) (bi : BInfo) : TState × Res Unit :=
  match checks bi with
  | .err e => (st, .err e)
  | .panic w => (st, .panic w)
  | .ok c =>
    let st1 := { st with inFlight := some c.chunks, nHashes := some (bi.pieces.length / 20),
                         name := c.name }
    match piecesMetadataComplete st.psLen bi.pieceLength c.length with
    | .err e => (st1, .err e)
    | .panic w => (st1, .panic w)
    | .ok n =>
      ({ st1 with psLen := c.length, pieceSize := bi.pieceLength.toNat, nPieces := n,
                  files := if c.multi && !c.files.isEmpty then some c.files else none,
                  complete := true }, .ok ())

/-- Pieces.PieceLength(index), as written: `last := uint32(length / pieceSize)` -/
def pieceLengthAt (g : Geom) (index : Nat) : Nat :=
  let last := (Int.tdiv g.length (g.pieceLength : Int)).toNat % 4294967296
  if index < last then g.pieceLength
  else if index = last then (Int.tmod g.length (g.pieceLength : Int)).toNat % 4294967296
  else 0

/-- Pieces.pieceChunks(index): blocks of a piece -/
def pieceBlocks (g : Geom) (index : Nat) : Nat := (pieceLengthAt g index + 16384 - 1) / 16384

/-- ⌈a / b⌉ on naturals -/
def ceilDiv (a b : Nat) : Nat := (a + b - 1) / b

/-- files laid out contiguously from `off`, every length non-negative -/
def Contig : List GFile → Int → Prop
  | [], _ => True
  | f :: rest, off => f.offset = off ∧ 0 ≤ f.length ∧ Contig rest (off + f.length)

def sumLen : List GFile → Int
  | [] => 0
  | f :: rest => f.length + sumLen rest

/-- self-consistent geometry: the hypothesis the other properties' theorems assume -/
structure Geom.Valid (g : Geom) : Prop where
  pl_pos : 0 < g.pieceLength
  pl_chunks : 16384 ∣ g.pieceLength
  len_nonneg : 0 ≤ g.length
  contig : Contig g.files 0
  sum : g.multi = true → sumLen g.files = g.length
  single : g.multi = false → g.files = []
  inflight : g.nInFlight = ceilDiv g.length.toNat 16384
  pieces : g.nPieces = ceilDiv g.length.toNat g.pieceLength
  hashes : g.nHashes = g.nPieces
  name : g.name ≠ []

def Geom.PathsNonEmpty (g : Geom) : Prop := ∀ f ∈ g.files, f.path ≠ []

/-- contract of the reflection decoder (measured by the harness on every decoded BInfo):
    a path list that is present is not empty (zeebo leaves the slice nil for `le`) -/
def BInfo.DecoderShaped (bi : BInfo) : Prop :=
  ∀ fs, bi.files = some fs → ∀ f ∈ fs, f.path ≠ some [] ∧ f.path8 ≠ some []

/-! ## (b) byte layer: locating the raw `info` value as zeebo does -/

def findByte (b : UInt8) : Bytes → Nat → Option Nat
  | [], _ => none
  | x :: rest, k => if x = b then some k else findByte b rest (k + 1)

def allDigits : Bytes → Bool
  | [] => true
  | b :: rest => (48 ≤ b && b ≤ 57) && allDigits rest

def digitsVal (bs : Bytes) : Nat := bs.foldl (fun acc b => acc * 10 + (b.toNat - 48)) 0

/-- strconv.ParseInt(s, 10, 32) followed by the `l < 0` test: the accepted lengths -/
def parseLen (s : Bytes) : Option Nat :=
  match s with
  | [] => none
  | 43 :: ds =>   -- '+'
    if ds ≠ [] ∧ allDigits ds ∧ digitsVal ds ≤ 2147483647 then some (digitsVal ds) else none
  | 45 :: ds =>   -- '-': only -0 is a non-negative length
    if ds ≠ [] ∧ allDigits ds ∧ digitsVal ds = 0 then some 0 else none
  | ds => if allDigits ds ∧ digitsVal ds ≤ 2147483647 then some (digitsVal ds) else none

/-- decodeString: `<len>:` then exactly len bytes; returns (content, rest) -/
def rawStr (bs : Bytes) : Option (Bytes × Bytes) :=
  match findByte 58 bs 0 with
  | none => none
  | some k =>
    match parseLen (bs.take k) with
    | none => none
    | some l =>
      let r := bs.drop (k + 1)
      if l ≤ r.length then some (r.take l, r.drop l) else none

inductive Ctx where
  | list | dkey | dval
  deriving Repr, DecidableEq

/-- zeebo's raw-mode scan of one value (decodeInto with d.raw), with the recursion made
    explicit as a stack of open containers.  Returns the rest after the value. -/
def rawScan : Nat → List Ctx → Bytes → Option Bytes
  | 0, _, _ => none
  | fuel+1, stack, bs =>
    -- `after r`: a complete value has just been consumed
    let after (stack : List Ctx) (r : Bytes) : Option Bytes :=
      match stack with
      | [] => some r
      | .dval :: st => rawScan fuel (.dkey :: st) r
      | st => rawScan fuel st r
    match stack, bs with
    | _, [] => none
    | .dkey :: st, 101 :: r => after st r                  -- 'e' closes the dictionary
    | .dkey :: st, _ =>
      match rawStr bs with                                 -- key: decodeString, no peek
      | some (_, r) => rawScan fuel (.dval :: st) r
      | none => none
    | .list :: st, 101 :: r => after st r                  -- 'e' closes the list
    | stack, 105 :: r =>                                   -- 'i' … 'e', contents unchecked
      match findByte 101 r 0 with
      | some k => after stack (r.drop (k + 1))
      | none => none
    | stack, 108 :: r => rawScan fuel (.list :: stack) r   -- 'l'
    | stack, 100 :: r => rawScan fuel (.dkey :: stack) r   -- 'd'
    | stack, b :: _ =>
      if 48 ≤ b ∧ b ≤ 57 then
        match rawStr bs with
        | some (_, r) => after stack r
        | none => none
      else none

/-- one raw value at the head of `bs`; rest after it -/
def rawVal (bs : Bytes) : Option Bytes := rawScan (2 * bs.length + 2) [] bs

def infoKey : Bytes := [105, 110, 102, 111]

/-- top-level dictionary body: the last `info` binding wins; (offset, length) into `all` -/
def topLoop (all : Bytes) : Nat → Bytes → Option (Nat × Nat) → Option (Option (Nat × Nat))
  | 0, _, _ => none
  | fuel+1, bs, found =>
    match bs with
    | [] => none
    | 101 :: _ => some found
    | _ =>
      match rawStr bs with
      | none => none
      | some (k, r) =>
        match rawVal r with
        | none => none
        | some r' =>
          let found' := if k = infoKey then some (all.length - r.length, r.length - r'.length)
                        else found
          topLoop all fuel r' found'

/-- (offset, length) of the raw value of the top-level `info` key -/
def infoSlice (bs : Bytes) : Option (Nat × Nat) :=
  match bs with
  | 100 :: r => (topLoop bs (bs.length + 1) r none).bind id
  | _ => none

def sliceBytes (bs : Bytes) (ol : Nat × Nat) : Bytes := (bs.drop ol.1).take ol.2

/-! ## (c) magnets and WriteTorrent's field selection -/

def hexNib (b : UInt8) : Option Nat :=
  if 48 ≤ b ∧ b ≤ 57 then some (b.toNat - 48)
  else if 97 ≤ b ∧ b ≤ 102 then some (b.toNat - 87)
  else if 65 ≤ b ∧ b ≤ 70 then some (b.toNat - 55)
  else none

def hexDecode : Bytes → Option Bytes
  | [] => some []
  | [_] => none
  | a :: b :: rest =>
    match hexNib a, hexNib b, hexDecode rest with
    | some x, some y, some r => some (UInt8.ofNat (x * 16 + y) :: r)
    | _, _, _ => none

/-- RFC 4648 alphabet `A-Z2-7` (upper case only, as base32.StdEncoding) -/
def b32Val (b : UInt8) : Option Nat :=
  if 65 ≤ b ∧ b ≤ 90 then some (b.toNat - 65)
  else if 50 ≤ b ∧ b ≤ 55 then some (b.toNat - 24)
  else none

def b32Vals : Bytes → Option (List Nat)
  | [] => some []
  | b :: rest =>
    match b32Val b, b32Vals rest with
    | some v, some r => some (v :: r)
    | _, _ => none

/-- 8 quintets -> 5 bytes -/
def b32Groups : List Nat → Bytes
  | a :: b :: c :: d :: e :: f :: g :: h :: rest =>
    let n := ((((((a * 32 + b) * 32 + c) * 32 + d) * 32 + e) * 32 + f) * 32 + g) * 32 + h
    [UInt8.ofNat (n / 4294967296 % 256), UInt8.ofNat (n / 16777216 % 256),
     UInt8.ofNat (n / 65536 % 256), UInt8.ofNat (n / 256 % 256), UInt8.ofNat (n % 256)]
      ++ b32Groups rest
  | _ => []

/-- the 20-byte results of base32.StdEncoding.DecodeString: CR and LF are dropped,
    then exactly 32 alphabet characters (no padding can yield 20 bytes) -/
def b32Decode20 (s : Bytes) : Option Bytes :=
  let t := s.filter (fun b => b ≠ 13 ∧ b ≠ 10)
  if t.length = 32 then (b32Vals t).map b32Groups else none

/-- hash.Parse -/
def hashParse (s : Bytes) : Option Bytes :=
  match (if s.length = 40 then hexDecode s else none) with
  | some h => some h
  | none => b32Decode20 s

inductive MagnetRes where
  | notMagnet            -- (nil, nil)
  | err                  -- (nil, error)
  | torrent (h : Bytes)
  deriving Repr, DecidableEq

def btihPrefix : Bytes := [117, 114, 110, 58, 98, 116, 105, 104, 58]  -- "urn:btih:"

def firstBtih : List Bytes → Option Bytes
  | [] => none
  | v :: rest =>
    if btihPrefix.isPrefixOf v then
      match hashParse (v.drop 9) with
      | some h => some h
      | none => firstBtih rest
    else firstBtih rest

def magnetScheme : Bytes := [109, 97, 103, 110, 101, 116]

/-- ReadMagnet; `url` = what net/url makes of the string: none = parse error, else
    (scheme, the values of the `xt` query parameter in order) -/
def readMagnet (m : Bytes) (url : Option (Bytes × List Bytes)) : MagnetRes :=
  match hashParse m with
  | some h => .torrent h
  | none =>
    match url with
    | none => .notMagnet
    | some (scheme, xts) =>
      if scheme ≠ magnetScheme then .notMagnet
      else match firstBtih xts with
        | some h => .torrent h
        | none => .err

inductive WsKind where
  | getright | hoffman
  deriving Repr, DecidableEq

/-- what WriteTorrent puts in the BTorrent it encodes (besides Info and CreationDate) -/
structure TFields where
  announce : Bytes
  announceList : Option (List (List Bytes))   -- none = omitted (nil or empty)
  urlList : List Bytes
  httpSeeds : List Bytes
  deriving Repr, DecidableEq

def writeFields (trackers : List (List Bytes)) (ws : List (WsKind × Bytes)) : TFields :=
  let single := match trackers with
    | [[_]] => true
    | _ => false
  let a : Bytes := match trackers with
    | (u :: _) :: _ => u
    | _ => []
  { announce := a,
    announceList := if single || trackers.isEmpty then none else some trackers,
    urlList := (ws.filter (fun w => w.1 = .getright)).map (·.2),
    httpSeeds := (ws.filter (fun w => w.1 = .hoffman)).map (·.2) }

/-- ReadTorrent's reconstruction; `okT`/`okW` = tracker.New / webseed.New accept the URL -/
def readFields (okT okW : Bytes → Bool) (f : TFields) : List (List Bytes) × List (WsKind × Bytes) :=
  let tr := match f.announceList with
    | some al => al.map (fun tier => tier.filter okT)
    | none => if f.announce ≠ [] ∧ okT f.announce then [[f.announce]] else []
  (tr, ((f.urlList.filter okW).map (fun u => (WsKind.getright, u))) ++
       ((f.httpSeeds.filter okW).map (fun u => (WsKind.hoffman, u))))

end Storrent.Meta
