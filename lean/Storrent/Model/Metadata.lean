import Storrent.Util
/-
Model of tor/metadata.go (metadataVote, metadataGuess, resizeMetadata, requestMetadata,
gotMetadata) for C12, with the uint32/int arithmetic as written.

* `info`       = t.Info (nil and empty are not distinguished: only `len` is ever tested),
* `bitmap`     = t.infoBitmap as the list of set bit indexes (Get = membership, Set =
                 insertion; the byte representation is bitmap.Bitmap's business),
* `requested`  = t.infoRequested (uint8 counters, wrapping),
* `votes`      = t.infoSizeVotes as an association list size ↦ count (nil ⇔ []),
* `complete`   = t.infoComplete != 0,
* `hash`       = t.Hash.
`sha1` and `mc` (= Torrent.MetadataComplete applied to the assembled buffer: C13's model
composed with the reflection decoder) are parameters.  The map iteration order of
metadataGuess and the random choice of blocks in requestMetadata are inputs.

`strict = true` is the repaired guard `int(index) >= chunks`; `strict = false` is the guard
as originally written (`>`), kept to exhibit the out-of-range slice it allowed.
-/
namespace Storrent.Metadata
open Storrent

def chunk : Nat := 16384
def maxSize : Nat := 128 * 1024 * 1024

structure MState where
  hash : Bytes
  info : Bytes
  bitmap : List Nat
  requested : List UInt8
  votes : List (Nat × Nat)
  complete : Bool
  deriving Repr, DecidableEq

/-- ReadMagnet's torrent -/
def init (h : Bytes) : MState :=
  { hash := h, info := [], bitmap := [], requested := [], votes := [], complete := false }

inductive McRes where
  | ok | err | panic
  deriving Repr, DecidableEq

/-- which return statement of the function was taken -/
inductive Tag where
  | eComplete     -- "metadata complete"
  | eBadSize      -- "bad size"
  | eUnknownSize  -- "unknown size"
  | eSize         -- "inconsistent metadata size"
  | eBeyond       -- "chunk beyond end of metadata"
  | eLength       -- "inconsistent metadata length"
  | dup           -- (false, nil): block already present
  | stored        -- (false, nil): block copied, more to come
  | eMismatch     -- "hash mismatch": reset
  | eParse        -- MetadataComplete failed: reset
  | done          -- (true, nil)
  | ok            -- nil (vote / resize / request)
  | panic
  deriving Repr, DecidableEq

/-! ### votes -/

def bumpVote : List (Nat × Nat) → Nat → List (Nat × Nat)
  | [], size => [(size, 1)]
  | (s, c) :: rest, size => if s = size then (s, c + 1) :: rest else (s, c) :: bumpVote rest size

def metadataVote (s : MState) (size : UInt32) : MState × Tag :=
  if s.complete then (s, .eComplete)
  else if size.toNat = 0 ∨ size.toNat > maxSize then (s, .eBadSize)
  else ({ s with votes := bumpVote s.votes size.toNat }, .ok)

def maxCount : List (Nat × Nat) → Nat
  | [] => 0
  | (_, c) :: rest => max c (maxCount rest)

/-- the sizes metadataGuess can return: `for s, c := range votes { if c > count … }`
    returns the first maximal entry in iteration order, and the order is arbitrary -/
def guessAllowed (votes : List (Nat × Nat)) (g : Nat) : Bool :=
  match votes with
  | [] => g == 0
  | _ => votes.any (fun sc => sc.1 == g && sc.2 == maxCount votes)

/-! ### resize / request -/

def resizeMetadata (s : MState) (size : UInt32) : MState × Tag :=
  if s.complete then (s, .eComplete)
  else if size.toNat = 0 ∨ size.toNat > maxSize then (s, .eBadSize)
  else if s.info.length ≠ size.toNat then
    ({ s with info := List.replicate size.toNat 0, bitmap := [],
              requested := List.replicate ((size + 16 * 1024 - 1) / (16 * 1024)).toNat 0 }, .ok)
  else (s, .ok)

def bumpReq : List UInt8 → Nat → List UInt8
  | [], _ => []
  | c :: rest, 0 => (c + 1) :: rest
  | c :: rest, i+1 => c :: bumpReq rest i

/-- requestMetadata with the environment's choices made explicit: `guess` (must be
    allowed by the votes) and the block indexes actually sent to peers, in order.
    A chosen block must be absent and have a minimal request count among the absent
    blocks at the time it is chosen (it is the head of the sorted list). -/
def pickAllowed (s : MState) (i : Nat) : Bool :=
  i < s.requested.length && !s.bitmap.contains i &&
  (List.range s.requested.length).all (fun j =>
    s.bitmap.contains j || decide ((s.requested.getD i 0).toNat ≤ (s.requested.getD j 0).toNat))

def requestMetadata (s : MState) (guess : Nat) (picks : List Nat) : MState × Tag :=
  if s.complete then (s, .eComplete)
  else if guess = 0 then (s, .eUnknownSize)
  else
    let (s1, t1) := if s.info.length % 4294967296 ≠ guess then resizeMetadata s (UInt32.ofNat guess)
                    else (s, Tag.ok)
    if t1 ≠ .ok then (s1, t1)
    else ({ s1 with requested := picks.foldl bumpReq s1.requested }, .ok)

/-! ### gotMetadata -/

/-- `copy(dst[off:], data)` for `off ≤ len(dst)` -/
def copyAt (dst : Bytes) (off : Nat) (data : Bytes) : Bytes :=
  dst.take off ++ data.take (dst.length - off) ++ dst.drop (off + min data.length (dst.length - off))

def allSet (bm : List Nat) : Nat → Bool
  | 0 => true
  | n+1 => bm.contains n && allSet bm n

def reset (s : MState) : MState := { s with info := [], bitmap := [], requested := [] }

def gotMetadataG (strict : Bool) (sha1 : Bytes → Bytes) (mc : Bytes → McRes)
    (s : MState) (index size : UInt32) (data : Bytes) : MState × Tag :=
  if s.complete then (s, .eComplete)
  else if size.toNat ≠ s.info.length % 4294967296 then (s, .eSize)
  else
    let chunks := s.requested.length
    if (if strict then index.toNat ≥ chunks else index.toNat > chunks) then (s, .eBeyond)
    else if data.length ≠ 16 * 1024 ∧ index.toNat * 16 * 1024 + data.length ≠ s.info.length then
      (s, .eLength)
    else if s.bitmap.contains index.toNat then (s, .dup)
    else
      let off := (index * 16 * 1024).toNat          -- uint32 arithmetic, wraps
      if off > s.info.length then (s, .panic)       -- slice bounds out of range
      else
        let info' := copyAt s.info off data
        let bm' := index.toNat :: s.bitmap
        let s' := { s with info := info', bitmap := bm' }
        if !allSet bm' chunks then (s', .stored)
        else
          let h := sha1 info'
          if h.length ≠ 20 ∨ s.hash.length ≠ 20 then (s', .panic)   -- Hash.Equal
          else if h ≠ s.hash then (reset s', .eMismatch)
          else
            match mc info' with
            | .panic => (s', .panic)
            | .err => (reset s', .eParse)
            | .ok => ({ s' with votes := [], bitmap := [], requested := [], complete := true }, .done)

abbrev gotMetadata := gotMetadataG true

/-! ### operations and runs -/

inductive Op where
  | vote (size : UInt32)
  | resize (size : UInt32)
  | request (guess : Nat) (picks : List Nat)
  | got (index size : UInt32) (data : Bytes)
  deriving Repr, DecidableEq

def step (sha1 : Bytes → Bytes) (mc : Bytes → McRes) (s : MState) : Op → MState × Tag
  | .vote sz => metadataVote s sz
  | .resize sz => resizeMetadata s sz
  | .request g ps => requestMetadata s g ps
  | .got i sz d => gotMetadata sha1 mc s i sz d

def run (sha1 : Bytes → Bytes) (mc : Bytes → McRes) (s : MState) (ops : List Op) : MState :=
  ops.foldl (fun st op => (step sha1 mc st op).1) s

/-- the honest block for `index` of the authentic info dictionary `ti` -/
def honest (ti : Bytes) (index : Nat) : Op :=
  .got (UInt32.ofNat index) (UInt32.ofNat ti.length) ((ti.drop (index * chunk)).take chunk)

def nChunks (n : Nat) : Nat := (n + chunk - 1) / chunk

end Storrent.Metadata
