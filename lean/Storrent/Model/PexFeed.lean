import Storrent.Util
/-
Model of the torrent-side feeding of PEX (C11): which address the torrent announces to the
other peers for a connection, and which it withdraws when the connection goes away.
Transcribed from /repo/tor/tor.go (`handleEvent`: `TorAddPeer`, `TorPeerExtended`,
`TorPeerGoaway` → `delPeer`) and /repo/peer/peer.go (`New`: `Port = addr.Port()`;
`handleMessage(Extended0)`: the advertised port `p` is taken only if no port is known yet or
it is the same; a second `Extended0` is an error and the peer closes; `PeerGetPex`: an
address only when `Port > 0`, flag Outgoing for connections we dialled; `GetAddr`).

The events are those an observer peer that is connected all along receives
(`writePeers(t, PeerPex{…}, except)`).  A connection is identified by `id` (its IP address in
the harness: distinct connections have distinct addresses there).
-/
namespace Storrent.PexFeed

structure FPeer where
  id : Nat
  /-- `peer.Port`: 0 = not known (incoming connection before its extended handshake) -/
  port : Nat
  incoming : Bool
  gotExt : Bool := false
  deriving Repr, DecidableEq

inductive Ev where
  | add (id port flags : Nat)
  | del (id port : Nat)
  deriving Repr, DecidableEq

structure Feed where
  /-- `t.peers`, in order -/
  peers : List FPeer := []
  deriving Repr, DecidableEq

instance : Inhabited Feed := ⟨{}⟩

/-- `pex.Outgoing` for a connection we dialled (no Encrypt / UploadOnly in this stream) -/
def flagsOf (p : FPeer) : Nat := if p.incoming then 0 else 16

/-- `PeerGetPex`: nothing unless the port is known -/
def getPex (p : FPeer) : List Ev :=
  if p.port > 0 then [.add p.id p.port (flagsOf p)] else []

inductive Op where
  | join (id port : Nat) (incoming : Bool)
  /-- an `Extended0` message with listening port `p` (0 = absent) -/
  | ext0 (id p : Nat)
  | leave (id : Nat)
  deriving Repr, DecidableEq

def find (s : Feed) (id : Nat) : Option FPeer := s.peers.find? (fun q => q.id == id)

/-- `TorPeerGoaway` → `delPeer`: withdraw `GetAddr()` if its port is known -/
def leaveP (s : Feed) (id : Nat) : Feed × List Ev :=
  match find s id with
  | none => (s, [])
  | some p =>
    ({ peers := s.peers.filter (fun q => q.id != id) },
     if p.port > 0 then [.del p.id p.port] else [])

def step (s : Feed) : Op → Feed × List Ev
  | .join id port incoming =>
    if (find s id).isSome then (s, [])      -- not in the domain: one connection per address
    else
      let p : FPeer := { id := id, port := if incoming then 0 else port, incoming := incoming }
      ({ peers := s.peers ++ [p] }, getPex p)
  | .ext0 id pp =>
    match find s id with
    | none => (s, [])
    | some p =>
      if p.gotExt then leaveP s id          -- "duplicate Extended0": handleMessage fails, Run exits
      else
        let port' :=
          if pp != 0 then (if p.port != 0 && pp != p.port then p.port else pp) else p.port
        let p' : FPeer := { p with gotExt := true, port := port' }
        ({ peers := s.peers.map (fun q => if q.id == id then p' else q) }, getPex p')
  | .leave id => leaveP s id

def run : Feed → List Op → Feed × List Ev
  | s, [] => (s, [])
  | s, op :: ops =>
    let (s1, e1) := step s op
    let (s2, e2) := run s1 ops
    (s2, e1 ++ e2)

/-- what the observer holds after a sequence of events (a set, as `pexState` keeps one) -/
def view : List (Nat × Nat) → List Ev → List (Nat × Nat)
  | v, [] => v
  | v, .add id port _ :: es => view (if v.contains (id, port) then v else (id, port) :: v) es
  | v, .del id port :: es => view (v.filter (fun x => x != (id, port))) es

end Storrent.PexFeed
