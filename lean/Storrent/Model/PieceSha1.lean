import Storrent.Util
/-
Executable SHA-1 (FIPS 180-4) for the piece-store driver: the model's hash parameter `H` is
instantiated with it so that the Lean side decides "digest = expected" independently of Go.
Driver-only code (no theorem speaks about it; the theorems quantify over `H`); it is tested
against crypto/sha1 by the correspondence stream itself (every finalise line).
-/
namespace Storrent.PieceSha1

@[inline] def rotl (x : UInt32) (n : UInt32) : UInt32 := (x <<< n) ||| (x >>> (32 - n))

@[inline] def word (ba : ByteArray) (i : Nat) : UInt32 :=
  ((ba.get! i).toUInt32 <<< 24) ||| ((ba.get! (i+1)).toUInt32 <<< 16) |||
  ((ba.get! (i+2)).toUInt32 <<< 8) ||| (ba.get! (i+3)).toUInt32

structure St where
  a : UInt32
  b : UInt32
  c : UInt32
  d : UInt32
  e : UInt32

def block (ba : ByteArray) (off : Nat) (h : St) : St := Id.run do
  let mut w : Array UInt32 := Array.mkEmpty 80
  for t in [0:16] do
    w := w.push (word ba (off + 4 * t))
  for t in [16:80] do
    w := w.push (rotl (w[t-3]! ^^^ w[t-8]! ^^^ w[t-14]! ^^^ w[t-16]!) 1)
  let mut a := h.a
  let mut b := h.b
  let mut c := h.c
  let mut d := h.d
  let mut e := h.e
  for t in [0:80] do
    let (f, k) : UInt32 × UInt32 :=
      if t < 20 then ((b &&& c) ||| ((~~~ b) &&& d), 0x5A827999)
      else if t < 40 then (b ^^^ c ^^^ d, 0x6ED9EBA1)
      else if t < 60 then ((b &&& c) ||| (b &&& d) ||| (c &&& d), 0x8F1BBCDC)
      else (b ^^^ c ^^^ d, 0xCA62C1D6)
    let tmp := rotl a 5 + f + e + k + w[t]!
    e := d
    d := c
    c := rotl b 30
    b := a
    a := tmp
  return { a := h.a + a, b := h.b + b, c := h.c + c, d := h.d + d, e := h.e + e }

def be32 (x : UInt32) : List UInt8 :=
  [(x >>> 24).toUInt8, (x >>> 16).toUInt8, (x >>> 8).toUInt8, x.toUInt8]

def sum (msg : List UInt8) : List UInt8 := Id.run do
  let n := msg.length
  let padZeros := (119 - n % 64) % 64   -- n + 1 + padZeros ≡ 56 (mod 64)
  let bits : Nat := n * 8
  let lenBytes : List UInt8 := (List.range 8).map (fun i => UInt8.ofNat (bits >>> (8 * (7 - i))))
  let ba := (msg ++ [0x80] ++ List.replicate padZeros 0 ++ lenBytes).toByteArray
  let mut h : St := { a := 0x67452301, b := 0xEFCDAB89, c := 0x98BADCFE, d := 0x10325476, e := 0xC3D2E1F0 }
  for i in [0:ba.size / 64] do
    h := block ba (64 * i) h
  return be32 h.a ++ be32 h.b ++ be32 h.c ++ be32 h.d ++ be32 h.e

end Storrent.PieceSha1
