import Storrent.Util
/-
Model of /repo/bitmap/bitmap.go as used by the peer (C11): a bitmap is its byte slice,
MSB first.  `Extend(i)` makes room for bit `i` *inclusive* (`i/8+1` bytes); `Len` is the
highest set bit + 1; `Get` beyond the end is false; `Reset` beyond the end is a no-op.
Core-only (links into model-c11).
-/
namespace Storrent.PBitmap
open Storrent

abbrev Bitmap := List UInt8

/-- `1 << (7 - uint8(i&7))` -/
def mask (k : Nat) : UInt8 := (1 : UInt8) <<< (7 - UInt8.ofNat k)

def bit (v : UInt8) (k : Nat) : Bool := (v &&& mask k) != 0

/-- `Get`: nil or beyond the end gives false -/
def get (b : Bitmap) (i : Nat) : Bool :=
  match b[i / 8]? with
  | none => false
  | some v => bit v (i % 8)

/-- `Extend(i)` for `i ≥ 0` -/
def extend (b : Bitmap) (i : Nat) : Bitmap :=
  if i / 8 ≥ b.length then b ++ List.replicate (i / 8 + 1 - b.length) 0 else b

/-- `Extend(i)` with a Go `int` argument: for `i < 0`, `i>>3 = -1 ≥ len` is false: no-op -/
def extendInt (b : Bitmap) (i : Int) : Bitmap :=
  if i < 0 then b else extend b i.toNat

def set (b : Bitmap) (i : Nat) : Bitmap :=
  (extend b i).modify (i / 8) (fun v => v ||| mask (i % 8))

def reset (b : Bitmap) (i : Nat) : Bitmap :=
  if i / 8 ≥ b.length then b else b.modify (i / 8) (fun v => v &&& ~~~ (mask (i % 8)))

/-- `SetMultiple(n)`: `Extend(n)` (one byte too many when `8 ∣ n`), whole bytes to 0xFF,
    then the bits of the partial byte one by one -/
def setMultiple (b : Bitmap) (n : Nat) : Bitmap :=
  let b1 := extend b n
  let b2 := List.replicate (n / 8) (0xFF : UInt8) ++ b1.drop (n / 8)
  (List.range (n % 8)).foldl (fun acc j => set acc (n / 8 * 8 + j)) b2

def empty (b : Bitmap) : Bool := b.all (· == 0)

/-- `All(n)` -/
def all (b : Bitmap) (n : Nat) : Bool :=
  if n = 0 then true
  else if b.length < n / 8 then false
  else if !((b.take (n / 8)).all (· == 0xFF)) then false
  else if n % 8 = 0 then true
  else match b[n / 8]? with
    | none => false
    | some v => v == (0xFF : UInt8) <<< (8 - UInt8.ofNat (n % 8))

def popcount (v : UInt8) : Nat := ((List.range 8).filter (fun k => bit v k)).length

def count (b : Bitmap) : Nat := (b.map popcount).sum

/-- set bits in increasing order (`Range`) -/
def range (b : Bitmap) : List Nat := (List.range (8 * b.length)).filter (get b)

/-- `Len`: index of the highest set bit plus one -/
def len (b : Bitmap) : Nat :=
  match (range b).getLast? with
  | none => 0
  | some i => i + 1

/-- the bitmap `Pieces.Bitmap()` builds: `New(n)` then `Set(i)` for the complete pieces -/
def new (n : Nat) : Bitmap := List.replicate ((n + 7) / 8) 0

def ofList (n : Nat) (s : List Nat) : Bitmap := s.foldl set (new n)

end Storrent.PBitmap
