import Storrent.Util
/-
peer/requests.Requests (peer/requests/requests.go), the model used by C05.

`queue` (unsent), `requested` (sent, with the cancel mark) and the membership bitmap.
The bitmap is kept as a list of bits (MSB first = list order; the Go byte length is
`⌈length/8⌉`), which is observationally the Go `bitmap.Bitmap`:
`Get` beyond the end is false, `Reset` beyond the end is a no-op, `Set` extends to the
byte that contains the bit.  Times are not modelled (expiry is driven by the clock, not
by the remote peer).  The two Go panics (`"Requests is broken!"` in `del`,
`"Incorrect use of Requests.EnqueueRequest"`) are explicit `none` results.
-/
namespace Storrent.RequestsI

structure Req where
  index : Nat
  cancelled : Bool
  deriving Repr, DecidableEq, BEq

structure Requests where
  queue : List Nat := []
  requested : List Req := []
  bits : List Bool := []
  deriving Repr, DecidableEq, BEq

def bGet (b : List Bool) (i : Nat) : Bool := b.getD i false

/-- `Bitmap.Extend(i)`: room for bit `i`; the Go byte length is `⌈length/8⌉` -/
def bExtend (b : List Bool) (i : Nat) : List Bool :=
  if b.length ≤ i then b ++ List.replicate (i + 1 - b.length) false else b

def bSet (b : List Bool) (i : Nat) : List Bool := (bExtend b i).set i true
def bReset (b : List Bool) (i : Nat) : List Bool := b.set i false

/-- Go byte length of the bitmap -/
def bBytes (b : List Bool) : Nat := (b.length + 7) / 8

/-- bytes allocated by `Set(i)` when it has to grow the bitmap (the new backing array):
    exactly when the Go byte length `⌈length/8⌉` does not reach byte `i/8` -/
def bSetAlloc (b : List Bool) (i : Nat) : Nat :=
  if bBytes b ≤ i / 8 then i / 8 + 1 else 0

/-- Go: `rs.x[i] = rs.x[l-1]; rs.x = rs.x[:l-1]` -/
def swapDel {α : Type} (l : List α) (i : Nat) : List α :=
  match l.getLast? with
  | none => l
  | some z => (l.set i z).dropLast

def findReq (l : List Req) (index : Nat) : Option Nat := l.findIdx? (fun r => r.index == index)
def findQ (l : List Nat) (index : Nat) : Option Nat := l.findIdx? (fun q => q == index)

/-- `Cancel(index)`: (found, a Cancel message should be sent) -/
def cancel (rs : Requests) (index : Nat) : Requests × Bool × Bool :=
  if !bGet rs.bits index then (rs, false, false)
  else match findReq rs.requested index with
    | none => (rs, false, false)
    | some i =>
      match rs.requested[i]? with
      | none => (rs, false, false)
      | some r =>
        if r.cancelled then (rs, true, false)
        else ({ rs with requested := rs.requested.set i { r with cancelled := true } }, true, true)

/-- `del(index, reqonly)`: `(q, r)`; `none` is the Go panic "Requests is broken!" -/
def del (rs : Requests) (index : Nat) (reqonly : Bool) : Option (Requests × Bool × Bool) :=
  if !bGet rs.bits index then some (rs, false, false)
  else match findReq rs.requested index with
    | some i =>
      some ({ rs with requested := swapDel rs.requested i, bits := bReset rs.bits index }, false, true)
    | none =>
      if reqonly then some (rs, false, false)
      else match findQ rs.queue index with
        | some i =>
          some ({ rs with queue := swapDel rs.queue i, bits := bReset rs.bits index }, true, false)
        | none => none

/-- `Enqueue(index)`: false for a duplicate; second component = bytes allocated -/
def enqueue (rs : Requests) (index : Nat) : Requests × Bool × Nat :=
  if bGet rs.bits index then (rs, false, 0)
  else ({ rs with queue := rs.queue ++ [index], bits := bSet rs.bits index }, true,
        80 + bSetAlloc rs.bits index)

/-- `Dequeue()`: `none` is the Go index-out-of-range on an empty queue -/
def dequeue (rs : Requests) : Option (Requests × Nat) :=
  match rs.queue with
  | [] => none
  | q :: rest => some ({ rs with queue := rest, bits := bReset rs.bits q }, q)

/-- `EnqueueRequest(r)`: `none` is the Go panic -/
def enqueueRequest (rs : Requests) (index : Nat) : Option (Requests × Nat) :=
  if bGet rs.bits index then none
  else some ({ rs with requested := rs.requested ++ [⟨index, false⟩], bits := bSet rs.bits index },
             80 + bSetAlloc rs.bits index)

/-- `Clear(both, f)`: new structure, the indexes `f` is called with (in call order), bytes -/
def clear (rs : Requests) (both : Bool) : Requests × List Nat × Nat :=
  if both then
    ({ queue := [], requested := [], bits := [] }, rs.requested.map (·.index) ++ rs.queue, 0)
  else
    let bits := rs.requested.foldl (fun b r => bSet b r.index) []
    ({ queue := [], requested := rs.requested, bits := bits }, rs.queue, bBytes bits)

/-- the structural invariant: no index twice, bitmap = exact membership -/
def Consistent (rs : Requests) : Prop :=
  (rs.queue ++ rs.requested.map (·.index)).Nodup ∧
  ∀ i, bGet rs.bits i = true ↔ i ∈ rs.queue ++ rs.requested.map (·.index)

end Storrent.RequestsI
