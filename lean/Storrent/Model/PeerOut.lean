import Storrent.Model.PeerBitmap
import Storrent.Model.Requests
import Storrent.Model.Pex
/-
Model of what /repo/peer/peer.go puts on a peer's writer queue (C11): the initial
advertisement of `Run`, `maybeRequest`, the chunk arithmetic (`toChunk/fromChunk/chunkSize`,
in `UInt32` exactly as written, `fromChunk` as repaired by fix 04), the handlers that change
what may be requested (`Choke/Unchoke/Have/Bitfield/HaveAll/HaveNone/AllowedFast/
RejectRequest/Piece/Extended0/ExtendedDontHave`), the scheduler commands (`PeerRequest`,
`PeerCancel`, `PeerCancelPiece`, `PeerHave`, `PeerInterested`, `PeerMetadataComplete`,
`PeerPex`), `expireRequests` and `sendPex`.

Environment inputs (carried by the ops): the outcome of the rate/delay test of
`maybeRequest` (`K`: the test `bytes/rate > maxdelay` is true iff `nr + 1 > K`; `none` = never),
the retransmission timeout used by `expireRequests`, how many bytes `AddData` stored, how
many messages the writer goroutine has taken from the queue (`drain`), and a dead writer
(`wblocked`: every `write` fails at once, `isCongested` is false — a zero-capacity queue
whose `writerDone` is closed).

Every message that `write` queues is logged as an `Emission` together with a ghost copy of
the peer state the decision to send it was taken in.
-/
namespace Storrent.PeerOut
open Storrent Storrent.Wire Storrent.PBitmap Storrent.Requests Storrent.Pex

/-! ### chunk arithmetic -/

def chunkSz : UInt32 := 16384

/-- `toChunk`; `none` = integer divide by zero (`PieceSize < 16384`) -/
def toChunk (ps index begin_ : UInt32) : Option UInt32 :=
  let cpp := ps / chunkSz
  if cpp = 0 then none
  else if index > (0xFFFFFFFF : UInt32) / cpp then some 0
  else some (index * cpp + begin_ / chunkSz)

/-- `fromChunk` (repaired): `begin = (chunk % (ps / ChunkSize)) * ChunkSize` -/
def fromChunk (ps chunk : UInt32) : Option (UInt32 × UInt32) :=
  let cpp := ps / chunkSz
  if cpp = 0 then none
  else some (chunk / cpp, (chunk % cpp) * chunkSz)

/-- `fromChunk` as in the unrepaired tree: `begin = (chunk * ChunkSize) % ps` in uint32 -/
def fromChunkOrig (ps chunk : UInt32) : Option (UInt32 × UInt32) :=
  let cpp := ps / chunkSz
  if cpp = 0 then none
  else some (chunk / cpp, (chunk * chunkSz) % ps)

/-- `chunkSize`: `l % CS` for every chunk `≥ uint32(l / CS)` -/
def chunkSize (length : Nat) (chunk : UInt32) : UInt32 :=
  if chunk < UInt32.ofNat (length / 16384) then chunkSz else UInt32.ofNat (length % 16384)

/-- `numPieces` (int64 arithmetic; `ps = 0` would fault, see `Peer.geomOk`) -/
def numPiecesOf (ps : UInt32) (length : Nat) : Nat := (length + ps.toNat - 1) / ps.toNat

/-! ### state -/

structure Peer where
  ps : UInt32 := 16384
  length : Nat := 0
  hasInfo : Bool := true
  canFast : Bool := false
  myBitmap : Bitmap := []
  rbitmap : Option Bitmap := none
  isSeed : Bool := false
  unchoked : Bool := false
  fast : List Nat := []
  reqQ : Nat := 128
  gotExtended : Bool := false
  pexExt : Nat := 0
  dontHaveExt : Nat := 0
  shouldInterested : Bool := false
  amInterested : Bool := false
  requests : Requests := {}
  /-- the writer queue: the messages as they were when `write` queued them -/
  wq : List Msg := []
  wcap : Nat := 64
  wblocked : Bool := false
  pex : PexState := {}
  dead : Bool := false

instance : Inhabited Peer := ⟨{}⟩

def Peer.numPieces (p : Peer) : Nat := numPiecesOf p.ps p.length

def Peer.rbGet (p : Peer) (i : Nat) : Bool :=
  match p.rbitmap with
  | none => false
  | some b => get b i

structure Emission where
  /-- ghost: the peer state in which the decision to send was taken -/
  pre : Peer
  msg : Msg

structure Ctx where
  p : Peer
  emits : List Emission := []
  /-- `TorDrop{index, begin, 16384}` events -/
  drops : List (Nat × Nat) := []
  panic : Bool := false

/-- `isCongested`: `len(writer) > cap(writer)/2` -/
def isCongested (p : Peer) : Bool := if p.wblocked then false else p.wq.length > p.wcap / 2

/-- `write`: succeeds iff the queue has room (single producer).  `ghost` is logged. -/
def write (c : Ctx) (ghost : Peer) (m : Msg) : Ctx × Bool :=
  if !c.p.wblocked && c.p.wq.length < c.p.wcap then
    ({ c with p := { c.p with wq := c.p.wq ++ [m] }, emits := c.emits ++ [⟨ghost, m⟩] }, true)
  else (c, false)

/-- `drop`: `TorDrop{fromChunk(chunk), ChunkSize}` -/
def drop (c : Ctx) (chunk : Nat) : Ctx :=
  match fromChunk c.p.ps (UInt32.ofNat chunk) with
  | none => { c with panic := true }
  | some (i, b) => { c with drops := c.drops ++ [(i.toNat, b.toNat)] }

def dropAll (c : Ctx) (chunks : List Nat) : Ctx := chunks.foldl drop c

/-- the decision of `maybeInterested`: some advertised piece is not held locally -/
def wantInterested (p : Peer) : Bool :=
  p.shouldInterested && p.hasInfo &&
    (match p.rbitmap with
     | none => false
     | some rb => (range rb).any (fun i => !get p.myBitmap i))

/-- `maybeInterested` (its error is ignored by every caller) -/
def maybeInterested (c : Ctx) : Ctx :=
  let p := c.p
  let interested := wantInterested p
  if interested == p.amInterested then c
  else
    let (c', ok) := write c p (if interested then .interested else .notInterested)
    if ok then { c' with p := { c'.p with amInterested := interested } } else c'

/-- the rate/delay test of `maybeRequest` as a function of the number outstanding -/
def delayTest (K : Option Nat) (nr : Nat) : Bool :=
  match K with
  | none => false
  | some k => decide (nr + 1 > k)

/-- the `for` loop of `maybeRequest`; every iteration dequeues one request -/
def maybeRequestLoop (K : Option Nat) : Nat → Ctx → Ctx
  | 0, c => c
  | fuel + 1, c =>
    let p := c.p
    if c.panic then c
    else if isCongested p || p.requests.queue.isEmpty then c
    else
      let nr := p.requests.requested.length
      if decide (nr ≥ 2) && (decide (nr ≥ p.reqQ) || delayTest K nr) then c
      else
        match dequeue p.requests with
        | none => { c with panic := true }
        | some (q, rs1) =>
          let c1 := { c with p := { p with requests := rs1 } }
          match fromChunk p.ps (UInt32.ofNat q.index) with
          | none => { c1 with panic := true }
          | some (i, b) =>
            if (!p.unchoked && !p.fast.contains i.toNat) || !p.rbGet i.toNat then
              maybeRequestLoop K fuel (drop c1 q.index)
            else
              let (c2, ok) := write c1 p
                (.request i.toNat b.toNat (chunkSize p.length (UInt32.ofNat q.index)).toNat)
              if !ok then drop c2 q.index
              else
                match enqueueRequest c2.p.requests q with
                | none => { c2 with panic := true }
                | some rs2 =>
                  maybeRequestLoop K fuel { c2 with p := { c2.p with requests := rs2 } }

def maybeRequest (K : Option Nat) (c : Ctx) : Ctx :=
  if c.p.unchoked == false && c.p.fast.isEmpty then c
  else
    maybeRequestLoop K (c.p.requests.queue.length + 1) c

/-- `docancel` -/
def docancel (c : Ctx) (ghost : Peer) (chunk : Nat) : Ctx :=
  match fromChunk c.p.ps (UInt32.ofNat chunk) with
  | none => { c with panic := true }
  | some (i, b) =>
    (write c ghost (.cancel i.toNat b.toNat (chunkSize c.p.length (UInt32.ofNat chunk)).toNat)).1

/-- `cancel(peer, chunk)` -/
def cancelChunk (c : Ctx) (chunk : Nat) : Ctx :=
  if c.panic then c else
  let p := c.p
  let (rs1, found, send) := Requests.cancel p.requests chunk
  if found then
    let c1 := { c with p := { p with requests := rs1 } }
    if send then docancel c1 p chunk else c1
  else
    match delAny p.requests chunk with
    | none => { c with panic := true }
    | some (rs2, q, r) =>
      let c1 := { c with p := { p with requests := rs2 } }
      if q || r then drop (if r then docancel c1 p chunk else c1) chunk else c1

/-- `expireRequests`; `rto` in ms -/
def expireRequests (c : Ctx) (rto : Nat) : Ctx × Bool :=
  let p := c.p
  if p.requests.requested.length == 0 then (c, false)
  else
    let to := (if rto > 5000 then 5000 else rto) + (if p.canFast then 2000 else 0)
    match Requests.expire (σ := Ctx) (fun ch st => drop st ch)
        (fun rsBefore r st => docancel st { st.p with requests := rsBefore } r.index)
        p.requests 30000 to c with
    | none => ({ c with panic := true }, false)
    | some (rs', c', dropped) => ({ c' with p := { c'.p with requests := rs' } }, dropped)

/-- `sendPex` -/
def sendPex (c : Ctx) : Ctx :=
  let p := c.p
  if p.pexExt == 0 || isCongested p then c
  else
    let (s1, tosend, todel) := Pex.compute p.pex
    if tosend.isEmpty && todel.isEmpty then c
    else
      let (c1, ok) := write { c with p := { p with pex := s1 } } p (.pex p.pexExt tosend todel)
      if ok then c1
      else { c1 with p := { c1.p with pex := Pex.rollback s1 tosend todel } }

/-! ### operations -/

inductive Op where
  -- messages from the remote peer (handleMessage)
  | mChoke | mUnchoke
  | mHave (i : Nat)
  | mBitfield (bs : Bytes)
  | mHaveAll | mHaveNone
  | mAllowedFast (i : Nat)
  | mReject (i b : Nat) (K : Option Nat)
  | mPiece (i b : Nat) (len n : Nat) (K : Option Nat)   -- data length, bytes AddData stored
  | mExt0 (reqq : Nat) (m : Option (Nat × Nat))   -- (ut_pex, lt_donthave) when Messages != nil
  | mDontHave (i : Nat)
  -- events from the torrent (handleEvent)
  | eRequest (chunks : List Nat) (K : Option Nat)
  | eCancel (chunk : Nat)
  | eCancelPiece (i : Nat)
  | eHave (i : Nat) (have_ : Bool)
  | eInterested (b : Bool)
  | eMetadata
  | ePex (add : Bool) (peers : List PexPeer)
  -- ticker
  | expire (rto : Nat) (K : Option Nat)
  | sendPex
  -- environment
  | age (d : Nat)
  | drain (k : Nat)
  | wblock (b : Bool)

inductive Res where
  | ok | err | panic | dead
  deriving Repr, DecidableEq

structure Out where
  res : Res
  emits : List Emission
  drops : List (Nat × Nat)
  /-- which branch fired (coverage) -/
  tag : String
  /-- what a `drain` hands to the connection: the messages as they were when they were queued
      (the real queue holds the message objects; a later change of the state they were built
      from must not show in them) -/
  drained : List Msg := []

def u32 (n : Nat) : UInt32 := UInt32.ofNat n

/-- retract/replace bookkeeping common to `Bitfield/HaveAll/HaveNone` has no effect on the
    writer queue (only `TorPeerBitmap` events), so only the bitmap itself is modelled. -/
def handle (p : Peer) : Op → Ctx × Bool × String
  | .mChoke =>
    let (rs, dropped) := clear p.requests (!p.canFast)
    let c : Ctx := { p := { p with unchoked := false, requests := rs } }
    (dropAll c dropped, false, if p.canFast then "choke-fast" else "choke")
  | .mUnchoke => ({ p := { p with unchoked := true } }, false, "unchoke")
  | .mHave i =>
    if p.hasInfo && decide (i ≥ p.numPieces % 4294967296) then ({ p := p }, true, "have-range")
    else if !p.rbGet i then
      let rb := set (p.rbitmap.getD []) i
      (maybeInterested { p := { p with rbitmap := some rb } }, false, "have")
    else ({ p := p }, false, "have-redundant")
  | .mBitfield bs =>
    if p.hasInfo && decide (len bs > p.numPieces) then ({ p := p }, true, "bitfield-overlong")
    else (maybeInterested { p := { p with rbitmap := some bs } }, false, "bitfield")
  | .mHaveAll =>
    if !p.canFast then ({ p := p }, true, "haveall-nofast")
    else
      let p1 := { p with rbitmap := none, isSeed := true }
      let p2 := if p.hasInfo then { p1 with rbitmap := some (setMultiple [] p.numPieces) } else p1
      (maybeInterested { p := p2 }, false, if p.hasInfo then "haveall" else "haveall-noinfo")
  | .mHaveNone =>
    if !p.canFast then ({ p := p }, true, "havenone-nofast")
    else ({ p := { p with rbitmap := none, isSeed := false } }, false, "havenone")
  | .mAllowedFast i =>
    if !p.canFast then ({ p := p }, true, "allowedfast-nofast")
    else if (p.hasInfo && decide (i ≥ p.numPieces % 4294967296)) ||
        (!p.hasInfo && decide (i ≥ 8388608)) then ({ p := p }, true, "allowedfast-range")
    else if !p.fast.contains i then ({ p := { p with fast := p.fast ++ [i] } }, false, "allowedfast")
    else ({ p := p }, false, "allowedfast-dup")
  | .mReject i b K =>
    if !p.canFast then ({ p := p }, true, "reject-nofast")
    else if !p.hasInfo then ({ p := p }, true, "reject-noinfo")
    else
      match toChunk p.ps (u32 i) (u32 b) with
      | none => ({ p := p, panic := true }, false, "reject-div0")
      | some ch =>
        let (rs, r) := delRequested p.requests ch.toNat
        let c : Ctx := { p := { p with requests := rs } }
        let c1 := if r then drop c ch.toNat else c
        (maybeRequest K c1, false, if r then "reject" else "reject-unknown")
  | .mPiece i b len n K =>
    if !p.hasInfo then ({ p := p }, true, "piece-noinfo")
    else if decide (i ≥ p.numPieces % 4294967296) then ({ p := p }, true, "piece-range")
    else
      match toChunk p.ps (u32 i) (u32 b) with
      | none => ({ p := p, panic := true }, false, "piece-div0")
      | some ch =>
        match delAny p.requests ch.toNat with
        | none => ({ p := p, panic := true }, false, "piece-broken")
        | some (rs, q, r) =>
          let c : Ctx := { p := { p with requests := rs } }
          -- `n == uint32(length) && n == chunkSize(peer, c)`: the data stored is exactly the
          -- block that was asked for; anything else is a failed request
          let stored := n == len && n == (chunkSize p.length ch).toNat
          let c1 := if (r || q) && !stored then drop c ch.toNat else c
          (maybeRequest K c1, false,
            if r then (if stored then "piece-requested" else "piece-requested-bad")
            else if q then (if stored then "piece-queued" else "piece-queued-bad")
            else "piece-unknown")
  | .mExt0 reqq m =>
    if p.gotExtended then ({ p := p }, true, "ext0-dup")
    else
      let p1 := { p with gotExtended := true, reqQ := if reqq > 0 then reqq else p.reqQ }
      let p2 := match m with
        | none => p1
        | some (px, dh) => { p1 with pexExt := px, dontHaveExt := dh }
      ({ p := p2 }, false, "ext0")
  | .mDontHave i =>
    if p.isSeed && !p.hasInfo then ({ p := p }, true, "donthave-seed-noinfo")
    else
      let p1 := { p with isSeed := false }
      if p.hasInfo && decide (i ≥ p.numPieces % 4294967296) then ({ p := p1 }, true, "donthave-range")
      else if p.rbGet i then
        ({ p := { p1 with rbitmap := p.rbitmap.map (fun b => reset b i) } }, false, "donthave")
      else ({ p := p1 }, false, "donthave-redundant")
  | .eRequest chunks K =>
    if !p.hasInfo then ({ p := p }, true, "request-noinfo")
    else
      let c := chunks.foldl (fun (c : Ctx) ch =>
        if c.panic then c else
        match fromChunk c.p.ps (u32 ch) with
        | none => { c with panic := true }
        | some (i, _) =>
          if c.p.rbGet i.toNat then
            let (rs, done) := enqueue c.p.requests ch
            let c1 := { c with p := { c.p with requests := rs } }
            if done then c1 else drop c1 ch
          else drop c ch) ({ p := p } : Ctx)
      (maybeRequest K c, false, "request")
  | .eCancel chunk =>
    if !p.hasInfo then ({ p := p }, true, "cancel-noinfo")
    else (cancelChunk { p := p } chunk, false, "cancel")
  | .eCancelPiece i =>
    if !p.hasInfo then ({ p := p }, true, "cancelpiece-noinfo")
    else
      let cpp := p.ps / chunkSz
      let c := (List.range cpp.toNat).foldl (fun (c : Ctx) k =>
        cancelChunk c (u32 i * cpp + u32 k).toNat) ({ p := p } : Ctx)
      (c, false, "cancelpiece")
  | .eHave i have_ =>
    if have_ then
      let p1 := { p with myBitmap := set p.myBitmap i }
      let (c, ok) := write { p := p1 } p (.have i)
      if !ok then (c, true, "have-ev-writefail") else (maybeInterested c, false, "have-ev")
    else
      let p1 := { p with myBitmap := reset p.myBitmap i }
      if p.dontHaveExt > 0 then
        let (c, ok) := write { p := p1 } p (.dontHave (p.dontHaveExt % 256) i)
        if !ok then (c, true, "donthave-ev-writefail") else (maybeInterested c, false, "donthave-ev")
      else (maybeInterested { p := p1 }, false, "donthave-ev-noext")
  | .eInterested b => (maybeInterested { p := { p with shouldInterested := b } }, false, "interested")
  | .eMetadata =>
    if p.hasInfo then ({ p := p }, true, "metadata-dup")
    else
      let p1 := { p with hasInfo := true }
      if p.isSeed then
        if p.rbitmap.isSome then ({ p := p1 }, true, "metadata-inconsistent")
        else (maybeInterested { p := { p1 with rbitmap := some (setMultiple [] p.numPieces) } },
              false, "metadata-seed")
      else if decide (len (p.rbitmap.getD []) > p.numPieces) then ({ p := p1 }, true, "metadata-overlong")
      else (maybeInterested { p := p1 }, false, "metadata")
  | .ePex add peers =>
    if p.pexExt == 0 then ({ p := p }, false, "pex-noext")
    else if add then ({ p := { p with pex := peers.foldl Pex.add p.pex } }, false, "pex-add")
    else ({ p := { p with pex := peers.foldl Pex.del p.pex } }, false, "pex-del")
  | .expire rto K =>
    let (c, expired) := expireRequests { p := p } rto
    ((if expired then maybeRequest K c else c), false, if expired then "expire-dropped" else "expire")
  | .sendPex => (sendPex { p := p }, false, "sendpex")
  | .age d => ({ p := { p with requests := Requests.age p.requests d } }, false, "age")
  | .drain k => ({ p := { p with wq := p.wq.drop k } }, false, "drain")
  | .wblock b => ({ p := { p with wblocked := b } }, false, "wblock")

/-- environment ops are always possible; protocol ops only on a live peer -/
def Op.isEnv : Op → Bool
  | .age _ | .drain _ | .wblock _ => true
  | _ => false

def step (p : Peer) (op : Op) : Peer × Out :=
  if p.dead && !op.isEnv then (p, ⟨.dead, [], [], "dead", []⟩)
  else
    let (c, err, tag) := handle p op
    let drained := match op with
      | .drain k => p.wq.take k
      | _ => []
    if c.panic then ({ c.p with dead := true }, ⟨.panic, c.emits, c.drops, tag ++ "!panic", drained⟩)
    else if err then ({ c.p with dead := true }, ⟨.err, c.emits, c.drops, tag, drained⟩)
    else (c.p, ⟨.ok, c.emits, c.drops, tag, drained⟩)

/-- all emissions of a history -/
def trace : Peer → List Op → List Emission
  | _, [] => []
  | p, op :: ops => (step p op).2.emits ++ trace (step p op).1 ops

def run : Peer → List Op → Peer
  | p, [] => p
  | p, op :: ops => run (step p op).1 ops

/-! ### the initial advertisement of `Run` -/

/-- What `Run` writes after the extended handshake, as a function of the local bitmap, the
    piece count (`numPieces(peer)`, equal to `Pieces.Num()`), and the Fast capability.
    `none` = fault (`numPieces` divides by the zero piece size when there is no metadata).
    Repaired (fix 01): the bitfield is extended to hold bit `num - 1`, not bit `num`. -/
def advertise (mb : Bitmap) (num : Nat) (hasInfo canFast : Bool) : Option (List Msg) :=
  if empty mb then some (if canFast then [.haveNone] else [])
  else if canFast && (hasInfo && all mb num) then some [.haveAll]
  else if !hasInfo then none
  else if count mb < num / 72 then
    some ((if canFast then [.haveNone] else []) ++ (range mb).map Msg.have)
  else some [.bitfield (extendInt mb ((num : Int) - 1))]

/-- the unrepaired bitfield: `Extend(num)` -/
def advertiseOrig (mb : Bitmap) (num : Nat) (hasInfo canFast : Bool) : Option (List Msg) :=
  if empty mb then some (if canFast then [.haveNone] else [])
  else if canFast && (hasInfo && all mb num) then some [.haveAll]
  else if !hasInfo then none
  else if count mb < num / 72 then
    some ((if canFast then [.haveNone] else []) ++ (range mb).map Msg.have)
  else some [.bitfield (extend mb num)]

end Storrent.PeerOut
