import Storrent.Model.Meta
import Storrent.Model.Bencode
/-
A Lean decoder from RAW BYTES to `BInfo` and the model of tor.ReadTorrent over bytes.

The decoder is type-directed like zeebo/bencode's reflection decoder for `tor.BInfo`
(strings into string/[]byte fields, `i…e` into int64 / uint32 fields with
strconv.ParseInt / ParseUint's syntax and ranges and SetUint's truncation, lists of
strings into path.Path, unknown keys skipped after validation, the last of duplicate
scalar keys wins while a duplicate LIST key is decoded into the existing slice element by
element (`mergeList`, and for `files` field by field), an empty list leaves the slice as
it is, trailing bytes ignored), but it is
ITERATIVE: every loop is indexed by fuel bounded by the input length, so it is total on
every byte string and nesting depth costs nothing.  (The Go decoder recurses once per
nesting level: the recorded stack-overflow finding is exactly "nesting depth beyond what
the goroutine stack holds", about 10^6 — the only inputs on which the two differ in
kind.)  It is tied to the real decoder by the `rt` correspondence stream on the
grammar-generated files; on other inputs it is a decoder, not a transcription of zeebo.

`readTorrentBytes` = decode the top-level dictionary as BTorrent (`topInfo`: `info` kept
raw exactly as `infoSlice` scans it, the other known keys with the syntax their Go types
accept, unknown keys validated and dropped), decode the raw info value, run
`metadataComplete`: what tor.ReadTorrent does with a byte string.
-/
namespace Storrent.Meta
open Storrent

/-- strconv.ParseInt(s, 10, 64) succeeds -/
def validInt64 (s : Bytes) : Option Int :=
  match s with
  | [] => none
  | 43 :: ds =>
    if ds ≠ [] ∧ allDigits ds ∧ digitsVal ds ≤ 9223372036854775807 then some (digitsVal ds) else none
  | 45 :: ds =>
    if ds ≠ [] ∧ allDigits ds ∧ digitsVal ds ≤ 9223372036854775808 then some (-(digitsVal ds : Int))
    else none
  | ds => if allDigits ds ∧ digitsVal ds ≤ 9223372036854775807 then some (digitsVal ds) else none

/-- strconv.ParseUint(s, 10, 64) succeeds (no sign allowed) -/
def validUint64 (s : Bytes) : Option Nat :=
  if s ≠ [] ∧ allDigits s ∧ digitsVal s < 18446744073709551616 then some (digitsVal s) else none

/-- `i<text>e` at the head: (text, rest) -/
def intText (bs : Bytes) : Option (Bytes × Bytes) :=
  match bs with
  | 105 :: r =>
    match findByte 101 r 0 with
    | some k => some (r.take k, r.drop (k + 1))
    | none => none
  | _ => none

/-- a value decoded into `interface{}` and dropped (unknown key): like `rawScan`, but every
    integer must be a valid int64 -/
def genScan : Nat → List Ctx → Bytes → Option Bytes
  | 0, _, _ => none
  | fuel+1, stack, bs =>
    let after (stack : List Ctx) (r : Bytes) : Option Bytes :=
      match stack with
      | [] => some r
      | .dval :: st => genScan fuel (.dkey :: st) r
      | st => genScan fuel st r
    match stack, bs with
    | _, [] => none
    | .dkey :: st, 101 :: r => after st r
    | .dkey :: st, _ =>
      match rawStr bs with
      | some (_, r) => genScan fuel (.dval :: st) r
      | none => none
    | .list :: st, 101 :: r => after st r
    | stack, 105 :: _ =>
      match intText bs with
      | some (t, r) => if (validInt64 t).isSome then after stack r else none
      | none => none
    | stack, 108 :: r => genScan fuel (.list :: stack) r
    | stack, 100 :: r => genScan fuel (.dkey :: stack) r
    | stack, b :: _ =>
      if 48 ≤ b ∧ b ≤ 57 then
        match rawStr bs with
        | some (_, r) => after stack r
        | none => none
      else none

def genSkip (bs : Bytes) : Option Bytes := genScan (2 * bs.length + 2) [] bs

/-- a string value (the head must be a digit: decodeInto's dispatch) -/
def strVal (bs : Bytes) : Option (Bytes × Bytes) :=
  match bs with
  | b :: _ => if 48 ≤ b ∧ b ≤ 57 then rawStr bs else none
  | [] => none

/-- the elements of a list of strings, after the `l` -/
def strListBody : Nat → Bytes → List Bytes → Option (List Bytes × Bytes)
  | 0, _, _ => none
  | fuel+1, bs, acc =>
    match bs with
    | 101 :: r => some (acc.reverse, r)
    | _ =>
      match strVal bs with
      | some (s, r) => strListBody fuel r (s :: acc)
      | none => none

/-- zeebo's decodeList into an EXISTING slice (a key that occurs twice): element i of the new
    list overwrites element i, the length only grows — the old tail survives -/
def mergeList {α : Type} (old new : List α) : List α := new ++ old.drop new.length

/-- path.Path decoded into the field's current value: an empty list leaves it as it is
    (nil stays nil), otherwise the new elements overwrite the old ones position by position -/
def pathVal (fuel : Nat) (bs : Bytes) (old : Option (List Bytes)) :
    Option (Option (List Bytes) × Bytes) :=
  match bs with
  | 108 :: r =>
    match strListBody fuel r [] with
    | some ([], r') => some (old, r')
    | some (l, r') => some (some (mergeList (old.getD []) l), r')
    | none => none
  | _ => none

def kPath : Bytes := [112, 97, 116, 104]
def kPath8 : Bytes := [112, 97, 116, 104, 46, 117, 116, 102, 45, 56]
def kLength : Bytes := [108, 101, 110, 103, 116, 104]
def kAttr : Bytes := [97, 116, 116, 114]
def kName : Bytes := [110, 97, 109, 101]
def kName8 : Bytes := [110, 97, 109, 101, 46, 117, 116, 102, 45, 56]
def kPieceLength : Bytes := [112, 105, 101, 99, 101, 32, 108, 101, 110, 103, 116, 104]
def kPieces : Bytes := [112, 105, 101, 99, 101, 115]
def kFiles : Bytes := [102, 105, 108, 101, 115]

/-- an int64 field -/
def int64Val (bs : Bytes) : Option (Int64 × Bytes) :=
  match intText bs with
  | some (t, r) => (validInt64 t).map (fun i => (Int64.ofInt i, r))
  | none => none

/-- the body of a BFile dictionary, after the `d` -/
def fileBody : Nat → Bytes → BFile → Option (BFile × Bytes)
  | 0, _, _ => none
  | fuel+1, bs, f =>
    match bs with
    | 101 :: r => some (f, r)
    | _ =>
      match rawStr bs with
      | none => none
      | some (k, r) =>
        if k = kPath then
          match pathVal fuel r f.path with
          | some (p, r') => fileBody fuel r' { f with path := p }
          | none => none
        else if k = kPath8 then
          match pathVal fuel r f.path8 with
          | some (p, r') => fileBody fuel r' { f with path8 := p }
          | none => none
        else if k = kLength then
          match int64Val r with
          | some (l, r') => fileBody fuel r' { f with length := l }
          | none => none
        else if k = kAttr then
          match strVal r with
          | some (a, r') => fileBody fuel r' { f with attr := a }
          | none => none
        else
          match genSkip r with
          | some r' => fileBody fuel r' f
          | none => none

/-- the elements of `files`, after the `l`, decoded into the field's current value `old`:
    element i is decoded INTO old[i] when it exists (fields absent from the new dictionary
    keep their old values), and the old tail survives -/
def filesBody : Nat → Bytes → List BFile → List BFile → Option (List BFile × Bytes)
  | 0, _, _, _ => none
  | fuel+1, bs, acc, old =>
    match bs with
    | 101 :: r => some (acc.reverse ++ old, r)
    | 100 :: r =>
      let start : BFile := match old with
        | f :: _ => f
        | [] => { path := none, path8 := none, length := 0, attr := [] }
      match fileBody fuel r start with
      | some (f, r') => filesBody fuel r' (f :: acc) old.tail
      | none => none
    | _ => none

/-- the body of the info dictionary, after the `d` -/
def infoBody : Nat → Bytes → BInfo → Option BInfo
  | 0, _, _ => none
  | fuel+1, bs, bi =>
    match bs with
    | 101 :: _ => some bi
    | _ =>
      match rawStr bs with
      | none => none
      | some (k, r) =>
        if k = kName then
          match strVal r with
          | some (s, r') => infoBody fuel r' { bi with name := s }
          | none => none
        else if k = kName8 then
          match strVal r with
          | some (s, r') => infoBody fuel r' { bi with name8 := s }
          | none => none
        else if k = kPieces then
          match strVal r with
          | some (s, r') => infoBody fuel r' { bi with pieces := s }
          | none => none
        else if k = kPieceLength then
          match intText r with
          | some (t, r') =>
            match validUint64 t with
            | some n => infoBody fuel r' { bi with pieceLength := UInt32.ofNat n }   -- SetUint truncates
            | none => none
          | none => none
        else if k = kLength then
          match int64Val r with
          | some (l, r') => infoBody fuel r' { bi with length := l }
          | none => none
        else if k = kFiles then
          match r with
          | 108 :: r1 =>
            match filesBody fuel r1 [] (bi.files.getD []) with
            | some ([], r') => infoBody fuel r' bi              -- `le` into nil: stays nil
            | some (fs, r') => infoBody fuel r' { bi with files := some fs }
            | none => none
          | _ => none
        else
          match genSkip r with
          | some r' => infoBody fuel r' bi
          | none => none

/-- bencode.DecodeBytes(info, &BInfo{}) -/
def decodeBInfo (info : Bytes) : Option BInfo :=
  match info with
  | 100 :: r =>
    infoBody (info.length + 1) r
      { name := [], name8 := [], pieceLength := 0, pieces := [], length := 0, files := none }
  | _ => none

/-- what ReadTorrent returns for a byte string: the raw info value (whose SHA-1 is the
    identity of the torrent) and the geometry, or an error -/
inductive RtRes where
  | ok (info : Bytes) (g : Geom)
  | noInfo                 -- the top-level value is not a dictionary with an `info` key
  | badInfo                -- the info value does not decode into a BInfo
  | err (e : MErr)         -- MetadataComplete refused it
  | panic (why : String)
  deriving Repr, DecidableEq

def kInfo : Bytes := infoKey
def kCreationDate : Bytes := [99, 114, 101, 97, 116, 105, 111, 110, 32, 100, 97, 116, 101]
def kAnnounce : Bytes := [97, 110, 110, 111, 117, 110, 99, 101]
def kAnnounceList : Bytes := [97, 110, 110, 111, 117, 110, 99, 101, 45, 108, 105, 115, 116]
def kUrlList : Bytes := [117, 114, 108, 45, 108, 105, 115, 116]
def kHttpSeeds : Bytes := [104, 116, 116, 112, 115, 101, 101, 100, 115]

/-- the elements of `announce-list` ([][]string), after the `l` -/
def tiersBody : Nat → Bytes → Option Bytes
  | 0, _ => none
  | fuel+1, bs =>
    match bs with
    | 101 :: r => some r
    | 108 :: r =>
      match strListBody fuel r [] with
      | some (_, r') => tiersBody fuel r'
      | none => none
    | _ => none

/-- listOrString.UnmarshalBencode on the raw value `v`: a string, or a list of strings -/
def listOrStringOk (v : Bytes) : Bool :=
  (strVal v).isSome ||
  (match v with
   | 108 :: r => (strListBody (v.length + 1) r []).isSome
   | _ => false)

/-- the body of the top-level dictionary decoded into BTorrent: every known key with the
    syntax its Go type accepts, `info` kept raw (the last binding wins), unknown keys
    validated and dropped -/
def topBody (all : Bytes) : Nat → Bytes → Option (Nat × Nat) → Option (Option (Nat × Nat))
  | 0, _, _ => none
  | fuel+1, bs, found =>
    match bs with
    | [] => none
    | 101 :: _ => some found
    | _ =>
      match rawStr bs with
      | none => none
      | some (k, r) =>
        if k = kInfo then
          match rawVal r with
          | some r' => topBody all fuel r' (some (all.length - r.length, r.length - r'.length))
          | none => none
        else if k = kCreationDate then
          match int64Val r with
          | some (_, r') => topBody all fuel r' found
          | none => none
        else if k = kAnnounce then
          match strVal r with
          | some (_, r') => topBody all fuel r' found
          | none => none
        else if k = kAnnounceList then
          match r with
          | 108 :: r1 =>
            match tiersBody fuel r1 with
            | some r' => topBody all fuel r' found
            | none => none
          | _ => none
        else if k = kUrlList ∨ k = kHttpSeeds then
          match rawVal r with
          | some r' =>
            if listOrStringOk (r.take (r.length - r'.length)) then topBody all fuel r' found else none
          | none => none
        else
          match genSkip r with
          | some r' => topBody all fuel r' found
          | none => none

/-- where the decoder of BTorrent finds the raw `info` value -/
def topInfo (bs : Bytes) : Option (Nat × Nat) :=
  match bs with
  | 100 :: r => (topBody bs (bs.length + 1) r none).bind id
  | _ => none

def readTorrentBytes (bs : Bytes) : RtRes :=
  match topInfo bs with
  | none => .noInfo
  | some ol =>
    let info := sliceBytes bs ol
    match decodeBInfo info with
    | none => .badInfo
    | some bi =>
      match metadataComplete 0 bi with
      | .ok g => .ok info g
      | .err e => .err e
      | .panic w => .panic w

/-- Torrent.MetadataComplete on the bytes assembled from a magnet's peers -/
def metadataCompleteBytes (info : Bytes) : Res Geom :=
  match decodeBInfo info with
  | none => .err .neither        -- a decoder error: some error, the class is immaterial
  | some bi => metadataComplete 0 bi

/-! ### WriteTorrent's bytes -/

def encStrList (l : List Bytes) : Bytes := [108] ++ (l.map Bencode.encStr).flatten ++ [101]

/-- bencode.Encode(&BTorrent{…}): struct fields in key order, `omitempty` on all but info,
    the raw info value copied verbatim -/
def writeTorrentBytes (info : Bytes) (cdate : Int) (f : TFields) : Bytes :=
  [100] ++
  (if f.announce ≠ [] then Bencode.encStr kAnnounce ++ Bencode.encStr f.announce else []) ++
  (match f.announceList with
   | some al => Bencode.encStr kAnnounceList ++ ([108] ++ (al.map encStrList).flatten ++ [101])
   | none => []) ++
  (if cdate ≠ 0 then Bencode.encStr kCreationDate ++ Bencode.encInt cdate else []) ++
  (if f.httpSeeds ≠ [] then Bencode.encStr kHttpSeeds ++ encStrList f.httpSeeds else []) ++
  Bencode.encStr kInfo ++ info ++
  (if f.urlList ≠ [] then Bencode.encStr kUrlList ++ encStrList f.urlList else []) ++
  [101]

end Storrent.Meta
