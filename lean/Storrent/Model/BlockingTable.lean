import Storrent.Util
/-
C17: shape of the blocking-point table the Go-AST extractor regenerates on every run
(Gen/Blocking.lean, from tor/tor.go, tor/reader.go, tor/writer.go, peer/peer.go) and the
hand-written expectation.
-/
namespace Storrent.Lifecycle

/-- "exit" alternatives of a `select` -/
inductive Alt where
  | tDone       -- `<-t.Done`, `<-w.t.Done`, `<-peer.torDone`: closed when the torrent's loop has exited
  | pDone       -- `<-p.Done`, `<-peer.Done`: closed when the peer's loop has exited
  | ctxDone     -- `<-ctx.Done()`, `<-r.context.Done()`
  | deleted     -- `<-t.Deleted`: closed once the torrent is unlisted
  | writerDone  -- `<-peer.writerDone`
  | timer       -- `<-timer.C`
  | dflt        -- `default:`
  deriving Repr, DecidableEq

inductive Dir where
  | send | recv | unknown
  deriving Repr, DecidableEq

/-- one channel communication in the source -/
structure Point where
  fn   : String      -- function it occurs in
  dir  : Dir
  ch   : String      -- channel expression as written
  sel  : Bool        -- is it a case of a `select`
  alts : List Alt    -- the exit alternatives of that select
  deriving Repr, DecidableEq

/-- The blocking points of the (repaired) source, in source order per function.  Channel texts
    are name-free: a channel made in the function is `made#k`, a local defined once is its
    defining expression, any other local is `local`; parameters and receivers keep their names.  Reviewed by
    hand against tor/tor.go, tor/reader.go, tor/writer.go, peer/peer.go. -/
def expectedBlocking : List Point := [
  ⟨"tor.Announce", .send, "Get(h).Event", true, [.tDone]⟩,
  ⟨"tor.Torrent.run", .recv, "t.Event", true, [.ctxDone]⟩,
  ⟨"tor.Torrent.run", .recv, "t.requestTicker.C", true, [.ctxDone]⟩,
  ⟨"tor.Torrent.run", .recv, "time.NewTicker(5*time.Second + jiffy()).C", true, [.ctxDone]⟩,
  ⟨"tor.Torrent.run", .recv, "time.NewTicker(20*time.Second + jiffy()).C", true, [.ctxDone]⟩,
  ⟨"tor.handleEvent", .send, "c.Ch", false, []⟩,
  ⟨"tor.handleEvent", .send, "c.Ch", false, []⟩,
  ⟨"tor.handleEvent", .send, "c.Ch", false, []⟩,
  ⟨"tor.handleEvent", .send, "c.Ch", false, []⟩,
  ⟨"tor.handleEvent", .send, "c.Ch", false, []⟩,
  ⟨"tor.handleEvent", .send, "c.Ch", false, []⟩,
  ⟨"tor.handleEvent", .send, "c.Ch", false, []⟩,
  ⟨"tor.handleEvent", .send, "c.Ch", false, []⟩,
  ⟨"tor.handleEvent", .send, "c.Ch", false, []⟩,
  ⟨"tor.handleEvent", .send, "c.Ch", false, []⟩,
  ⟨"tor.writePeer", .send, "p.Event", true, [.pDone]⟩,
  ⟨"tor.maybeWritePeer", .send, "p.Event", true, [.pDone, .dflt]⟩,
  ⟨"tor.Torrent.Kill", .send, "t.Event", true, [.tDone, .ctxDone]⟩,
  ⟨"tor.Torrent.Kill", .recv, "t.Deleted", true, [.ctxDone]⟩,
  ⟨"tor.Torrent.NewPeer", .send, "t.Event", true, [.tDone]⟩,
  ⟨"tor.Torrent.AddKnown", .send, "t.Event", true, [.tDone]⟩,
  ⟨"tor.Torrent.BadPeer", .send, "t.Event", true, [.tDone]⟩,
  ⟨"tor.Torrent.GetStats", .send, "t.Event", true, [.tDone]⟩,
  ⟨"tor.Torrent.GetStats", .recv, "made#1", true, [.tDone]⟩,
  ⟨"tor.Torrent.GetAvailable", .send, "t.Event", true, [.tDone]⟩,
  ⟨"tor.Torrent.GetAvailable", .recv, "made#1", true, [.tDone]⟩,
  ⟨"tor.Torrent.DropPeer", .send, "t.Event", true, [.tDone]⟩,
  ⟨"tor.Torrent.DropPeer", .recv, "made#1", true, [.tDone]⟩,
  ⟨"tor.Torrent.GetPeer", .send, "t.Event", true, [.tDone]⟩,
  ⟨"tor.Torrent.GetPeer", .recv, "made#1", true, [.tDone]⟩,
  ⟨"tor.Torrent.GetPeers", .send, "t.Event", true, [.tDone]⟩,
  ⟨"tor.Torrent.GetPeers", .recv, "made#1", true, [.tDone]⟩,
  ⟨"tor.Torrent.GetKnown", .send, "t.Event", true, [.tDone]⟩,
  ⟨"tor.Torrent.GetKnown", .recv, "made#1", true, [.tDone]⟩,
  ⟨"tor.Torrent.GetKnowns", .send, "t.Event", true, [.tDone]⟩,
  ⟨"tor.Torrent.GetKnowns", .recv, "made#1", true, [.tDone]⟩,
  ⟨"tor.Torrent.Have", .send, "t.Event", true, [.tDone]⟩,
  ⟨"tor.Torrent.GetConf", .send, "t.Event", true, [.tDone]⟩,
  ⟨"tor.Torrent.GetConf", .recv, "made#1", true, [.tDone]⟩,
  ⟨"tor.Torrent.SetConf", .send, "t.Event", true, [.tDone]⟩,
  ⟨"tor.Torrent.SetConf", .recv, "made#1", true, [.tDone]⟩,
  ⟨"tor.Torrent.Request", .send, "t.Event", true, [.tDone]⟩,
  ⟨"tor.Torrent.Request", .recv, "made#1", true, [.tDone]⟩,
  ⟨"tor.trackerAnnounceSingle", .send, "t.Event", true, [.tDone, .ctxDone]⟩,
  ⟨"tor.Reader.Read", .recv, "local", true, [.tDone, .ctxDone]⟩,
  ⟨"tor.writer.writeEvent", .send, "w.t.Event", true, [.tDone]⟩,
  ⟨"peer.Run", .send, "peer.torEvent", true, [.tDone]⟩,
  ⟨"peer.Run", .recv, "peer.Event", true, [.writerDone, .tDone]⟩,
  ⟨"peer.Run", .recv, "made#1", true, [.writerDone, .tDone]⟩,
  ⟨"peer.Run", .send, "peer.torEvent", true, [.writerDone, .tDone]⟩,
  ⟨"peer.Run", .recv, "peer.uploadTicker.C", true, [.writerDone, .tDone]⟩,
  ⟨"peer.Run", .recv, "time.NewTicker(2 * time.Second).C", true, [.writerDone, .tDone]⟩,
  ⟨"peer.writeEvent", .send, "peer.torEvent", true, [.dflt]⟩,
  ⟨"peer.handleEvent", .send, "c.Ch", false, []⟩,
  ⟨"peer.handleEvent", .send, "c.Ch", false, []⟩,
  ⟨"peer.handleEvent", .send, "c.Ch", false, []⟩,
  ⟨"peer.handleEvent", .send, "c.Ch", false, []⟩,
  ⟨"peer.handleEvent", .send, "c.Ch", false, []⟩,
  ⟨"peer.handleEvent", .send, "c.Ch", false, []⟩,
  ⟨"peer.handleEvent", .send, "c.Ch", false, []⟩,
  ⟨"peer.Peer.GetStatus", .send, "peer.Event", true, [.pDone]⟩,
  ⟨"peer.Peer.GetStatus", .recv, "made#1", true, [.pDone]⟩,
  ⟨"peer.Peer.GetPex", .send, "peer.Event", true, [.pDone]⟩,
  ⟨"peer.Peer.GetPex", .recv, "made#1", true, [.pDone]⟩,
  ⟨"peer.Peer.GetStats", .send, "peer.Event", true, [.pDone]⟩,
  ⟨"peer.Peer.GetStats", .recv, "made#1", true, [.pDone]⟩,
  ⟨"peer.Peer.GetFast", .send, "peer.Event", true, [.dflt]⟩,
  ⟨"peer.Peer.GetFast", .recv, "made#1", true, [.pDone]⟩,
  ⟨"peer.Peer.GetBitmap", .send, "peer.Event", true, [.pDone]⟩,
  ⟨"peer.Peer.GetBitmap", .recv, "made#1", true, [.pDone]⟩,
  ⟨"peer.Peer.GetHave", .send, "peer.Event", true, [.pDone]⟩,
  ⟨"peer.Peer.GetHave", .recv, "made#1", true, [.pDone]⟩ ]

/-- statements executed once the event loop returns (run's defer, then the defer of the
    goroutine started by AddTorrent) -/
def expectedTeardown : List String :=
  ["close(t.Done)", "t.Pieces.Del()", "del(t.Hash)", "close(t.Deleted)"]

end Storrent.Lifecycle
