/-
Model of tor/requests.go (`Requested`: Add, del, Del, Done, DelIdle, DelIdlePiece), of
`requestPiece` and of the `TorHave` case of `handleEvent` (tor/tor.go).  Core-only.

Channels are ghost objects: a channel is a small integer (creation order); `chans[c]`
records the piece it was created for and how many times it has been closed.  Closing a
closed channel is a Go panic: it sets `panicked`.  `rs.pieces[index].done` on a missing
entry (nil dereference in `del`) also sets `panicked`.
-/
namespace Storrent.Requested

/-- `IdlePriority = int8(math.MinInt8)` -/
def idlePriority : Int := -128

structure Entry where
  prio : List Int
  done : Option Nat
  deriving Repr, DecidableEq, Inhabited

/-- the Go map `pieces map[uint32]*RequestedPiece` (iteration order is not observable:
    the only iteration, `DelIdle`, performs independent per-key actions) -/
abbrev PMap := List (Nat × Entry)

def find : PMap → Nat → Option Entry
  | [], _ => none
  | (k, e) :: r, i => if k = i then some e else find r i

def erase : PMap → Nat → PMap
  | [], _ => []
  | (k, e) :: r, i => if k = i then erase r i else (k, e) :: erase r i

def put (m : PMap) (i : Nat) (e : Entry) : PMap := (i, e) :: erase m i

structure Chan where
  owner : Nat
  closeCount : Nat
  deriving Repr, DecidableEq, Inhabited

structure RS where
  pieces : PMap := []
  chans : List Chan := []
  panicked : Bool := false
  deriving Repr, Inhabited

/-- `close(ch)` -/
def closeChan (s : RS) (c : Nat) : RS :=
  match s.chans[c]? with
  | none => { s with panicked := true }
  | some ch =>
    { s with chans := s.chans.set c { ch with closeCount := ch.closeCount + 1 },
             panicked := s.panicked || decide (ch.closeCount ≥ 1) }

def closeCount (s : RS) (c : Nat) : Nat :=
  match s.chans[c]? with
  | none => 0
  | some ch => ch.closeCount

def isClosed (s : RS) (c : Nat) : Bool := decide (closeCount s c ≥ 1)

/-- the entry `Add` works on, and whether it had to be created -/
def baseEntry (s : RS) (index : Nat) : Entry × Bool :=
  match find s.pieces index with
  | none => ({ prio := [], done := none }, true)
  | some r => (r, false)

def withPrio (r : Entry) (prio : Int) : Entry :=
  if prio > idlePriority then { r with prio := r.prio ++ [prio] } else r

/-- `Requested.Add(index, prio, want)`; returns the state, `r.done` and `added` -/
def add (s : RS) (index : Nat) (prio : Int) (want : Bool) : RS × Option Nat × Bool :=
  let r1 := withPrio (baseEntry s index).1 prio
  let added := (baseEntry s index).2 || decide (prio > idlePriority)
  if want = true ∧ r1.done = none then
    ({ s with pieces := put s.pieces index { r1 with done := some s.chans.length },
              chans := s.chans ++ [{ owner := index, closeCount := 0 }] },
     some s.chans.length, added)
  else
    ({ s with pieces := put s.pieces index r1 }, r1.done, added)

/-- `Requested.del(index)`: close the channel if any, delete the entry -/
def delEntry (s : RS) (index : Nat) : RS :=
  match find s.pieces index with
  | none => { s with panicked := true }
  | some r =>
    match r.done with
    | some c => { closeChan s c with pieces := erase s.pieces index }
    | none => { s with pieces := erase s.pieces index }

/-- `Requested.Del(index, prio)`: removes the first equal priority; deleting the last one
    deletes the entry (and closes its channel).  Returns `removed`. -/
def del (s : RS) (index : Nat) (prio : Int) : RS × Bool :=
  match find s.pieces index with
  | none => (s, false)
  | some r =>
    if prio ∈ r.prio then
      if r.prio.erase prio = [] then
        (delEntry s index, true)
      else
        ({ s with pieces := put s.pieces index { r with prio := r.prio.erase prio } }, false)
    else (s, false)

/-- `Requested.DelIdlePiece(index)` -/
def delIdlePiece (s : RS) (index : Nat) : RS :=
  match find s.pieces index with
  | none => s
  | some r => if r.prio = [] then delEntry s index else s

/-- `Requested.Done(index)`: close and clear the channel, then prune an idle entry -/
def done (s : RS) (index : Nat) : RS :=
  match find s.pieces index with
  | none => s
  | some r =>
    match r.done with
    | some c =>
      delIdlePiece { closeChan s c with pieces := put s.pieces index { r with done := none } } index
    | none => delIdlePiece s index

/-- `Requested.DelIdle()`: `for index := range rs.pieces { rs.DelIdlePiece(index) }` -/
def delIdle (s : RS) : RS :=
  (s.pieces.map (·.1)).foldl delIdlePiece s

/-! ### requestPiece and TorHave -/

inductive RPOut where
  /-- returned channel, `added`, and whether `PeerCancelPiece` was written to the peers -/
  | ret (ch : Option Nat) (added : Bool) (cancel : Bool)
  /-- `t.Pieces.Complete(index)` indexed out of range -/
  | panic
  deriving Repr, DecidableEq

/-- `requestPiece(t, index, prio, request, want)`.  `numHashes = len(t.PieceHashes)`,
    `complete? = none` when `index` is outside the piece table (Go: index out of range). -/
def requestPiece (s : RS) (numHashes : Nat) (complete? : Option Bool)
    (index : Nat) (prio : Int) (request want : Bool) : RS × RPOut :=
  if index > numHashes then (s, .ret none false false)
  else if request then
    match complete? with
    | none => (s, .panic)
    | some c =>
      let r := add s index prio (if c then false else want)
      (r.1, .ret r.2.1 r.2.2 false)
  else
    let r := del s index prio
    (r.1, .ret none false (r.2 && (find r.1.pieces index).isNone))

/-- the `TorHave` case of `handleEvent` (the `PeerHave` broadcast is not modelled here) -/
def torHave (s : RS) (index : Nat) (hv : Bool) : RS :=
  if hv then done s index else s

/-! ### the loop-level system used by the C10 theorems: Requested + store completeness +
    notifications in flight -/

structure Sys where
  rs : RS := {}
  numHashes : Nat
  /-- `complete[i]`: piece `i` is verified and in memory; the length is the piece table's -/
  complete : List Bool
  /-- `TorHave` notifications produced (by `Finalise`+`t.Have` or by an eviction callback)
      and not yet handled by the loop, in any order (several goroutines send them) -/
  pending : List (Nat × Bool) := []
  /-- ghost: pieces that have been verified successfully at some time -/
  everVerified : List Nat := []
  /-- ghost: a Go panic happened in `requestPiece` -/
  crashed : Bool := false
  deriving Repr, Inhabited

inductive Step where
  /-- the loop handles `TorRequest{i, p, true, ch}`; `want = (ch != nil)` -/
  | request (i : Nat) (p : Int) (want : Bool)
  /-- the loop handles `TorRequest{i, p, false, _}` -/
  | withdraw (i : Nat) (p : Int)
  /-- a hash goroutine verifies piece `i` successfully (`Finalise` done, `t.Have(i, true)`) -/
  | finalise (i : Nat)
  /-- a hash goroutine finds a mismatch: no state the requests depend on changes -/
  | hashFail (i : Nat)
  /-- `Pieces.Expire` deletes complete piece `i`, callback `t.Have(i, false)` -/
  | evict (i : Nat)
  /-- the loop handles the `k`-th notification in flight -/
  | handleHave (k : Nat)
  /-- `pickIdlePieces`: `Add(i, IdlePriority, false)` -/
  | idleAdd (i : Nat)
  /-- `TorSetConf` / `periodicRequest`: `DelIdle()` -/
  | delIdle
  deriving Repr, DecidableEq

def setComplete (l : List Bool) (i : Nat) (b : Bool) : List Bool := l.set i b

def Sys.step (s : Sys) : Step → Sys
  | .request i p want =>
    match requestPiece s.rs s.numHashes s.complete[i]? i p true want with
    | (rs, .panic) => { s with rs := rs, crashed := true }
    | (rs, _) => { s with rs := rs }
  | .withdraw i p => { s with rs := (requestPiece s.rs s.numHashes s.complete[i]? i p false false).1 }
  | .finalise i =>
    match s.complete[i]? with
    | some false => { s with complete := setComplete s.complete i true,
                             pending := s.pending ++ [(i, true)],
                             everVerified := i :: s.everVerified }
    | _ => s
  | .hashFail _ => s
  | .evict i =>
    match s.complete[i]? with
    | some true => { s with complete := setComplete s.complete i false,
                            pending := s.pending ++ [(i, false)] }
    | _ => s
  | .handleHave k =>
    match s.pending[k]? with
    | none => s
    | some (i, h) => { s with rs := torHave s.rs i h, pending := s.pending.eraseIdx k }
  | .idleAdd i => { s with rs := (add s.rs i idlePriority false).1 }
  | .delIdle => { s with rs := delIdle s.rs }

def Sys.run (s : Sys) (steps : List Step) : Sys := steps.foldl Sys.step s

/-- the events the loop handles that are none of the consumers' business.  In the code the
    only statement of their handlers that touches `Torrent.requested` is `DelIdle()`
    (`TorSetConf` always; `periodicRequest` — reached from `TorSetConf`, `TorPeerUnchoke`, the
    request ticker and `TorRequest` through `maybeRequest` — whenever a client priority is
    pending); `prunes` says whether it runs. -/
inductive Bystander where
  | setConf (dhtMode : Nat) (useTrackers useWebseeds : Bool)
  | peerHave (i : Nat) (have_ : Bool)
  | peerBitmap (have_ : Bool)
  | peerUnchoke (prunes : Bool)
  | peerInterested
  | peerGoaway
  | addPeer
  | announce (ipv6 : Bool)
  | getter
  | dropPeer
  | tick (prunes : Bool)
  deriving Repr, DecidableEq

/-- one run of `pickIdlePieces`: the pieces the picker chose, in order; every loop of the code
    stops at / skips complete pieces (`if t.Pieces.Complete(pn) { break }`, `!Complete(i)` for
    the Fast set), which is the guard here; which pieces and how many is the scheduler's
    choice (an input) -/
def Sys.idlePick (s : Sys) (picked : List Nat) : Sys :=
  picked.foldl (fun s i => if s.complete[i]? = some false then s.step (.idleAdd i) else s) s

def Bystander.prunes : Bystander → Bool
  | .setConf _ _ _ => true
  | .peerUnchoke p => p
  | .tick p => p
  | _ => false

def Sys.bystander (s : Sys) (b : Bystander) : Sys :=
  if b.prunes then s.step .delIdle else s

/-! ### canonical printing (driver) -/

def insertSorted (x : Nat × Entry) : PMap → PMap
  | [] => [x]
  | y :: r => if x.1 ≤ y.1 then x :: y :: r else y :: insertSorted x r

def sortMap (m : PMap) : PMap := m.foldr insertSorted []

def showInt (i : Int) : String := if i < 0 then s!"-{(-i).toNat}" else s!"{i.toNat}"

def showEntry (ke : Nat × Entry) : String :=
  let ps := ",".intercalate (ke.2.prio.map showInt)
  let d := match ke.2.done with | none => "-" | some c => s!"c{c}"
  s!"{ke.1}:[{ps}]:{d}"

def showMap (m : PMap) : String :=
  if m.isEmpty then "{}" else "{" ++ " ".intercalate ((sortMap m).map showEntry) ++ "}"

def closedList (s : RS) : List Nat :=
  (List.range s.chans.length).filter (fun c => isClosed s c)

def showClosed (s : RS) : String :=
  "[" ++ ",".intercalate ((closedList s).map toString) ++ "]"

end Storrent.Requested
