import Storrent.Util
/-
C18: shape of the privacy-gate table regenerated from tor/*.go and peer/peer.go on every run
(Gen/PrivacyGates.lean): one row per outbound call site / per read of the listening port,
client version or IPv6 address, with the conditions that dominate it syntactically.
-/
namespace Storrent.Privacy

structure Gate where
  fn    : String        -- enclosing function
  site  : String        -- callee / literal type
  args  : String        -- arguments (or the Version/Port/IPv6 fields of the literal)
  conds : List String   -- dominating conditions, outermost first
  deriving Repr, DecidableEq

/-- The gates of the source, in source order.  Canonical form: a local defined once by a
    side-effect-free expression (nothing effectful between definition and use) is replaced by that
    expression in conditions and recorded arguments; the negation of `!x` is written `x`; reviewed by hand against tor/tor.go,
    tor/initial.go, tor/torrents.go and peer/peer.go. -/
def expectedGates : List Gate := [
  ⟨"tor.Torrent.announce", "config.ExternalPort", "false, ipv6", ["!(t.dhtMode <= config.DhtNone)", "!t.hasProxy() && t.dhtMode >= config.DhtNormal"]⟩,
  ⟨"tor.Torrent.announce", "dht.Announce", "t.Hash, ipv6, port", ["!(t.dhtMode <= config.DhtNone)"]⟩,
  ⟨"tor.AddTorrent", "t.announce", "true", ["added"]⟩,
  ⟨"tor.AddTorrent", "t.announce", "false", ["added"]⟩,
  ⟨"tor.Torrent.run", "t.announce", "true", ["case <-slowTicker.C", "time.Since(t.announceTime) > 28*time.Minute"]⟩,
  ⟨"tor.Torrent.run", "t.announce", "false", ["case <-slowTicker.C", "time.Since(t.announceTime) > 28*time.Minute"]⟩,
  ⟨"tor.Torrent.run", "trackerAnnounce", "ctx, t", ["case <-slowTicker.C", "t.useTrackers"]⟩,
  ⟨"tor.handleEvent", "t.announce", "c.IPv6", ["case peer.TorAnnounce"]⟩,
  ⟨"tor.handleEvent", "t.announce", "true", ["case peer.TorSetConf", "announce"]⟩,
  ⟨"tor.handleEvent", "t.announce", "false", ["case peer.TorSetConf", "announce"]⟩,
  ⟨"tor.periodicRequest", "maybeWebseed", "ctx, t, u, prio <= IdlePriority", ["!(t.infoComplete == 0)", "!(len(chunks) == 0 && len(unavailable) == 0)", "hasWebseeds(t)"]⟩,
  ⟨"tor.periodicRequest", "maybeWebseed", "ctx, t, c.index / cpp, c.prio <= IdlePriority", ["!(t.infoComplete == 0)", "!(len(chunks) == 0 && len(unavailable) == 0)", "!webseedDone && hasWebseeds(t)", "inFlight(t, c.index) == 0"]⟩,
  ⟨"tor.maybeWebseed", "webseedGR", "ctx, ws, t, index, o, l", ["hasWebseeds(t)", "!(ws == nil)", "case *webseed.GetRight"]⟩,
  ⟨"tor.maybeWebseed", "webseedH", "ctx, ws, t, index, o, l", ["hasWebseeds(t)", "!(ws == nil)", "case *webseed.Hoffman"]⟩,
  ⟨"tor.webseedGR", "ws.Get", "ctx, t.proxy, t.Name, fc.path, fc.filelength, fc.offset, fc.length, writer", ["!(fc.pad)"]⟩,
  ⟨"tor.webseedH", "ws.Get", "ctx, t.proxy, t.Hash, index, offset, length, w", []⟩,
  ⟨"tor.trackerAnnounce", "trackerAnnounceSingle", "ctx, t, tr", ["state == tracker.Ready"]⟩,
  ⟨"tor.trackerAnnounceSingle", "config.ExternalPort", "true, false", ["!t.hasProxy()"]⟩,
  ⟨"tor.trackerAnnounceSingle", "config.ExternalPort", "true, true", ["!t.hasProxy()"]⟩,
  ⟨"tor.trackerAnnounceSingle", "tr.Announce", "ctx, t.Hash, t.MyId, want, length, port4, port6, t.proxy, func", []⟩,
  ⟨"tor.Server", "protocol.ServerHandshake", "conn, infoHashes(false), cryptoOptions", ["!(!ok || !addr.IP.IsGlobalUnicast())", "!(ip == nil)"]⟩,
  ⟨"tor.Server", "infoHashes", "false", ["!(!ok || !addr.IP.IsGlobalUnicast())", "!(ip == nil)"]⟩,
  ⟨"tor.Server", "t.NewPeer", "t.proxy, conn, netip.AddrPortFrom(ipp, 0), true, result, init", ["!(!ok || !addr.IP.IsGlobalUnicast())", "!(ip == nil)", "!(err != nil)", "!(t == nil)", "!(result.Id.Equal(t.MyId))", "!(t.hasProxy())", "!(err != nil)", "!(q != nil)", "ok"]⟩,
  ⟨"tor.Client", "t.NewPeer", "proxy, conn, addr, false, result, init", ["!(err != nil)", "!(stats.NumPeers >= config.MaxPeersPerTorrent)", "!(err != nil)", "!(err != nil)", "!(result.Id.Equal(t.MyId))", "!(q != nil)"]⟩,
  ⟨"tor.infoHashes", "append", "pairs, hash.HashPair{h, t.MyId}", ["all || !t.hasProxy()"]⟩,
  ⟨"peer.Run", "protocol.Port", "", ["peer.canDHT && !hasProxy(peer)"]⟩,
  ⟨"peer.Run", "config.ExternalPort", "false, peer.IP.Is6()", ["peer.canDHT && !hasProxy(peer)"]⟩,
  ⟨"peer.Run", "version-string", "\"STorrent 0.0\"", ["peer.canExtended", "!hasProxy(peer)"]⟩,
  ⟨"peer.Run", "config.ExternalPort", "true, peer.IP.Is6()", ["peer.canExtended", "!hasProxy(peer)"]⟩,
  ⟨"peer.Run", "getIPv6", "", ["peer.canExtended", "!hasProxy(peer)"]⟩,
  ⟨"peer.Run", "protocol.Extended0", "Version=version, Port=port, IPv6=ipv6", ["peer.canExtended"]⟩,
  ⟨"peer.handleMessage", "dht.Ping", "netip.AddrPortFrom(peer.IP, uint16(peer.Port))", ["case protocol.Port", "peer.Port > 0"]⟩ ]

def expectedHasWebseeds : String := "t.useWebseeds && len(t.webseeds) > 0"
def expectedHasProxy : String := "t.proxy != \"\""
def expectedPeerHasProxy : String := "peer.proxy != \"\""

/-- how each outbound site chooses between a direct connection and the proxy (source order);
    reviewed by hand against httpclient/httpclient.go, tor/initial.go, tor/torfile.go,
    tracker/udp.go, tracker/http.go, webseed/getright.go, webseed/hoffman.go -/
def expectedProxyRoutes : List Gate := [
  ⟨"httpclient.Get", "url.Parse", "proxy", ["!(ok)", "!(proxy == \"\")"]⟩,
  ⟨"httpclient.Get", "dialer.DialContext", "ctx, n, a", ["!(ok)"]⟩,
  ⟨"httpclient.Get", "Transport.Proxy return", "nil, nil", ["proxy == \"\""]⟩,
  ⟨"httpclient.Get", "Transport.Proxy return", "url.Parse(proxy)", ["!(proxy == \"\")"]⟩,
  ⟨"tor.DialClient", "dialer.DialContext", "ctx, \"tcp\", addr.String()", ["addr.Addr().IsGlobalUnicast()", "!(port == 0 || port == 1 || port == 22 || port == 25)", "t.proxy == \"\""]⟩,
  ⟨"tor.DialClient", "url.Parse", "t.proxy", ["addr.Addr().IsGlobalUnicast()", "!(port == 0 || port == 1 || port == 22 || port == 25)", "!(t.proxy == \"\")"]⟩,
  ⟨"tor.DialClient", "proxy.FromURL", "u, proxy.Direct", ["addr.Addr().IsGlobalUnicast()", "!(port == 0 || port == 1 || port == 22 || port == 25)", "!(t.proxy == \"\")", "!(err != nil)"]⟩,
  ⟨"tor.DialClient", "d.DialContext", "ctx2, \"tcp\", addr.String()", ["addr.Addr().IsGlobalUnicast()", "!(port == 0 || port == 1 || port == 22 || port == 25)", "!(t.proxy == \"\")", "!(err != nil)", "!(err != nil)", "ok"]⟩,
  ⟨"tor.GetTorrent", "nurl.Parse", "url", []⟩,
  ⟨"tor.GetTorrent", "httpclient.Get", "\"\", proxy", ["!(err != nil)", "!(err != nil)"]⟩,
  ⟨"tracker.announceUDP", "dialer.DialContext", "ctx, prot, net.JoinHostPort(url.Hostname(), url.Port())", ["prox == \"\""]⟩,
  ⟨"tracker.announceUDP", "url.Parse", "prox", ["!(prox == \"\")"]⟩,
  ⟨"tracker.announceUDP", "proxy.FromURL", "u, proxy.Direct", ["!(prox == \"\")", "!(err != nil)"]⟩,
  ⟨"tracker.announceUDP", "dialer.Dial", "prot, net.JoinHostPort(url.Hostname(), url.Port())", ["!(prox == \"\")", "!(err != nil)", "!(err != nil)"]⟩,
  ⟨"tracker.announceHTTP", "nurl.Parse", "tracker.url", []⟩,
  ⟨"tracker.announceHTTP", "httpclient.Get", "protocol, proxy", ["!(err != nil)", "!(err != nil)"]⟩,
  ⟨"webseed.GetRight.Get", "httpclient.Get", "\"\", proxy", ["!(err != nil)"]⟩,
  ⟨"webseed.Hoffman.Get", "nurl.Parse", "ws.url", []⟩,
  ⟨"webseed.Hoffman.Get", "httpclient.Get", "\"\", proxy", ["!(err != nil)", "!(err != nil)"]⟩ ]

end Storrent.Privacy
