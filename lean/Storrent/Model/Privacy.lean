import Storrent.Model.PrivacyTable
/-
C18 model: the per-torrent privacy settings, the steps that can produce outbound actions,
and the outbound actions as observations.  Every decision "is this call site reached" is
taken by evaluating the dominating conditions of that call site in the gate table
(regenerated from the source); the rest of a step is a transcription of the Go control flow.
-/
namespace Storrent.Privacy

inductive DhtMode where
  | none | passive | normal
  deriving Repr, DecidableEq

def DhtMode.toNat : DhtMode → Nat
  | .none => 0 | .passive => 1 | .normal => 2

def DhtMode.fromNat : Nat → DhtMode
  | 0 => .none | 1 => .passive | _ => .normal

structure Conf where
  useTrackers : Bool
  useWebseeds : Bool
  dht         : DhtMode
  deriving Repr, DecidableEq

/-- what does not change during a torrent's life -/
structure Fixed where
  proxy : Bool     -- t.proxy != ""
  hasWs : Bool     -- len(t.webseeds) > 0
  deriving Repr, DecidableEq

/-- config.ExternalPort's values -/
structure Ports where
  udp4 : Nat
  tcp4 : Nat
  proto : Nat
  deriving Repr, DecidableEq

def Ports.external (g : Ports) (tcp ipv6 : Bool) : Nat :=
  if ipv6 then g.proto else if tcp then g.tcp4 else g.udp4

/-- everything a dominating condition may talk about -/
structure Env where
  conf     : Conf
  fx       : Fixed
  canDHT   : Bool := false   -- peer.canDHT
  canExt   : Bool := false   -- peer.canExtended
  announce : Bool := false   -- TorSetConf's local `announce`
  stale    : Bool := false   -- time.Since(t.announceTime) > 28 min
  all      : Bool := false   -- infoHashes' parameter

def hasWebseeds (e : Env) : Bool := e.conf.useWebseeds && e.fx.hasWs

/-- Evaluate one dominating condition as written in the source.  Conditions that mention no
    privacy setting describe the path taken (error checks, readiness, case labels): true. -/
def evalCond (e : Env) (c : String) : Bool :=
  if c == "!(t.dhtMode <= config.DhtNone)" then e.conf.dht != .none
  else if c == "!t.hasProxy() && t.dhtMode >= config.DhtNormal" then !e.fx.proxy && e.conf.dht == .normal
  else if c == "t.useTrackers" then e.conf.useTrackers
  else if c == "hasWebseeds(t)" then hasWebseeds e
  else if c == "!(!hasWebseeds(t))" then hasWebseeds e
  else if c == "!webseedDone && hasWebseeds(t)" then hasWebseeds e
  else if c == "!t.hasProxy()" then !e.fx.proxy
  else if c == "!(t.hasProxy())" then !e.fx.proxy
  else if c == "!hasProxy(peer)" then !e.fx.proxy
  else if c == "peer.canDHT && !hasProxy(peer)" then e.canDHT && !e.fx.proxy
  else if c == "peer.canExtended" then e.canExt
  else if c == "announce" then e.announce
  else if c == "time.Since(t.announceTime) > 28*time.Minute" then e.stale
  else if c == "all || !t.hasProxy()" then e.all || !e.fx.proxy
  else true

/-- is the call site (fn, site, args) reached?  Unknown call site: never (fail-closed). -/
def gate (tbl : List Gate) (e : Env) (fn site args : String) : Bool :=
  match tbl.find? (fun g => g.fn == fn && g.site == site && g.args == args) with
  | some g => g.conds.all (evalCond e)
  | none => false

inductive Obs where
  | dht (ipv6 : Bool) (port : Nat)
  | tracker (port4 port6 : Nat)
  | fetch
  | portMsg (port : Nat)
  | ext0 (version : Bool) (port : Nat) (ipv6 : Bool)
  | offer     -- the hash is in the list given to ServerHandshake
  | accept    -- tor.Server hands the connection to NewPeer
  deriving Repr, DecidableEq

inductive Step where
  | add                                      -- AddTorrent
  | announce (ipv6 : Bool)                   -- TorAnnounce
  | setConf (c : Conf) (k : Nat)             -- TorSetConf; k = fetches the scheduler would start
  | slowTick (stale ready : Bool)            -- run()'s slow tick; ready = some tracker is Ready
  | reqTick (k : Nat)                        -- periodicRequest / maybeWebseed; k as above
  | peerStart (dht ext v6 : Bool)            -- peer.Run's prologue; v6 = getIPv6() finds an address
  | incoming                                 -- tor.Server for this torrent's hash
  deriving Repr, DecidableEq

/-- `Torrent.announce(ipv6)` -/
def announceObs (tbl : List Gate) (g : Ports) (e : Env) (ipv6 : Bool) : List Obs :=
  if gate tbl e "tor.Torrent.announce" "dht.Announce" "t.Hash, ipv6, port" then
    [.dht ipv6 (if gate tbl e "tor.Torrent.announce" "config.ExternalPort" "false, ipv6"
                then g.external false ipv6 else 0)]
  else []

/-- web-seed fetches started by one pass of the scheduler: k if the call sites are reached -/
def fetchObs (tbl : List Gate) (e : Env) (k : Nat) : List Obs :=
  if gate tbl e "tor.maybeWebseed" "webseedGR" "ctx, ws, t, index, o, l"
     && gate tbl e "tor.maybeWebseed" "webseedH" "ctx, ws, t, index, o, l"
  then List.replicate k .fetch else []

def trackerObs (tbl : List Gate) (g : Ports) (e : Env) (ready : Bool) : List Obs :=
  if gate tbl e "tor.Torrent.run" "trackerAnnounce" "ctx, t" && ready then
    [.tracker
      (if gate tbl e "tor.trackerAnnounceSingle" "config.ExternalPort" "true, false" then g.external true false else 0)
      (if gate tbl e "tor.trackerAnnounceSingle" "config.ExternalPort" "true, true" then g.external true true else 0)]
  else []

/-- one step: the new settings and the observations, each with the settings in force when
    the action started -/
def step (tbl : List Gate) (g : Ports) (fx : Fixed) (c : Conf) : Step → Conf × List (Conf × Obs)
  | .add =>
    let e : Env := { conf := c, fx := fx }
    (c, (announceObs tbl g e true ++ announceObs tbl g e false).map (fun o => (c, o)))
  | .announce v6 =>
    let e : Env := { conf := c, fx := fx }
    (c, (announceObs tbl g e v6).map (fun o => (c, o)))
  | .setConf nc k =>
    -- announce := t.dhtMode < c.Conf.DhtMode; settings assigned; then the announces, then maybeRequest
    let e : Env := { conf := nc, fx := fx, announce := decide (c.dht.toNat < nc.dht.toNat) }
    let a :=
      (if gate tbl e "tor.handleEvent" "t.announce" "true" then announceObs tbl g e true else []) ++
      (if gate tbl e "tor.handleEvent" "t.announce" "false" then announceObs tbl g e false else [])
    (nc, (a ++ fetchObs tbl e k).map (fun o => (nc, o)))
  | .slowTick stale ready =>
    let e : Env := { conf := c, fx := fx, stale := stale }
    let a :=
      (if gate tbl e "tor.Torrent.run" "t.announce" "true" then announceObs tbl g e true else []) ++
      (if gate tbl e "tor.Torrent.run" "t.announce" "false" then announceObs tbl g e false else [])
    (c, (a ++ trackerObs tbl g e ready).map (fun o => (c, o)))
  | .reqTick k =>
    let e : Env := { conf := c, fx := fx }
    (c, (fetchObs tbl e k).map (fun o => (c, o)))
  | .peerStart dht ext v6 =>
    let e : Env := { conf := c, fx := fx, canDHT := dht, canExt := ext }
    let p := if gate tbl e "peer.Run" "protocol.Port" "" &&
                gate tbl e "peer.Run" "config.ExternalPort" "false, peer.IP.Is6()"
             then [Obs.portMsg (g.external false false)] else []
    let x := if gate tbl e "peer.Run" "protocol.Extended0" "Version=version, Port=port, IPv6=ipv6" then
               [Obs.ext0 (gate tbl e "peer.Run" "version-string" "\"STorrent 0.0\"")
                  (if gate tbl e "peer.Run" "config.ExternalPort" "true, peer.IP.Is6()" then g.external true false else 0)
                  (gate tbl e "peer.Run" "getIPv6" "" && v6)]
             else []
    (c, (p ++ x).map (fun o => (c, o)))
  | .incoming =>
    let e : Env := { conf := c, fx := fx, all := false }
    let offered := gate tbl e "tor.infoHashes" "append" "pairs, hash.HashPair{h, t.MyId}"
    let accepted := offered &&
      gate tbl e "tor.Server" "t.NewPeer" "t.proxy, conn, netip.AddrPortFrom(ipp, 0), true, result, init"
    (c, ((if offered then [Obs.offer] else []) ++ (if accepted then [Obs.accept] else [])).map (fun o => (c, o)))

def trace (tbl : List Gate) (g : Ports) (fx : Fixed) : Conf → List Step → List (Conf × Obs)
  | _, [] => []
  | c, s :: ss => let (c', os) := step tbl g fx c s; os ++ trace tbl g fx c' ss

/-- the property: is this outbound action allowed under these settings? -/
def permitted (fx : Fixed) (c : Conf) : Obs → Prop
  | .dht _ port => c.dht ≠ .none ∧ (port ≠ 0 → c.dht = .normal ∧ fx.proxy = false)
  | .tracker p4 p6 => c.useTrackers = true ∧ (fx.proxy = true → p4 = 0 ∧ p6 = 0)
  | .fetch => c.useWebseeds = true ∧ fx.hasWs = true
  | .portMsg _ => fx.proxy = false
  | .ext0 v p i => fx.proxy = true → v = false ∧ p = 0 ∧ i = false
  | .offer => fx.proxy = false
  | .accept => fx.proxy = false

/-! ### histories with the window between a decision and its send

Tracker announces and web-seed fetches are carried out by goroutines launched by the step
that decided on them (`go trackerAnnounceSingle`, `go webseedGR/H`): the contact with the
outside happens later, possibly after further SetConf.  A history interleaves steps with
deliveries of pending actions in any order. -/

def Obs.async : Obs → Bool
  | .tracker _ _ | .fetch => true
  | _ => false

structure HSt where
  conf    : Conf
  pending : List (Conf × Obs)   -- decided, not yet sent; tagged with the settings at decision time
  deriving Repr, DecidableEq

inductive HStep where
  | act (s : Step)
  | deliver (i : Nat)           -- the i-th pending action reaches the outside
  deriving Repr, DecidableEq

structure Event where
  decided : Conf    -- settings in force when the action was decided / started
  arrived : Conf    -- settings in force when it reached the outside
  obs     : Obs
  deriving Repr, DecidableEq

def hstep (tbl : List Gate) (g : Ports) (fx : Fixed) (h : HSt) : HStep → HSt × List Event
  | .act s =>
    let r := step tbl g fx h.conf s
    ({ conf := r.1, pending := h.pending ++ r.2.filter (fun x => x.2.async) },
     (r.2.filter (fun x => !x.2.async)).map (fun x => ⟨x.1, x.1, x.2⟩))
  | .deliver i =>
    match h.pending[i]? with
    | some p => ({ h with pending := h.pending.eraseIdx i }, [⟨p.1, h.conf, p.2⟩])
    | none => (h, [])

def history (tbl : List Gate) (g : Ports) (fx : Fixed) : HSt → List HStep → List Event
  | _, [] => []
  | h, s :: ss => let r := hstep tbl g fx h s; r.2 ++ history tbl g fx r.1 ss

/-- the part of `permitted` that does not depend on the (changeable) settings -/
def permittedFixed (fx : Fixed) : Obs → Prop
  | .dht _ port => port ≠ 0 → fx.proxy = false
  | .tracker p4 p6 => fx.proxy = true → p4 = 0 ∧ p6 = 0
  | .fetch => fx.hasWs = true
  | .portMsg _ => fx.proxy = false
  | .ext0 v p i => fx.proxy = true → v = false ∧ p = 0 ∧ i = false
  | .offer => fx.proxy = false
  | .accept => fx.proxy = false

/-! ### direct or through the proxy: decided on the SETTING, never on how it parses -/

inductive ProxySetting where
  | empty        -- ""
  | wellFormed   -- a URL url.Parse and the dialers accept
  | malformed    -- anything else that is not the empty string
  deriving Repr, DecidableEq

/-- conditions on the proxy setting; anything else (error checks …) is unknown: may hold -/
def evalRouteCond (p : ProxySetting) (c : String) : Option Bool :=
  if c == "proxy == \"\"" || c == "t.proxy == \"\"" || c == "prox == \"\"" then some (p == .empty)
  else if c == "!(proxy == \"\")" || c == "!(t.proxy == \"\")" || c == "!(prox == \"\")" then
    some (p != .empty)
  else none

/-- sites that connect (or make net/http connect) WITHOUT the proxy -/
def isDirectSite (r : Gate) : Bool :=
  r.site == "Transport.Proxy"   -- not a function literal we can read: fail-closed
  || (r.site == "Transport.Proxy return" && r.args == "nil, nil")
  || (r.site == "dialer.DialContext" && r.fn != "httpclient.Get")
  || r.site == "net.Dial" || r.site == "net.DialTimeout" || r.site == "net.DialUDP"
  || r.site == "net.DialTCP" || r.site == "net.DialIP" || r.site == "http.ProxyFromEnvironment"
  || r.site == "http.ProxyURL" || r.site == "missing"

/-- can some direct site be reached under this setting (unknown conditions assumed true)? -/
def directReachable (tbl : List Gate) (p : ProxySetting) : Bool :=
  tbl.any (fun r => isDirectSite r && r.conds.all (fun c => evalRouteCond p c != some false))

end Storrent.Privacy
