import Storrent.Model.Bitmap
/-
Model of /repo/tor/piece/piece.go (`piece.Pieces`) + /repo/alloc/alloc_unix.go as a state
machine whose atomic steps are the critical sections of piece.go (DESIGN §5 C01/C03).

* one `Step` = one stretch of code executed with `ps.mu` held (or one atomic load/store),
  so "all interleavings of the goroutines" = "all lists of steps" (`run`);
* `Finalise` is split at the two places where it releases the lock:
  `finBegin` (checks, 0→busy, slice handed to the hasher), `hashRead` (sha1.Sum reads the
  buffer with the lock released — a ghost check), `finEnd` (compare, busy→complete or
  busy→0 + del(force));
* `del i force` is one call of `del()`; when `force` and the piece is busy the real code
  releases the lock and polls — the step is then *blocked* (a no-op to be retried).  The
  model is that of the REPAIRED code: after the wait `del` starts over (re-tests `data ==
  nil`); `delResumeOrig` is the continuation of the code as found (no re-test), kept only
  to state the defect (Props/C03);
* `Pieces.Del` = `latch` followed by `del i true` for i = 0..n-1 (repaired order; the code
  as found latched after the loop), `Pieces.Expire` = a sequence of `del i false`; their
  thread-local parts (program counter, `todo`, visiting order) live in Model/PieceThreads;
* SHA-1 is the parameter `H`; `config.ChunkSize` is the field `cs` of the geometry (16384
  in the code) so that small concrete witnesses exist;
* ghost state: `allocated` (net effect of this store on `alloc.allocated`), buffer ids
  (`nextBuf`, the id stored with each buffer), `freed` (ids passed to `alloc.Free`),
  `hashing` (what the hasher was handed), `vhash` (the digest a complete piece matched).

Go faults are explicit: `Obs.panic`.  Integers: offsets/lengths are `Nat` (all `uint32`
quantities stay below the piece length; `pl - offset` never wraps because `offset ≤ pl`,
proved in Props/C01); `ReadAt`'s `off` is an `Int` with Go's truncated division.
-/
namespace Storrent.Piece
open Storrent Storrent.Bitmap

structure Geom where
  ps : Nat       -- pieceSize
  length : Nat   -- total length in bytes
  cs : Nat       -- config.ChunkSize
deriving Repr, DecidableEq

/-- `MetadataComplete`: `(length + int64(psize-1)) / int64(psize)` pieces -/
def Geom.numPieces (g : Geom) : Nat := (g.length + (g.ps - 1)) / g.ps

/-- `PieceLength(index)` -/
def Geom.pieceLength (g : Geom) (i : Nat) : Nat :=
  let last := g.length / g.ps
  if i < last then g.ps else if i = last then g.length % g.ps else 0

/-- `pieceChunks(index)` -/
def Geom.pieceChunks (g : Geom) (i : Nat) : Nat := (g.pieceLength i + g.cs - 1) / g.cs

inductive PState | incomplete | busy | complete
deriving DecidableEq, Repr

structure Piece where
  data : Option (Nat × Bytes) := none     -- (ghost buffer id, contents); none = nil
  bitmap : Bitmap := []
  state : PState := .incomplete
  time : Nat := 0
  peers : List Nat := []
  hashing : Option (Nat × Bytes) := none  -- ghost: slice handed to sha1.Sum by Finalise
  vhash : Bytes := []                     -- ghost: digest the piece was verified against
deriving Repr, DecidableEq

structure State where
  pieces : List Piece
  deleted : Bool := false
  count : Int := 0
  allocated : Int := 0      -- ghost: Σ Alloc − Σ Free done by this store
  freed : List Nat := []    -- ghost: buffer ids passed to alloc.Free
  nextBuf : Nat := 0        -- ghost: next fresh buffer id
deriving Repr, DecidableEq

def init (g : Geom) : State := { pieces := List.replicate g.numPieces {} }

inductive Err | ok | deleted | odd | beyond | mismatch | nomem
deriving DecidableEq, Repr

inductive Obs
  | panic (why : String)
  | disabled                                       -- no thread can be at this point
  | add (count : Nat) (complete : Bool) (e : Err)  -- AddData returned
  | finRet (done : Bool) (peers : List Nat) (e : Err)  -- Finalise returned
  | finHash                                        -- Finalise released the lock to hash
  | hashed (sound : Bool)                          -- the hasher read a live, unchanged buffer
  | del (done complete blocked : Bool)             -- del() returned / is waiting
  | unit
  | read (bytes : Bytes) (eof : Bool)
  | hole (a b : Nat)
  | upd (complete : Bool)
deriving DecidableEq, Repr

inductive Step
  | addData (i begin : Nat) (blk : Bytes) (peer : Nat) (allocOk : Bool)  -- allocOk: outcome of alloc.Alloc, if called
  | finBegin (i : Nat)
  | hashRead (i : Nat)
  | finEnd (i : Nat) (h : Bytes)
  | del (i : Nat) (force : Bool)   -- Expire's visit = del i false; Del's = del i true
  | latch
  | readAt (off : Int) (n : Nat)
  | hole (i off : Nat)
  | updateTime (i now : Nat)
  | setTime (i t : Nat)
deriving Repr, DecidableEq

def setP (s : State) (i : Nat) (p : Piece) : State := { s with pieces := s.pieces.set i p }

/-- `copy(dst[off:], src)` -/
def writeAt (d : Bytes) (off : Nat) (blk : Bytes) : Bytes :=
  let k := min (d.length - off) blk.length
  d.take off ++ blk.take k ++ d.drop (off + k)

/-- the block loop of `AddData`; arguments after the fuel: offset, count, buffer, bitmap,
    added.  Returns (count, buffer, bitmap, added). -/
def addLoop (cs pl : Nat) (inp : Bytes) :
    Nat → Nat → Nat → Bytes → Bitmap → Bool → Nat × Bytes × Bitmap × Bool
  | 0, _, count, d, bm, added => (count, d, bm, added)
  | fuel + 1, offset, count, d, bm, added =>
    if count < inp.length then
      let c := offset / cs
      let l := min (pl - offset) cs
      if l = 0 ∨ inp.length < count + l then (count, d, bm, added)
      else
        let w := !(get bm c)
        let d' := if w then writeAt d offset ((inp.drop count).take l) else d
        let bm' := if w then set bm c else bm
        let added' := w || added
        if l % cs ≠ 0 then (count + l, d', bm', added')
        else addLoop cs pl inp fuel (offset + l) (count + l) d' bm' added'
    else (count, d, bm, added)

/-- `Piece.addPeer` -/
def addPeer (peers : List Nat) (peer : Nat) : List Nat :=
  if peer = 0 then peers else if peers.contains peer then peers else peers ++ [peer]

/-- `^uint32(0)` -/
def max32 : Nat := 4294967295

/-- `Pieces.AddData` from `ps.mu.Lock()` on (the unlocked pre-test is re-done under the
    lock, so it is this same step taken in a busy/complete state). -/
def addData (g : Geom) (s : State) (i begin : Nat) (inp : Bytes) (peer : Nat) : State × Obs :=
  match s.pieces[i]? with
  | none => (s, .panic "index out of range")
  | some p =>
    if p.state ≠ .incomplete then (s, .add 0 false .ok)
    else if s.deleted then (s, .add 0 false .deleted)
    else
      let pl := g.pieceLength i
      if begin % g.cs ≠ 0 then (s, .add 0 false .odd)
      else if begin ≥ pl then (s, .add 0 false .beyond)
      else
        -- alloc.Alloc(int(pl)) on first use; ps.count++
        let buf : Nat × Bytes := match p.data with
          | some b => b
          | none => (s.nextBuf, List.replicate pl 0)
        let s1 : State := match p.data with
          | some _ => s
          | none => { s with count := s.count + 1, allocated := s.allocated + pl,
                             nextBuf := s.nextBuf + 1 }
        let r := addLoop g.cs pl inp (inp.length + 1) begin 0 buf.2 p.bitmap false
        let peers' := if r.2.2.2 && peer ≠ max32 then addPeer p.peers peer else p.peers
        let p' := { p with data := some (buf.1, r.2.1), bitmap := r.2.2.1, peers := peers' }
        (setP s1 i p', .add r.1 (all r.2.2.1 (g.pieceChunks i)) .ok)

/-- does this `AddData` reach `alloc.Alloc` (every test passed, the piece has no buffer yet)? -/
def allocNeeded (g : Geom) (s : State) (i begin : Nat) : Bool :=
  match s.pieces[i]? with
  | none => false
  | some p =>
    decide (p.state = .incomplete) && !s.deleted && decide (begin % g.cs = 0) &&
      decide (begin < g.pieceLength i) && p.data.isNone

/-- `AddData` with the outcome of `alloc.Alloc` as an input (the environment decides whether
    mmap succeeds): when the allocation is needed and fails, the error is returned and NOTHING
    has changed (`count++` and the assignment of the buffer come after the error test). -/
def addDataA (g : Geom) (s : State) (i begin : Nat) (inp : Bytes) (peer : Nat) (allocOk : Bool) :
    State × Obs :=
  if !allocOk && allocNeeded g s i begin then (s, .add 0 false .nomem)
  else addData g s i begin inp peer

/-- `Pieces.Finalise` from the first `Lock` to the first `Unlock` -/
def finBegin (g : Geom) (s : State) (i : Nat) : State × Obs :=
  match s.pieces[i]? with
  | none => (s, .panic "index out of range")
  | some p =>
    if p.state ≠ .incomplete then (s, .finRet false [] .ok)
    else if s.deleted then (s, .finRet false [] .deleted)
    else if count p.bitmap ≠ g.pieceChunks i then (s, .finRet false [] .ok)
    else (setP s i { p with state := .busy, hashing := p.data }, .finHash)

/-- `sha1.Sum(data)` with the lock released: reads the slice taken at `finBegin`.
    `sound = false` iff that buffer has been freed or differs from what was handed over. -/
def hashRead (s : State) (i : Nat) : State × Obs :=
  match s.pieces[i]? with
  | none => (s, .panic "index out of range")
  | some p =>
    if p.state ≠ .busy then (s, .disabled)
    else match p.hashing with
      | none => (s, .hashed true)
      | some (id, d) => (s, .hashed (decide (id ∉ s.freed) && decide (p.data = some (id, d))))

/-- one call of `del(p, force)` with the lock held (repaired code: the nil test is part of
    every attempt).  `blocked` = the caller must wait (lock released) and try again. -/
def del (s : State) (i : Nat) (force : Bool) : State × Obs :=
  match s.pieces[i]? with
  | none => (s, .panic "index out of range")
  | some p =>
    match p.data with
    | none => (s, .del false false false)
    | some (id, d) =>
      if p.state = .busy then (s, .del false false force)
      else if id ∈ s.freed then (s, .panic "double free")
      else
        let p' := { p with data := none, peers := [], bitmap := [], state := .incomplete }
        let s1 := { s with pieces := s.pieces.set i p', count := s.count - 1,
                           allocated := s.allocated - d.length, freed := id :: s.freed }
        if s1.count < 0 then (s1, .panic "Negative pieces count")
        else (s1, .del true (decide (p.state = .complete)) false)

/-- the code AS FOUND: what `del(p, true)` did after its wait loop — no `data == nil`
    re-test: `alloc.Free(nil)` is harmless but `ps.count--` runs again. -/
def delResumeOrig (s : State) (i : Nat) : State × Obs :=
  match s.pieces[i]? with
  | none => (s, .panic "index out of range")
  | some p =>
    if p.state = .busy then (s, .del false false true)
    else
      let dlen : Nat := match p.data with | some (_, d) => d.length | none => 0
      let fr := match p.data with | some (id, _) => id :: s.freed | none => s.freed
      let p' := { p with data := none, peers := [], bitmap := [], state := .incomplete }
      let s1 := { s with pieces := s.pieces.set i p', count := s.count - 1,
                         allocated := s.allocated - dlen, freed := fr }
      if s1.count < 0 then (s1, .panic "Negative pieces count")
      else (s1, .del true (decide (p.state = .complete)) false)

/-- `Pieces.Finalise` from the second `Lock` to the end -/
def finEnd (H : Bytes → Bytes) (s : State) (i : Nat) (h : Bytes) : State × Obs :=
  match s.pieces[i]? with
  | none => (s, .panic "index out of range")
  | some p =>
    if p.state ≠ .busy then (s, .disabled)
    else
      let snap : Bytes := match p.hashing with | some (_, d) => d | none => []
      if H snap ≠ h then
        let p0 := { p with peers := [], state := .incomplete, hashing := none }
        match del (setP s i p0) i true with
        | (s', .panic w) => (s', .panic w)
        | (s', _) => (s', .finRet false p.peers .mismatch)
      else
        (setP s i { p with peers := [], state := .complete, hashing := none, vhash := h },
         .finRet true p.peers .ok)

/-- `Pieces.ReadAt(p, off)` with `len(p) = n` -/
def readAt (g : Geom) (s : State) (off : Int) (n : Nat) : State × Obs :=
  if off ≥ (g.length : Int) then (s, .read [] true)
  else if g.ps = 0 then (s, .panic "integer divide by zero")
  else
    let index : Int := Int.tdiv off g.ps
    let begin : Int := Int.tmod off g.ps
    if index < 0 then (s, .panic "index out of range")
    else match s.pieces[index.toNat]? with
      | none => (s, .panic "index out of range")
      | some p =>
        let d : Bytes := match p.data with | some (_, d) => d | none => []
        if p.state ≠ .complete ∨ (d.length : Int) ≤ begin then (s, .read [] false)
        else if begin < 0 then (s, .panic "slice bounds out of range")
        else (s, .read ((d.drop begin.toNat).take n) false)

def holeFirst (bm : Bitmap) (chunks : Nat) : Nat → Nat → Option Nat
  | 0, _ => none
  | fuel + 1, i => if i < chunks then (if !(get bm i) then some i else holeFirst bm chunks fuel (i + 1))
                   else none

def holeCount (bm : Bitmap) (chunks first : Nat) : Nat → Nat → Nat
  | 0, c => c
  | fuel + 1, c => if c < chunks then (if get bm (first + c) then c else holeCount bm chunks first fuel (c + 1))
                   else c

/-- `Pieces.Hole(index, offset)` -/
def hole (g : Geom) (s : State) (i off : Nat) : State × Obs :=
  match s.pieces[i]? with
  | none => (s, .panic "index out of range")
  | some p =>
    if p.state ≠ .incomplete then (s, .hole max32 max32)
    else
      let chunks := g.pieceChunks i
      match holeFirst p.bitmap chunks (chunks + 1) (off / g.cs) with
      | none => (s, .hole max32 max32)
      | some first =>
        let c := holeCount p.bitmap chunks first (chunks + 1) 1
        if c = chunks then (s, .hole (first * g.cs) (g.pieceLength i - first * g.cs))
        else (s, .hole (first * g.cs) (c * g.cs))

/-- `Pieces.UpdateTime(index)` with `mono.Now() = now` -/
def updateTime (s : State) (i now : Nat) : State × Obs :=
  match s.pieces[i]? with
  | none => (s, .panic "index out of range")
  | some p =>
    let p' := if p.time < now then { p with time := now } else p
    (setP s i p', .upd (decide (p.state = .complete)))

def setTime (s : State) (i t : Nat) : State × Obs :=
  match s.pieces[i]? with
  | none => (s, .panic "index out of range")
  | some p => (setP s i { p with time := t }, .unit)

def step (H : Bytes → Bytes) (g : Geom) (s : State) : Step → State × Obs
  | .addData i b blk peer allocOk => addDataA g s i b blk peer allocOk
  | .finBegin i => finBegin g s i
  | .hashRead i => hashRead s i
  | .finEnd i h => finEnd H s i h
  | .del i force => del s i force
  | .latch => ({ s with deleted := true }, .unit)
  | .readAt off n => readAt g s off n
  | .hole i off => hole g s i off
  | .updateTime i now => updateTime s i now
  | .setTime i t => setTime s i t

/-- every interleaving of the goroutines working on one store = a list of steps -/
def run (H : Bytes → Bytes) (g : Geom) (s : State) : List Step → State
  | [] => s
  | st :: rest => run H g (step H g s st).1 rest

/-! ### observers (`Bitmap()`, `Count()`, `Bytes()`, `All()`) -/
def completeBitmap (s : State) : Bitmap :=
  (List.range s.pieces.length).foldl
    (fun b i => match s.pieces[i]? with
      | some p => if p.state = .complete then set b i else b
      | none => b) (new s.pieces.length)

def bytesOf (g : Geom) (s : State) : Int := s.count * g.ps

/-- Σ pieceLength over the pieces holding a buffer, pieces numbered from `k` -/
def heldFrom (g : Geom) : Nat → List Piece → Nat
  | _, [] => 0
  | k, p :: ps => (if p.data.isSome then g.pieceLength k else 0) + heldFrom g (k + 1) ps

def held (g : Geom) (s : State) : Nat := heldFrom g 0 s.pieces

def holding (ps : List Piece) : Nat := ps.countP (fun p => p.data.isSome)

end Storrent.Piece
