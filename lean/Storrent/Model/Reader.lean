import Storrent.Util
import Storrent.Model.Requested
/-
Model of tor/reader.go (`Reader`: Seek, chunks, request, Read, Close), of
`Torrent.Request` (tor/tor.go) and of `Pieces.ReadAt` / `Pieces.UpdateTime`
(tor/piece/piece.go) over an abstract piece store.  Core-only.

The model describes the REPAIRED reader (fixes 01, 02 of hooks-staging/B):
  * `request` tests `pos >= 0` before the cache test (was: `request(-1,-1)` hit the cache
    of a reader positioned in piece 0 and withdrew nothing);
  * `Read` forgets the cached request and starts over when `ReadAt` returns `(0, nil)`
    for a non-empty buffer (the piece was evicted after it had been requested).
`requestedIndex` is still set when the first `Torrent.Request` failed (as in the code): with
the second repair the stale cache is dropped by the next `Read`, so it has no observable
consequence (`fix3` of `requestSlow` selects the tidier assignment; it is not used).
`requestOrig` keeps the original control flow of `request` for the refutation witness.

Integers: positions/offsets are `Int` (Go `int64`; overflow of `position + o` in `Seek`
is outside the model), piece indices in `chunks` are `UInt32` with wrap-around exactly as
written.  The `float64` part of `chunks` (`config.PrefetchRate`) is the parameter `Cfg`.
-/
namespace Storrent.Reader
open Storrent Storrent.Requested

/-- the two float64 expressions of `Reader.chunks`, as functions of `remain`:
    `pf remain     = uint32((PrefetchRate*5 - float64(remain))/float64(ps) + 0.5)`
    `aggr remain   = float64(remain) < PrefetchRate*2` -/
structure Cfg where
  pf : Nat → UInt32
  aggr : Nat → Bool

structure World where
  ps : Nat                     -- Pieces.PieceSize()
  total : Nat                  -- Pieces.Length()
  numHashes : Nat              -- len(t.PieceHashes)
  /-- the piece table; `some d`: piece complete (hash verified) holding `d` -/
  data : List (Option Bytes)
  rs : RS := {}
  dead : Bool := false         -- t.Done closed (and, after `Kill` returned, `Pieces.Del()` done)
  infoComplete : Bool := true
  deriving Inhabited

def World.complete? (w : World) (i : Nat) : Option Bool := w.data[i]?.map Option.isSome

inductive TErr where
  | metaIncomplete | beyond | dead
  deriving Repr, DecidableEq

structure TRes where
  d : Bool
  ch : Option Nat
  err : Option TErr
  deriving Repr, DecidableEq

/-- `Torrent.Request(index, prio, request, want)`; `none` = Go panic (index out of range in
    `UpdateTime` or `Complete`).  The two halves (caller's goroutine, event loop) run
    without interleaving here; the C10 theorems are stated over loop-level steps. -/
def torRequest (w : World) (index : Nat) (prio : Int) (request want : Bool) :
    World × Option TRes :=
  if !w.infoComplete then (w, some ⟨false, none, some .metaIncomplete⟩)
  else if index ≥ w.numHashes then (w, some ⟨false, none, some .beyond⟩)
  else if request = true ∧ w.complete? index = none then (w, none)
  else if request = true ∧ w.complete? index = some true then (w, some ⟨false, none, none⟩)
  else if w.dead then (w, some ⟨false, none, some .dead⟩)
  else
    match requestPiece w.rs w.numHashes (w.complete? index) index prio request want with
    | (rs, .panic) => ({ w with rs := rs }, none)
    | (rs, .ret ch _ _) => ({ w with rs := rs }, some ⟨true, if want then ch else none, none⟩)

structure Rd where
  offset : Int
  length : Int
  position : Int := 0
  requested : List (Nat × Int) := []
  requestedIndex : Int := -1
  ch : Option Nat := none
  closed : Bool := false       -- r.torrent == nil
  cancelled : Bool := false    -- r.context.Err() != nil
  deriving Repr, Inhabited

/-! ### Seek -/
inductive SeekErr where
  | closed | whence | negative
  deriving Repr, DecidableEq

def seek (r : Rd) (o : Int) (whence : Nat) : Rd × Int × Option SeekErr :=
  if r.closed then (r, r.position, some .closed)
  else
    match (match whence with
           | 0 => some o | 1 => some (r.position + o) | 2 => some (r.length + o) | _ => none) with
    | none => (r, r.position, some .whence)
    | some pos =>
      if pos < 0 then (r, r.position, some .negative)
      else ({ r with position := pos }, pos, none)

/-! ### chunks -/
def chunksLoop : Nat → UInt32 → UInt32 → UInt32 → List (Nat × Int) → List (Nat × Int)
  | 0, _, _, _, acc => acc
  | fuel + 1, index, i, bound, acc =>
    if i < bound then chunksLoop fuel index (i + 1) bound (acc ++ [((index + i).toNat, -1)])
    else acc

/-- `Reader.chunks(pos, limit)`; `none` = integer divide by zero (`ps = 0`). -/
def chunks (cfg : Cfg) (ps : Nat) (pos limit : Int) : Option (List (Nat × Int)) :=
  if pos < 0 ∨ pos > limit then some []
  else if ps = 0 then none
  else
    let index : UInt32 := UInt32.ofNat (pos.toNat / ps)
    let begin : UInt32 := UInt32.ofNat (pos.toNat % ps)
    let max : UInt32 := UInt32.ofNat (limit.toNat / ps)
    let remain : UInt32 := UInt32.ofNat ps - begin
    let p0 := cfg.pf remain.toNat
    let p1 : UInt32 := if p0 < 1 then 1 else p0
    let prefetch : UInt32 := if index + 1 + p1 > max then max - index - 1 else p1
    let c0 : List (Nat × Int) := [(index.toNat, 1)]
    if cfg.aggr remain.toNat then
      some (chunksLoop (prefetch + 1).toNat index 2 (prefetch + 1) (c0 ++ [((index + 1).toNat, 0)]))
    else
      some (chunksLoop (prefetch + 1).toNat index 1 (prefetch + 1) c0)

/-! ### request -/
structure ReqRes where
  w : World
  r : Rd
  ch : Option Nat
  err : Option TErr
  panic : Bool := false
  deriving Inhabited

/-- chunks after the first: `r.torrent.Request(c.index, c.prio, true, false)` -/
def addRest : World → List (Nat × Int) → List (Nat × Int) → World × List (Nat × Int) × Bool
  | w, [], acc => (w, acc, false)
  | w, c :: rest, acc =>
    match torRequest w c.1 c.2 true false with
    | (w', none) => (w', acc, true)
    | (w', some res) => addRest w' rest (if res.d then acc ++ [c] else acc)

/-- `for _, c := range old { r.torrent.Request(c.index, c.prio, false, false) }` -/
def delOld : World → List (Nat × Int) → World × Bool
  | w, [] => (w, false)
  | w, c :: rest =>
    match torRequest w c.1 c.2 false false with
    | (w', none) => (w', true)
    | (w', some _) => delOld w' rest

/-- everything after the cache test of `Reader.request`; `fix3 = true` would reset
    `requestedIndex` after a failed first request (not what the code does) -/
def requestSlow (fix3 : Bool) (cfg : Cfg) (w : World) (r : Rd) (pos limit : Int) : ReqRes :=
  match chunks cfg w.ps pos limit with
  | none => { w := w, r := r, ch := none, err := none, panic := true }
  | some [] =>
    let (w1, p1) := delOld w r.requested
    { w := w1, r := { r with requested := [], requestedIndex := -1, ch := none },
      ch := none, err := none, panic := p1 }
  | some (c :: rest) =>
    match torRequest w c.1 c.2 true true with
    | (w0, none) => { w := w0, r := r, ch := none, err := none, panic := true }
    | (w0, some res) =>
      let acc0 : List (Nat × Int) := if res.d then [c] else []
      let (w1, acc, p1) := if res.err.isSome then (w0, acc0, false) else addRest w0 rest acc0
      let (w2, p2) := if p1 then (w1, true) else delOld w1 r.requested
      let ri : Int := if fix3 && res.err.isSome then -1 else (c.1 : Int)
      { w := w2, r := { r with requested := acc, requestedIndex := ri, ch := res.ch },
        ch := res.ch, err := res.err, panic := p2 }

/-- the index used by the cache test: `uint32(pos / int64(ps))` (Go division truncates
    towards zero, so `pos = -1` gives 0) -/
def cacheIndex (ps : Nat) (pos : Int) : Nat := (UInt32.ofInt (Int.tdiv pos (ps : Int))).toNat

/-- `Reader.request(pos, limit)` as repaired -/
def request (cfg : Cfg) (w : World) (r : Rd) (pos limit : Int) : ReqRes :=
  if r.requestedIndex ≥ 0 ∧ pos ≥ 0 then
    if w.ps = 0 then { w := w, r := r, ch := none, err := none, panic := true }
    else if r.requestedIndex = (cacheIndex w.ps pos : Int) then
      { w := w, r := r, ch := r.ch, err := none }
    else requestSlow false cfg w r pos limit
  else requestSlow false cfg w r pos limit

/-- `Reader.request(pos, limit)` as it was (no `pos >= 0` before the cache test) -/
def requestOrig (cfg : Cfg) (w : World) (r : Rd) (pos limit : Int) : ReqRes :=
  if r.requestedIndex ≥ 0 then
    if w.ps = 0 then { w := w, r := r, ch := none, err := none, panic := true }
    else if r.requestedIndex = (cacheIndex w.ps pos : Int) then
      { w := w, r := r, ch := r.ch, err := none }
    else requestSlow false cfg w r pos limit
  else requestSlow false cfg w r pos limit

/-! ### Pieces.ReadAt -/
inductive RAOut where
  | ok (bs : Bytes) (eof : Bool)
  | panic
  deriving Repr, DecidableEq

/-- `Pieces.ReadAt(p, off)` with `len(p) = m` -/
def readAt (w : World) (m : Nat) (off : Int) : RAOut :=
  if off ≥ (w.total : Int) then .ok [] true
  else if w.ps = 0 then .panic
  else
    let index := Int.tdiv off (w.ps : Int)
    let begin := Int.tmod off (w.ps : Int)
    if index < 0 then .panic
    else
      match w.data[index.toNat]? with
      | none => .panic
      | some none => .ok [] false
      | some (some d) =>
        if (d.length : Int) ≤ begin then .ok [] false
        else if begin < 0 then .panic
        else .ok ((d.drop begin.toNat).take m) false

/-! ### Read -/
inductive RErr where
  | closed | eof | ctx | dead | tor (e : TErr)
  deriving Repr, DecidableEq

inductive Outcome where
  /-- `Read` returned these bytes (n = their number) and this error -/
  | ret (bs : Bytes) (err : Option RErr)
  /-- `Read` is blocked in its `select` on channel `c` -/
  | block (c : Nat)
  | panic
  /-- the retry loop did not terminate (only for an ill-formed store) -/
  | spin
  deriving Repr, DecidableEq, Inhabited

structure RdRes where
  w : World
  r : Rd
  out : Outcome
  deriving Inhabited

/-- leave `Read` with an error after `r.request(-1, -1)` -/
def bail (cfg : Cfg) (w : World) (r : Rd) (e : RErr) : RdRes :=
  let q := request cfg w r (-1) (-1)
  if q.panic then { w := q.w, r := q.r, out := .panic }
  else { w := q.w, r := q.r, out := .ret [] (some e) }

/-- result of the part of `Read` after the `select`: finished, or `goto again` -/
inductive EndRes where
  | fin (res : RdRes)
  | again (r : Rd)

/-- `Read` from `ReadAt` on (`n = len(a)`) -/
def readEnd (cfg : Cfg) (w : World) (r : Rd) (n : Nat) : EndRes :=
  let m : Nat := if r.position + n < r.length then n else (r.length - r.position).toNat
  match readAt w m (r.offset + r.position) with
  | .panic => .fin { w := w, r := r, out := .panic }
  | .ok bs eof =>
    if bs.length = 0 ∧ eof = false ∧ n > 0 then
      .again { r with requestedIndex := -1 }
    else if eof || decide ((bs.length : Int) = r.length - r.position) then
      let q2 := request cfg w r (-1) (-1)
      if q2.panic then .fin { w := q2.w, r := q2.r, out := .panic }
      else .fin { w := q2.w, r := { q2.r with position := q2.r.position + bs.length },
                  out := .ret bs (some .eof) }
    else
      .fin { w := w, r := { r with position := r.position + bs.length }, out := .ret bs none }

/-- `Read` from the label `again:` on.  `fuel` bounds the retries. -/
def readFrom : Nat → Cfg → World → Rd → Nat → RdRes
  | fuel, cfg, w, r, n =>
    if r.cancelled then bail cfg w r .ctx
    else
      let q := request cfg w r (r.offset + r.position) (r.offset + r.length)
      if q.panic then { w := q.w, r := q.r, out := .panic }
      else match q.err with
      | some e => { w := q.w, r := q.r, out := .ret [] (some (.tor e)) }
      | none =>
        let blocked : Option Nat := match q.ch with
          | none => none
          | some c => if isClosed q.w.rs c then none else some c
        match blocked with
        | some c =>
          if q.w.dead then bail cfg q.w q.r .dead else { w := q.w, r := q.r, out := .block c }
        | none =>
          match readEnd cfg q.w q.r n with
          | .fin res => res
          | .again r' =>
            match fuel with
            | 0 => { w := q.w, r := r', out := .spin }
            | fuel + 1 => readFrom fuel cfg q.w r' n

/-- retries needed: the second pass either blocks, fails or reads (a complete piece shorter than the cursor offset; never observed, not proved impossible) -/
def readFuel : Nat := 2

/-- `Reader.Read(a)` with `len(a) = n`, up to the point where it returns or blocks -/
def read (cfg : Cfg) (w : World) (r : Rd) (n : Nat) : RdRes :=
  if r.closed then { w := w, r := r, out := .ret [] (some .closed) }
  else if r.position ≥ r.length then bail cfg w r .eof
  else readFrom readFuel cfg w r n

/-- which alternative of the `select` fires -/
inductive Wake where
  | dead | ctx | done
  deriving Repr, DecidableEq

def wakeEnabled (w : World) (r : Rd) (c : Nat) : Wake → Bool
  | .dead => w.dead
  | .ctx => r.cancelled
  | .done => isClosed w.rs c

/-- a `Read` blocked on `c` continues with alternative `k` (which must be enabled) -/
def wake (cfg : Cfg) (w : World) (r : Rd) (n : Nat) (c : Nat) (k : Wake) : RdRes :=
  if !wakeEnabled w r c k then { w := w, r := r, out := .block c }
  else match k with
  | .dead => bail cfg w r .dead
  | .ctx => bail cfg w r .ctx
  | .done =>
    match readEnd cfg w r n with
    | .fin res => res
    | .again r' => readFrom readFuel cfg w r' n

/-- `Reader.Close()` -/
def close (cfg : Cfg) (w : World) (r : Rd) : World × Rd × Bool :=
  if r.closed then (w, r, !r.requested.isEmpty)   -- r.torrent == nil: only an empty `old` is safe
  else
    let q := request cfg w r (-1) (-1)
    (q.w, { q.r with closed := true }, q.panic)

end Storrent.Reader
