import Storrent.Util
/-
Encryption policy (C08): crypto.Options and every decision taken from it, transcribed from
crypto/crypto.go (cryptoProvide, the server's selection, the client's check of the
selection), protocol/handshake.go (refusal of plaintext handshakes) and tor/initial.go
(DialClient's first choice and retry rule).  Pure functions of the 6+6 option booleans.

`fixed = true` is the repaired code (plaintext handshakes are refused when ForceEncryption
is set, on both ends); `fixed = false` is the code as found.
-/
namespace Storrent.Policy
open Storrent

structure Options where
  allowCH : Bool    -- AllowCryptoHandshake
  preferCH : Bool   -- PreferCryptoHandshake
  forceCH : Bool    -- ForceCryptoHandshake
  allowE : Bool     -- AllowEncryption
  preferE : Bool    -- PreferEncryption
  forceE : Bool     -- ForceEncryption
  deriving DecidableEq, Repr

/-- crypto.DefaultOptions(prefer, force) -/
def defaultOptions (prefer force : Bool) : Options :=
  { allowCH := true, allowE := true,
    preferCH := prefer || force, preferE := prefer || force,
    forceCH := force, forceE := force }

/-- what one end ends up with -/
inductive Mode where
  | fail | plain | rc4
  deriving DecidableEq, Repr

/-- crypto.ClientHandshake: `cryptoProvide[3]` (bit 0 = plaintext, bit 1 = RC4) -/
def cryptoProvide (o : Options) : Nat :=
  (if !o.forceE then 1 else 0) + (if o.allowE then 2 else 0)

/-- crypto.ServerHandshake: the `if / else if` chain computing `cryptoSelect[3]` from the
    peer's `crypto_provide` (a uint32; only bits 0 and 1 are looked at); 0 = refuse. -/
def serverSelect (o : Options) (provide : Nat) : Nat :=
  let p1 := provide % 2 == 1
  let p2 := provide / 2 % 2 == 1
  if p2 && o.allowE && o.preferE then 2
  else if p1 && !o.forceE && !o.preferE then 1
  else if p2 && o.allowE then 2
  else if p1 && !o.forceE then 1
  else 0

/-- crypto.ClientHandshake: `switch cryptoSelect` on the uint32 the server answered -/
def clientCheck (o : Options) (select : Nat) : Mode :=
  if select = 1 then (if o.forceE then .fail else .plain)
  else if select = 2 then (if !o.allowE then .fail else .rc4)
  else .fail

/-- MSE handshake between a client with options `oc` and a server with `os`:
    (client's outcome, server's outcome).  When one end aborts it closes the connection
    and the other end fails with EOF. -/
def mseOutcome (oc os : Options) : Mode × Mode :=
  if !oc.allowCH then (.fail, .fail)              -- client: "crypto handshake forbidden"
  else if !os.allowCH then (.fail, .fail)         -- server: not a BitTorrent header, crypto not allowed
  else if cryptoProvide oc = 0 then (.fail, .fail) -- client: "couldn't negotiate encryption"
  else
    let sel := serverSelect os (cryptoProvide oc)
    if sel = 0 then (.fail, .fail)                -- server: "couldn't negotiate encryption"
    else
      match clientCheck oc sel with
      | .fail => (.fail, if sel = 2 then .rc4 else .plain) -- the server had already answered
      | m => (m, if sel = 2 then .rc4 else .plain)

/-- protocol.ServerHandshake sees the plain BitTorrent header -/
def serverRefusesPlain (fixed : Bool) (os : Options) : Bool :=
  os.forceCH || (fixed && os.forceE)

/-- protocol.ClientHandshake(cryptoHandshake = false) -/
def clientRefusesPlain (fixed : Bool) (oc : Options) : Bool :=
  fixed && oc.forceE

def plainOutcome (fixed : Bool) (oc os : Options) : Mode × Mode :=
  if clientRefusesPlain fixed oc then (.fail, .fail)
  else if serverRefusesPlain fixed os then (.fail, .fail)
  else (.plain, .plain)

inductive Kind where
  | plain | mse
  deriving DecidableEq, Repr

def negotiate (fixed : Bool) (k : Kind) (oc os : Options) : Mode × Mode :=
  match k with
  | .plain => plainOutcome fixed oc os
  | .mse => mseOutcome oc os

/-- tor.DialClient: `cryptoHandshake := PreferCryptoHandshake && AllowCryptoHandshake` -/
def dialFirst (o : Options) : Kind :=
  if o.preferCH && o.allowCH then .mse else .plain

/-- tor.DialClient: after `protocol.ErrBadHandshake` with handshake kind `k`, the kind to
    retry with (`none`: give up).  Any other error is returned at once. -/
def dialRetry (o : Options) (k : Kind) : Option Kind :=
  if o.preferCH && !o.forceCH && k = .mse then some .plain
  else if !o.preferCH && o.allowCH && k = .plain then some .mse
  else none

/-- every handshake kind DialClient may try with options `o` (first choice, then at most
    one retry — the second `goto again` cannot fire twice: shown in Props/C08) -/
def dialKinds (o : Options) : List Kind :=
  match dialRetry o (dialFirst o) with
  | none => [dialFirst o]
  | some k => [dialFirst o, k]

def Options.ofBits (n : Nat) : Options :=
  { allowCH := n % 2 == 1, preferCH := n / 2 % 2 == 1, forceCH := n / 4 % 2 == 1,
    allowE := n / 8 % 2 == 1, preferE := n / 16 % 2 == 1, forceE := n / 32 % 2 == 1 }

def Mode.str : Mode → String
  | .fail => "fail" | .plain => "plain" | .rc4 => "rc4"

end Storrent.Policy
