import Storrent.Util
import Storrent.Model.Http
/-
C14 — executable model of the web-seed data path (core-only, links into model-c14):

 * `fileChunks`         tor/tor.go  fileChunks      (int64 arithmetic as `Int`)
 * `Store`/`addData`    the piece-store contract the writer relies on (tor/piece AddData:
                        whole blocks only, count ≤ len, 0 for busy/complete pieces)
 * `W`, `write`, `readFrom`, `close`   tor/writer.go (uint32 offset/count with explicit wrap,
                        every slice-bounds fault an explicit `panic` outcome)
 * `srcRead`, `limitSrc`, `zeroSrc`    io.Reader as a chunked source, io.LimitReader, zeroReader
 * `reserve`, `released`               maybeWebseed's reservation loop / blocks named by an event
 * `parseContentRange`  webseed/getright.go (fmt.Sscanf transcribed from fmt/scan.go)
 * `grDecide`, `hDecide`               GetRight.Get / Hoffman.Get response validation
 * `webseedGR`          the per-file loop of tor.webseedGR

`fixed = true` is the repaired code (hooks-staging/F/fixes); `fixed = false` the pinned one.
-/
namespace Storrent.Files

def CS : Nat := 16384
def WIN : Nat := 32768
def U32 : Nat := 4294967296

/-! ## fileChunks -/

structure FileEnt where
  offset : Int
  length : Int
  pad : Bool
deriving Repr, DecidableEq

/-- `Padding: strings.Contains(f.Attr, "p")` (Torrent.MetadataComplete): whether a file is a padding
    file is a function of its BEP 47 attribute string alone — not of its path -/
def padOfAttr (attr : String) : Bool := attr.toList.contains 'p'

/-- the file-table entry MetadataComplete builds for a file of the metainfo -/
def mkFileEnt (offset length : Int) (attr : String) : FileEnt := ⟨offset, length, padOfAttr attr⟩

structure FileChunk where
  idx : Nat          -- position of the file in the table (stands for its path)
  filelength : Int
  offset : Int
  length : Int
  pad : Bool
deriving Repr, DecidableEq

/-- the `for _, f := range t.Files` loop; `i` is the index of the head of `files` -/
def fileChunksLoop : List FileEnt → Nat → Int → Int → List FileChunk
  | [], _, _, _ => []
  | f :: rest, i, o, l =>
    if f.offset + f.length ≤ o then fileChunksLoop rest (i+1) o l          -- continue
    else if f.offset ≥ o + l then []                                        -- break
    else
      let m0 := f.length - (o - f.offset)
      let m := if m0 > l then l else m0
      let fc : FileChunk := ⟨i, f.length, o - f.offset, m, f.pad⟩
      if l - m ≤ 0 then [fc] else fc :: fileChunksLoop rest (i+1) (o + m) (l - m)

/-- `files = none` is `t.Files == nil` (single-file torrent). -/
def fileChunks (ps total : Int) (files : Option (List FileEnt)) (index offset length : Nat) :
    List FileChunk :=
  let o : Int := (index : Int) * ps + offset
  let l : Int := length
  match files with
  | none => [⟨0, total, o, l, false⟩]
  | some fs => fileChunksLoop fs 0 o l

/-! ## the piece store as seen by the writer (one piece) -/

inductive Mode | opn | frozen | deleted
deriving Repr, DecidableEq

inductive AErr | none | deleted | odd | beyond
deriving Repr, DecidableEq

structure AddRes where
  count : Nat
  complete : Bool
  err : AErr
deriving Repr

structure Store where
  pl : Nat                          -- length of the piece
  mode : Mode                       -- frozen = busy or complete
  blocks : List (Option Bytes)      -- one entry per block of the piece
deriving Repr

/-- bytes accepted by AddData for `n` bytes offered at the block-aligned `begin` -/
def addCount (pl begin n : Nat) : Nat :=
  let room := pl - begin
  if n ≥ room then room else n / CS * CS

def setBlock (bl : List (Option Bytes)) (c : Nat) (d : Bytes) : List (Option Bytes) :=
  match bl[c]? with
  | some none => bl.set c (some d)
  | _ => bl                                  -- already present: not overwritten

/-- store `data` (a whole number of blocks, or ending with the final short block) from block `c` -/
def storeBlocks : Nat → List (Option Bytes) → Nat → Bytes → List (Option Bytes)
  | 0, bl, _, _ => bl
  | fuel+1, bl, c, data =>
    if data.isEmpty then bl
    else storeBlocks fuel (setBlock bl c (data.take CS)) (c+1) (data.drop CS)

def allPresent (bl : List (Option Bytes)) : Bool := bl.all (·.isSome)

def addData (s : Store) (begin : Nat) (data : Bytes) : Store × AddRes :=
  match s.mode with
  | .frozen => (s, ⟨0, false, .none⟩)
  | .deleted => (s, ⟨0, false, .deleted⟩)
  | .opn =>
    if begin % CS ≠ 0 then (s, ⟨0, false, .odd⟩)
    else if begin ≥ s.pl then (s, ⟨0, false, .beyond⟩)
    else
      let c := addCount s.pl begin data.length
      let bl := storeBlocks (c / CS + 1) s.blocks (begin / CS) (data.take c)
      ({ s with blocks := bl }, ⟨c, allPresent bl, .none⟩)

/-! ## tor/writer.go -/

inductive Ev
  | data (begin count : Nat) (complete : Bool)
  | drop (begin count : Nat)
deriving Repr, DecidableEq

inductive WErr | nil | closed | shortWrite | eof | rfail | store (e : AErr)
deriving Repr, DecidableEq

inductive RErr | none | eof | fail
deriving Repr, DecidableEq

structure W where
  offset : Nat
  count : Nat
  buf : Bytes
  closed : Bool
deriving Repr

structure Out where
  n : Nat := 0
  err : WErr := .nil
  evs : List Ev := []
  panic : Bool := false
  tag : String := ""
  /-- ghost: the bytes accepted by this call (`rd.length = n`) -/
  rd : Bytes := []
  /-- ghost: what AddData accepted during this call, `(begin, bytes)` per successful call -/
  log : List (Nat × Bytes) := []
deriving Repr

def sub32 (a b : Nat) : Nat := (a + U32 - b % U32) % U32
def add32 (a b : Nat) : Nat := (a + b) % U32

def newWriter (offset length : Nat) : W := ⟨offset, length, [], false⟩

def ofAErr : AErr → WErr
  | .none => .nil
  | e => .store e

/-- result of `writer.write` -/
structure WW (σ : Type) where
  st : σ
  w : W
  n : Nat
  err : AErr
  evs : List Ev
  log : List (Nat × Bytes)

section
variable {σ : Type} (add : σ → Nat → Bytes → σ × AddRes)

/-- `writer.write`: hand `data` to AddData at `w.offset`; on progress emit TorData, move on -/
def wwrite (st : σ) (w : W) (data : Bytes) : WW σ :=
  let r := add st w.offset data
  if r.2.count > 0 then
    ⟨r.1, { w with count := sub32 w.count r.2.count, offset := add32 w.offset r.2.count },
      r.2.count, r.2.err, [Ev.data w.offset r.2.count r.2.complete], [(w.offset, data.take r.2.count)]⟩
  else ⟨r.1, w, 0, r.2.err, [], []⟩

/-- `writer.Write` -/
def write (st : σ) (w : W) (p : Bytes) : σ × W × Out :=
  if w.closed then (st, w, { err := .closed, tag := "w:closed" })
  else if w.count < w.buf.length then (st, w, { err := .shortWrite, tag := "w:neg" })
  else
    let max := w.count - w.buf.length
    let q := p.take max
    let data := w.buf ++ q
    let r := wwrite add st w data
    if r.n > data.length then (r.st, r.w, { panic := true, evs := r.evs, tag := "w:panic" })   -- data[n:]
    else
      let err := if r.err = .none ∧ q.length < p.length then WErr.shortWrite else ofAErr r.err
      (r.st, { r.w with buf := data.drop r.n },
        { n := q.length, err := err, evs := r.evs, rd := q, log := r.log,
          tag := if q.length < p.length then "w:short" else if r.n > 0 then "w:commit" else "w:buffer" })

/-- an `io.Reader` scripted as a list of reads `(bytes, error returned with them)` -/
abbrev Src := List (Bytes × RErr)

def srcRead (s : Src) (k : Nat) : Bytes × RErr × Src :=
  match s with
  | [] => ([], .eof, [])
  | (d, e) :: rest =>
    if d.length ≤ k then (d, e, rest) else (d.take k, .none, (d.drop k, e) :: rest)

def srcBytes (s : Src) : Nat := (s.map (·.1.length)).sum

/-- all the bytes of a source -/
def srcAll (s : Src) : Bytes := (s.map (·.1)).flatten

def ofRErr : RErr → WErr
  | .none => .nil
  | .eof => .eof
  | .fail => .rfail

/-- the `for` loop of `writer.ReadFrom`; `acc.n` is the local `count` -/
def readLoop (fixed : Bool) : Nat → σ → W → Src → Out → σ × W × Out
  | 0, st, w, _, acc => (st, w, { acc with tag := "r:fuel" })
  | fuel+1, st, w, src, acc =>
    let max := if w.count < WIN then w.count else WIN
    if w.buf.length > max then
      if fixed then (st, w, { acc with err := .shortWrite, tag := "r:full" })
      else (st, w, { acc with panic := true, tag := "r:panic" })               -- w.buf[len:max]
    else
      let rd := srcRead src (max - w.buf.length)
      let d := rd.1
      let er := rd.2.1
      if d.length = 0 then (st, w, { acc with err := ofRErr er, tag := "r:zero" })
      else
        let buf := w.buf ++ d
        let r := wwrite add st { w with buf := buf } buf
        let acc' : Out := { acc with n := acc.n + d.length, rd := acc.rd ++ d, evs := acc.evs ++ r.evs,
                                     log := acc.log ++ r.log }
        if r.n > buf.length then (r.st, r.w, { acc' with panic := true, tag := "r:panic2" })
        else
          let w'' := { r.w with buf := buf.drop r.n }
          if er ≠ .none then
            (r.st, w'', { acc' with err := if er = .eof then .nil else .rfail, tag := "r:rerr" })
          else if r.err ≠ .none then
            (r.st, w'', { acc' with err := .store r.err, tag := "r:werr" })
          else readLoop fixed fuel r.st w'' rd.2.2 acc'

/-- `writer.ReadFrom` -/
def readFrom (fixed : Bool) (st : σ) (w : W) (src : Src) : σ × W × Out :=
  if w.closed then (st, w, { err := .closed, tag := "r:closed" })
  else if w.count < w.buf.length then (st, w, { err := .eof, tag := "r:neg" })
  else readLoop add fixed (srcBytes src + 1) st w src {}

end

/-- `writer.Close` -/
def close (w : W) : W × Out :=
  if w.closed then (w, { err := .closed, tag := "c:closed" })
  else if w.count > 0 then
    ({ w with count := 0, closed := true }, { evs := [Ev.drop w.offset w.count], tag := "c:drop" })
  else ({ w with closed := true }, { tag := "c:clean" })

/-! ## readers -/

/-- `io.LimitReader(src, n)` as a source: the first `n` bytes, then EOF -/
def limitSrc : Src → Nat → Src
  | [], _ => []
  | (d, e) :: rest, n =>
    if n = 0 then []
    else if d.length < n then (d, e) :: limitSrc rest (n - d.length)
    else if d.length = n then [(d, e)]
    else [(d.take n, .none)]

/-- `zeroReader{n}`: one read of up to the window, EOF together with the last bytes -/
def zeroSrc (n : Nat) : Src := [(List.replicate n 0, .eof)]

/-! ## reservation -/

def ceilDiv (a b : Nat) : Nat := (a + b - 1) / b

/-- blocks (relative to the piece) marked in flight by maybeWebseed for `(o, l)` -/
def reserve (o l : Nat) : List Nat := List.range' (o / CS) (ceilDiv l CS)

/-- blocks named by an event (every block it overlaps) -/
def evBlocks : Ev → List Nat
  | .data b c _ => List.range' (b / CS) (ceilDiv c CS)
  | .drop b c => List.range' (b / CS) (ceilDiv c CS)

def released (evs : List Ev) : List Nat := (evs.map evBlocks).flatten

/-- blocks the pinned torrent-side handlers release (`Length / ChunkSize`, floor) -/
def evBlocksFloor : Ev → List Nat
  | .data b c _ => List.range' (b / CS) (c / CS)
  | .drop b c => List.range' (b / CS) (c / CS)

def releasedFloor (evs : List Ev) : List Nat := (evs.map evBlocksFloor).flatten

/-- `Pieces.Hole(index, start·CS)` on the block table of one piece: the first missing block at or
    after `start` and the number of missing blocks from there up to the next present one (or the
    end of the piece) -/
def holeFrom (blocks : List (Option Bytes)) (start : Nat) : Option (Nat × Nat) :=
  let first := start + (blocks.drop start).findIdx (·.isNone)
  if first ≥ blocks.length then none
  else some (first, ((blocks.drop first).takeWhile (·.isNone)).length)

/-- the `for { o, l = Hole(index, o); …; if inFlight(ch) == 0 { break }; o += CS }` loop of
    maybeWebseed: the first hole whose first block nobody is working on (`infl` = blocks in flight) -/
def pickHole (blocks : List (Option Bytes)) (infl : List Nat) : Nat → Nat → Option (Nat × Nat)
  | 0, _ => none
  | fuel + 1, start =>
    match holeFrom blocks start with
    | none => none
    | some (f, n) => if infl.contains f then pickHole blocks infl fuel (f + 1) else some (f, n)

/-- the cap on a fetch: holes above 1 MiB are cut to 1 MiB or five seconds' worth of data at the
    web seed's measured rate (rounded up to whole blocks), whichever is larger.
    `rate5 = uint32(ws.Rate() * 5)` is an environment input; it is 0 for a web seed without history. -/
def capLen (rate5 l : Nat) : Nat :=
  if l > 1048576 then
    let m := if rate5 > 1048576 then (rate5 + CS - 1) % U32 / CS * CS else 1048576
    if l > m then m else l
  else l

/-- the range maybeWebseed fetches and reserves: `(offset, length)` within the piece -/
def maybeRange (s : Store) (infl : List Nat) (rate5 : Nat) : Option (Nat × Nat) :=
  match s.mode with
  | .opn =>
    (pickHole s.blocks infl (s.blocks.length + 1) 0).map fun (f, n) =>
      (f * CS, capLen rate5 (if f + n ≥ s.blocks.length then s.pl - f * CS else n * CS))
  | _ => none

/-! ## parseContentRange (fmt.Sscanf transcribed) -/

def isSpaceC (c : Char) : Bool :=
  let n := c.toNat
  (0x09 ≤ n ∧ n ≤ 0x0d) ∨ n = 0x20 ∨ n = 0x85 ∨ n = 0xa0 ∨ n = 0x1680 ∨
  (0x2000 ≤ n ∧ n ≤ 0x200a) ∨ n = 0x2028 ∨ n = 0x2029 ∨ n = 0x202f ∨ n = 0x205f ∨ n = 0x3000

/-- skip spaces other than newline -/
def skipSp : List Char → List Char
  | [] => []
  | c :: r => if isSpaceC c ∧ c ≠ '\n' then skipSp r else c :: r

def isDig (c : Char) : Bool := '0' ≤ c ∧ c ≤ '9'

def digitsVal (ds : List Char) : Nat := ds.foldl (fun a c => a * 10 + (c.toNat - 48)) 0

/-- sign already consumed: digits, then strconv.ParseInt(tok, 10, 64) -/
def numTok (neg : Bool) (r1 : List Char) : Option (Int × List Char) :=
  let ds := r1.takeWhile isDig
  if ds.isEmpty then none
  else
    let v := digitsVal ds
    if neg then (if v ≤ 9223372036854775808 then some (-(v : Int), r1.dropWhile isDig) else none)
    else (if v ≤ 9223372036854775807 then some ((v : Int), r1.dropWhile isDig) else none)

/-- `%d`: SkipSpace (newline is an error), optional sign, digits, strconv.ParseInt(tok,10,64) -/
def verbD (s : List Char) : Option (Int × List Char) :=
  match skipSp s with
  | [] => none
  | c :: r =>
    if c = '\n' then none
    else if c = '-' then numTok true r
    else if c = '+' then numTok false r
    else numTok false (c :: r)

def lit (c : Char) : List Char → Option (List Char)
  | [] => none
  | d :: r => if d = c then some r else none

def lits : List Char → List Char → Option (List Char)
  | [], s => some s
  | c :: cs, s => (lit c s).bind (lits cs)

/-- a space in the format: one or more spaces (not newline) or end of input -/
def fmtSpace : List Char → Option (List Char)
  | [] => some []
  | c :: r => if c = '\n' then none else if isSpaceC c then some (skipSp r) else none

/-- the final newline of the format: spaces, then newline or end of input -/
def fmtNewline (s : List Char) : Bool :=
  match skipSp s with
  | [] => true
  | c :: _ => c = '\n'

def prefixBytes : List Char → Option (List Char) := fun s => (lits "bytes".toList s).bind fmtSpace

/-- "bytes %d-%d/%d\n" -/
def scanForm1 (s : List Char) : Option (Int × Int × Int) := do
  let s ← prefixBytes s
  let (a, s) ← verbD s
  let s ← lit '-' s
  let (b, s) ← verbD s
  let s ← lit '/' s
  let (c, s) ← verbD s
  if fmtNewline s then some (a, b, c) else none

/-- "bytes %d-%d/*\n" -/
def scanForm2 (s : List Char) : Option (Int × Int) := do
  let s ← prefixBytes s
  let (a, s) ← verbD s
  let s ← lit '-' s
  let (b, s) ← verbD s
  let s ← lit '/' s
  let s ← lit '*' s
  if fmtNewline s then some (a, b) else none

/-- "bytes */%d\n" -/
def scanForm3 (s : List Char) : Option Int := do
  let s ← prefixBytes s
  let s ← lit '*' s
  let s ← lit '/' s
  let (c, s) ← verbD s
  if fmtNewline s then some c else none

/-- int64 wrap-around of `end - offset + 1` -/
def wrap64 (x : Int) : Int := (x + 9223372036854775808) % 18446744073709551616 - 9223372036854775808

/-- (offset, length, total) or ErrParse -/
def parseContentRange (cr : List Char) : Option (Int × Int × Int) :=
  match scanForm1 cr with
  | some (o, e, fl) => if e < o ∨ e ≥ fl then none else some (o, wrap64 (e - o + 1), fl)
  | none =>
    match scanForm2 cr with
    | some (o, e) => if e < o then none else some (o, wrap64 (e - o + 1), -1)
    | none =>
      match scanForm3 cr with
      | some fl => some (-1, -1, fl)
      | none => none

/-! ## buildUrl (webseed/getright.go, repaired: every component escaped on its own) -/

def slash : UInt8 := 47

def endsWithSlash (u : Bytes) : Bool := u.getLast? = some slash

/-- `strings.Join(escaped, "/")` -/
def joinSlash : List Bytes → Bytes
  | [] => []
  | [c] => c
  | c :: r => c ++ [slash] ++ joinSlash r

/-- `file = none` is `file == nil` (single-file torrent) -/
def buildUrl (url name : Bytes) (file : Option (List Bytes)) : Bytes :=
  match file with
  | none => if !endsWithSlash url then url else url ++ Http.pathEscape name
  | some comps =>
    let u1 := if !endsWithSlash url then url ++ [slash] else url
    let u2 := u1 ++ Http.pathEscape name
    let u3 := if !endsWithSlash u2 then u2 ++ [slash] else u2
    u3 ++ joinSlash (comps.map Http.pathEscape)

/-- split at every '/' -/
def splitSlash : Bytes → List Bytes
  | [] => [[]]
  | c :: r =>
    match splitSlash r with
    | [] => [[c]]            -- unreachable: splitSlash is never empty
    | h :: t => if c = slash then [] :: h :: t else (c :: h) :: t

def unhexDigit (c : UInt8) : Option Nat :=
  if 48 ≤ c ∧ c ≤ 57 then some (c.toNat - 48)
  else if 65 ≤ c ∧ c ≤ 70 then some (c.toNat - 55)
  else if 97 ≤ c ∧ c ≤ 102 then some (c.toNat - 87)
  else none

/-- percent-decoding (url.PathUnescape); `none` on a malformed escape -/
def unescape : Bytes → Option Bytes
  | [] => some []
  | [c] => if c = 37 then none else some [c]
  | [c, d] => if c = 37 then none else (unescape [d]).map (c :: ·)
  | c :: a :: b :: r =>
    if c = 37 then
      match unhexDigit a, unhexDigit b, unescape r with
      | some x, some y, some t => some (UInt8.ofNat (x * 16 + y) :: t)
      | _, _, _ => none
    else (unescape (a :: b :: r)).map (c :: ·)

/-! ## GetRight.Get / Hoffman.Get response validation -/

inductive Reject
  | ignoredRange | badCL | missingCR | parseCR | notHonoured | mismatch | status
deriving Repr, DecidableEq

def Reject.name : Reject → String
  | .ignoredRange => "ignoredRange" | .badCL => "badCL" | .missingCR => "missingCR"
  | .parseCR => "parseCR" | .notHonoured => "notHonoured" | .mismatch => "mismatch"
  | .status => "status"

inductive Decision
  | reject (why : Reject)
  | accept (limit : Option Int)        -- `some n`: body wrapped in io.LimitReader(n)
deriving Repr, DecidableEq

/-- strconv.ParseInt(s, 10, 64) -/
def parseInt64 (s : List Char) : Option Int :=
  match s with
  | [] => none
  | c :: r =>
    let (neg, r1) := if c = '-' then (true, r) else if c = '+' then (false, r) else (false, c :: r)
    if r1.isEmpty ∨ ¬ r1.all isDig then none
    else
      let v := digitsVal r1
      if neg then (if v ≤ 9223372036854775808 then some (-(v : Int)) else none)
      else (if v ≤ 9223372036854775807 then some (v : Int) else none)

/-- the part of GetRight.Get after the status switch -/
def grFinish (fixed : Bool) (l fl flength offset length : Int) : Decision :=
  let l := if l < 0 then flength - offset else l
  if fl ≥ 0 ∧ fl ≠ flength then .reject .mismatch
  else if fixed then .accept (some length)
  else if l > length then .accept (some length) else .accept none

/-- `cl`, `cr`: header values, `[]` = absent -/
def grDecide (fixed : Bool) (status : Nat) (cl cr : List Char) (flength offset length : Int) :
    Decision :=
  if status = 200 then
    if offset ≠ 0 then .reject .ignoredRange
    else if cl.isEmpty then grFinish fixed (-1) (-1) flength offset length
    else match parseInt64 cl with
      | none => .reject .badCL
      | some v => grFinish fixed v v flength offset length
  else if status = 206 then
    if cr.isEmpty then .reject .missingCR
    else match parseContentRange cr with
      | none => .reject .parseCR
      | some (o, l, fl) =>
        if o ≠ offset then .reject .notHonoured else grFinish fixed l fl flength offset length
  else if status = 416 then
    if cr.isEmpty then .reject .status
    else match parseContentRange cr with
      | some _ => .reject .mismatch
      | none => .reject .status
  else .reject .status

inductive HDecision | reject (why : String) | accept (limited : Bool)
deriving Repr, DecidableEq

def hDecide (status : Nat) (cl : List Char) (length : Nat) : HDecision :=
  if status ≠ 200 then .reject "status"
  else if cl.isEmpty then .accept true
  else match parseInt64 cl with
    | none => .reject "badcl"
    | some v => if v ≠ (length : Int) then .reject "mismatch" else .accept false

/-- the reader Hoffman.Get copies from: behind `io.LimitReader(length)` when no Content-Length was
    given; with a Content-Length (which had to equal `length`) the body as framed by net/http -/
def hSrc (limited : Bool) (body : Src) (length : Nat) : Src :=
  if limited then limitSrc body length else body

/-! ## GetRight.Get's copy and the per-file loop of webseedGR -/

/-- what one file request of webseedGR meets -/
inductive Resp
  | pad                                                     -- not a request: zeroReader
  | http (status : Nat) (cl cr : List Char) (body : Src)    -- response seen by the client
  | transport                                               -- client.Do failed

structure GROut where
  reqs : List (Nat × Int × Int) := []      -- (file idx, range first, range last) per request
  log : List String := []
  evs : List Ev := []
  panic : Bool := false

section
variable {σ : Type} (add : σ → Nat → Bytes → σ × AddRes)

/-- the reader `Get` copies from: the body, behind `io.LimitReader` when a limit was decided -/
def grSrc (lim : Option Int) (body : Src) : Src :=
  match lim with
  | some n => limitSrc body n.toNat
  | none => body

/-- result of one iteration of the loop: `(n, err)` as returned by `Get` / `io.Copy` -/
structure GOne (σ : Type) where
  st : σ
  w : W
  n : Nat
  err : Option String
  evs : List Ev
  panic : Bool

def grOne (fixed : Bool) (st : σ) (w : W) (fc : FileChunk) (r : Resp) : GOne σ :=
  match r with
  | .pad =>
    let x := readFrom add fixed st w (zeroSrc fc.length.toNat)
    -- io.Copy reports ReadFrom's error
    ⟨x.1, x.2.1, x.2.2.n, if x.2.2.err = .nil then none else some "copy", x.2.2.evs, x.2.2.panic⟩
  | .transport => ⟨st, w, 0, some "transport", [], false⟩
  | .http status cl cr body =>
    match grDecide fixed status cl cr fc.filelength fc.offset fc.length with
    | .reject why => ⟨st, w, 0, some why.name, [], false⟩
    | .accept lim =>
      let x := readFrom add fixed st w (grSrc lim body)
      ⟨x.1, x.2.1, x.2.2.n, none, x.2.2.evs, x.2.2.panic⟩                  -- Get returns (n, nil)

def noteReq (acc : GROut) (fc : FileChunk) (r : Resp) : GROut :=
  match r with
  | .pad => acc
  | _ => { acc with reqs := acc.reqs ++ [(fc.idx, fc.offset, fc.offset + fc.length - 1)] }

def grLoop (fixed : Bool) : σ → W → List FileChunk → List Resp → GROut → σ × W × GROut
  | st, w, [], _, acc => (st, w, acc)
  | st, w, fc :: fcs, rs, acc =>
    let r := rs.headD .transport
    let x := grOne add fixed st w fc r
    let acc' : GROut := { noteReq acc fc r with evs := acc.evs ++ x.evs, panic := acc.panic || x.panic }
    if x.panic then (x.st, x.w, acc')
    else match x.err with
      | some e => (x.st, x.w, { acc' with log := acc'.log ++ [e] })
      | none =>
        if (x.n : Int) ≠ fc.length then (x.st, x.w, acc')                   -- silent break
        else grLoop fixed x.st x.w fcs rs.tail acc'

/-- tor.webseedGR: fileChunks, a writer for the whole range, the loop, deferred Close -/
def webseedGR (fixed : Bool) (st : σ) (fcs : List FileChunk) (offset length : Nat)
    (rs : List Resp) : σ × GROut :=
  let w := newWriter offset length
  let (st', w', acc) := grLoop add fixed st w fcs rs {}
  if acc.panic then (st', acc)
  else
    let (_, o) := close w'
    (st', { acc with evs := acc.evs ++ o.evs })

end

end Storrent.Files
