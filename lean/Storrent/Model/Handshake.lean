import Storrent.Model.Chunked
import Storrent.Model.CryptoPolicy
/-
The four handshake functions (C07/C08):
  protocol.ClientHandshake (plain and with the MSE handshake in front),
  protocol.ServerHandshake (plain, and falling into crypto.ServerHandshake),
  crypto.ClientHandshake, crypto.ServerHandshake.

They are written once, as programs of a small instruction set whose instructions are the
buffer-handling idioms of the Go code (`readMore` + slice off the front, `synchronise`,
the `len(buf) > 0` test, wrapping the connection in a `crypto.Conn`, `conn.Write`), and
interpreted twice:

  * `run`  — over a CHUNKED connection, transcribing the buffer management line by line
             (`Chunked.readMore`, `Chunked.syncLoop`: over-allocation `m`, what is
             truncated and what is not, re-search from the start, …).  This is what the
             driver executes against the real code.
  * `runF` — over the FLAT byte stream: the specification (Lemmas/Handshake proves that
             `run` refines it for every chunking).

Causality: the peer's stream comes in epochs; the bytes of epoch j+1 exist only after the
j+1-th write of the function under test (`later`).  A peer that does not wait simply puts
everything in epoch 0, so static streams are the special case `later = []`.

Cryptography is a parameter (`MseCrypto`): DH, SHA-1 and the RC4 keystream are arbitrary
functions in the theorems and the real algorithms (Model/MseCrypto.lean) in the driver.
-/
namespace Storrent.Handshake
open Storrent Storrent.Chunked Storrent.Policy

/-- the Go errors of the four functions, plus transport outcomes -/
inductive HsErr where
  | eof                 -- io.EOF / io.ErrUnexpectedEOF from readMore / ReadAtLeast / synchronise
  | stall               -- read beyond what the peer can have sent yet (deadline would expire)
  | sync                -- "couldn't synchronise"
  | badHandshake        -- protocol.ErrBadHandshake
  | unexpectedInfoHash  -- client: "unexpected infoHash"
  | plaintextForbidden  -- "plaintext handshake forbidden"
  | cryptoHashMismatch  -- server: "crypto hash mismatch"
  | unknownTorrent      -- protocol.ErrUnknownTorrent
  | cryptoForbidden     -- "crypto handshake forbidden"
  | trivialKey          -- "peer returned/sent trivial public key"
  | mseUnknownTorrent   -- crypto.ServerHandshake: "unknown torrent"
  | badVC               -- "bad VC"
  | noKnownAlgo         -- "peer didn't provide a known crypto algorithm"
  | extraData           -- "extra data after handshake"
  | cantNegotiate       -- "couldn't negotiate encryption"
  | peerDidntNegotiate  -- "peer didn't negotiate encryption"
  | peerDidNegotiate    -- "peer did negotiate encryption"
  | badSelect           -- "bad value for cryptoSelect"
  | panic               -- hash.Hash.Equal on a hash that is not 20 bytes long
  deriving DecidableEq, Repr

/-- which `readMore` an instruction goes through -/
inductive RM where
  | proto    -- protocol.readMore (truncates to what was read)
  | crypto   -- crypto.readMore (did not truncate before the repair)
  | inline   -- open-coded `io.ReadAtLeast` + `buf[:n]` (always exact)
  deriving DecidableEq, Repr

/-- which variant of the code is modelled -/
structure Variant where
  trunc : Bool    -- crypto.readMore truncates `buf` to the bytes read (repair 01)
  policy : Bool   -- plaintext handshakes are refused under ForceEncryption (repair 02)
  deriving DecidableEq, Repr

def repaired : Variant := ⟨true, true⟩
def asFound : Variant := ⟨false, false⟩

def rmTrunc (tr : Bool) : RM → Bool
  | .crypto => tr
  | _ => true

inductive Prog (α : Type) where
  | ret (a : α)
  | fail (e : HsErr)
  /-- `buf, err = readMore(conn, buf, n, m)`; the continuation sees `buf[:n]`, nothing is consumed -/
  | peek (rm : RM) (n m : Nat) (k : Bytes → Prog α)
  /-- `buf, err = readMore(conn, buf, n, m); x := buf[:n]; buf = buf[n:]` -/
  | take (rm : RM) (n m : Nat) (k : Bytes → Prog α)
  /-- `buf, err = synchronise(conn, buf, v, n, m)` -/
  | sync (v : Bytes) (n m : Nat) (k : Prog α)
  /-- `if len(buf) > 0 { no } else { yes }` -/
  | ifEmpty (yes no : Prog α)
  /-- `buf = decrypt(buf); conn = &Conn{conn, dec}`: everything still to come is XORed with
      the keystream, `buf` first -/
  | xorAll (ks : Nat → UInt8) (k : Prog α)
  /-- `buf = b` (Go) at a point where `buf` is empty: `b` is put in front -/
  | unread (b : Bytes) (k : Prog α)
  /-- `conn.Write(b)` (the peer may answer it: next epoch) -/
  | write (b : Bytes) (k : Prog α)

/-- chunked state: `buf`, the readable chunks, the epochs not yet sent, what was written -/
structure St where
  buf : Bytes
  cur : Src
  later : List Src
  out : List Bytes

inductive Res (α : Type) where
  | ok (a : α) (st : St)
  | err (e : HsErr) (out : List Bytes)

def xorLater (ks : Nat → UInt8) (pos : Nat) : List Src → List Src
  | [] => []
  | e :: es => xorSrc ks pos e :: xorLater ks (pos + e.flatten.length) es

def eofOrStall (laterEmpty : Bool) : HsErr := if laterEmpty then .eof else .stall

/-- the peer answers a write: the next epoch becomes readable -/
def release (cur : Src) : List Src → Src × List Src
  | [] => (cur, [])
  | e :: es => (cur ++ e, es)

def run {α : Type} (tr : Bool) : Prog α → St → Res α
  | .ret a, st => .ok a st
  | .fail e, st => .err e st.out
  | .peek rm n m k, st =>
    match readMore (rmTrunc tr rm) st.buf n m st.cur with
    | (b, true, c) => run tr (k (b.take n)) { st with buf := b, cur := c }
    | (_, false, _) => .err (eofOrStall st.later.isEmpty) st.out
  | .take rm n m k, st =>
    match readMore (rmTrunc tr rm) st.buf n m st.cur with
    | (b, true, c) => run tr (k (b.take n)) { st with buf := b.drop n, cur := c }
    | (_, false, _) => .err (eofOrStall st.later.isEmpty) st.out
  | .sync v n m k, st =>
    match synchronise v n m st.buf st.cur with
    | (b, .found, c) => run tr k { st with buf := b, cur := c }
    | (_, .fail, _) => .err .sync st.out
    | (_, .eof, _) => .err (eofOrStall st.later.isEmpty) st.out
  | .ifEmpty y n, st => if st.buf.isEmpty then run tr y st else run tr n st
  | .xorAll ks k, st =>
    run tr k { st with
      buf := xorAt ks 0 st.buf,
      cur := xorSrc ks st.buf.length st.cur,
      later := xorLater ks (st.buf.length + st.cur.flatten.length) st.later }
  | .unread b k, st => run tr k { st with buf := b ++ st.buf }
  | .write b k, st =>
    let (c, l) := release st.cur st.later
    run tr k { st with cur := c, later := l, out := st.out ++ [b] }

/-! ### flat specification -/

structure StF where
  rest : Bytes            -- bytes received and not consumed (`buf ++ cur.flatten`)
  later : List Bytes
  out : List Bytes

/-- why the outcome of a run is not a function of the byte stream alone -/
inductive Amb where
  /-- the marker searched by `synchronise` first occurs beyond the window every segmentation
      is guaranteed to search (peer pad > 512) -/
  | marker
  /-- bytes follow IA inside the same epoch (the MSE server's `len(buf) > 0` test sees them
      only if they arrive glued) -/
  | pipelined
  deriving DecidableEq, Repr

inductive ResF (α : Type) where
  | ok (a : α) (st : StF)
  | err (e : HsErr) (out : List Bytes)
  /-- the outcome is not a function of the byte stream, see `Amb` -/
  | ambiguous (why : Amb)

def ResF.isAmb {α : Type} : ResF α → Bool
  | .ambiguous _ => true
  | _ => false

def xorEpochs (ks : Nat → UInt8) (pos : Nat) : List Bytes → List Bytes
  | [] => []
  | e :: es => xorAt ks pos e :: xorEpochs ks (pos + e.length) es

def releaseF (rest : Bytes) : List Bytes → Bytes × List Bytes
  | [] => (rest, [])
  | e :: es => (rest ++ e, es)

def runF {α : Type} : Prog α → StF → ResF α
  | .ret a, st => .ok a st
  | .fail e, st => .err e st.out
  | .peek _ n _ k, st =>
    if n ≤ st.rest.length then runF (k (st.rest.take n)) st
    else .err (eofOrStall st.later.isEmpty) st.out
  | .take _ n _ k, st =>
    if n ≤ st.rest.length then runF (k (st.rest.take n)) { st with rest := st.rest.drop n }
    else .err (eofOrStall st.later.isEmpty) st.out
  | .sync v n _ k, st =>
    match findSub v st.rest with
    | some i =>
      if i + v.length ≤ n then runF k { st with rest := st.rest.drop (i + v.length) }
      else .ambiguous .marker
    | none =>
      if n ≤ st.rest.length then .err .sync st.out
      else .err (eofOrStall st.later.isEmpty) st.out
  | .ifEmpty y _, st => if st.rest.isEmpty then runF y st else .ambiguous .pipelined
  | .xorAll ks k, st =>
    runF k { st with rest := xorAt ks 0 st.rest, later := xorEpochs ks st.rest.length st.later }
  | .unread b k, st => runF k { st with rest := b ++ st.rest }
  | .write b k, st =>
    let (r, l) := releaseF st.rest st.later
    runF k { st with rest := r, later := l, out := st.out ++ [b] }

/-- what a chunked result means for the flat stream -/
def St.abs (st : St) : StF := ⟨st.buf ++ st.cur.flatten, st.later.map List.flatten, st.out⟩

def Res.abs {α : Type} : Res α → ResF α
  | .ok a st => .ok a st.abs
  | .err e out => .err e out

/-! ### the BitTorrent handshake (protocol/handshake.go) -/

structure HsResult where
  hash : Bytes
  id : Bytes
  dht : Bool
  fast : Bool
  ext : Bool
  rc4 : Bool      -- cipher mode: the returned conn is a `*crypto.Conn`
  deriving DecidableEq, Repr

def header : Bytes :=
  [19, 0x42, 0x69, 0x74, 0x54, 0x6f, 0x72, 0x72, 0x65, 0x6e, 0x74,
   0x20, 0x70, 0x72, 0x6f, 0x74, 0x6f, 0x63, 0x6f, 0x6c]

def reserved : Bytes := [0, 0, 0, 0, 0, 0x10, 0, 0x05]

/-- protocol.handshake(infoHash, myid) -/
def handshakeMsg (infoHash myid : Bytes) : Bytes := header ++ reserved ++ infoHash ++ myid

def capDht (r : Bytes) : Bool := r.getD 7 0 &&& 0x01 != 0
def capFast (r : Bytes) : Bool := r.getD 7 0 &&& 0x04 != 0
def capExt (r : Bytes) : Bool := r.getD 5 0 &&& 0x10 != 0

/-- ClientHandshake from `buf, err = readMore(conn, buf, 20+8+20+20, 0)` on -/
def clientTail (infoHash : Bytes) (rc4 : Bool) : Prog HsResult :=
  .take .proto 68 0 fun b =>
    if b.take 20 ≠ header then .fail .badHandshake
    else
      let r := b.drop 20
      if (r.drop 8).take 20 ≠ infoHash then .fail .unexpectedInfoHash
      else .ret { hash := (r.drop 8).take 20, id := r.drop 28,
                  dht := capDht r, fast := capFast r, ext := capExt r, rc4 := rc4 }

/-- hash.Hash.Equal panics unless both are 20 bytes long -/
inductive Find where
  | found (h : Bytes × Bytes) | notFound | panic

/-- `for _, h = range hashes { if hsh.Equal(h.First) { found = true; break } }` -/
def findHash (hsh : Bytes) : List (Bytes × Bytes) → Find
  | [] => .notFound
  | h :: hs =>
    if hsh.length ≠ 20 ∨ h.1.length ≠ 20 then .panic
    else if hsh = h.1 then .found h else findHash hsh hs

/-- ServerHandshake from `buf, err = readMore(conn, buf, 8+20, 8+20+20)` on; `enc` is what
    `conn.Write` does to the reply (identity, or RC4 when `conn` is a crypto.Conn) -/
def serverTail (hashes : List (Bytes × Bytes)) (skey : Option Bytes) (rc4 : Bool)
    (enc : Bytes → Bytes) : Prog HsResult :=
  .take .proto 28 48 fun r =>
    let hsh := r.drop 8
    let mismatch : Option Bool :=   -- `skey != nil && !skey.Equal(hsh)`; none = panic
      match skey with
      | none => some false
      | some sk => if sk.length ≠ 20 then none else some (sk ≠ hsh)
    match mismatch with
    | none => .fail .panic
    | some true => .fail .cryptoHashMismatch
    | some false =>
      match findHash hsh hashes with
      | .panic => .fail .panic
      | .notFound => .fail .unknownTorrent
      | .found h =>
        .write (enc (handshakeMsg hsh h.2)) <|
        .take .proto 20 0 fun id =>
          .ret { hash := hsh, id := id, dht := capDht r, fast := capFast r, ext := capExt r,
                 rc4 := rc4 }

/-! ### MSE (crypto/crypto.go) -/

structure MseCrypto where
  pub : Bytes → Bytes              -- x ↦ g^x mod p, 96 bytes big-endian
  dh : Bytes → Bytes → Bytes       -- (x, Y) ↦ Y^x mod p, 96 bytes big-endian
  trivial : Bytes → Bool           -- Y ∈ {0, 1, p-1}
  hash : Bytes → Bytes             -- SHA-1
  ks : Bytes → Array UInt8         -- RC4 keystream of a key (long enough for the stream)

def str (s : String) : Bytes := s.toUTF8.toList

def xorBytes : Bytes → Bytes → Bytes
  | a :: as, b :: bs => (a ^^^ b) :: xorBytes as bs
  | _, _ => []

def vc : Bytes := [0, 0, 0, 0, 0, 0, 0, 0]

/-- keystream after the first 1024 bytes have been discarded (MSE) -/
def discard1024 (t : Array UInt8) : Nat → UInt8 := fun i => t.getD (1024 + i) 0

namespace MseCrypto
variable (cr : MseCrypto)
def req1 (s : Bytes) : Bytes := cr.hash (str "req1" ++ s)
def req2 (skey : Bytes) : Bytes := cr.hash (str "req2" ++ skey)
def req3 (s : Bytes) : Bytes := cr.hash (str "req3" ++ s)
/-- the RC4 keystream table of SHA1(label ++ S ++ SKEY) -/
def table (label : String) (s skey : Bytes) : Array UInt8 :=
  cr.ks (cr.hash (str label ++ s ++ skey))
end MseCrypto

/-- crypto.ClientHandshake(conn, skey, ia, options); `x` and `pad` are the random secret and
    the random padding; `k rc4` continues with the returned connection. -/
def mseClient {α : Type} (cr : MseCrypto) (o : Options) (x pad skey ia : Bytes)
    (k : Bool → Prog α) : Prog α :=
  if !o.allowCH then .fail .cryptoForbidden else
  .write (cr.pub x ++ pad) <|
  .take .inline 96 608 fun yb =>
    if cr.trivial yb then .fail .trivialKey else
    let s := cr.dh x yb
    let tA := cr.table "keyA" s skey
    let tB := cr.table "keyB" s skey
    let ksA := discard1024 tA     -- enc
    let ksB := discard1024 tB     -- dec
    let provide := cryptoProvide o
    if provide = 0 then .fail .cantNegotiate else
    .write (cr.req1 s ++ xorBytes (cr.req2 skey) (cr.req3 s) ++
            xorAt ksA 0 (vc ++ [0, 0, 0, UInt8.ofNat provide] ++ [0, 0] ++ be16 ia.length ++ ia)) <|
    .sync (xorAt ksB 0 vc) 520 526 <|
    .take .crypto 6 0 fun e =>
      let stuff := xorAt ksB 8 e
      let select := rdBE (stuff.take 4)
      let lenPadD := rdBE (stuff.drop 4)
      let fin : Prog α :=
        if select = 1 then (if o.forceE then .fail .peerDidntNegotiate else k false)
        else if select = 2 then
          (if !o.allowE then .fail .peerDidNegotiate
           else .xorAll (fun i => ksB (14 + lenPadD + i)) (k true))
        else .fail .badSelect
      if lenPadD > 0 then .take .crypto lenPadD 0 fun _ => fin else fin

/-- `for _, sk := range skeys { if bytes.Equal(req2, hash("req2", sk)) { skey = sk; break } }` -/
def findSkey (cr : MseCrypto) (req2 : Bytes) : List Bytes → Option Bytes
  | [] => none
  | sk :: sks => if req2 = cr.req2 sk then some sk else findSkey cr req2 sks

/-- crypto.ServerHandshake(conn, head, skeys, options): `head` is the current buffer (the 20
    to 68 bytes protocol.ServerHandshake has read); `k rc4 skey enc` continues with the
    returned connection, `enc` being what its Write does. -/
def mseServer {α : Type} (cr : MseCrypto) (o : Options) (x pad : Bytes) (skeys : List Bytes)
    (k : Bool → Bytes → (Bytes → Bytes) → Prog α) : Prog α :=
  if !o.allowCH then .fail .cryptoForbidden else
  .take .inline 96 608 fun ya =>
    if cr.trivial ya then .fail .trivialKey else
    let s := cr.dh x ya
    .write (cr.pub x ++ pad) <|
    .sync (cr.req1 s) 612 1500 <|
    .take .crypto 20 1024 fun req23 =>
      match findSkey cr (xorBytes req23 (cr.req3 s)) skeys with
      | none => .fail .mseUnknownTorrent
      | some skey =>
        let tA := cr.table "keyA" s skey
        let tB := cr.table "keyB" s skey
        let ksB := discard1024 tB   -- enc
        let ksA := discard1024 tA   -- dec
        .take .crypto 14 528 fun estuff =>
          let stuff := xorAt ksA 0 estuff
          if stuff.take 8 ≠ vc then .fail .badVC else
          let provide := rdBE ((stuff.drop 8).take 4)
          let lenPadC := rdBE (stuff.drop 12)
          if provide % 4 = 0 then .fail .noKnownAlgo else
          let afterPad : Prog α :=
            .take .crypto 2 1024 fun eLenIa =>
              let lenIa := rdBE (xorAt ksA (14 + lenPadC) eLenIa)
              .take .crypto lenIa 0 fun eia =>
                let ia := xorAt ksA (16 + lenPadC) eia
                .ifEmpty
                  (let select := serverSelect o provide
                   if select = 0 then .fail .cantNegotiate else
                   .write (xorAt ksB 0 (vc ++ [0, 0, 0, UInt8.ofNat select] ++ [0, 0])) <|
                   if select = 1 then .unread ia (k false skey id)
                   else .xorAll (fun i => ksA (16 + lenPadC + lenIa + i))
                          (.unread ia (k true skey (xorAt ksB 14))))
                  (.fail .extraData)
          if lenPadC > 0 then .take .crypto lenPadC 514 fun _ => afterPad else afterPad

/-- protocol.ClientHandshake(c, cryptoHandshake = false, infoHash, myid, options) -/
def plainClient (v : Variant) (o : Options) (infoHash myid : Bytes) : Prog HsResult :=
  if v.policy && o.forceE then .fail .plaintextForbidden else
  .write (handshakeMsg infoHash myid) (clientTail infoHash false)

/-- protocol.ClientHandshake(c, cryptoHandshake = true, …): skey = infoHash, IA = the
    BitTorrent handshake -/
def cryptoClient (cr : MseCrypto) (o : Options) (x pad infoHash myid : Bytes) : Prog HsResult :=
  mseClient cr o x pad infoHash (handshakeMsg infoHash myid) (fun rc4 => clientTail infoHash rc4)

/-- protocol.ServerHandshake after the first read: `b` = the first 20 bytes received -/
def serverK (v : Variant) (cr : MseCrypto) (o : Options) (x pad : Bytes)
    (hashes : List (Bytes × Bytes)) (b : Bytes) : Prog HsResult :=
  if b = header then
    (if o.forceCH || (v.policy && o.forceE) then .fail .plaintextForbidden
     else .take .proto 20 68 fun _ => serverTail hashes none false id)
  else if o.allowCH then
    mseServer cr o x pad (hashes.map (·.1)) fun rc4 skey enc =>
      .take .proto 20 68 fun b2 =>
        if b2 ≠ header then .fail .badHandshake
        else serverTail hashes (some skey) rc4 enc
  else .fail .badHandshake

/-- protocol.ServerHandshake(c, hashes, options):
    `n, err = io.ReadAtLeast(conn, buf[:68], 20); ok := checkHeader(buf[:n])`, then
    `ok && Force… → "plaintext handshake forbidden"`, `!ok && AllowCryptoHandshake → MSE`,
    `!ok → ErrBadHandshake`, else the plain handshake -/
def server (v : Variant) (cr : MseCrypto) (o : Options) (x pad : Bytes)
    (hashes : List (Bytes × Bytes)) : Prog HsResult :=
  .peek .inline 20 68 (serverK v cr o x pad hashes)

end Storrent.Handshake
