import Storrent.Util
/-
Chunked byte source: what a TCP connection guarantees to `conn.Read`.

A source is a list of chunks; one `conn.Read(b)` with `len(b) = k` returns
`min k (length of the head chunk)` bytes of the head chunk and never looks at the next
chunk.  An empty chunk is a `(0, nil)` read; the empty list is end of stream `(0, EOF)`.
`readAtLeast` is `io.ReadAtLeast`, `readMore` is the helper of that name in
protocol/handshake.go (truncating) and crypto/crypto.go (see `trunc`), `syncLoop` is
crypto.synchronise.  Core-only: links into the drivers.
-/
namespace Storrent.Chunked
open Storrent

abbrev Src := List Bytes

/-- one `conn.Read(b)`, `len(b) = k`; `none` = `(0, io.EOF)` -/
def read (k : Nat) : Src → Option (Bytes × Src)
  | [] => none
  | c :: cs => if c.length ≤ k then some (c, cs) else some (c.take k, c.drop k :: cs)

/-- `io.ReadAtLeast(conn, buf[len acc:], min)` where `cap = len(buf)` (callers guarantee
    `min ≤ cap`, otherwise Go answers ErrShortBuffer: see `ioReadAtLeast`).  The loop
    `for n < min && err == nil { nn, err = r.Read(buf[n:]); n += nn }`.
    Result: the bytes now in the buffer, whether `min` was reached, the remaining source. -/
def readAtLeast (cap min : Nat) : Src → Bytes → Bytes × Bool × Src
  | [], acc => (acc, decide (min ≤ acc.length), [])
  | c :: cs, acc =>
    if min ≤ acc.length then (acc, true, c :: cs)
    else if c.length ≤ cap - acc.length then readAtLeast cap min cs (acc ++ c)
    else (acc ++ c.take (cap - acc.length), true, c.drop (cap - acc.length) :: cs)

inductive IoRes where
  | ok (got : Bytes) (rest : Src)
  | eof (got : Bytes)            -- io.EOF / io.ErrUnexpectedEOF
  | shortBuffer
  deriving Repr, DecidableEq

/-- `io.ReadAtLeast` on a fresh buffer of `cap` bytes. -/
def ioReadAtLeast (cap min : Nat) (src : Src) : IoRes :=
  if cap < min then .shortBuffer
  else match readAtLeast cap min src [] with
    | (got, true, rest) => .ok got rest
    | (got, false, _) => .eof got

/-- `io.ReadFull`. -/
def readFull (n : Nat) (src : Src) : IoRes := ioReadAtLeast n n src

/-- `readMore(conn, buf, n, m)`:
    ```
    if m < n { m = n }; l := len(buf); if l >= n { return buf, nil }
    buf = append(buf, make([]byte, m-l)...)
    k, err := io.ReadAtLeast(conn, buf[l:], n-l)
    buf = buf[:l+k]            // protocol.readMore; crypto.readMore before the repair omits it
    ```
    `trunc = false` is crypto.readMore as found (the `m-l-k` zero bytes stay in `buf`). -/
def readMore (trunc : Bool) (buf : Bytes) (n m : Nat) (src : Src) : Bytes × Bool × Src :=
  let m := if m < n then n else m
  let l := buf.length
  if n ≤ l then (buf, true, src)
  else
    match readAtLeast (m - l) (n - l) src [] with
    | (got, ok, src') =>
      if trunc then (buf ++ got, ok, src')
      else (buf ++ got ++ List.replicate (m - l - got.length) 0, ok, src')

/-- `bytes.Index(w, v)`: first index at which `v` occurs in `w`. -/
def findSub (v : Bytes) : Bytes → Option Nat
  | [] => if v.isEmpty then some 0 else none
  | x :: xs =>
    if v.isPrefixOf (x :: xs) then some 0
    else (findSub v xs).map (· + 1)

inductive SyncRes where
  | found | fail | eof
  deriving Repr, DecidableEq

/-- crypto.synchronise(c, w, v, n, m) with `m ≥ n` already normalised:
    ```
    for { i := bytes.Index(w, v); if i >= 0 { return w[i+len(v):], nil }
          l := len(w); if l >= n { return w, "couldn't synchronise" }
          w = append(w, make([]byte, m-l)...); k, err := c.Read(w[l:]); w = w[:l+k]
          if k == 0 && err != nil { return w, err } }
    ```
    The search restarts from the beginning of `w` after every read. -/
def syncLoop (v : Bytes) (n m : Nat) : Src → Bytes → Bytes × SyncRes × Src
  | [], w =>
    match findSub v w with
    | some i => (w.drop (i + v.length), .found, [])
    | none => if n ≤ w.length then (w, .fail, []) else (w, .eof, [])
  | c :: cs, w =>
    match findSub v w with
    | some i => (w.drop (i + v.length), .found, c :: cs)
    | none =>
      if n ≤ w.length then (w, .fail, c :: cs)
      else if c.length ≤ m - w.length then syncLoop v n m cs (w ++ c)
      else
        -- the read fills the buffer: len(w) = m ≥ n, the next iteration ends the loop
        let w' := w ++ c.take (m - w.length)
        match findSub v w' with
        | some i => (w'.drop (i + v.length), .found, c.drop (m - w.length) :: cs)
        | none => (w', .fail, c.drop (m - w.length) :: cs)

def synchronise (v : Bytes) (n m : Nat) (w : Bytes) (src : Src) : Bytes × SyncRes × Src :=
  syncLoop v n (if m < n then n else m) src w

/-- positional XOR with a keystream: byte `i` of the input is XORed with `ks (pos+i)`
    (rc4.XORKeyStream on a cipher that has already produced `pos` bytes). -/
def xorAt (ks : Nat → UInt8) (pos : Nat) : Bytes → Bytes
  | [] => []
  | b :: bs => (b ^^^ ks pos) :: xorAt ks (pos + 1) bs

/-- a source read through a `crypto.Conn` whose `dec` stream is at position `pos`:
    `Conn.Read` = underlying read, then XOR in place; the chunk structure is unchanged. -/
def xorSrc (ks : Nat → UInt8) (pos : Nat) : Src → Src
  | [] => []
  | c :: cs => xorAt ks pos c :: xorSrc ks (pos + c.length) cs

/-- cut a flat byte string into chunks of the given sizes (driver side: builds the source
    the harness describes); sizes 0 give empty chunks; the remainder is a last chunk. -/
def cut : List Nat → Bytes → Src
  | [], bs => if bs.isEmpty then [] else [bs]
  | k :: ks, bs => if bs.isEmpty then [] else bs.take k :: cut ks (bs.drop k)

end Storrent.Chunked
