import Storrent.Util
/-
Bencode, written from BEP 3 (not from zeebo/bencode): canonical encoder for the flat
dictionaries used by the BitTorrent extension protocol, and a decoder for the same
shapes that skips unknown keys (any well-formed value, nested to any depth).

Non-nested value type on purpose (no nested inductive): the extension protocol only
needs integers, byte strings and one level of string->int dictionary ("m").
-/
namespace Storrent.Bencode
open Storrent

def isDigit (b : UInt8) : Bool := 48 ≤ b && b ≤ 57

def dig (n : Nat) : UInt8 := UInt8.ofNat (48 + n % 10)

/-- decimal digits of `n`, most significant first, as ASCII bytes -/
def natDigits (n : Nat) : Bytes :=
  if _h : n < 10 then [dig n] else natDigits (n / 10) ++ [dig n]
termination_by n
decreasing_by omega

def encInt (i : Int) : Bytes :=
  [105] ++ (if i < 0 then [45] ++ natDigits i.natAbs else natDigits i.toNat) ++ [101]

def encStr (s : Bytes) : Bytes := natDigits s.length ++ [58] ++ s

/-- leading decimal digits -/
def spanDigits : Bytes → Nat → Nat → (Nat × Nat × Bytes)
  | [], acc, k => (acc, k, [])
  | b :: rest, acc, k =>
    if isDigit b then spanDigits rest (acc * 10 + (b.toNat - 48)) (k + 1) else (acc, k, b :: rest)

/-- at least one digit -/
def parseNat (bs : Bytes) : Option (Nat × Bytes) :=
  match spanDigits bs 0 0 with
  | (_, 0, _) => none
  | (n, _, rest) => some (n, rest)

/-- after the leading 'i' -/
def parseIntBody (bs : Bytes) : Option (Int × Bytes) :=
  match bs with
  | 45 :: rest =>
    match parseNat rest with
    | some (n, 101 :: r) => some (-(n : Int), r)
    | _ => none
  | _ =>
    match parseNat bs with
    | some (n, 101 :: r) => some ((n : Int), r)
    | _ => none

/-- `<len>:<bytes>`; the declared length must fit 31 bits (as in every implementation) -/
def parseStr (bs : Bytes) : Option (Bytes × Bytes) :=
  match parseNat bs with
  | some (n, 58 :: r) =>
    if n < 2147483648 ∧ n ≤ r.length then some (r.take n, r.drop n) else none
  | _ => none

/-- skip one well-formed value of any shape; `depth` = open containers.  Fuel-indexed
    scanner: returns the rest after the value. -/
def skipVal : Nat → Nat → Bytes → Option Bytes
  | 0, _, _ => none
  | fuel+1, depth, bs =>
    match bs with
    | [] => none
    | 101 :: rest =>                       -- 'e' closes a container
      if depth = 0 then none
      else if depth = 1 then some rest else skipVal fuel (depth - 1) rest
    | 105 :: rest =>                       -- 'i'
      match parseIntBody rest with
      | some (_, r) => if depth = 0 then some r else skipVal fuel depth r
      | none => none
    | 108 :: rest => skipVal fuel (depth + 1) rest    -- 'l'
    | 100 :: rest => skipVal fuel (depth + 1) rest    -- 'd' (keys are strings = values)
    | b :: _ =>
      if isDigit b then
        match parseStr bs with
        | some (_, r) => if depth = 0 then some r else skipVal fuel depth r
        | none => none
      else none

inductive BV where
  | int (i : Int)
  | str (s : Bytes)
  | dictI (d : List (Bytes × Int))   -- flat string -> int dictionary
  | other                            -- list / nested dictionary: skipped
  deriving Repr, BEq, DecidableEq

/-- flat dictionary of ints after the leading 'd'; fails (none) if a value is not an int -/
def parseDictI : Nat → Bytes → List (Bytes × Int) → Option (List (Bytes × Int) × Bytes)
  | 0, _, _ => none
  | fuel+1, bs, acc =>
    match bs with
    | 101 :: rest => some (acc.reverse, rest)
    | _ =>
      match parseStr bs with
      | some (k, 105 :: r) =>
        match parseIntBody r with
        | some (i, r') => parseDictI fuel r' ((k, i) :: acc)
        | none => none
      | _ => none

def parseVal (bs : Bytes) : Option (BV × Bytes) :=
  match bs with
  | 105 :: rest => (parseIntBody rest).map (fun (i, r) => (BV.int i, r))
  | 100 :: rest =>
    match parseDictI (bs.length + 1) rest [] with
    | some (d, r) => some (BV.dictI d, r)
    | none => (skipVal (bs.length + 1) 0 bs).map (fun r => (BV.other, r))
  | 108 :: _ => (skipVal (bs.length + 1) 0 bs).map (fun r => (BV.other, r))
  | b :: _ => if isDigit b then (parseStr bs).map (fun (s, r) => (BV.str s, r)) else none
  | [] => none

/-- top-level dictionary: list of (key, value) in wire order, and the rest after 'e' -/
def parseDictBody : Nat → Bytes → List (Bytes × BV) → Option (List (Bytes × BV) × Bytes)
  | 0, _, _ => none
  | fuel+1, bs, acc =>
    match bs with
    | 101 :: rest => some (acc.reverse, rest)
    | _ =>
      match parseStr bs with
      | some (k, r) =>
        match parseVal r with
        | some (v, r') => parseDictBody fuel r' ((k, v) :: acc)
        | none => none
      | none => none

def parseDict (bs : Bytes) : Option (List (Bytes × BV) × Bytes) :=
  match bs with
  | 100 :: rest => parseDictBody (bs.length + 1) rest []
  | _ => none

/-- last binding wins (a later duplicate key overwrites, as in a map/struct decoder) -/
def lookup (k : Bytes) (d : List (Bytes × BV)) : Option BV :=
  (d.reverse.find? (fun kv => kv.1 == k)).map (·.2)

def encDictI (d : List (Bytes × Int)) : Bytes :=
  [100] ++ (d.map (fun kv => encStr kv.1 ++ encInt kv.2)).flatten ++ [101]

def encBV : BV → Bytes
  | .int i => encInt i
  | .str s => encStr s
  | .dictI d => encDictI d
  | .other => [108, 101]

def encDict (d : List (Bytes × BV)) : Bytes :=
  [100] ++ (d.map (fun kv => encStr kv.1 ++ encBV kv.2)).flatten ++ [101]

/-- ASCII key names as bytes (kernel-reducible, unlike `String.toUTF8`) -/
def strBytes (s : String) : Bytes := s.toList.map (fun c => UInt8.ofNat c.toNat)

end Storrent.Bencode
