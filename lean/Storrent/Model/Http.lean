import Storrent.Util
/-
Executable model of the string-level functions of http/http.go (C19).  Go strings are byte
sequences, so everything is over `List UInt8`.

* `checkLocal`  — http.go:50-67: `net.SplitHostPort(r.Host)` (transcribed from
  net/ipsock.go, Go 1.23) followed by `host != "localhost" && net.ParseIP(host) == nil`.
  `net.ParseIP` = `netip.ParseAddr` without zone; APPROXIMATION: only *acceptance* is
  modelled (the address value is not needed), transcribed from `parseIPv4Fields` /
  `parseIPv6` of net/netip/netip.go.  The tie to the real `net` package is the `cl`
  correspondence stream (every branch tag hit on every run).
* `htmlEscape`  — html.EscapeString: a byte-wise strings.Replacer over & ' < > ".
* `pathEscape`  — url.PathEscape (`escape(s, encodePathSegment)`), `pathUrl` — http.go:402-410,
  including its fault `b[0:len(b)-1]` on an empty path.
* `m3uentry`    — http.go:916-921 (as repaired: the title has ',', CR and LF removed),
  including the fault `path[len(path)-1]` on an empty path; `m3uentryUnfixed` is the
  function as it was (only ',' removed), kept for the refutation witness.
-/
namespace Storrent.Http

abbrev Str := List UInt8

inductive Res (α : Type) where
  | ok (a : α)
  | panic
  deriving Repr, DecidableEq

/-! ### net.SplitHostPort -/

def indexOf (c : UInt8) : Str → Option Nat
  | [] => none
  | x :: xs => if x = c then some 0 else (indexOf c xs).map (· + 1)

def lastIndexOf (c : UInt8) : Str → Option Nat
  | [] => none
  | x :: xs => match lastIndexOf c xs with
    | some i => some (i + 1)
    | none => if x = c then some 0 else none

/-- `net.SplitHostPort`: `some (host, port)` or `none` for any `*AddrError`.
    58 ':'  91 '['  93 ']' -/
def splitHostPort (hp : Str) : Option (Str × Str) :=
  match lastIndexOf 58 hp with
  | none => none                                      -- missing port
  | some i =>
    if hp.head? = some 91 then
      match indexOf 93 hp with
      | none => none                                  -- missing ']'
      | some e =>
        if e + 1 = hp.length then none                -- missing port
        else if e + 1 = i then
          if (hp.drop 1).contains 91 then none        -- unexpected '['   (j = 1)
          else if (hp.drop (e + 1)).contains 93 then none  -- unexpected ']' (k = end+1)
          else some ((hp.take e).drop 1, hp.drop (i + 1))
        else none                                     -- too many colons / missing port
    else
      let host := hp.take i
      if host.contains 58 then none                   -- too many colons
      else if hp.contains 91 then none                -- unexpected '['   (j = 0)
      else if hp.contains 93 then none                -- unexpected ']'   (k = 0)
      else some (host, hp.drop (i + 1))

/-! ### net.ParseIP (acceptance only) -/

def isDigit (c : UInt8) : Bool := 48 ≤ c && c ≤ 57
def isHexDigit (c : UInt8) : Bool :=
  (48 ≤ c && c ≤ 57) || (97 ≤ c && c ≤ 102) || (65 ≤ c && c ≤ 70)

/-- `parseIPv4Fields` over the whole of `s`: `first` = (i == 0), `prevDot` = (s[i-1] == '.') -/
def ipv4Loop : Str → Bool → Bool → Nat → Nat → Nat → Bool
  | [], _, _, _, pos, _ => decide (3 ≤ pos)           -- pos < 3: "too short"
  | c :: rest, first, prevDot, val, pos, digLen =>
    if isDigit c then
      if digLen = 1 ∧ val = 0 then false              -- leading zero
      else
        let val' := val * 10 + (c.toNat - 48)
        if val' > 255 then false
        else ipv4Loop rest false false val' pos (digLen + 1)
    else if c = 46 then
      if first || rest.isEmpty || prevDot then false  -- i == 0 || i == len(s)-1 || s[i-1] == '.'
      else if pos = 3 then false                      -- too long
      else ipv4Loop rest false true 0 (pos + 1) 0
    else false                                        -- unexpected character

def parseIPv4 (s : Str) : Bool := ipv4Loop s true false 0 0 0

/-- after the loop of `parseIPv6`: whole string used, and the field count fits -/
def v6Finish (s : Str) (i : Nat) (ell : Bool) : Bool :=
  s.isEmpty && (if i < 16 then ell else !ell)

/-- the `for i < 16` loop of `parseIPv6`; `ell` = (ellipsis >= 0) -/
def v6Loop : Nat → Str → Nat → Bool → Bool
  | 0, s, i, ell => v6Finish s i ell
  | fuel + 1, s, i, ell =>
    if 16 ≤ i then v6Finish s i ell
    else
      let n := (s.takeWhile isHexDigit).length
      if 4 < n then false                             -- more than 4 digits in group
      else if n = 0 then false                        -- no digits
      else
        let s1 := s.drop n
        if s1.head? = some 46 then                    -- embedded IPv4
          if !ell && i ≠ 12 then false
          else if 16 < i + 4 then false
          else if !(parseIPv4 s) then false
          else v6Finish [] (i + 4) ell
        else
          match s1 with
          | [] => v6Finish [] (i + 2) ell
          | c :: s2 =>
            if c ≠ 58 then false                      -- want colon
            else match s2 with
              | [] => false                           -- colon must be followed by more
              | d :: s3 =>
                if d = 58 then
                  if ell then false                   -- multiple ::
                  else if s3.isEmpty then v6Finish [] (i + 2) true
                  else v6Loop fuel s3 (i + 2) true
                else v6Loop fuel s2 (i + 2) ell

def parseIPv6 (s : Str) : Bool :=
  match s with
  | 58 :: 58 :: rest => if rest.isEmpty then true else v6Loop 9 rest 0 true
  | _ => v6Loop 9 s 0 false

/-- `net.ParseIP(s) != nil`.  46 '.'  58 ':'  37 '%' (a zone, or a lone '%', is refused) -/
def parseIP (s : Str) : Bool :=
  match s.find? (fun c => c = 46 || c = 58 || c = 37) with
  | some c =>
    if c = 46 then parseIPv4 s
    else if c = 58 then (if s.contains 37 then false else parseIPv6 s)
    else false
  | none => false

def localhost : Str := [108, 111, 99, 97, 108, 104, 111, 115, 116]

inductive Local where
  | ok            -- the handler goes on
  | badRequest    -- 400: SplitHostPort failed
  | forbidden     -- 403
  deriving Repr, DecidableEq

def checkLocal (hostHeader : Str) : Local :=
  match splitHostPort hostHeader with
  | none => .badRequest
  | some (host, _) =>
    if host ≠ localhost ∧ parseIP host = false then .forbidden else .ok

/-- which branch of the model fired (coverage tag of the `cl` stream) -/
def checkLocalTag (hostHeader : Str) : String :=
  match splitHostPort hostHeader with
  | none => "split-error"
  | some (host, _) =>
    if host = localhost then "localhost"
    else if parseIP host then (if host.contains 58 then "ipv6" else "ipv4")
    else "forbidden"

/-! ### html.EscapeString -/

def entAmp : Str := [38, 97, 109, 112, 59]    -- &amp;
def entApos : Str := [38, 35, 51, 57, 59]     -- &#39;
def entLt : Str := [38, 108, 116, 59]         -- &lt;
def entGt : Str := [38, 103, 116, 59]         -- &gt;
def entQuot : Str := [38, 35, 51, 52, 59]     -- &#34;
def entities : List Str := [entAmp, entApos, entLt, entGt, entQuot]

def escByte (c : UInt8) : Str :=
  if c = 38 then entAmp
  else if c = 39 then entApos
  else if c = 60 then entLt
  else if c = 62 then entGt
  else if c = 34 then entQuot
  else [c]

def htmlEscape (s : Str) : Str := s.flatMap escByte

/-! ### url.PathEscape and pathUrl -/

def isAlnum (c : UInt8) : Bool :=
  (97 ≤ c && c ≤ 122) || (65 ≤ c && c ≤ 90) || (48 ≤ c && c ≤ 57)

/-- `shouldEscape(c, encodePathSegment)` -/
def shouldEscape (c : UInt8) : Bool :=
  if isAlnum c then false
  else if c = 45 || c = 95 || c = 46 || c = 126 then false        -- - _ . ~
  else if c = 36 || c = 38 || c = 43 || c = 58 || c = 61 || c = 64 then false  -- $ & + : = @
  else true                                                        -- incl. / ; , ?

def upperhexTable : Str := [48, 49, 50, 51, 52, 53, 54, 55, 56, 57, 65, 66, 67, 68, 69, 70]
def upperhex (n : Nat) : UInt8 := upperhexTable.getD n 48

def pctByte (c : UInt8) : Str :=
  if shouldEscape c then [37, upperhex (c.toNat / 16), upperhex (c.toNat % 16)] else [c]

def pathEscape (s : Str) : Str := s.flatMap pctByte

/-- http.go:402-410.  `b[0:len(b)-1]` faults when `b` is empty, i.e. for the empty path. -/
def pathUrl (p : List Str) : Res Str :=
  let b := p.flatMap (fun s => pathEscape s ++ [47])
  if b.length = 0 then .panic else .ok b.dropLast

/-! ### m3uentry -/

def lowerhexTable : Str := [48, 49, 50, 51, 52, 53, 54, 55, 56, 57, 97, 98, 99, 100, 101, 102]
def hexLower (n : Nat) : UInt8 := lowerhexTable.getD n 48
def hexOfBytes (h : Str) : Str := h.flatMap fun b => [hexLower (b.toNat / 16), hexLower (b.toNat % 16)]

/-- title of an EXTINF line as repaired: ',' CR LF removed -/
def m3uTitle (s : Str) : Str := s.filter (fun c => c != 44 && c != 13 && c != 10)
/-- as it was: only ',' removed -/
def m3uTitleUnfixed (s : Str) : Str := s.filter (fun c => c != 44)

def extinf : Str := [35, 69, 88, 84, 73, 78, 70, 58, 45, 49, 44]   -- "#EXTINF:-1,"
def httpScheme : Str := [104, 116, 116, 112, 58, 47, 47]           -- "http://"

def m3uentryWith (title : Str → Str) (host : Str) (hash : Str) (path : List Str) : Res Str :=
  match path.getLast? with
  | none => .panic                               -- path[len(path)-1] on an empty path
  | some last =>
    match pathUrl path with
    | .panic => .panic
    | .ok u =>
      .ok (extinf ++ title last ++ [10] ++
           (httpScheme ++ host ++ [47] ++ hexOfBytes hash ++ [47] ++ u ++ [10]))

def m3uentry := m3uentryWith m3uTitle
def m3uentryUnfixed := m3uentryWith m3uTitleUnfixed

end Storrent.Http
