import Storrent.Model.WireParse
import Storrent.Model.RequestsI
/-
peer.handleMessage / peer.handleEvent (peer/peer.go) and the torrent-side handlers of the
events they give rise to (tor/tor.go handleEvent, noteAvailable, noteInFlight,
tor/metadata.go), transcribed case by case.

* Every Go fault is an explicit `Step.panic`: the `default: panic("Unknown message")`, a
  division by zero in toChunk/fromChunk/numPieces, the two panics of peer/requests, an
  out-of-range `t.inFlight[chunk]`, an out-of-range slice in gotMetadata.
* `return err` keeps the state changes made so far (`Step.err` carries the context).
* uint32 arithmetic is written `% U32` wherever the Go code computes in uint32 on values
  a peer controls (toChunk, fromChunk, `c.Begin+c.Length`, `index*16*1024`).
* Allocation is a cost: `alloc` counts every data-dependent `make`/`append`/`Copy`/boxed
  message or event (appends at their amortised size: Go's append at most doubles);
  `store` counts the piece buffer that `Pieces.AddData` allocates for a *solicited* block
  (sized by the authenticated geometry and accounted by the piece store, property C03).
* The environment: the result of `write` (queue full / writer gone, or a scripted list of
  results), the rate regime of maybeRequest (`fastRate`), the clock of `active()`
  (`activeOld`), the piece store's verdict on a block (`AddEnv`), the torrent scheduler's
  choices (which metadata block it asks for, SHA-1 verdict and parsed geometry).
-/
namespace Storrent.PeerMsg
open Storrent Storrent.RequestsI Storrent.Bencode
open Storrent.Wire (Msg PexPeer Ext0 canonM)

def CS : Nat := 16384
def U32 : Nat := 4294967296
/-- pieces a maximal (1 MiB) bitfield can describe: bound on Have indexes before the
    metadata is known (peer.maxPieces, introduced by the C05 fix) -/
def maxPiecesPre : Nat := 8388608
def metaCap : Nat := 134217728
def uploadQ : Nat := 250
def maxRequestLength : Nat := 131072
def evCost : Nat := 128
def msgCost : Nat := 32

/-! ### byte bitmaps (bitmap/bitmap.go) -/
def bit (k : Nat) : UInt8 := UInt8.ofNat (2 ^ (7 - k % 8))

def bmGet (b : Bytes) (i : Nat) : Bool :=
  match b[i / 8]? with
  | none => false
  | some v => (v &&& bit i) != 0

def bmExtend (b : Bytes) (i : Nat) : Bytes :=
  if b.length ≤ i / 8 then b ++ List.replicate (i / 8 + 1 - b.length) 0 else b

def bmSet (b : Bytes) (i : Nat) : Bytes := (bmExtend b i).modify (i / 8) (· ||| bit i)
def bmReset (b : Bytes) (i : Nat) : Bytes := b.modify (i / 8) (· &&& ~~~ bit i)
/-- bytes allocated by `Extend(i)`/`Set(i)` when the bitmap has to grow -/
def bmGrow (b : Bytes) (i : Nat) : Nat := if b.length ≤ i / 8 then i / 8 + 1 else 0

def bmRangeAux : Bytes → Nat → List Nat
  | [], _ => []
  | v :: r, base =>
    (if v == 0 then [] else
      (List.range 8).filterMap (fun j => if (v &&& bit j) != 0 then some (base + j) else none))
    ++ bmRangeAux r (base + 8)

/-- set bits in increasing order (`Range`) -/
def bmRange (b : Bytes) : List Nat := bmRangeAux b 0

/-- `Len()`: highest set bit + 1 -/
def bmLen (b : Bytes) : Nat :=
  match (bmRange b).getLast? with
  | none => 0
  | some i => i + 1

/-- `All(n)`: the first `n/8` bytes are 0xFF and the partial byte is exactly the mask -/
def bmAll (b : Bytes) (n : Nat) : Bool :=
  if n = 0 then true
  else if b.length < n / 8 then false
  else if !(b.take (n / 8)).all (· == 255) then false
  else if n % 8 = 0 then true
  else match b[n / 8]? with
    | none => false
    | some v => v.toNat == (255 * 2 ^ (8 - n % 8)) % 256

/-- `SetMultiple(n)` -/
def bmSetMultiple (b : Bytes) (n : Nat) : Bytes :=
  let b1 := (bmExtend b n).mapIdx (fun i v => if i < n / 8 then 255 else v)
  (List.range (n % 8)).foldl (fun acc j => bmSet acc (n / 8 * 8 + j)) b1

/-! ### state -/
inductive WRes where
  | ok | congested | eof
  deriving Repr, DecidableEq, BEq

inductive TEv where
  | peerUnchoke (b : Bool)
  | peerInterested (b : Bool)
  | peerHave (i : Nat) (hv : Bool)
  | peerBitmap (bm : Bytes) (hv : Bool)
  | peerExtended (msize : Nat)
  | addKnown (ip : Bytes) (port kind : Nat) (version : Bytes)
  | metaData (size index : Nat) (data : Bytes)
  | data (i b l : Nat) (complete : Bool)
  | drop (i b l : Nat)
  | goaway
  deriving Repr, DecidableEq, BEq

inductive Out where
  | msg (m : Msg)
  | ev (e : TEv)
  deriving Repr, DecidableEq, BEq

structure PeerState where
  -- metadata / geometry (Pieces belongs to the torrent; zero until the metadata is known)
  info : Bool := false
  infoLen : Nat := 0
  pieceSize : Nat := 0
  length : Nat := 0
  -- what the remote claims
  bitmap : Option Bytes := none
  isSeed : Bool := false
  myBitmap : Bytes := []
  unchoked : Bool := false
  interested : Bool := false
  amUnchoking : Bool := false
  shouldInterested : Bool := false
  amInterested : Bool := false
  gotExtended : Bool := false
  canFast : Bool := false
  pexExt : Nat := 0
  metadataExt : Nat := 0
  dontHaveExt : Nat := 0
  uploadOnlyExt : Nat := 0
  uploadOnly : Bool := false
  ip : Bytes := []
  port : Nat := 0
  reqQ : Nat := 128
  requests : Requests := {}
  upload : List (Nat × Nat × Nat) := []
  fast : List Nat := []
  pex : List PexPeer := []
  uploadTicking : Bool := false
  -- environment
  wlen : Nat := 0
  wcap : Nat := 64
  wdone : Bool := false
  wscript : List WRes := []
  fastRate : Bool := false
  activeOld : Bool := true
  deriving Repr

structure Ctx where
  s : PeerState
  outs : List Out := []
  alloc : Nat := 0
  store : Nat := 0
  tag : String := ""
  deriving Repr

inductive Step (α : Type) where
  | ret (a : α) (c : Ctx)
  | err (e : String) (c : Ctx)
  | panic (why : String) (c : Ctx)

def PM (α : Type) := Ctx → Step α

@[inline] def PM.pure {α} (a : α) : PM α := fun c => .ret a c
@[inline] def PM.bind {α β} (x : PM α) (f : α → PM β) : PM β := fun c =>
  match x c with
  | .ret a c' => f a c'
  | .err e c' => .err e c'
  | .panic w c' => .panic w c'

instance : Monad PM where
  pure := PM.pure
  bind := PM.bind

def get : PM PeerState := fun c => .ret c.s c
def modify (f : PeerState → PeerState) : PM Unit := fun c => .ret () { c with s := f c.s }
def emit (o : Out) : PM Unit := fun c => .ret () { c with outs := c.outs ++ [o] }
def charge (n : Nat) : PM Unit := fun c => .ret () { c with alloc := c.alloc + n }
def chargeStore (n : Nat) : PM Unit := fun c => .ret () { c with store := c.store + n }
def tagAs (t : String) : PM Unit := fun c => .ret () { c with tag := if c.tag.isEmpty then t else c.tag ++ "+" ++ t }
def throw {α} (e : String) : PM α := fun c => .err e c
def fault {α} (w : String) : PM α := fun c => .panic w c
/-- tag the branch and `return err` -/
def failTag {α} (t e : String) : PM α := fun c =>
  .err e { c with tag := if c.tag.isEmpty then t else c.tag ++ "+" ++ t }

/-! ### primitives -/

/-- `write`: blocks up to 200 ms; ok / ErrCongested / io.EOF.  A scripted result list (any
    pattern, for the theorems) takes precedence over the queue model (what the harness
    realises: full queue = congested, full queue and writer gone = eof). -/
def write (m : Msg) : PM WRes := do
  let s ← get
  match s.wscript with
  | r :: rest =>
    modify (fun s => { s with wscript := rest })
    if r == .ok then
      modify (fun s => { s with wlen := s.wlen + 1 }); emit (.msg m); charge msgCost
    pure r
  | [] =>
    if s.wlen < s.wcap then
      modify (fun s => { s with wlen := s.wlen + 1 }); emit (.msg m); charge msgCost; pure .ok
    else if s.wdone then pure .eof
    else pure .congested

def isCongested : PM Bool := do
  let s ← get
  pure (decide (s.wlen > s.wcap / 2))

def writeEvent (e : TEv) : PM Unit := do
  emit (.ev e); charge evCost

/-- `return err` for a failed write -/
def failW {α} (r : WRes) : PM α :=
  match r with
  | .eof => throw "EOF"
  | .congested => throw "peer is congested"
  | .ok => throw "?"

def fromChunk (chunk : Nat) : PM (Nat × Nat) := do
  let s ← get
  if s.pieceSize / CS = 0 then fault "div0:fromChunk"
  else pure (chunk / (s.pieceSize / CS), (chunk % (s.pieceSize / CS)) * CS % U32)

def toChunk (index begin_ : Nat) : PM Nat := do
  let s ← get
  let cpp := s.pieceSize / CS
  if cpp = 0 then fault "div0:toChunk"
  else if index > (U32 - 1) / cpp then pure 0
  else pure ((index * cpp + begin_ / CS) % U32)

def chunkSize (chunk : Nat) : PM Nat := do
  let s ← get
  if chunk < (s.length / CS) % U32 then pure CS else pure (s.length % CS)

def numPieces : PM Nat := do
  let s ← get
  if s.pieceSize = 0 then fault "div0:numPieces"
  else pure ((s.length + s.pieceSize - 1) / s.pieceSize)

def drop (chunk : Nat) : PM Unit := do
  let (i, b) ← fromChunk chunk
  writeEvent (.drop i b CS)

def dropAll : List Nat → PM Unit
  | [] => pure ()
  | c :: rest => do drop c; dropAll rest

def reject (i b l : Nat) : PM WRes := do
  let s ← get
  if s.canFast then write (.reject i b l) else pure .ok

def docancel (chunk : Nat) : PM WRes := do
  let (i, b) ← fromChunk chunk
  let cs ← chunkSize chunk
  write (.cancel i b cs)

def active : PM Unit := do
  let s ← get
  if s.activeOld then
    if s.port != 0 then writeEvent (.addKnown s.ip (s.port % 65536) 6 [])
    modify (fun s => { s with activeOld := false })

def startStopUpload : PM Unit :=
  modify (fun s => { s with uploadTicking := !s.upload.isEmpty })

def isFast (s : PeerState) (i : Nat) : Bool := s.fast.contains i

def rejectAll : List (Nat × Nat × Nat) → PM WRes
  | [] => pure .ok
  | (i, b, l) :: rest => do
    let r ← reject i b l
    if r != .ok then pure r else rejectAll rest

def unchoke (u : Bool) : PM WRes := do
  let s ← get
  let u := if u && !s.interested then false else u
  if u == s.amUnchoking then pure .ok
  else if u then
    let r ← write .unchoke
    if r == .ok then modify (fun s => { s with amUnchoking := true })
    pure .ok
  else
    let r ← write .choke
    if r == .ok then
      let s2 ← get
      modify (fun s => { s with amUnchoking := false, upload := [] })
      rejectAll s2.upload
    else pure r

def wantInterested (s : PeerState) : Bool :=
  s.shouldInterested && s.info &&
    match s.bitmap with
    | none => false
    | some b => (bmRange b).any (fun i => !bmGet s.myBitmap i)

def maybeInterested : PM Unit := do
  let s ← get
  let w := wantInterested s
  if w == s.amInterested then pure ()
  else
    let r ← write (if w then .interested else .notInterested)
    if r == .ok then modify (fun s => { s with amInterested := w })

def peerHas (s : PeerState) (i : Nat) : Bool :=
  match s.bitmap with
  | none => false
  | some b => bmGet b i

def maybeRequestLoop : Nat → PM Unit
  | 0 => pure ()
  | fuel + 1 => do
    let s ← get
    let cong ← isCongested
    if cong || s.requests.queue.isEmpty then pure ()
    else
      let nr := s.requests.requested.length
      if nr ≥ 2 && (decide (nr ≥ s.reqQ) || !s.fastRate) then pure ()
      else
        match dequeue s.requests with
        | none => fault "index:Dequeue"
        | some (rs, index) =>
          modify (fun s => { s with requests := rs })
          let (i, b) ← fromChunk index
          if (!s.unchoked && !isFast s i) || !peerHas s i then
            drop index
            maybeRequestLoop fuel
          else
            let cs ← chunkSize index
            let r ← write (.request i b cs)
            if r != .ok then drop index
            else
              match enqueueRequest rs index with
              | none => fault "Incorrect use of Requests.EnqueueRequest"
              | some (rs2, a) =>
                modify (fun s => { s with requests := rs2 })
                charge a
                maybeRequestLoop fuel

def maybeRequest : PM Unit := do
  let s ← get
  if !s.unchoked && s.fast.isEmpty then pure ()
  else maybeRequestLoop (s.requests.queue.length + 1)

/-- the value `Pieces.AddData` returns for a block, as far as the piece store's own state
    decides it: `skip` = the piece is busy or complete (returns 0), `complete` = its chunk
    bitmap is full afterwards -/
structure AddEnv where
  skip : Bool := false
  complete : Bool := false
  deriving Repr, DecidableEq

/-- `PieceLength(index)` -/
def pieceLength (s : PeerState) (index : Nat) : Nat :=
  let last := (s.length / s.pieceSize) % U32
  if index < last then s.pieceSize else if index = last then (s.length % s.pieceSize) % U32 else 0

/-- the block loop of AddData: bytes accepted from `len` bytes at `offset` (= `count`) -/
def addLoop (pl len : Nat) : Nat → Nat → Nat → Nat
  | 0, _, count => count
  | fuel + 1, offset, count =>
    if count < len then
      let l := min (pl - offset) CS
      if l = 0 ∨ len < count + l then count
      else if l % CS ≠ 0 then count + l
      else addLoop pl len fuel (offset + l) (count + l)
    else count

def addCount (s : PeerState) (index begin_ len : Nat) : Nat :=
  let pl := pieceLength s index
  if begin_ % CS ≠ 0 then 0
  else if begin_ ≥ pl then 0
  else addLoop pl len (len / CS + 2) begin_ 0

def findPex (p : PexPeer) (l : List PexPeer) : Option Nat :=
  l.findIdx? (fun q => q.ip == p.ip && q.port == p.port)

def pexAdd : List PexPeer → PM Unit
  | [] => pure ()
  | p :: rest => do
    let s ← get
    match findPex p s.pex with
    | some i => modify (fun s => { s with pex := s.pex.set i p })
    | none =>
      modify (fun s => { s with pex := s.pex ++ [p] })
      charge 40
      writeEvent (.addKnown p.ip p.port 3 [])
    pexAdd rest

def pexDrop : List PexPeer → PM Unit
  | [] => pure ()
  | p :: rest => do
    let s ← get
    match findPex p s.pex with
    | some i => modify (fun s => { s with pex := s.pex.eraseIdx i })
    | none => pure ()
    pexDrop rest

def extId (ms : List (Bytes × Nat)) (k : String) : Nat :=
  match (canonM ms).find? (fun kv => kv.1 == strBytes k) with
  | some kv => kv.2 % 256
  | none => 0

/-- `if peer.bitmap != nil { writeEvent(TorPeerBitmap{peer.bitmap.Copy(), false}); peer.bitmap = nil }`:
    the remote's current bitmap is retracted (its copy travels in the event) -/
def retractBitmap (tagOld tagNone : String) : PM Unit := do
  let s ← get
  match s.bitmap with
  | some old =>
    tagAs tagOld
    charge old.length
    writeEvent (.peerBitmap old false)
    modify (fun s => { s with bitmap := none })
  | none => tagAs tagNone

/-- `q, r, _ := peer.requests.Del(c)` (or `DelRequested`): `none` of the model's `del` is the
    Go panic "Requests is broken!" -/
def delReq (c : Nat) (reqonly : Bool) : PM (Bool × Bool) := do
  let s ← get
  match del s.requests c reqonly with
  | none => fault "Requests is broken!"
  | some (rs, q, r) =>
    modify (fun s => { s with requests := rs })
    pure (q, r)

/-- what the protocol reader hands to `handleMessage`: a decoded message or
    `protocol.Error{err}`; `flush` is the writer-side pseudo message and `nil` the
    `(nil, nil)` return of a broken `protocol.Read` -/
inductive PMsg where
  | wire (m : Msg)
  | error (eof : Bool)
  | flush
  | nil
  deriving Repr, DecidableEq

def handleWire (m : Msg) (ae : AddEnv) : PM Unit := do
  let s ← get
  match m with
  | .keepAlive => tagAs "KeepAlive"
  | .choke =>
    tagAs "Choke"
    modify (fun s => { s with unchoked := false })
    let (rs, dropped, a) := clear s.requests (!s.canFast)
    modify (fun s => { s with requests := rs })
    charge a
    dropAll dropped
    writeEvent (.peerUnchoke false)
  | .unchoke =>
    tagAs "Unchoke"
    modify (fun s => { s with unchoked := true })
    writeEvent (.peerUnchoke true)
  | .interested =>
    tagAs "Interested"
    modify (fun s => { s with interested := true })
    writeEvent (.peerInterested true)
  | .notInterested =>
    tagAs "NotInterested"
    modify (fun s => { s with interested := false })
    let _ ← unchoke false
    writeEvent (.peerInterested false)
  | .have i =>
    if s.info then
      let n ← numPieces
      if i ≥ n % U32 then failTag "Have:range" "value out of range"
    else if i ≥ maxPiecesPre then failTag "Have:range-pre" "value out of range"
    if !peerHas s i then
      tagAs (if s.info then "Have:new" else "Have:new-pre")
      charge (bmGrow (s.bitmap.getD []) i)
      modify (fun s => { s with bitmap := some (bmSet (s.bitmap.getD []) i) })
      writeEvent (.peerHave i true)
      maybeInterested
    else tagAs "Have:redundant"
  | .bitfield bs =>
    charge bs.length
    if s.info then
      let n ← numPieces
      if bmLen bs > n then failTag "Bitfield:overlong" "overlong bitfield"
    retractBitmap "Bitfield:replace" "Bitfield:first"
    modify (fun s => { s with bitmap := some bs })
    charge bs.length
    writeEvent (.peerBitmap bs true)
    maybeInterested
  | .request i b l =>
    if !s.info || !s.amUnchoking then
      tagAs "Request:reject"
      let r ← reject i b l
      if r != .ok then failW r
    else if l > maxRequestLength then
      tagAs "Request:toolong"
      let r ← reject i b l
      if r != .ok then failW r
    else
      let n ← numPieces
      if i ≥ n % U32 then failTag "Request:range" "value out of range"
      if s.upload.length ≥ uploadQ then
        tagAs "Request:headdrop"
        match s.upload with
        | [] => fault "index:requested[0]"
        | (hi, hb, hl) :: _ =>
          let r ← reject hi hb hl
          if r == .ok then modify (fun s => { s with upload := s.upload.tail })
      else tagAs "Request:queue"
      modify (fun s => { s with upload := s.upload ++ [(i, b, l)] })
      charge 12
      startStopUpload
  | .piece i b d =>
    if !s.info then failTag "Piece:nometa" "metadata incomplete"
    let n ← numPieces
    if i ≥ n % U32 then failTag "Piece:range" "value out of range"
    let c ← toChunk i b
    let (q, r) ← delReq c false
    if r || q then
      let cnt := if ae.skip then 0 else addCount s i b d.length
      if !ae.skip then chargeStore (pieceLength s i)
      let cs ← chunkSize c
      if cnt = d.length ∧ cnt = cs then
        tagAs (if d.length = 0 then "Piece:data-empty" else "Piece:data")
        writeEvent (.data i b d.length (if ae.skip then false else ae.complete))
      else
        tagAs "Piece:drop"
        drop c
        active
    else tagAs "Piece:unsolicited"
    maybeRequest
  | .cancel i b l =>
    if !s.info then failTag "Cancel:nometa" "metadata incomplete"
    match s.upload.findIdx? (fun r => r == (i, b, l)) with
    | some k =>
      tagAs "Cancel:found"
      modify (fun s => { s with upload := s.upload.eraseIdx k })
      let r ← reject i b l
      if r != .ok then failW r
    | none => tagAs "Cancel:notfound"
    startStopUpload
  | .port _ => tagAs "Port"
  | .suggest _ =>
    if !s.canFast then failTag "Suggest:nofast" "peer doesn't implement Fast extension"
    tagAs "Suggest"
  | .reject i b _ =>
    if !s.canFast then failTag "Reject:nofast" "peer doesn't implement Fast extension"
    if !s.info then failTag "Reject:nometa" "metadata incomplete"
    let c ← toChunk i b
    let (_, r) ← delReq c true
    if r then
      tagAs "Reject:found"
      drop c
    else tagAs "Reject:notfound"
    maybeRequest
  | .allowedFast i =>
    if !s.canFast then failTag "AllowedFast:nofast" "peer doesn't implement Fast extension"
    if s.info then
      let n ← numPieces
      if i ≥ n % U32 then failTag "AllowedFast:range" "value out of range"
    else if i ≥ maxPiecesPre then failTag "AllowedFast:range-pre" "value out of range"
    if !isFast s i then
      tagAs "AllowedFast:new"
      modify (fun s => { s with fast := s.fast ++ [i] })
      charge 4
    else tagAs "AllowedFast:dup"
  | .haveAll =>
    if !s.canFast then failTag "HaveAll:nofast" "peer doesn't implement Fast extension"
    retractBitmap "HaveAll:retract" "HaveAll:fresh"
    modify (fun s => { s with bitmap := none, isSeed := true })
    if s.info then
      tagAs "HaveAll:meta"
      let n ← numPieces
      let b := bmSetMultiple [] n
      charge (2 * b.length)
      modify (fun s => { s with bitmap := some b })
      writeEvent (.peerBitmap b true)
    else tagAs "HaveAll:nometa"
    maybeInterested
  | .haveNone =>
    if !s.canFast then failTag "HaveNone:nofast" "peer doesn't implement Fast extension"
    retractBitmap "HaveNone:retract" "HaveNone"
    modify (fun s => { s with bitmap := none, isSeed := false })
  | .ext0 e =>
    if s.gotExtended then failTag "Ext0:dup" "duplicate Extended0"
    tagAs "Ext0"
    modify (fun s => { s with gotExtended := true })
    if e.port != 0 then
      if s.port != 0 && e.port % 65536 != s.port % 65536 then pure ()
      else modify (fun s => { s with port := e.port % 65536 })
      let s1 ← get
      let k := fun (ip : Bytes) (kind : Nat) => writeEvent (.addKnown ip (s1.port % 65536) kind e.version)
      k s.ip 7
      k s.ip 5
      match e.ipv4 with
      | some ip => k ip 4
      | none => pure ()
      match e.ipv6 with
      | some ip => k ip 4
      | none => pure ()
    if e.reqq > 0 then modify (fun s => { s with reqQ := e.reqq })
    modify (fun s => { s with
      pexExt := extId e.messages "ut_pex", metadataExt := extId e.messages "ut_metadata",
      dontHaveExt := extId e.messages "lt_donthave", uploadOnlyExt := extId e.messages "upload_only",
      uploadOnly := e.uploadOnly })
    writeEvent (.peerExtended e.metadataSize)
  | .pex _ added dropped =>
    tagAs "Pex"
    pexAdd added
    pexDrop dropped
  | .metadata _ tpe piece total data =>
    if tpe = 0 then
      let cong ← isCongested
      if s.metadataExt = 0 || cong then tagAs "Meta:req-ignored"
      else
        let offset := piece * 16384
        let l : Int := if offset + 16384 > s.infoLen then (s.infoLen : Int) - offset else 16384
        let mut r := WRes.ok
        if l > 0 then
          tagAs "Meta:req-data"
          r ← write (.metadata (s.metadataExt % 256) 1 piece (s.infoLen % U32) (List.replicate l.toNat 0))
          if r == .eof then failW r
        if l ≤ 0 || r != .ok then
          tagAs "Meta:req-reject"
          let _ ← write (.metadata (s.metadataExt % 256) 2 piece 0 [])
    else if tpe = 1 then
      tagAs "Meta:data"
      writeEvent (.metaData total piece data)
    else if tpe = 2 then tagAs "Meta:rejected"
    else failTag "Meta:badtype" "unexpected Metadata type"
  | .dontHave _ i =>
    if s.isSeed && !s.info then failTag "DontHave:seed-nometa" "DontHave from seed with incomplete metadata"
    modify (fun s => { s with isSeed := false })
    if s.info then
      let n ← numPieces
      if i ≥ n % U32 then failTag "DontHave:range" "value out of range"
    if peerHas s i then
      tagAs "DontHave:had"
      modify (fun s => { s with bitmap := s.bitmap.map (fun b => bmReset b i) })
      writeEvent (.peerHave i false)
    else tagAs "DontHave:redundant"
  | .uploadOnly _ v =>
    tagAs "UploadOnly"
    modify (fun s => { s with uploadOnly := v })
  | .extUnknown _ => failTag "ExtUnknown" "unknown extended message"
  | .unknown _ => failTag "Unknown" "unknown message"

def handleMessageM (m : PMsg) (ae : AddEnv) : PM Unit :=
  match m with
  | .error eof => do tagAs "Error"; throw (if eof then "EOF" else "read")
  | .wire w => handleWire w ae
  | .flush => do tagAs "Flush"; fault "Unknown message"
  | .nil => do tagAs "nil"; fault "Unknown message"

inductive Res where
  | ok
  | err (e : String)
  | panic (why : String)
  deriving Repr, DecidableEq

structure Cost where
  alloc : Nat
  store : Nat
  deriving Repr, DecidableEq

structure Result where
  s : PeerState
  outs : List Out
  res : Res
  cost : Cost
  tag : String

def run (x : PM Unit) (s : PeerState) : Result :=
  match x { s := s } with
  | .ret _ c => ⟨c.s, c.outs, .ok, ⟨c.alloc, c.store⟩, c.tag⟩
  | .err e c => ⟨c.s, c.outs, .err e, ⟨c.alloc, c.store⟩, c.tag⟩
  | .panic w c => ⟨c.s, c.outs, .panic w, ⟨c.alloc, c.store⟩, c.tag⟩

/-- `peer.handleMessage` -/
def handleMessage (s : PeerState) (m : PMsg) (ae : AddEnv := {}) : Result :=
  run (handleMessageM m ae) s

/-! ### the torrent's commands (`peer.handleEvent`) -/
inductive PEv where
  | metadataComplete (infoLen pieceSize length : Nat)
  | request (chunks : List Nat)
  | have (i : Nat) (h : Bool)
  | cancel (chunk : Nat)
  | cancelPiece (i : Nat)
  | interested (b : Bool)
  | getMetadata (i : Nat)
  | unchoke (b : Bool)
  | done
  deriving Repr, DecidableEq

def cancelChunk (chunk : Nat) : PM Unit := do
  let s ← get
  let (rs, c, cn) := RequestsI.cancel s.requests chunk
  if c then
    modify (fun s => { s with requests := rs })
    if cn then let _ ← docancel chunk
  else
    match del s.requests chunk false with
    | none => fault "Requests is broken!"
    | some (rs, q, r) =>
      modify (fun s => { s with requests := rs })
      if q || r then
        if r then let _ ← docancel chunk
        drop chunk

def enqueueAll : List Nat → PM Unit
  | [] => pure ()
  | chunk :: rest => do
    let s ← get
    let (i, _) ← fromChunk chunk
    let mut done := false
    if peerHas s i then
      let (rs, ok, a) := enqueue s.requests chunk
      modify (fun s => { s with requests := rs })
      charge a
      done := ok
    if !done then drop chunk
    enqueueAll rest

def cancelRange (base : Nat) : Nat → PM Unit
  | 0 => pure ()
  | n + 1 => do cancelRange base n; cancelChunk ((base + n) % U32)

def handleEventM (e : PEv) : PM Unit := do
  let s ← get
  match e with
  | .metadataComplete il ps len =>
    if s.info then failTag "MetadataComplete:dup" "duplicate metadata"
    modify (fun s => { s with info := true, infoLen := il, pieceSize := ps, length := len })
    if s.isSeed then
      if s.bitmap.isSome then failTag "MetadataComplete:inconsistent" "inconsistent bitmap with incomplete metadata"
      tagAs "MetadataComplete:seed"
      let n ← numPieces
      let b := bmSetMultiple [] n
      charge (2 * b.length)
      modify (fun s => { s with bitmap := some b })
      writeEvent (.peerBitmap b true)
    else
      let n ← numPieces
      if bmLen (s.bitmap.getD []) > n then failTag "MetadataComplete:overlong" "overlong bitfield"
      tagAs "MetadataComplete"
    maybeInterested
  | .request chunks =>
    if !s.info then failTag "PRequest:nometa" "metadata incomplete"
    tagAs "PRequest"
    enqueueAll chunks
    maybeRequest
  | .have i h =>
    if h then
      tagAs "PHave:1"
      charge (bmGrow s.myBitmap i)
      modify (fun s => { s with myBitmap := bmSet s.myBitmap i })
      let r ← write (.have i)
      if r != .ok then failW r
    else
      tagAs "PHave:0"
      modify (fun s => { s with myBitmap := bmReset s.myBitmap i })
      if s.dontHaveExt > 0 then
        let r ← write (.dontHave (s.dontHaveExt % 256) i)
        if r != .ok then failW r
    maybeInterested
  | .cancel chunk =>
    if !s.info then failTag "PCancel:nometa" "metadata incomplete"
    tagAs "PCancel"
    cancelChunk chunk
  | .cancelPiece i =>
    if !s.info then failTag "PCancelPiece:nometa" "metadata incomplete"
    tagAs "PCancelPiece"
    let cpp := (s.pieceSize % U32) / CS
    cancelRange (i * cpp) cpp
  | .interested b =>
    tagAs "PInterested"
    modify (fun s => { s with shouldInterested := b })
    maybeInterested
  | .getMetadata i =>
    let cong ← isCongested
    if s.metadataExt = 0 || cong then tagAs "PGetMetadata:ignored"
    else
      tagAs "PGetMetadata"
      let _ ← write (.metadata (s.metadataExt % 256) 0 i 0 [])
  | .unchoke b =>
    tagAs "PUnchoke"
    let r ← unchoke b
    if r != .ok then failW r
    let s1 ← get
    if s1.amUnchoking then startStopUpload
    else modify (fun s => { s with uploadTicking := false })
  | .done => failTag "PDone" "EOF"

def handleEvent (s : PeerState) (e : PEv) : Result := run (handleEventM e) s

/-- the exit path of `peer.Run` (its deferred functions) -/
def exitM : PM Unit := do
  let s ← get
  let (rs, dropped, _) := clear s.requests true
  modify (fun s => { s with requests := rs })
  dropAll dropped
  charge (s.bitmap.getD []).length
  writeEvent (.peerBitmap (s.bitmap.getD []) false)
  writeEvent .goaway
  modify (fun s => { s with uploadTicking := false })

def exit (s : PeerState) : Result := run exitM s

/-! ### torrent side -/

/-- a vector of small counters, mostly zero: length + the non-zero entries sorted by index -/
structure Sparse where
  len : Nat := 0
  nz : List (Nat × Nat) := []
  deriving Repr, DecidableEq

def Sparse.get (v : Sparse) (i : Nat) : Nat :=
  match v.nz.find? (fun kv => kv.1 == i) with
  | some kv => kv.2
  | none => 0

def insertSorted (k v : Nat) : List (Nat × Nat) → List (Nat × Nat)
  | [] => [(k, v)]
  | x :: xs => if k < x.1 then (k, v) :: x :: xs else if k = x.1 then (k, v) :: xs else x :: insertSorted k v xs

def Sparse.set (v : Sparse) (i x : Nat) : Sparse :=
  if x = 0 then { v with nz := v.nz.filter (fun kv => kv.1 != i) }
  else { v with nz := insertSorted i x v.nz }

structure TorState where
  infoComplete : Bool := false
  pieceSize : Nat := 0
  length : Nat := 0
  nHashes : Nat := 0
  inFlight : Sparse := {}
  available : Sparse := {}
  infoLen : Nat := 0
  infoBits : Bytes := []
  infoRequested : List Nat := []
  votes : List (Nat × Nat) := []
  /-- the guard of gotMetadata is `int(index) >= chunks` (true, the C12 fix) or `>` -/
  metaGuardGe : Bool := true
  deriving Repr

/-- choices of the torrent that the model does not compute: the metadata size it settles
    on (`metadataGuess`, a map iteration), the metadata block it asks for next, the SHA-1
    verdict on the assembled metadata and the geometry parsed from it -/
structure TorEnv where
  guess : Nat := 0
  getMeta : Option Nat := none
  hashOk : Bool := false
  parseOk : Bool := true
  pieceSize : Nat := 0
  length : Nat := 0
  nHashes : Nat := 0
  /-- chunks the scheduler reserved (`tor.request`) while handling the event -/
  reserved : List Nat := []
  deriving Repr

structure TResult where
  t : TorState
  res : Res
  alloc : Nat
  tag : String
  /-- bytes sized by the SHA-1-authenticated metadata (parsing it, the piece table, the
      in-flight table): not under the control of the peer that delivers the last block -/
  store : Nat := 0

def noteAvailable (t : TorState) (index : Nat) (hv : Bool) : TorState × Nat :=
  let (av, a) := if t.available.len ≤ index then ({ t.available with len := index + 1 }, 2 * (index + 1))
                 else (t.available, 0)
  let v := av.get index
  let av2 := if hv then (if v ≥ 65535 then av else av.set index (v + 1))
             else (if v = 0 then av else av.set index (v - 1))
  ({ t with available := av2 }, a)

/-- `noteInFlight(t, chunk, false)`; `none` = index out of range -/
def releaseInFlight (t : TorState) (chunk : Nat) : Option TorState :=
  if chunk ≥ t.inFlight.len then none
  else
    let v := t.inFlight.get chunk
    some (if v = 0 then t else { t with inFlight := t.inFlight.set chunk (v - 1) })

def releaseLoop (t : TorState) (base : Nat) : Nat → Nat → Option TorState
  | 0, _ => some t
  | n + 1, i =>
    match releaseInFlight t ((base + i) % U32) with
    | none => none
    | some t' => releaseLoop t' base n (i + 1)

def maxVotes (vs : List (Nat × Nat)) : Nat := vs.foldl (fun m kv => max m kv.2) 0

/-- `requestMetadata(t, p)` after a successful vote or a block: (state, bytes, ok) -/
def requestMetadata (t : TorState) (env : TorEnv) : Option (TorState × Nat) :=
  -- the guess must be one of the sizes with the most votes
  if !(t.votes.any (fun kv => kv.1 == env.guess && kv.2 == maxVotes t.votes)) then none
  else
    let (t1, a1) :=
      if t.infoLen ≠ env.guess then
        ({ t with infoLen := env.guess, infoBits := [],
                  infoRequested := List.replicate ((env.guess + 16383) / 16384) 0 },
         env.guess + (env.guess + 16383) / 16384)
      else (t, 0)
    let a2 := 8 * t1.infoRequested.length
    match env.getMeta with
    | none => some (t1, a1 + a2)
    | some j =>
      if j < t1.infoRequested.length ∧ !bmGet t1.infoBits j then
        some ({ t1 with infoRequested := t1.infoRequested.modify j (· + 1) }, a1 + a2)
      else none

def chunksOf (length : Nat) : Nat := (length + CS - 1) / CS

/-- working memory of the scheduler policy (maybeUnchoke / periodicRequest), which these
    events trigger and the model does not transcribe: sized by the torrent's own state
    (peers, wanted pieces), not by anything in the message; an allowance for the
    allocation tie of the correspondence stream only -/
def policyMem : Nat := 262144

/-- `TorPeerExtended`: vote, then `requestMetadata` -/
def torPeerExtended (t : TorState) (msize : Nat) (env : TorEnv) : TResult :=
  if t.infoComplete then ⟨t, .ok, 0, "TPeerExtended:complete", 0⟩
  else if msize = 0 then ⟨t, .ok, 0, "TPeerExtended:nosize", 0⟩
  else if msize > metaCap then ⟨t, .ok, 0, "TPeerExtended:badsize", 0⟩
  else
    let votes := match t.votes.find? (fun kv => kv.1 == msize) with
      | some _ => t.votes.map (fun kv => if kv.1 == msize then (kv.1, kv.2 + 1) else kv)
      | none => t.votes ++ [(msize, 1)]
    let t1 := { t with votes := votes }
    match requestMetadata t1 env with
    | none => ⟨t1, .err "bad-env", 0, "TPeerExtended:bad-env", 0⟩
    | some (t2, a) => ⟨t2, .ok, 48 + a, if t2.infoLen ≠ t.infoLen then "TPeerExtended:resize" else "TPeerExtended:vote", 0⟩

/-- `requestMetadata(t, c.Peer)` after a block that did not complete the metadata -/
def rqMeta (env : TorEnv) (t : TorState) (a : Nat) (tag : String) : TResult :=
  if t.votes.isEmpty then ⟨t, .ok, a, tag ++ ":noguess", 0⟩
  else match requestMetadata t env with
    | none => ⟨t, .err "bad-env", a, tag ++ ":bad-env", 0⟩
    | some (t2, a2) => ⟨t2, .ok, a + a2, tag, 0⟩

/-- the metadata is complete and authentic: geometry from the environment -/
def metaDone (env : TorEnv) (t1 : TorState) (a infoLen : Nat) : TResult :=
  ⟨{ t1 with infoComplete := true, infoLen := 0, infoBits := [], infoRequested := [], votes := [],
             pieceSize := env.pieceSize, length := env.length, nHashes := env.nHashes,
             inFlight := { len := chunksOf env.length } },
   .ok, a, "TMetaData:done", 16 * infoLen + 2 * chunksOf env.length + 65536⟩

/-- `TorMetaData`: `gotMetadata`, then `requestMetadata` or completion -/
def torMetaData (t : TorState) (size index : Nat) (data : Bytes) (env : TorEnv) : TResult :=
  if t.infoComplete then ⟨t, .ok, 0, "TMetaData:complete", 0⟩
  else if size ≠ t.infoLen then ⟨t, .ok, 0, "TMetaData:size", 0⟩
  else if (if t.metaGuardGe then index ≥ t.infoRequested.length else index > t.infoRequested.length) then
    ⟨t, .ok, 0, "TMetaData:beyond", 0⟩
  else if data.length ≠ 16384 ∧ index * 16384 + data.length ≠ t.infoLen then ⟨t, .ok, 0, "TMetaData:length", 0⟩
  else if bmGet t.infoBits index then rqMeta env t 0 "TMetaData:dup"
  else if (index * 16384) % U32 > t.infoLen then ⟨t, .panic "slice bounds out of range", 0, "TMetaData:panic", 0⟩
  else if !(List.range t.infoRequested.length).all (fun i => bmGet (bmSet t.infoBits index) i) then
    rqMeta env { t with infoBits := bmSet t.infoBits index } (bmGrow t.infoBits index) "TMetaData:stored"
  else if !env.hashOk then
    ⟨{ t with infoLen := 0, infoBits := [], infoRequested := [] }, .ok, bmGrow t.infoBits index, "TMetaData:hash-mismatch", 0⟩
  else if !env.parseOk then
    ⟨{ t with infoLen := 0, infoBits := [], infoRequested := [] }, .ok, bmGrow t.infoBits index, "TMetaData:parse-error", 0⟩
  else metaDone env { t with infoBits := bmSet t.infoBits index } (bmGrow t.infoBits index) t.infoLen

/-- `TorData`: release the in-flight counters of the blocks covered -/
def torData (t : TorState) (i b l : Nat) : TResult :=
  if !t.infoComplete then ⟨t, .ok, 0, "TData:nometa", 0⟩
  else if b % CS ≠ 0 then ⟨t, .ok, 0, "TData:odd", 0⟩
  else if (b + l) % U32 > t.pieceSize then ⟨t, .ok, 0, "TData:spans", 0⟩
  else
    let cpp := t.pieceSize / CS
    match releaseLoop t ((i * cpp + b / CS) % U32) ((l + CS - 1) % U32 / CS) 0 with
    | none => ⟨t, .panic "index out of range", 0, "TData:panic", 0⟩
    | some t' => ⟨t', .ok, 0, if (l + CS - 1) % U32 / CS = 0 then "TData:empty" else "TData", 0⟩

/-- `TorDrop` -/
def torDrop (t : TorState) (i b l : Nat) : TResult :=
  if !t.infoComplete then ⟨t, .ok, 0, "TDrop:nometa", 0⟩
  else if b % CS ≠ 0 then ⟨t, .ok, 0, "TDrop:odd", 0⟩
  else if (b + l) % U32 > t.pieceSize then ⟨t, .ok, 0, "TDrop:spans", 0⟩
  else
    let cpp := t.pieceSize / CS
    match releaseLoop t ((i * cpp + b / CS) % U32) ((l + CS - 1) % U32 / CS) 0 with
    | none => ⟨t, .panic "index out of range", 0, "TDrop:panic", 0⟩
    | some t' => ⟨t', .ok, 0, "TDrop", 0⟩

/-- `tor.handleEvent` on the events a peer emits.  `bad-env` results (an inadmissible
    environment choice) are reported as `err "bad-env"`. -/
def torHandle (t : TorState) (e : TEv) (env : TorEnv := {}) : TResult :=
  match e with
  | .peerUnchoke _ => ⟨t, .ok, 0, "TPeerUnchoke", policyMem⟩
  | .peerInterested _ => ⟨t, .ok, 0, "TPeerInterested", policyMem⟩
  | .goaway => ⟨t, .ok, 0, "TGoaway", policyMem⟩
  | .addKnown _ _ _ v => ⟨t, .ok, 512 + v.length, "TAddKnown", 0⟩
  | .peerHave i h =>
    let (t', a) := noteAvailable t i h
    ⟨t', .ok, a, if a > 0 then "TPeerHave:grow" else "TPeerHave", 0⟩
  | .peerBitmap bm h =>
    let grow := bmLen bm > t.available.len
    let t' := (bmRange bm).foldl (fun t i => (noteAvailable t i h).1) t
    ⟨t', .ok, if grow then 10 * bmLen bm else 0, if grow then "TPeerBitmap:grow" else "TPeerBitmap", 0⟩
  | .peerExtended msize => torPeerExtended t msize env
  | .metaData size index data => torMetaData t size index data env
  | .data i b l _ => torData t i b l
  | .drop i b l => torDrop t i b l

end Storrent.PeerMsg
