import Storrent.Util
import Storrent.Model.Bencode
import Storrent.Model.WireTable
/-
The BitTorrent peer wire codec.

`encode` is written from the BEPs (3, 5, 6, 9, 10, 11, lt_donthave), not from
protocol/writer.go: it is the independent codec of property C06.
`decodeWith` transcribes the control flow of protocol.Read (protocol/reader.go): 4-byte
length, cap, id byte, per-id length guard *looked up in the guard table* (regenerated from
the source), reads, and the number of bytes consumed / allocated.  A `(nil, nil)` return of
the Go function is the explicit outcome `Res.nilnil`; a Go panic would be `Res.panic`.
-/
namespace Storrent.Wire
open Storrent Storrent.Bencode

structure PexPeer where
  ip    : Bytes      -- 4 or 16 bytes
  port  : Nat
  flags : Nat
  deriving Repr, DecidableEq, BEq

structure Ext0 where
  version      : Bytes := []
  port         : Nat := 0
  reqq         : Nat := 0
  ipv4         : Option Bytes := none
  ipv6         : Option Bytes := none
  metadataSize : Nat := 0
  messages     : List (Bytes × Nat) := []
  uploadOnly   : Bool := false
  encrypt      : Bool := false
  deriving Repr, DecidableEq, BEq

inductive Msg where
  | keepAlive | choke | unchoke | interested | notInterested
  | have (i : Nat)
  | bitfield (bs : Bytes)
  | request (i b l : Nat)
  | piece (i b : Nat) (d : Bytes)
  | cancel (i b l : Nat)
  | port (p : Nat)
  | suggest (i : Nat)
  | haveAll | haveNone
  | reject (i b l : Nat)
  | allowedFast (i : Nat)
  | ext0 (e : Ext0)
  | pex (sub : Nat) (added dropped : List PexPeer)
  | metadata (sub tpe piece total : Nat) (data : Bytes)
  | dontHave (sub i : Nat)
  | uploadOnly (sub : Nat) (v : Bool)
  | extUnknown (sub : Nat)
  | unknown (tpe : Nat)
  deriving Repr, DecidableEq, BEq

/-! ### Encoder (from the BEPs) -/

def frame (id : Nat) (payload : Bytes) : Bytes :=
  be32 (payload.length + 1) ++ [UInt8.ofNat id] ++ payload

def natV (n : Nat) : BV := .int (n : Int)

def optKV (k : String) (present : Bool) (v : BV) : List (Bytes × BV) :=
  if present then [(strBytes k, v)] else []

/-- extended handshake dictionary, keys in sorted order, empty fields omitted
    (`upload_only` is always present, as storrent sends it) -/
def ext0Dict (e : Ext0) : List (Bytes × BV) :=
  optKV "e" e.encrypt (natV 1) ++
  optKV "ipv4" e.ipv4.isSome (.str (e.ipv4.getD [])) ++
  optKV "ipv6" e.ipv6.isSome (.str (e.ipv6.getD [])) ++
  optKV "m" (!e.messages.isEmpty) (.dictI (e.messages.map (fun kv => (kv.1, (kv.2 : Int))))) ++
  optKV "metadata_size" (e.metadataSize != 0) (natV e.metadataSize) ++
  optKV "p" (e.port != 0) (natV e.port) ++
  optKV "reqq" (e.reqq != 0) (natV e.reqq) ++
  [(strBytes "upload_only", natV (if e.uploadOnly then 1 else 0))] ++
  optKV "v" (!e.version.isEmpty) (.str e.version)

def compact (ps : List PexPeer) : Bytes := (ps.map (fun p => p.ip ++ be16 p.port)).flatten
def flagsOf (ps : List PexPeer) : Bytes := ps.map (fun p => UInt8.ofNat p.flags)
def is4 (p : PexPeer) : Bool := p.ip.length == 4

def pexDict (added dropped : List PexPeer) : List (Bytes × BV) :=
  let a4 := added.filter is4
  let a6 := added.filter (fun p => !is4 p)
  let d4 := dropped.filter is4
  let d6 := dropped.filter (fun p => !is4 p)
  optKV "added" (!a4.isEmpty) (.str (compact a4)) ++
  optKV "added.f" (!a4.isEmpty) (.str (flagsOf a4)) ++
  optKV "added6" (!a6.isEmpty) (.str (compact a6)) ++
  optKV "added6.f" (!a6.isEmpty) (.str (flagsOf a6)) ++
  optKV "dropped" (!d4.isEmpty) (.str (compact d4)) ++
  optKV "dropped6" (!d6.isEmpty) (.str (compact d6))

def metaDict (tpe piece total : Nat) : List (Bytes × BV) :=
  [(strBytes "msg_type", natV tpe), (strBytes "piece", natV piece)] ++
  optKV "total_size" (total != 0) (natV total)

/-- messages storrent can emit (the cases of protocol.Write); `none` for the others -/
def encode : Msg → Option Bytes
  | .keepAlive => some (be32 0)
  | .choke => some (frame 0 [])
  | .unchoke => some (frame 1 [])
  | .interested => some (frame 2 [])
  | .notInterested => some (frame 3 [])
  | .have i => some (frame 4 (be32 i))
  | .bitfield bs => some (frame 5 bs)
  | .request i b l => some (frame 6 (be32 i ++ be32 b ++ be32 l))
  | .piece i b d => some (frame 7 (be32 i ++ be32 b ++ d))
  | .cancel i b l => some (frame 8 (be32 i ++ be32 b ++ be32 l))
  | .port p => some (frame 9 (be16 p))
  | .suggest i => some (frame 13 (be32 i))
  | .haveAll => some (frame 14 [])
  | .haveNone => some (frame 15 [])
  | .reject i b l => some (frame 16 (be32 i ++ be32 b ++ be32 l))
  | .allowedFast i => some (frame 17 (be32 i))
  | .ext0 e => some (frame 20 ([0] ++ encDict (ext0Dict e)))
  | .pex sub a d => some (frame 20 ([UInt8.ofNat sub] ++ encDict (pexDict a d)))
  | .metadata sub t p tot data =>
      some (frame 20 ([UInt8.ofNat sub] ++ encDict (metaDict t p tot) ++ data))
  | .dontHave sub i => some (frame 20 ([UInt8.ofNat sub] ++ be32 i))
  | .uploadOnly _ _ => none
  | .extUnknown _ => none
  | .unknown _ => none

/-! ### Decoding of the three bencoded payloads (parameter of the framing model) -/

/-- an unsigned struct field of `bits` bits: absent = 0; zeebo stores `ParseUint` results
    with Go's silent truncation (`reflect.Value.SetUint`), a negative or non-integer value
    is an error -/
def getU (d : List (Bytes × BV)) (k : String) (bits : Nat) : Option Nat :=
  match lookup (strBytes k) d with
  | none => some 0
  | some (.int i) => if i < 0 then none else some (i.toNat % 2 ^ bits)
  | some _ => none

def getS (d : List (Bytes × BV)) (k : String) : Option (Option Bytes) :=
  match lookup (strBytes k) d with
  | none => some none
  | some (.str s) => some (some s)
  | some _ => none

/-- `boolOrString`: an integer (non-zero = true) or the strings "0"/"1" -/
def getB (d : List (Bytes × BV)) (k : String) : Option Bool :=
  match lookup (strBytes k) d with
  | none => some false
  | some (.int i) => if i < 0 then none else some (i != 0)
  | some (.str [48]) => some false
  | some (.str [49]) => some true
  | some _ => none

def getM (d : List (Bytes × BV)) : Option (List (Bytes × Nat)) :=
  match lookup (strBytes "m") d with
  | none => some []
  | some (.dictI m) =>
    if m.all (fun kv => kv.2 ≥ 0) then some (m.map (fun kv => (kv.1, kv.2.toNat % 256))) else none
  | some _ => none

def decExt0 (payload : Bytes) : Option Ext0 := do
  let (d, _) ← parseDict payload
  let v ← getS d "v"
  let ipv4 ← getS d "ipv4"
  let ipv6 ← getS d "ipv6"
  let p ← getU d "p" 16
  let reqq ← getU d "reqq" 32
  let ms ← getU d "metadata_size" 32
  let m ← getM d
  let uo ← getB d "upload_only"
  let e ← getB d "e"
  pure { version := v.getD [], port := p, reqq := reqq,
         ipv4 := ipv4.bind (fun s => if s.length = 4 then some s else none),
         ipv6 := ipv6.bind (fun s => if s.length = 16 then some s else none),
         metadataSize := ms, messages := m, uploadOnly := uo, encrypt := e }

/-- split a compact list into records of `w+2` bytes; flags by position (absent = 0) -/
def parseCompact (w : Nat) : Nat → Bytes → Bytes → List PexPeer
  | 0, _, _ => []
  | n+1, data, flags =>
    if data.length < w + 2 then []
    else
      { ip := data.take w, port := rdBE ((data.drop w).take 2),
        flags := (flags.head?.map UInt8.toNat).getD 0 } ::
      parseCompact w n (data.drop (w + 2)) flags.tail

def compactOf (w : Nat) (s : Option Bytes) (f : Option Bytes) : List PexPeer :=
  match s with
  | none => []
  | some data =>
    if data.length % (w + 2) = 0 then parseCompact w (data.length / (w + 2)) data (f.getD [])
    else []

def decPex (payload : Bytes) : Option (List PexPeer × List PexPeer) := do
  let (d, _) ← parseDict payload
  let a ← getS d "added"
  let af ← getS d "added.f"
  let a6 ← getS d "added6"
  let a6f ← getS d "added6.f"
  let dr ← getS d "dropped"
  let dr6 ← getS d "dropped6"
  pure (compactOf 4 a af ++ compactOf 16 a6 a6f, compactOf 4 dr none ++ compactOf 16 dr6 none)

/-- (msg_type, piece, total_size, bytes parsed); msg_type and piece are mandatory -/
def decMeta (payload : Bytes) : Option (Option (Nat × Nat × Nat × Nat)) := do
  let (d, rest) ← parseDict payload
  let t ← getU d "msg_type" 8
  let p ← getU d "piece" 32
  let tot ← getU d "total_size" 32
  if (lookup (strBytes "msg_type") d).isNone ∨ (lookup (strBytes "piece") d).isNone then
    pure none            -- decoded, but a mandatory key is missing: ErrParse
  else
    pure (some (t, p, tot, payload.length - rest.length))

structure BDec where
  ext0 : Bytes → Option Ext0
  pex  : Bytes → Option (List PexPeer × List PexPeer)
  mdata : Bytes → Option (Option (Nat × Nat × Nat × Nat))

def leanBDec : BDec := ⟨decExt0, decPex, decMeta⟩

/-! ### Framing model of protocol.Read -/

inductive Err where
  | eof       -- io.EOF / io.ErrUnexpectedEOF: the stream ended inside the frame
  | tooLong   -- frame above the cap
  | parse     -- ErrParse
  | ext       -- the bencode decoder rejected an extension payload
  deriving Repr, DecidableEq, BEq

inductive Res where
  | msg (m : Msg)
  | err (e : Err)
  | nilnil            -- Go: `return nil, nil`
  | panic
  deriving Repr, DecidableEq, BEq

structure Out where
  res      : Res
  consumed : Nat      -- bytes taken from the stream
  alloc    : Nat      -- bytes of data-dependent allocation
  deriving Repr, DecidableEq, BEq

def failRes : FailRet → Res
  | .errParse => .err .parse
  | .bareErr => .nilnil
  | .other => .err .parse

/-- does length `L` violate the guard? -/
def guardViolated (g : GuardKind) (L : Nat) : Bool :=
  match g with
  | .ne k => L != k
  | .lt k => L < k
  | .subNe k => L - 2 != k
  | .none => false

def pooled (n : Nat) : Nat := if n = 16384 then 0 else n

/-- the extended-message part of `body` (id 20, after the id-level guard): sub-id byte,
    per-sub-id guard from the table, payload -/
def bodyExt (tbl : List GuardRow) (bd : BDec) (L : Nat) (rest : Bytes) : Out :=
  match rest with
  | [] => ⟨.err .eof, 5, 0⟩
  | sb :: rest2 =>
    let sub := sb.toNat
    let n := L - 2
    match findGuard tbl 20 (some sub) with
    | none =>
      if rest2.length < n then ⟨.err .eof, 6 + rest2.length, 0⟩
      else ⟨.msg (.extUnknown sub), 4 + L, 0⟩
    | some srow =>
      if guardViolated srow.guard L then ⟨failRes srow.fail, 6, 0⟩
      else if sub = 0 then
        if rest2.length < n then ⟨.err .eof, 6 + rest2.length, n⟩
        else match bd.ext0 (rest2.take n) with
          | none => ⟨.err .ext, 4 + L, n⟩
          | some e => ⟨.msg (.ext0 e), 4 + L, 2 * n⟩
      else if sub = 1 then
        if rest2.length < n then ⟨.err .eof, 6 + rest2.length, n⟩
        else match bd.pex (rest2.take n) with
          | none => ⟨.err .ext, 4 + L, n⟩
          | some (a, d) => ⟨.msg (.pex 1 a d), 4 + L, 8 * n⟩
      else if sub = 2 then
        if rest2.length < n then ⟨.err .eof, 6 + rest2.length, n⟩
        else match bd.mdata (rest2.take n) with
          | none => ⟨.err .ext, 4 + L, n⟩
          | some none => ⟨.err .parse, 4 + L, n⟩
          | some (some (tp, pc, tot, parsed)) =>
            ⟨.msg (.metadata 2 tp pc tot ((rest2.take n).drop parsed)), 4 + L, 2 * n⟩
      else if sub = 3 then
        if rest2.length < 4 then ⟨.err .eof, 6 + rest2.length, 0⟩
        else ⟨.msg (.dontHave 3 (rdBE (rest2.take 4))), 10, 0⟩
      else if sub = 4 then
        match rest2 with
        | [] => ⟨.err .parse, 6, 0⟩
        | v :: _ =>
          if v = 0 then ⟨.msg (.uploadOnly 4 false), 7, 0⟩
          else if v = 1 then ⟨.msg (.uploadOnly 4 true), 7, 0⟩
          else ⟨.err .parse, 7, 0⟩
      else
        -- a sub-id with a table row but no transcription here
        ⟨.panic, 6, 0⟩

/-- body of one frame once `L` (1 ≤ L ≤ cap) and the id byte `t` have been read; `rest` is
    the stream after the id byte; `c0 = 5` bytes are already consumed -/
def body (tbl : List GuardRow) (bd : BDec) (L t : Nat) (rest : Bytes) : Out :=
  let need (n : Nat) (k : Bytes → Out) : Out :=
    if rest.length < n then ⟨.err .eof, 5 + rest.length, 0⟩ else k (rest.take n)
  match findGuard tbl t none with
  | none =>
    -- unknown id: Discard(L-1)
    if rest.length < L - 1 then ⟨.err .eof, 5 + rest.length, 0⟩
    else ⟨.msg (.unknown t), 4 + L, 0⟩
  | some row =>
    if guardViolated row.guard L then ⟨failRes row.fail, 5, 0⟩
    else if t = 0 then ⟨.msg .choke, 5, 0⟩
    else if t = 1 then ⟨.msg .unchoke, 5, 0⟩
    else if t = 2 then ⟨.msg .interested, 5, 0⟩
    else if t = 3 then ⟨.msg .notInterested, 5, 0⟩
    else if t = 4 then need 4 fun p => ⟨.msg (.have (rdBE p)), 9, 0⟩
    else if t = 5 then
      if rest.length < L - 1 then ⟨.err .eof, 5 + rest.length, L - 1⟩
      else ⟨.msg (.bitfield (rest.take (L - 1))), 4 + L, L - 1⟩
    else if t = 6 ∨ t = 8 ∨ t = 16 then
      need 12 fun p =>
        let i := rdBE (p.take 4); let b := rdBE ((p.drop 4).take 4); let l := rdBE (p.drop 8)
        ⟨.msg (if t = 6 then .request i b l else if t = 8 then .cancel i b l else .reject i b l),
         17, 0⟩
    else if t = 7 then
      if rest.length < 8 then ⟨.err .eof, 5 + rest.length, 0⟩
      else if rest.length < L - 1 then ⟨.err .eof, 5 + rest.length, pooled (L - 9)⟩
      else ⟨.msg (.piece (rdBE (rest.take 4)) (rdBE ((rest.drop 4).take 4))
              ((rest.drop 8).take (L - 9))), 4 + L, pooled (L - 9)⟩
    else if t = 9 then need 2 fun p => ⟨.msg (.port (rdBE p)), 7, 0⟩
    else if t = 13 then need 4 fun p => ⟨.msg (.suggest (rdBE p)), 9, 0⟩
    else if t = 17 then need 4 fun p => ⟨.msg (.allowedFast (rdBE p)), 9, 0⟩
    else if t = 14 then ⟨.msg .haveAll, 5, 0⟩
    else if t = 15 then ⟨.msg .haveNone, 5, 0⟩
    else if t = 20 then bodyExt tbl bd L rest
    else
      -- an id with a table row but no transcription here
      ⟨.panic, 5, 0⟩

/-- one call of `protocol.Read` on the byte stream `bs` -/
def decodeWith (tbl : List GuardRow) (cap : Nat) (bd : BDec) (bs : Bytes) : Out :=
  if bs.length < 4 then ⟨.err .eof, bs.length, 0⟩
  else
    let L := rdBE (bs.take 4)
    if L = 0 then ⟨.msg .keepAlive, 4, 0⟩
    else if L > cap then ⟨.err .tooLong, 4, 0⟩
    else
      match bs.drop 4 with
      | [] => ⟨.err .eof, 4, 0⟩
      | t :: rest => body tbl bd L t.toNat rest

end Storrent.Wire
