import Storrent.Model.WireParse
/-
Model of storrent's upload path (C16), transcribed from peer/peer.go:
  handleMessage  : Interested / NotInterested / Request / Cancel
  handleEvent    : PeerUnchoke, PeerMetadataComplete (only `Info` becoming known)
  unchoke, reject, scheduleUpload(immediate), startStopUpload (ticker armed or not),
  the exit path of Run (release of the global numUnchoking), NumUnchoking
and from tor/piece/piece.go: Pieces.ReadAt.

Environment inputs (chosen freely by the theorems, supplied by the harness in the
correspondence): the result of every `write` (ok | congested | eof), `isCongested`,
the rate limiter's answer for a length (`peer.upload.Allow || UploadEstimator.Allow`),
which pieces are complete (hash-verified) in the store.

Core-only: links into the native driver `model-c16`.
-/
namespace Storrent.Upload
open Storrent Storrent.Wire

/-- an upload request `(index, begin, length)`; the fields are Go `uint32`s -/
structure Req where
  i : Nat
  b : Nat
  l : Nat
  deriving DecidableEq, Repr

/-- `const reqQ = 250` -/
def reqQ : Nat := 250
/-- `const maxRequestLength = 128 * 1024` (fix 01) -/
def maxReqLen : Nat := 131072

/-! ### `write`: the environment decides each result -/

inductive WR where
  | ok | congested | eof
  deriving DecidableEq, Repr

/-- the results of the successive `write` calls of one handler invocation: first `pre`,
    then `dflt` forever (every handler performs finitely many writes, so quantifying over
    all `WEnv` covers every behaviour of the writer) -/
structure WEnv where
  pre : List WR
  dflt : WR

def WEnv.next (w : WEnv) : WR × WEnv :=
  match w.pre with
  | [] => (w.dflt, w)
  | r :: rs => (r, { w with pre := rs })

/-- error returned by a handler (`nil` = none) -/
inductive Err where
  | none | eof | congested | nometa | dupmeta | range
  deriving DecidableEq, Repr

def WR.toErr : WR → Err
  | .ok => .none
  | .congested => .congested
  | .eof => .eof

/-! ### the piece store as seen by `ReadAt` -/

structure Store where
  /-- piece size (0 before the metadata is known) -/
  ps : Nat
  /-- total length -/
  length : Nat
  /-- indices of the complete (= hash-verified, C01) pieces held in memory -/
  held : List Nat
  /-- the torrent's true content; a complete piece holds exactly its range of it -/
  content : Nat → UInt8

def Store.pieceLen (s : Store) (k : Nat) : Nat := min s.ps (s.length - k * s.ps)

def slice (c : Nat → UInt8) (off n : Nat) : Bytes := (List.range n).map (fun j => c (off + j))

/-- `int64(r.Index)*int64(PieceSize) + int64(r.Begin)` with two's complement wrap-around -/
def offInt64 (i ps b : Nat) : Int :=
  let v := (i * ps + b) % 18446744073709551616
  if v < 9223372036854775808 then (v : Int) else (v : Int) - 18446744073709551616

inductive ReadOut where
  | data (d : Bytes)   -- the first `n` bytes of the buffer (`n` = ReadAt's count)
  | panic              -- Go would fault (index out of range / divide by zero)

/-- `Pieces.ReadAt(buf[0:buflen], off)`: the bytes copied.  `off ≥ length → (0, EOF)` is
    tested before any division; one piece only; an incomplete piece reads as 0 bytes. -/
def readAt (s : Store) (buflen : Nat) (off : Int) : ReadOut :=
  if off ≥ (s.length : Int) then .data []
  else if s.ps = 0 then .panic
  else if off < 0 then
    -- Go's division truncates towards zero: index = -((-off)/ps), begin ≤ 0
    if (-off).toNat / s.ps ≥ 1 then .panic            -- ps.pieces[negative]
    else if s.held.contains 0 then .panic              -- data[negative:]
    else .data []                                       -- piece 0 exists (off < length) and is incomplete
  else
    let o := off.toNat
    let idx := o / s.ps
    let beg := o % s.ps
    if !(s.held.contains idx) || decide (s.pieceLen idx ≤ beg) then .data []
    else .data (slice s.content o (min buflen (s.pieceLen idx - beg)))

/-! ### one peer -/

structure Peer where
  live : Bool            -- Run has not returned
  dead : Bool            -- writerDone closed (sticky; only used by the driver's environment)
  canFast : Bool
  hasInfo : Bool         -- peer.Info != nil
  interested : Bool
  amUnchoking : Bool
  requested : List Req   -- the upload queue
  ticking : Bool         -- uploadTicker != nil
  deriving Repr

/-- everything the model's peer keeps that traffic can make grow: the sum of the lengths of
    all list-valued fields of `Peer`.  There is exactly one: a Reject is written at once or
    the write fails (and the handler returns the error) — it is never remembered. -/
def Peer.items (p : Peer) : Nat := p.requested.length

def Peer.fresh (fast info : Bool) : Peer :=
  { live := true, dead := false, canFast := fast, hasInfo := info, interested := false,
    amUnchoking := false, requested := [], ticking := false }

/-- result of one handler invocation on one peer -/
structure Res where
  p : Peer
  num : Int              -- the global numUnchoking afterwards
  msgs : List Msg        -- messages queued on peer.writer, in order
  err : Err
  alloc : Nat            -- bytes requested from GetBuffer
  panic : Bool
  tag : String

def errSuffix : Err → String
  | .none => ""
  | .eof => "!eof"
  | .congested => "!cong"
  | .nometa => "!nometa"
  | .dupmeta => "!dupmeta"
  | .range => "!range"

/-- `reject`: a RejectRequest for Fast peers, nothing otherwise -/
def reject (fast : Bool) (r : Req) (w : WEnv) : WR × List Msg × WEnv :=
  if fast then
    match w.next with
    | (.ok, w') => (.ok, [.reject r.i r.b r.l], w')
    | (e, w') => (e, [], w')
  else (.ok, [], w)

/-- the loop of `unchoke(false)`: reject every queued request, stop at the first error -/
def rejectAll (fast : Bool) : List Req → WEnv → WR × List Msg × WEnv
  | [], w => (.ok, [], w)
  | r :: rs, w =>
    match reject fast r w with
    | (.ok, ms, w') =>
      match rejectAll fast rs w' with
      | (e, ms', w'') => (e, ms ++ ms', w'')
    | (e, ms, w') => (e, ms, w')

/-- `startStopUpload`: the ticker is armed iff the queue is not empty -/
def startStop (p : Peer) : Peer := { p with ticking := !p.requested.isEmpty }

structure URes where
  p : Peer
  num : Int
  msgs : List Msg
  err : WR
  w : WEnv
  tag : String

/-- `unchoke` once the request has been normalised (`u` = unchoke and the peer is interested);
    with fix 02: the queue is cleared before the rejects are sent -/
def unchokeCore (p : Peer) (num : Int) (u : Bool) (w : WEnv) (pre : String) : URes :=
  if u = p.amUnchoking then ⟨p, num, [], .ok, w, pre ++ "same"⟩
  else if u then
    match w.next with
    | (.ok, w') => ⟨{ p with amUnchoking := true }, num + 1, [.unchoke], .ok, w', pre ++ "on"⟩
    | (_, w') => ⟨p, num, [], .ok, w', pre ++ "on-wfail"⟩      -- "not an error"
  else
    match w.next with
    | (.ok, w') =>
      match rejectAll p.canFast p.requested w' with
      | (e, ms, w'') =>
        ⟨{ p with amUnchoking := false, requested := [] }, num - 1, .choke :: ms, e, w'',
          pre ++ "off"⟩
    | (e, w') => ⟨p, num, [], e, w', pre ++ "off-wfail"⟩

/-- `unchoke(peer, u)`: an uninterested peer is never unchoked (the request becomes a choke) -/
def unchoke (p : Peer) (num : Int) (u0 : Bool) (w : WEnv) : URes :=
  unchokeCore p num (u0 && p.interested) w (if u0 && !p.interested then "unint-" else "")

def mkRes (p : Peer) (num : Int) (msgs : List Msg) (err : Err) (tag : String) : Res :=
  { p := p, num := num, msgs := msgs, err := err, alloc := 0, panic := false,
    tag := tag ++ errSuffix err }

/-- `numPieces(peer)`; only evaluated when the metadata is known (`ps > 0`) -/
def Store.numPieces (s : Store) : Nat := (s.length + s.ps - 1) / s.ps

/-- `case protocol.Request` of handleMessage (with fix 01: the length bound, and fix 03: an
    index beyond the last piece is `ErrRange`, as for Have and Piece) -/
def onRequest (st : Store) (p : Peer) (num : Int) (m : Req) (w : WEnv) : Res :=
  if !p.hasInfo || !p.amUnchoking then
    match reject p.canFast m w with
    | (e, ms, _) => mkRes p num ms e.toErr (if !p.hasInfo then "req-noinfo" else "req-choked")
  else if m.l > maxReqLen then
    match reject p.canFast m w with
    | (e, ms, _) => mkRes p num ms e.toErr "req-toolong"
  else if m.i ≥ st.numPieces then mkRes p num [] .range "req"
  else if p.requested.length ≥ reqQ then
    match p.requested with
    | [] => mkRes p num [] .none "unreachable"
    | r :: rest =>
      match reject p.canFast r w with
      | (.ok, ms, _) =>
        mkRes (startStop { p with requested := rest ++ [m] }) num ms .none "req-headdrop"
      | (_, ms, _) =>
        mkRes (startStop { p with requested := (r :: rest) ++ [m] }) num ms .none "req-headkeep"
  else
    mkRes (startStop { p with requested := p.requested ++ [m] }) num [] .none "req-queued"

/-- `case protocol.Cancel` -/
def onCancel (p : Peer) (num : Int) (m : Req) (w : WEnv) : Res :=
  if !p.hasInfo then mkRes p num [] .nometa "cancel"
  else if m ∈ p.requested then
    let p1 := { p with requested := p.requested.erase m }
    match reject p.canFast m w with
    | (.ok, ms, _) => mkRes (startStop p1) num ms .none "cancel-hit"
    | (e, ms, _) => mkRes p1 num ms e.toErr "cancel-hit"
  else mkRes (startStop p) num [] .none "cancel-miss"

def onInterested (p : Peer) (num : Int) : Res :=
  mkRes { p with interested := true } num [] .none "interested"

/-- `case protocol.NotInterested`: unchoke's error is ignored -/
def onNotInterested (p : Peer) (num : Int) (w : WEnv) : Res :=
  let u := unchoke { p with interested := false } num false w
  mkRes u.p u.num u.msgs .none ("notint-" ++ u.tag ++ errSuffix u.err.toErr)

/-- `case PeerUnchoke` of handleEvent -/
def onPeerUnchoke (p : Peer) (num : Int) (b : Bool) (w : WEnv) : Res :=
  let u := unchoke p num b w
  if u.err ≠ .ok then mkRes u.p u.num u.msgs u.err.toErr ("unch-" ++ u.tag)
  else if u.p.amUnchoking then mkRes (startStop u.p) u.num u.msgs .none ("unch-" ++ u.tag)
  else mkRes { u.p with ticking := false } u.num u.msgs .none ("unch-" ++ u.tag)

/-- `scheduleUpload(peer, true)`: one upload tick -/
def onTick (st : Store) (p : Peer) (num : Int) (cong : Bool) (lim : Nat → Bool) (w : WEnv) : Res :=
  if !p.amUnchoking then mkRes (startStop p) num [] .none "tick-idle"
  else
    match p.requested with
    | [] => mkRes (startStop p) num [] .none "tick-idle"
    | r :: rest =>
      if cong then mkRes (startStop p) num [] .none "tick-cong"
      else if !lim r.l then mkRes (startStop p) num [] .none "tick-denied"
      else
        let p1 := { p with requested := rest }
        match readAt st r.l (offInt64 r.i st.ps r.b) with
        | .panic =>
          { p := p1, num := num, msgs := [], err := .none, alloc := r.l, panic := true,
            tag := "tick-panic" }
        | .data d =>
          if d.length ≠ r.l then
            match reject p.canFast r w with
            | (.ok, ms, _) =>
              { mkRes (startStop p1) num ms .none
                  (if p.canFast then "tick-short-rej" else "tick-short-drop") with alloc := r.l }
            | (e, ms, _) => { mkRes p1 num ms e.toErr "tick-short-rej" with alloc := r.l }
          else
            match w.next with
            | (.ok, _) =>
              { mkRes (startStop p1) num [.piece r.i r.b d] .none "tick-piece" with alloc := r.l }
            | (.congested, _) =>
              { mkRes (startStop { p with requested := r :: rest }) num [] .none "tick-piece-cong"
                  with alloc := r.l }
            | (.eof, _) => { mkRes p1 num [] .eof "tick-piece" with alloc := r.l }

/-- `case PeerMetadataComplete` (only what matters here: `Info` becomes non-nil) -/
def onMeta (p : Peer) (num : Int) : Res :=
  if p.hasInfo then mkRes p num [] .dupmeta "meta"
  else mkRes { p with hasInfo := true } num [] .none "meta"

/-- the deferred functions of Run: stopUpload, then the release of numUnchoking -/
def onExit (p : Peer) (num : Int) : Res :=
  let p1 := { p with live := false, ticking := false }
  if p.amUnchoking then
    { p := p1, num := num - 1, msgs := [], err := .none, alloc := 0,
      panic := decide (num - 1 < 0), tag := "exit-unchoking" }
  else mkRes p1 num [] .none "exit-choked"

/-! ### the whole system: the peers of the process, the global counter, the store -/

structure State where
  peers : List Peer
  num : Int          -- `numUnchoking`
  store : Store

inductive Op where
  | newPeer (fast info : Bool)
  | storeAdd (k : Nat)          -- piece k becomes complete (verified)
  | storeEvict (k : Nat)        -- piece k is evicted / discarded
  | recv (k : Nat) (m : Msg) (w : WEnv)
  | unchoke (k : Nat) (b : Bool) (w : WEnv)
  | tick (k : Nat) (cong : Bool) (lim : Nat → Bool) (w : WEnv)
  | gotMeta (k : Nat)
  | exit (k : Nat)

/-- the handler an op runs on its (live) target peer -/
def handle (st : Store) (p : Peer) (num : Int) : Op → Res
  | .recv _ (.request i b l) w => onRequest st p num ⟨i, b, l⟩ w
  | .recv _ (.cancel i b l) w => onCancel p num ⟨i, b, l⟩ w
  | .recv _ .interested _ => onInterested p num
  | .recv _ .notInterested w => onNotInterested p num w
  | .recv _ _ _ => mkRes p num [] .none "other"
  | .unchoke _ b w => onPeerUnchoke p num b w
  | .tick _ cong lim w => onTick st p num cong lim w
  | .gotMeta _ => onMeta p num
  | .exit _ => onExit p num
  | _ => mkRes p num [] .none "other"

def Op.target : Op → Option Nat
  | .recv k _ _ | .unchoke k _ _ | .tick k _ _ _ | .gotMeta k | .exit k => some k
  | _ => none

structure Out where
  msgs : List Msg := []
  err : Err := .none
  alloc : Nat := 0
  panic : Bool := false
  tag : String := ""

def step (s : State) (op : Op) : State × Out :=
  match op with
  | .newPeer fast info => ({ s with peers := s.peers ++ [Peer.fresh fast info] }, { tag := "new" })
  | .storeAdd k =>
    ({ s with store := { s.store with held := k :: s.store.held.filter (· ≠ k) } }, { tag := "store" })
  | .storeEvict k =>
    ({ s with store := { s.store with held := s.store.held.filter (· ≠ k) } }, { tag := "store" })
  | op =>
    match op.target with
    | none => (s, { tag := "other" })
    | some k =>
      match s.peers[k]? with
      | none => (s, { tag := "nopeer" })
      | some p =>
        if !p.live then (s, { tag := "dead" })
        else
          let r := handle s.store p s.num op
          ({ s with peers := s.peers.set k r.p, num := r.num },
           { msgs := r.msgs, err := r.err, alloc := r.alloc, panic := r.panic, tag := r.tag })

/-! ### the wire trace and the stream oracle (ghosts `toldUnchoked`, `pendingRemote`) -/

inductive Ev where
  | recv (m : Msg)
  | sent (m : Msg)

/-- the events peer `k` sees on the wire during `op` -/
def opEvents (s : State) (op : Op) (o : Out) : List (Nat × Ev) :=
  match op with
  | .recv k m _ =>
    match s.peers[k]? with
    | some p => if p.live then (k, .recv m) :: o.msgs.map (fun x => (k, .sent x)) else []
    | none => []
  | op =>
    match op.target with
    | some k => o.msgs.map (fun x => (k, .sent x))
    | none => []

def runT : State → List Op → State × List (Nat × Ev)
  | s, [] => (s, [])
  | s, op :: ops =>
    let (s1, o) := step s op
    let (s2, tr) := runT s1 ops
    (s2, opEvents s op o ++ tr)

def run (s : State) (ops : List Op) : State := (runT s ops).1

def proj (k : Nat) (tr : List (Nat × Ev)) : List Ev :=
  tr.filterMap (fun e => if e.1 = k then some e.2 else none)

/-- ghost state of the remote's view -/
structure OSt where
  told : Bool            -- an Unchoke was sent after the last Choke
  pending : List Req     -- requests received, not answered / cancelled / rejected / choked away
  cancelled : List Req   -- cancelled requests whose confirming Reject (BEP 6) may still come
  deriving Repr

def OSt.init : OSt := ⟨false, [], []⟩

/-- the property's predicate on the wire, one event at a time; `none` = violated.
    A Reject first settles a cancelled request (so `R R Cancel(R)` may be followed by
    Reject(R) and one Piece(R)), otherwise it removes a pending one. -/
def scan1 (o : OSt) : Ev → Option OSt
  | .recv (.request i b l) => some (if o.told then { o with pending := ⟨i, b, l⟩ :: o.pending } else o)
  | .recv (.cancel i b l) =>
    some (if (⟨i, b, l⟩ : Req) ∈ o.pending then
      { o with pending := o.pending.erase ⟨i, b, l⟩, cancelled := ⟨i, b, l⟩ :: o.cancelled } else o)
  | .recv _ => some o
  | .sent .unchoke => some { o with told := true }
  | .sent .choke => some ⟨false, [], []⟩
  | .sent (.reject i b l) =>
    some (if (⟨i, b, l⟩ : Req) ∈ o.cancelled then { o with cancelled := o.cancelled.erase ⟨i, b, l⟩ }
      else { o with pending := o.pending.erase ⟨i, b, l⟩ })
  | .sent (.piece i b d) =>
    if o.told ∧ (⟨i, b, d.length⟩ : Req) ∈ o.pending then
      some { o with pending := o.pending.erase ⟨i, b, d.length⟩ }
    else none
  | .sent _ => some o

def scan (o : OSt) : List Ev → Option OSt
  | [] => some o
  | e :: es => (scan1 o e).bind (fun o' => scan o' es)

/-- number of live peers with `amUnchoking = 1` -/
def cnt : List Peer → Int
  | [] => 0
  | p :: ps => (if p.live && p.amUnchoking then 1 else 0) + cnt ps

def State.init (st : Store) : State := { peers := [], num := 0, store := st }

end Storrent.Upload
