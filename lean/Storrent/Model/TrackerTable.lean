import Storrent.Model.Tracker
/-
Expected shape of the constants the extractor reads from tracker/tracker.go and tracker/udp.go
(Gen/TrackerConsts.lean), written in terms of the constants the model uses.  `C15_gen_tracker_consts`
(Props/C15.lean) compares the regenerated table with these; `effInterval_table`,
`updateInterval_table`, `udpRequestReply_attempts` say that the model's functions are the
functions of these constants.
-/
namespace Storrent.Tracker

def defaultInterval : Int := 30 * minute     -- ready(): interval <= 0
def floorInterval : Int := 5 * minute        -- ready(): never sooner
def acceptAbove : Int := minute              -- updateInterval: an announced interval counts if above
def fallbackInterval : Int := 15 * minute    -- updateInterval: otherwise at least this
def udpAttempts : Nat := 4
def udpTimeout0 : Int := 5 * second
def udpBackoff : Int := 2

def expectedReadyGuards : List (String × String × Option Int × String × Option Int) :=
  [("interval", "<=", some 0, "interval", some defaultInterval),
   ("interval", "<", some floorInterval, "interval", some floorInterval)]

def expectedUpdateGuards : List (String × String × Option Int × String × Option Int) :=
  [("interval", ">", some acceptAbove, "tracker.interval", none),
   ("tracker.interval", "<", some fallbackInterval, "tracker.interval", some fallbackInterval)]

end Storrent.Tracker
