import Storrent.Util
/-
Model of /repo/peer/requests/requests.go (C11, C09): the queue of unsent requests, the list
of sent ("requested", outstanding) requests, and the membership bitmap.

* chunk numbers are `Nat` (Go: uint32 widened to int for the bitmap);
* the membership bitmap is its characteristic function (only `Get/Set/Reset` and `= nil`
  are ever applied to it, its byte length is never observed);
* time: every stamp is kept as its *age* in milliseconds; `age d` adds `d` to every age
  (what `VerifAge` does to the real stamps); a stamp taken "now" has age 1 (strictly
  positive elapsed time by the next reading of the clock, far below the 500 ms margins the
  correspondence harness keeps around every threshold);
* every Go panic is an explicit `none`.
-/
namespace Storrent.Requests

structure Req where
  index : Nat
  /-- age of `rtime`; meaningless while `sent = false` (Go: zero time) -/
  rage : Nat := 0
  sent : Bool := false
  cancelled : Bool := false
  /-- age of `ctime`; meaningless while `cancelled = false` -/
  cage : Nat := 0
  deriving Repr, DecidableEq

structure Requests where
  queue : List Req := []
  requested : List Req := []
  member : Nat → Bool := fun _ => false

instance : Inhabited Requests := ⟨{}⟩

def mset (m : Nat → Bool) (c : Nat) : Nat → Bool := fun x => x == c || m x
def mreset (m : Nat → Bool) (c : Nat) : Nat → Bool := fun x => x != c && m x

/-- Go: `l[i] = l[len-1]; l = l[:len-1]` (for `len = 1`: `nil`).  `a ++ x :: b ↦ a ++ last b :: dropLast b` -/
def swapRemove {α : Type} (l : List α) (i : Nat) : List α :=
  let a := l.take i
  let b := l.drop (i + 1)
  match b.getLast? with
  | none => a
  | some y => a ++ y :: b.dropLast

/-- position of the first request for chunk `c` -/
def findIdx (l : List Req) (c : Nat) : Option Nat := l.findIdx? (fun r => r.index == c)

/-- `Cancel`: (found, sendCancel) -/
def cancel (rs : Requests) (c : Nat) : Requests × Bool × Bool :=
  if !rs.member c then (rs, false, false)
  else match findIdx rs.requested c with
    | none => (rs, false, false)
    | some i =>
      match rs.requested[i]? with
      | none => (rs, false, false)   -- unreachable (findIdx)
      | some r =>
        if r.cancelled then (rs, true, false)
        else ({ rs with requested := rs.requested.set i { r with cancelled := true, cage := 1 } },
              true, true)

/-- `del(index, reqonly)`: (q, r); `none` = panic("Requests is broken!") -/
def del (rs : Requests) (c : Nat) (reqonly : Bool) : Option (Requests × Bool × Bool) :=
  if !rs.member c then some (rs, false, false)
  else match findIdx rs.requested c with
    | some i =>
      some ({ rs with requested := swapRemove rs.requested i, member := mreset rs.member c },
            false, true)
    | none =>
      if reqonly then some (rs, false, false)
      else match findIdx rs.queue c with
        | some i =>
          some ({ rs with queue := swapRemove rs.queue i, member := mreset rs.member c },
                true, false)
        | none => none

def delAny (rs : Requests) (c : Nat) := del rs c false

/-- `DelRequested` (never panics: reqonly) -/
def delRequested (rs : Requests) (c : Nat) : Requests × Bool :=
  match del rs c true with
  | some (rs', _, r) => (rs', r)
  | none => (rs, false)

/-- `Enqueue`: false for a duplicate -/
def enqueue (rs : Requests) (c : Nat) : Requests × Bool :=
  if rs.member c then (rs, false)
  else ({ rs with queue := rs.queue ++ [{ index := c }], member := mset rs.member c }, true)

/-- `Dequeue`: `none` = index out of range on an empty queue.  Clears the membership bit
    (the request is in limbo until `EnqueueRequest`). -/
def dequeue (rs : Requests) : Option (Req × Requests) :=
  match rs.queue with
  | [] => none
  | q :: rest => some (q, { rs with queue := rest, member := mreset rs.member q.index })

/-- `EnqueueRequest`: `none` = panic("Incorrect use of Requests.EnqueueRequest") -/
def enqueueRequest (rs : Requests) (r : Req) : Option Requests :=
  if rs.member r.index then none
  else some { rs with
    requested := rs.requested ++ [{ r with sent := true, rage := 1, cancelled := false, cage := 0 }],
    member := mset rs.member r.index }

/-- `Clear(both, f)`: returns the chunks `f` is called on, in call order -/
def clear (rs : Requests) (both : Bool) : Requests × List Nat :=
  if both then
    ({ queue := [], requested := [], member := fun _ => false },
     rs.requested.map (·.index) ++ rs.queue.map (·.index))
  else
    ({ queue := [], requested := rs.requested,
       member := fun x => rs.requested.any (fun r => r.index == x) },
     rs.queue.map (·.index))

def age (rs : Requests) (d : Nat) : Requests :=
  { rs with requested := rs.requested.map (fun r =>
      { r with rage := r.rage + d, cage := if r.cancelled then r.cage + d else r.cage }) }

/-- `Expire(t0, t1, drop, cancel)`; `a0`/`a1` are the ages of `t0`/`t1`.  The callbacks act
    on a caller state `σ` (the peer); `cancelF` also receives the `Requests` as they were just
    before the request was marked and the request itself (ghost, for the theorems).
    Returns `dropped`; `none` = panic("Couldn't delete request").
    `i` is the loop index, `fuel` bounds the iterations (each one either removes an element
    or advances `i`). -/
def expireLoop {σ : Type} (dropF : Nat → σ → σ) (cancelF : Requests → Req → σ → σ)
    (a0 a1 : Nat) : Nat → Nat → Requests → σ → Bool → Option (Requests × σ × Bool)
  | 0, _, rs, st, dropped => some (rs, st, dropped)
  | fuel + 1, i, rs, st, dropped =>
    match rs.requested[i]? with
    | none => some (rs, st, dropped)
    | some r =>
      if r.cancelled && r.cage > a1 then
        let (rs', found) := delRequested rs r.index
        if !found then none
        else expireLoop dropF cancelF a0 a1 fuel i rs' (dropF r.index st) true
      else if !r.cancelled && r.rage > a0 then
        expireLoop dropF cancelF a0 a1 fuel (i + 1)
          { rs with requested := rs.requested.set i { r with cancelled := true, cage := 1 } }
          (cancelF rs r st) dropped
      else expireLoop dropF cancelF a0 a1 fuel (i + 1) rs st dropped

def expire {σ : Type} (dropF : Nat → σ → σ) (cancelF : Requests → Req → σ → σ)
    (rs : Requests) (a0 a1 : Nat) (st : σ) : Option (Requests × σ × Bool) :=
  expireLoop dropF cancelF a0 a1 (2 * rs.requested.length + 1) 0 rs st false

/-! ### the structure as a machine of its own (for the history-level theorems)

`dequeue send` is how `maybeRequest` uses `Dequeue`: only when `Queue() > 0`, followed by
`EnqueueRequest` of the very request taken (`send`) or by nothing (the request is dropped).
`none` = a Go panic ("Requests is broken!", "Incorrect use of Requests.EnqueueRequest",
"Couldn't delete request"). -/

inductive ROp where
  | enqueue (c : Nat)
  | dequeue (send : Bool)
  | del (c : Nat)
  | delRequested (c : Nat)
  | cancel (c : Nat)
  | clear (both : Bool)
  | expire (a0 a1 : Nat)
  | age (d : Nat)
  deriving Repr, DecidableEq

def rstep (rs : Requests) : ROp → Option Requests
  | .enqueue c => some (enqueue rs c).1
  | .dequeue send =>
    if rs.queue.isEmpty then some rs
    else match dequeue rs with
      | none => none
      | some (q, rs1) => if send then enqueueRequest rs1 q else some rs1
  | .del c => (del rs c false).map (·.1)
  | .delRequested c => some (delRequested rs c).1
  | .cancel c => some (cancel rs c).1
  | .clear both => some (clear rs both).1
  | .expire a0 a1 =>
    (expire (σ := Unit) (fun _ s => s) (fun _ _ s => s) rs a0 a1 ()).map (·.1)
  | .age d => some (age rs d)

def rrun : Requests → List ROp → Option Requests
  | rs, [] => some rs
  | rs, op :: ops =>
    match rstep rs op with
    | none => none
    | some rs' => rrun rs' ops

end Storrent.Requests
