import Storrent.Model.Http
/-
Executable model of the namespace mapping of the two front-ends (C20):
path/path.go (Parse, String, Equal, Within, Compare), http/http.go (fileParms, the table
of torrentEntry with torrentDir/torrentFile, playlist), tor/torrents.go (GetByName) and
fuse/fuse.go (root.Lookup/ReadDirAll, directory.Lookup/ReadDirAll/Attr, file.Attr/Open).
Strings are byte lists (Go string comparison is byte-wise).  The two faults that exist in
this code — `b[0:len(b)-1]` in pathUrl and `path[len(path)-1]` in m3uentry, both on an
empty path — are explicit `panic` outcomes (they come from `Model/Http`).
-/
namespace Storrent.NS
open Storrent Storrent.Http

abbrev Path := List Str

/-! ### path/path.go -/

/-- `strings.Split(f, "/")` (never empty) -/
def splitSlash : Str → List Str
  | [] => [[]]
  | c :: cs =>
    if c = 47 then [] :: splitSlash cs
    else match splitSlash cs with
      | [] => [[c]]
      | h :: t => (c :: h) :: t

/-- `for len(path) > 0 && path[len(path)-1] == "" { path = path[:len(path)-1] }` -/
def dropTrailingEmpty : List Str → List Str
  | [] => []
  | s :: rest =>
    match dropTrailingEmpty rest with
    | [] => if s.isEmpty then [] else [s]
    | r => s :: r

/-- `path.Parse` -/
def parse (f : Str) : Path := dropTrailingEmpty ((splitSlash f).dropWhile (·.isEmpty))

/-- `Path.String` = `strings.Join(p, "/")` -/
def pstring : Path → Str
  | [] => []
  | [s] => s
  | s :: t => s ++ 47 :: pstring t

/-- `Path.Equal` -/
def equal (p q : Path) : Bool := p == q

/-- `Path.Within`: `len(p) <= len(d)` ⇒ false, then `d` must be a prefix of `p` -/
def within (p d : Path) : Bool := decide (d.length < p.length) && d.isPrefixOf p

/-- Go's `<` on strings -/
def ltStr : Str → Str → Bool
  | [], [] => false
  | [], _ :: _ => true
  | _ :: _, [] => false
  | x :: xs, y :: ys => if x < y then true else if y < x then false else ltStr xs ys

/-- `Path.Compare` -/
def compare : Path → Path → Int
  | [], [] => 0
  | [], _ :: _ => -1
  | _ :: _, [] => 1
  | x :: xs, y :: ys => if ltStr x y then -1 else if ltStr y x then 1 else compare xs ys

/-! ### the file table -/

structure File where
  path : Path
  offset : Int
  length : Int
  padding : Bool
  deriving Repr, DecidableEq

/-- what the front-ends read of a `tor.Torrent` -/
structure Torrent where
  hash : Str
  name : Str
  complete : Bool                -- InfoComplete()
  files : Option (List File)     -- none: `t.Files == nil` (single-file torrent)
  length : Int                   -- Pieces.Length()
  deriving Repr

/-! ### http: fileParms, directory table, playlist -/

/-- `fileParms` (http.go:1007-1034): `none` = os.ErrNotExist -/
def fileParms (t : Torrent) (pth : Path) : Option (Int × Int) :=
  match t.files with
  | none =>
    match pth with
    | [c] => if c ≠ t.name then none else some (0, t.length)
    | _ => none                                  -- len(pth) != 1
  | some fs =>
    match fs.find? (fun f => equal pth f.path) with
    | none => none
    | some f => some (f.offset, f.length)

/-- insertion sort by `Compare` (slices.SortFunc is trusted to return *a* sorted permutation;
    on pairwise distinct paths that permutation is unique) -/
def insertBy (f : File) : List File → List File
  | [] => [f]
  | g :: gs => if compare f.path g.path ≤ 0 then f :: g :: gs else g :: insertBy f gs

def sortFiles : List File → List File
  | [] => []
  | f :: fs => insertBy f (sortFiles fs)

inductive Row where
  | dir (p : Path)                  -- a row of torrentDir: link to /hash/p/ and its playlist
  | file (p : Path) (length : Int)  -- a row of torrentFile: link to /hash/p
  deriving Repr, DecidableEq

/-- common prefix loop of `torrentDir` -/
def commonPrefix : Path → Path → Path
  | x :: xs, y :: ys => if x = y then x :: commonPrefix xs ys else []
  | _, _ => []

/-- `torrentDir`: one row per new directory level (each needs `pathUrl dir`, non-empty) -/
def dirRows (pth lastdir : Path) : List Row :=
  let k := (commonPrefix pth lastdir).length
  (List.range (pth.length - k)).map fun i => Row.dir (pth.take (k + i + 1))

/-- the loop over the sorted files in `torrentEntry` -/
def tableLoop : List File → Path → List Row
  | [], _ => []
  | f :: fs, lastdir =>
    let dir := f.path.dropLast
    if equal dir lastdir then Row.file f.path f.length :: tableLoop fs lastdir
    else dirRows dir lastdir ++ Row.file f.path f.length :: tableLoop fs dir

/-- every row is rendered through `pathUrl`: the page faults iff some row has an empty path -/
def rowsFault (rows : List Row) : Bool :=
  rows.any fun r => match r with
    | .dir p => p.isEmpty
    | .file p _ => p.isEmpty

/-- the file table of `torrentEntry` for directory `dir` (http.go:515-553) -/
def listing (t : Torrent) (dir : Path) : Res (List Row) :=
  if !t.complete then .ok []
  else
    let rows := match t.files with
      | none => if dir.isEmpty then [Row.file (parse t.name) t.length] else []
      | some fs => tableLoop (sortFiles (fs.filter fun f => within f.path dir)) []
    if rowsFault rows then .panic else .ok rows

inductive Plist where
  | notFound                       -- 404
  | entries (ps : List Path)       -- one m3uentry per path, in this order
  | incomplete                     -- 504
  | panic
  deriving Repr, DecidableEq

/-- `playlist` (http.go:923-977) -/
def playlist (t : Torrent) (dir : Path) : Plist :=
  if !t.complete then .incomplete
  else match t.files with
    | none =>
      if dir.length > 0 then .notFound
      else if (parse t.name).isEmpty then .panic     -- m3uentry: path[len(path)-1]
      else .entries [parse t.name]
    | some fs =>
      if !(fs.any fun f => within f.path dir) then .notFound
      else
        let ps := ((sortFiles fs).filter fun f => within f.path dir).map (·.path)
        if ps.any (·.isEmpty) then .panic else .entries ps

/-- what `torHandler` (http.go:314-355) answers for the decoded path remainder `s`
    (`r.PathValue("path")`) of a GET/HEAD request on an existing torrent -/
inductive HObs where
  | dirPage (rows : List Row)
  | file (offset length : Int)
  | plist (ps : List Path)
  | notFound
  | incomplete
  | panic
  deriving Repr, DecidableEq

def torHandler (t : Torrent) (s : Str) (playlistQuery : Bool) : HObs :=
  let pth : Str := 47 :: s                          -- "/" + r.PathValue("path")
  if playlistQuery then
    match playlist t (parse pth) with
    | .notFound => .notFound
    | .incomplete => .incomplete
    | .panic => .panic
    | .entries ps => .plist ps
  else if pth.getLast? = some 47 then               -- pth[len(pth)-1] == '/'
    match listing t (parse pth) with
    | .ok rows => .dirPage rows
    | .panic => .panic
  else if !t.complete then .incomplete
  else match fileParms t (parse pth) with
    | some (o, l) => .file o l
    | none => .notFound

/-! ### tor/torrents.go: GetByName -/

/-- `bytes.Compare(a, b) < 0` is `ltStr` -/
def getByName (ts : List Torrent) (name : Str) : Option Torrent :=
  ts.foldl (fun best t =>
    if t.name = name then
      match best with
      | none => some t
      | some b => if ltStr t.hash b.hash then some t else some b
    else best) none

def getByHash (ts : List Torrent) (h : Str) : Option Torrent := ts.find? (fun t => t.hash = h)

/-! ### fuse/fuse.go -/

inductive Node where
  | dir (hash : Str) (name : Str)
  | file (hash : Str) (name : Str)
  deriving Repr, DecidableEq

inductive DType where
  | dir | file
  deriving Repr, DecidableEq

/-- `root.Lookup` -/
def rootLookup (ts : List Torrent) (name : Str) : Option Node :=
  match getByName ts name with
  | none => none
  | some t => match t.files with
    | none => some (.file t.hash t.name)
    | some _ => some (.dir t.hash [])

/-- `root.ReadDirAll` (order of the sync.Map range is unspecified: the harness sorts) -/
def rootReadDir (ts : List Torrent) : List (Str × DType) :=
  (ts.filter fun t => t.complete && !t.name.isEmpty).map fun t =>
    (t.name, match t.files with | none => DType.file | some _ => DType.dir)

def filesOf (t : Torrent) : List File := t.files.getD []

/-- `directory.Lookup`: the first file below the directory whose next component is `name` -/
def dirLookup (t : Torrent) (dirname : Str) (name : Str) : Option Node :=
  if !t.complete then none
  else
    let pth := parse dirname
    match (filesOf t).find? (fun f => within f.path pth && f.path.getD pth.length [] == name) with
    | none => none
    | some f =>
      let filename := pstring (pth ++ [name])
      if f.path.length > pth.length + 1 then some (.dir t.hash filename)
      else some (.file t.hash filename)

/-- the loop of `directory.ReadDirAll` after "." and "..": padding files skipped,
    directories listed once (the `dirs` map), files every time -/
def readDirLoop (pth : Path) : List File → List Str → List (Str × DType)
  | [], _ => []
  | f :: fs, dirs =>
    if f.padding then readDirLoop pth fs dirs
    else if !(within f.path pth) then readDirLoop pth fs dirs
    else
      let name := f.path.getD pth.length []
      if f.path.length > pth.length + 1 then
        if dirs.contains name then readDirLoop pth fs dirs
        else (name, DType.dir) :: readDirLoop pth fs (name :: dirs)
      else (name, DType.file) :: readDirLoop pth fs dirs

def dirReadDir (t : Torrent) (dirname : Str) : Option (List (Str × DType)) :=
  if !t.complete then none else some (readDirLoop (parse dirname) (filesOf t) [])

/-- `directory.Attr`: ENOENT only when the torrent is gone or incomplete -/
def dirAttr (t : Torrent) (_dirname : Str) : Bool := t.complete

/-- `file.Attr` (size) and `file.Open` (offset, length): `none` = ENOENT -/
def fileOpen (t : Torrent) (filename : Str) : Option (Int × Int) :=
  if !t.complete then none
  else match t.files with
    | none => some (0, t.length)
    | some fs => match fs.find? (fun f => equal (parse filename) f.path) with
      | none => none
      | some f => some (f.offset, f.length)

def fileAttr (t : Torrent) (filename : Str) : Option Int := (fileOpen t filename).map (·.2)

/-! ### well-formedness -/

def compOK (c : Str) : Bool := !c.isEmpty && !c.contains 47

/-- `WFfiles`: every path non-empty, no component empty or containing '/', paths pairwise
    distinct, no path a prefix of another -/
structure WFfiles (fs : List File) : Prop where
  nonempty : ∀ f ∈ fs, f.path ≠ []
  comps : ∀ f ∈ fs, ∀ c ∈ f.path, compOK c = true
  distinct : fs.Pairwise (fun a b => a.path ≠ b.path)
  noPrefix : ∀ f ∈ fs, ∀ g ∈ fs, f.path <+: g.path → f.path = g.path

/-- what the (repaired) metadata validation of tor/torfile.go accepts, as far as the
    namespace is concerned: the torrent name is one good component; every file path is a
    non-empty list of good components ("." and ".." are refused too, which the model does
    not need) -/
def nameOK (n : Str) : Bool := compOK n

def accepts (t : Torrent) : Bool :=
  nameOK t.name &&
  match t.files with
  | none => true
  | some fs => fs.all fun f => !f.path.isEmpty && f.path.all compOK

end Storrent.NS
