import Storrent.Util
/-
Lock-discipline table of tor/piece/piece.go (C01, C03).  The Go-AST extractor
(harness/cmd/extract/locktable.go) regenerates `Gen.lockTable` on every run: one row per
(function, field or callee, read/write, plain/atomic/call, lock state of `ps.mu` that
syntactically dominates the access, lock-hold number).  Here: the row type, the expectation
reviewed by hand against the (repaired) source, and `disciplineOk`, the decidable statement
the atomic-step granularity of Model/Piece.lean relies on.
-/
namespace Storrent.LockTable

inductive RW where | r | w
  deriving Repr, DecidableEq
inductive Via where | plain | atomic | call
  deriving Repr, DecidableEq
/-- `caller`: a lowercase helper inherits its caller's lock state; `unknown`: the extractor
    could not follow the code (fail-closed) -/
inductive Lock where | wlock | rlock | unlocked | caller | unknown
  deriving Repr, DecidableEq

structure Row where
  fn    : String   -- "Pieces.AddData", "Piece.complete", …
  field : String   -- a field of Piece/Pieces, "*" (a whole Piece copied), or the callee for `call` rows
  rw    : RW
  via   : Via
  lock  : Lock
  hold  : Nat      -- which Lock()/RLock() of the function (source order, 0 = state on entry)
  deriving Repr, DecidableEq

/-- mutable shared fields: every plain access must be under the lock -/
def guarded : List String := ["data", "bitmap", "peers", "deleted", "count", "state", "*"]
/-- the state tests that guard an access to a buffer -/
def stateTests : List String := ["Piece.complete", "Piece.busy", "Piece.busyOrComplete"]
/-- entry points whose access to `data`/`bitmap` is conditional on the piece's state -/
def gatedFns : List String := ["Pieces.ReadAt", "Pieces.AddData", "Pieces.Finalise", "Pieces.Hole"]

/-- the lock states under which `fn` can be entered, following `caller` rows up the call
    graph (`[]` = never called inside the file) -/
def entryLocks (t : List Row) : Nat → String → List Lock
  | 0, _ => [.unknown]
  | fuel + 1, fn =>
    (t.filter (fun r => r.via == .call && r.field == fn)).flatMap (fun r =>
      if r.lock == .caller then entryLocks t fuel r.fn else [r.lock])

/-- the lock states an access row can execute under -/
def effective (t : List Row) (r : Row) : List Lock :=
  if r.lock == .caller then entryLocks t 4 r.fn else [r.lock]

def lockOkFor (rw : RW) (l : Lock) : Bool :=
  match rw, l with
  | _, .wlock => true
  | .r, .rlock => true
  | _, _ => false

/-- (1) nothing the extractor could not follow; (2) every plain access to a guarded field is
    under the lock (write lock for writes), helpers resolved through their callers;
    (3) functions analysed as "called locked" are only called under the write lock;
    (4) `state` is only written through `setState` (atomic CAS), called under the write lock;
    (5) in ReadAt / AddData / Finalise / Hole every access to a buffer or block bitmap happens
    in a lock hold in which the piece's state was tested (complete()/busy()/busyOrComplete()):
    the decision and the access are one critical section. -/
def disciplineOk (t : List Row) (assumed : List String) : Bool :=
  t.all (fun r => r.lock != .unknown) &&
  t.all (fun r => !(r.via == .plain && guarded.contains r.field) ||
    (effective t r).all (lockOkFor r.rw)) &&
  t.all (fun r => !(r.via == .call && assumed.contains r.field) ||
    (effective t r).all (· == .wlock)) &&
  t.all (fun r => !(r.field == "state" && r.rw == .w) ||
    (r.via == .atomic && r.fn == "Piece.setState")) &&
  t.all (fun r => !(r.via == .call && r.field == "Piece.setState") ||
    (effective t r).all (· == .wlock)) &&
  t.all (fun r => !(gatedFns.contains r.fn && r.via == .plain && (r.field == "data" || r.field == "bitmap")) ||
    t.any (fun c => c.fn == r.fn && c.via == .call && stateTests.contains c.field &&
      c.hold == r.hold && (c.lock == .wlock || c.lock == .rlock)))

def expectedLockAssumed : List String := ["Pieces.del"]
def expectedLockFunctions : List String := ["Piece.Busy", "Piece.BusyOrComplete", "Piece.Complete", "Piece.SetTime", "Piece.Time", "Piece.addPeer", "Piece.busy", "Piece.busyOrComplete", "Piece.complete", "Piece.setState", "Pieces.AddData", "Pieces.All", "Pieces.Bitmap", "Pieces.Bytes", "Pieces.Complete", "Pieces.Count", "Pieces.Del", "Pieces.Expire", "Pieces.Finalise", "Pieces.Hole", "Pieces.Length", "Pieces.MetadataComplete", "Pieces.Num", "Pieces.PieceBitmap", "Pieces.PieceEmpty", "Pieces.PieceLength", "Pieces.PieceSize", "Pieces.ReadAt", "Pieces.UpdateTime", "Pieces.del", "Pieces.pieceChunks"]

/-- Reviewed by hand against tor/piece/piece.go (repaired tree).  A sorted set: no line
    numbers, no multiplicities. -/
def expectedLockTable : List Row := [
  ⟨"Piece.Busy", "state", .r, .atomic, .unlocked, 0⟩,
  ⟨"Piece.BusyOrComplete", "state", .r, .atomic, .unlocked, 0⟩,
  ⟨"Piece.Complete", "state", .r, .atomic, .unlocked, 0⟩,
  ⟨"Piece.SetTime", "time", .w, .atomic, .unlocked, 0⟩,
  ⟨"Piece.Time", "time", .r, .atomic, .unlocked, 0⟩,
  ⟨"Piece.addPeer", "peers", .r, .plain, .caller, 0⟩,
  ⟨"Piece.addPeer", "peers", .w, .plain, .caller, 0⟩,
  ⟨"Piece.busy", "state", .r, .plain, .caller, 0⟩,
  ⟨"Piece.busyOrComplete", "state", .r, .plain, .caller, 0⟩,
  ⟨"Piece.complete", "state", .r, .plain, .caller, 0⟩,
  ⟨"Piece.setState", "state", .w, .atomic, .caller, 0⟩,
  ⟨"Pieces.AddData", "Piece.BusyOrComplete", .r, .call, .unlocked, 0⟩,
  ⟨"Pieces.AddData", "Piece.addPeer", .r, .call, .wlock, 1⟩,
  ⟨"Pieces.AddData", "Piece.busyOrComplete", .r, .call, .wlock, 1⟩,
  ⟨"Pieces.AddData", "Pieces.PieceLength", .r, .call, .wlock, 1⟩,
  ⟨"Pieces.AddData", "Pieces.pieceChunks", .r, .call, .wlock, 1⟩,
  ⟨"Pieces.AddData", "bitmap", .r, .plain, .wlock, 1⟩,
  ⟨"Pieces.AddData", "bitmap", .w, .plain, .wlock, 1⟩,
  ⟨"Pieces.AddData", "count", .w, .plain, .wlock, 1⟩,
  ⟨"Pieces.AddData", "data", .r, .plain, .wlock, 1⟩,
  ⟨"Pieces.AddData", "data", .w, .plain, .wlock, 1⟩,
  ⟨"Pieces.AddData", "deleted", .r, .plain, .wlock, 1⟩,
  ⟨"Pieces.AddData", "pieces", .r, .plain, .unlocked, 0⟩,
  ⟨"Pieces.AddData", "pieces", .r, .plain, .wlock, 1⟩,
  ⟨"Pieces.All", "Piece.complete", .r, .call, .rlock, 1⟩,
  ⟨"Pieces.All", "pieces", .r, .plain, .rlock, 1⟩,
  ⟨"Pieces.Bitmap", "Piece.complete", .r, .call, .rlock, 1⟩,
  ⟨"Pieces.Bitmap", "pieces", .r, .plain, .rlock, 1⟩,
  ⟨"Pieces.Bitmap", "pieces", .r, .plain, .unlocked, 0⟩,
  ⟨"Pieces.Bytes", "count", .r, .plain, .wlock, 1⟩,
  ⟨"Pieces.Bytes", "pieceSize", .r, .plain, .wlock, 1⟩,
  ⟨"Pieces.Complete", "Piece.Complete", .r, .call, .unlocked, 0⟩,
  ⟨"Pieces.Complete", "pieces", .r, .plain, .unlocked, 0⟩,
  ⟨"Pieces.Count", "count", .r, .plain, .rlock, 1⟩,
  ⟨"Pieces.Del", "Pieces.del", .r, .call, .wlock, 1⟩,
  ⟨"Pieces.Del", "deleted", .w, .plain, .wlock, 1⟩,
  ⟨"Pieces.Del", "pieces", .r, .plain, .wlock, 1⟩,
  ⟨"Pieces.Expire", "Piece.Time", .r, .call, .unlocked, 0⟩,
  ⟨"Pieces.Expire", "Pieces.Bytes", .r, .call, .unlocked, 0⟩,
  ⟨"Pieces.Expire", "Pieces.del", .r, .call, .wlock, 1⟩,
  ⟨"Pieces.Expire", "pieceSize", .r, .plain, .unlocked, 0⟩,
  ⟨"Pieces.Expire", "pieces", .r, .plain, .unlocked, 0⟩,
  ⟨"Pieces.Finalise", "Piece.BusyOrComplete", .r, .call, .unlocked, 0⟩,
  ⟨"Pieces.Finalise", "Piece.busyOrComplete", .r, .call, .wlock, 1⟩,
  ⟨"Pieces.Finalise", "Piece.setState", .r, .call, .wlock, 1⟩,
  ⟨"Pieces.Finalise", "Piece.setState", .r, .call, .wlock, 2⟩,
  ⟨"Pieces.Finalise", "Pieces.del", .r, .call, .wlock, 2⟩,
  ⟨"Pieces.Finalise", "Pieces.pieceChunks", .r, .call, .wlock, 1⟩,
  ⟨"Pieces.Finalise", "bitmap", .r, .plain, .wlock, 1⟩,
  ⟨"Pieces.Finalise", "data", .r, .plain, .wlock, 1⟩,
  ⟨"Pieces.Finalise", "deleted", .r, .plain, .wlock, 1⟩,
  ⟨"Pieces.Finalise", "peers", .r, .plain, .wlock, 2⟩,
  ⟨"Pieces.Finalise", "peers", .w, .plain, .wlock, 2⟩,
  ⟨"Pieces.Finalise", "pieces", .r, .plain, .unlocked, 0⟩,
  ⟨"Pieces.Finalise", "pieces", .r, .plain, .wlock, 1⟩,
  ⟨"Pieces.Finalise", "pieces", .r, .plain, .wlock, 2⟩,
  ⟨"Pieces.Hole", "*", .r, .plain, .rlock, 1⟩,
  ⟨"Pieces.Hole", "Piece.busyOrComplete", .r, .call, .rlock, 1⟩,
  ⟨"Pieces.Hole", "Pieces.PieceLength", .r, .call, .rlock, 1⟩,
  ⟨"Pieces.Hole", "Pieces.pieceChunks", .r, .call, .rlock, 1⟩,
  ⟨"Pieces.Hole", "bitmap", .r, .plain, .rlock, 1⟩,
  ⟨"Pieces.Hole", "pieces", .r, .plain, .rlock, 1⟩,
  ⟨"Pieces.Length", "length", .r, .plain, .unlocked, 0⟩,
  ⟨"Pieces.MetadataComplete", "length", .r, .plain, .unlocked, 0⟩,
  ⟨"Pieces.MetadataComplete", "length", .w, .plain, .unlocked, 0⟩,
  ⟨"Pieces.MetadataComplete", "pieceSize", .w, .plain, .unlocked, 0⟩,
  ⟨"Pieces.MetadataComplete", "pieces", .w, .plain, .unlocked, 0⟩,
  ⟨"Pieces.Num", "pieces", .r, .plain, .unlocked, 0⟩,
  ⟨"Pieces.PieceBitmap", "Pieces.pieceChunks", .r, .call, .unlocked, 0⟩,
  ⟨"Pieces.PieceBitmap", "bitmap", .r, .plain, .rlock, 1⟩,
  ⟨"Pieces.PieceBitmap", "pieces", .r, .plain, .rlock, 1⟩,
  ⟨"Pieces.PieceEmpty", "bitmap", .r, .plain, .rlock, 1⟩,
  ⟨"Pieces.PieceEmpty", "pieces", .r, .plain, .rlock, 1⟩,
  ⟨"Pieces.PieceLength", "length", .r, .plain, .unlocked, 0⟩,
  ⟨"Pieces.PieceLength", "pieceSize", .r, .plain, .unlocked, 0⟩,
  ⟨"Pieces.PieceSize", "pieceSize", .r, .plain, .unlocked, 0⟩,
  ⟨"Pieces.ReadAt", "Piece.complete", .r, .call, .rlock, 1⟩,
  ⟨"Pieces.ReadAt", "data", .r, .plain, .rlock, 1⟩,
  ⟨"Pieces.ReadAt", "length", .r, .plain, .unlocked, 0⟩,
  ⟨"Pieces.ReadAt", "pieceSize", .r, .plain, .unlocked, 0⟩,
  ⟨"Pieces.ReadAt", "pieces", .r, .plain, .rlock, 1⟩,
  ⟨"Pieces.UpdateTime", "Piece.Complete", .r, .call, .unlocked, 0⟩,
  ⟨"Pieces.UpdateTime", "Piece.SetTime", .r, .call, .unlocked, 0⟩,
  ⟨"Pieces.UpdateTime", "Piece.Time", .r, .call, .unlocked, 0⟩,
  ⟨"Pieces.UpdateTime", "pieces", .r, .plain, .unlocked, 0⟩,
  ⟨"Pieces.del", "Piece.Busy", .r, .call, .unlocked, 0⟩,
  ⟨"Pieces.del", "Piece.busy", .r, .call, .wlock, 0⟩,
  ⟨"Pieces.del", "Piece.busy", .r, .call, .wlock, 1⟩,
  ⟨"Pieces.del", "Piece.complete", .r, .call, .wlock, 1⟩,
  ⟨"Pieces.del", "Piece.setState", .r, .call, .wlock, 1⟩,
  ⟨"Pieces.del", "bitmap", .w, .plain, .wlock, 1⟩,
  ⟨"Pieces.del", "count", .r, .plain, .wlock, 1⟩,
  ⟨"Pieces.del", "count", .w, .plain, .wlock, 1⟩,
  ⟨"Pieces.del", "data", .r, .plain, .wlock, 0⟩,
  ⟨"Pieces.del", "data", .r, .plain, .wlock, 1⟩,
  ⟨"Pieces.del", "data", .w, .plain, .wlock, 1⟩,
  ⟨"Pieces.del", "peers", .w, .plain, .wlock, 1⟩,
  ⟨"Pieces.del", "pieces", .r, .plain, .unlocked, 0⟩,
  ⟨"Pieces.del", "pieces", .r, .plain, .wlock, 0⟩,
  ⟨"Pieces.del", "pieces", .r, .plain, .wlock, 1⟩,
  ⟨"Pieces.pieceChunks", "Pieces.PieceLength", .r, .call, .caller, 0⟩
]

end Storrent.LockTable
