import Storrent.Util
/-
Lock-discipline table of tor/piece/piece.go (C01, C03).  The Go-AST extractor
(harness/cmd/extract/locktable.go) regenerates `Gen.lockTable` on every run: one row per
(function, field or callee, read/write, plain/atomic/call, lock state of `ps.mu` that
syntactically dominates the access, lock-hold number).  Unexported helpers (complete(),
busy(), addPeer, pieceChunks, setState, del, …) are SPLICED into their callers by the
extractor, so every row belongs to an exported entry point and extract-method / inline-method
refactorings inside the package do not change the table.  Here: the row type, the expectation
reviewed by hand against the (repaired) source, and `disciplineOk`, the decidable statement
the atomic-step granularity of Model/Piece.lean relies on.
-/
namespace Storrent.LockTable

inductive RW where | r | w
  deriving Repr, DecidableEq
inductive Via where | plain | atomic | call
  deriving Repr, DecidableEq
/-- `unknown`: the extractor could not follow the code (fail-closed); `caller` is no longer
    produced (helpers are spliced) and is rejected like `unknown` -/
inductive Lock where | wlock | rlock | unlocked | caller | unknown
  deriving Repr, DecidableEq

structure Row where
  fn    : String   -- "Pieces.AddData", "Piece.complete", …
  field : String   -- a field of Piece/Pieces, "*" (a whole Piece copied), or the callee for `call` rows
  rw    : RW
  via   : Via
  lock  : Lock
  hold  : Nat      -- which Lock()/RLock() of the function (source order, 0 = state on entry)
  deriving Repr, DecidableEq

/-- mutable shared fields: every plain access must be under the lock -/
def guarded : List String := ["data", "bitmap", "peers", "deleted", "count", "state", "*"]
/-- entry points whose access to `data`/`bitmap` is conditional on the piece's state -/
def gatedFns : List String := ["Pieces.ReadAt", "Pieces.AddData", "Pieces.Finalise", "Pieces.Hole"]

def lockOkFor (rw : RW) (l : Lock) : Bool :=
  match rw, l with
  | _, .wlock => true
  | .r, .rlock => true
  | _, _ => false

def locked (l : Lock) : Bool := l == .wlock || l == .rlock

/-- (1) nothing the extractor could not follow; (2) every plain access to a guarded field is
    under the lock (write lock for writes); (3) nothing is assumed about callers;
    (4) `state` is only written atomically (the CAS of `setState`) and under the write lock;
    (5) in ReadAt / AddData / Finalise / Hole every access to a buffer or block bitmap happens
    in a lock hold in which the piece's state was read under that lock (`complete()`,
    `busy()`, `busyOrComplete()` spliced in): the decision and the access are one critical
    section. -/
def disciplineOk (t : List Row) (assumed : List String) : Bool :=
  t.all (fun r => r.lock != .unknown && r.lock != .caller) &&
  t.all (fun r => !(r.via == .plain && guarded.contains r.field) || lockOkFor r.rw r.lock) &&
  assumed.isEmpty &&
  t.all (fun r => !(r.field == "state" && r.rw == .w) || (r.via == .atomic && r.lock == .wlock)) &&
  t.all (fun r => !(gatedFns.contains r.fn && r.via == .plain && (r.field == "data" || r.field == "bitmap")) ||
    t.any (fun c => c.fn == r.fn && c.via == .plain && c.field == "state" && c.rw == .r &&
      c.hold == r.hold && locked c.lock))

def expectedLockAssumed : List String := []
def expectedLockFunctions : List String := ["Piece.Busy", "Piece.BusyOrComplete", "Piece.Complete", "Piece.SetTime", "Piece.Time", "Pieces.AddData", "Pieces.All", "Pieces.Bitmap", "Pieces.Bytes", "Pieces.Complete", "Pieces.Count", "Pieces.Del", "Pieces.Expire", "Pieces.Finalise", "Pieces.Hole", "Pieces.Length", "Pieces.MetadataComplete", "Pieces.Num", "Pieces.PieceBitmap", "Pieces.PieceEmpty", "Pieces.PieceLength", "Pieces.PieceSize", "Pieces.ReadAt", "Pieces.UpdateTime"]

/-- Reviewed by hand against tor/piece/piece.go (repaired tree), helpers spliced.  A sorted
    set: no line numbers, no multiplicities, no helper names. -/
def expectedLockTable : List Row := [
  ⟨"Piece.Busy", "state", .r, .atomic, .unlocked, 0⟩,
  ⟨"Piece.BusyOrComplete", "state", .r, .atomic, .unlocked, 0⟩,
  ⟨"Piece.Complete", "state", .r, .atomic, .unlocked, 0⟩,
  ⟨"Piece.SetTime", "time", .w, .atomic, .unlocked, 0⟩,
  ⟨"Piece.Time", "time", .r, .atomic, .unlocked, 0⟩,
  ⟨"Pieces.AddData", "Piece.BusyOrComplete", .r, .call, .unlocked, 0⟩,
  ⟨"Pieces.AddData", "Pieces.PieceLength", .r, .call, .wlock, 1⟩,
  ⟨"Pieces.AddData", "bitmap", .r, .plain, .wlock, 1⟩,
  ⟨"Pieces.AddData", "bitmap", .w, .plain, .wlock, 1⟩,
  ⟨"Pieces.AddData", "count", .w, .plain, .wlock, 1⟩,
  ⟨"Pieces.AddData", "data", .r, .plain, .wlock, 1⟩,
  ⟨"Pieces.AddData", "data", .w, .plain, .wlock, 1⟩,
  ⟨"Pieces.AddData", "deleted", .r, .plain, .wlock, 1⟩,
  ⟨"Pieces.AddData", "peers", .r, .plain, .wlock, 1⟩,
  ⟨"Pieces.AddData", "peers", .w, .plain, .wlock, 1⟩,
  ⟨"Pieces.AddData", "pieces", .r, .plain, .unlocked, 0⟩,
  ⟨"Pieces.AddData", "pieces", .r, .plain, .wlock, 1⟩,
  ⟨"Pieces.AddData", "state", .r, .plain, .wlock, 1⟩,
  ⟨"Pieces.All", "pieces", .r, .plain, .rlock, 1⟩,
  ⟨"Pieces.All", "state", .r, .plain, .rlock, 1⟩,
  ⟨"Pieces.Bitmap", "pieces", .r, .plain, .rlock, 1⟩,
  ⟨"Pieces.Bitmap", "pieces", .r, .plain, .unlocked, 0⟩,
  ⟨"Pieces.Bitmap", "state", .r, .plain, .rlock, 1⟩,
  ⟨"Pieces.Bytes", "count", .r, .plain, .wlock, 1⟩,
  ⟨"Pieces.Bytes", "pieceSize", .r, .plain, .wlock, 1⟩,
  ⟨"Pieces.Complete", "Piece.Complete", .r, .call, .unlocked, 0⟩,
  ⟨"Pieces.Complete", "pieces", .r, .plain, .unlocked, 0⟩,
  ⟨"Pieces.Count", "count", .r, .plain, .rlock, 1⟩,
  ⟨"Pieces.Del", "Piece.Busy", .r, .call, .unlocked, 0⟩,
  ⟨"Pieces.Del", "bitmap", .w, .plain, .wlock, 2⟩,
  ⟨"Pieces.Del", "count", .r, .plain, .wlock, 2⟩,
  ⟨"Pieces.Del", "count", .w, .plain, .wlock, 2⟩,
  ⟨"Pieces.Del", "data", .r, .plain, .wlock, 1⟩,
  ⟨"Pieces.Del", "data", .r, .plain, .wlock, 2⟩,
  ⟨"Pieces.Del", "data", .w, .plain, .wlock, 2⟩,
  ⟨"Pieces.Del", "deleted", .w, .plain, .wlock, 1⟩,
  ⟨"Pieces.Del", "peers", .w, .plain, .wlock, 2⟩,
  ⟨"Pieces.Del", "pieces", .r, .plain, .unlocked, 0⟩,
  ⟨"Pieces.Del", "pieces", .r, .plain, .wlock, 1⟩,
  ⟨"Pieces.Del", "pieces", .r, .plain, .wlock, 2⟩,
  ⟨"Pieces.Del", "state", .r, .plain, .wlock, 1⟩,
  ⟨"Pieces.Del", "state", .r, .plain, .wlock, 2⟩,
  ⟨"Pieces.Del", "state", .w, .atomic, .wlock, 2⟩,
  ⟨"Pieces.Expire", "Piece.Busy", .r, .call, .unlocked, 0⟩,
  ⟨"Pieces.Expire", "Piece.Time", .r, .call, .unlocked, 0⟩,
  ⟨"Pieces.Expire", "Pieces.Bytes", .r, .call, .unlocked, 0⟩,
  ⟨"Pieces.Expire", "bitmap", .w, .plain, .wlock, 2⟩,
  ⟨"Pieces.Expire", "count", .r, .plain, .wlock, 2⟩,
  ⟨"Pieces.Expire", "count", .w, .plain, .wlock, 2⟩,
  ⟨"Pieces.Expire", "data", .r, .plain, .wlock, 1⟩,
  ⟨"Pieces.Expire", "data", .r, .plain, .wlock, 2⟩,
  ⟨"Pieces.Expire", "data", .w, .plain, .wlock, 2⟩,
  ⟨"Pieces.Expire", "peers", .w, .plain, .wlock, 2⟩,
  ⟨"Pieces.Expire", "pieceSize", .r, .plain, .unlocked, 0⟩,
  ⟨"Pieces.Expire", "pieces", .r, .plain, .unlocked, 0⟩,
  ⟨"Pieces.Expire", "pieces", .r, .plain, .wlock, 1⟩,
  ⟨"Pieces.Expire", "pieces", .r, .plain, .wlock, 2⟩,
  ⟨"Pieces.Expire", "state", .r, .plain, .wlock, 1⟩,
  ⟨"Pieces.Expire", "state", .r, .plain, .wlock, 2⟩,
  ⟨"Pieces.Expire", "state", .w, .atomic, .wlock, 2⟩,
  ⟨"Pieces.Finalise", "Piece.Busy", .r, .call, .unlocked, 0⟩,
  ⟨"Pieces.Finalise", "Piece.BusyOrComplete", .r, .call, .unlocked, 0⟩,
  ⟨"Pieces.Finalise", "Pieces.PieceLength", .r, .call, .wlock, 1⟩,
  ⟨"Pieces.Finalise", "bitmap", .r, .plain, .wlock, 1⟩,
  ⟨"Pieces.Finalise", "bitmap", .w, .plain, .wlock, 3⟩,
  ⟨"Pieces.Finalise", "count", .r, .plain, .wlock, 3⟩,
  ⟨"Pieces.Finalise", "count", .w, .plain, .wlock, 3⟩,
  ⟨"Pieces.Finalise", "data", .r, .plain, .wlock, 1⟩,
  ⟨"Pieces.Finalise", "data", .r, .plain, .wlock, 2⟩,
  ⟨"Pieces.Finalise", "data", .r, .plain, .wlock, 3⟩,
  ⟨"Pieces.Finalise", "data", .w, .plain, .wlock, 3⟩,
  ⟨"Pieces.Finalise", "deleted", .r, .plain, .wlock, 1⟩,
  ⟨"Pieces.Finalise", "peers", .r, .plain, .wlock, 2⟩,
  ⟨"Pieces.Finalise", "peers", .w, .plain, .wlock, 2⟩,
  ⟨"Pieces.Finalise", "peers", .w, .plain, .wlock, 3⟩,
  ⟨"Pieces.Finalise", "pieces", .r, .plain, .unlocked, 0⟩,
  ⟨"Pieces.Finalise", "pieces", .r, .plain, .wlock, 1⟩,
  ⟨"Pieces.Finalise", "pieces", .r, .plain, .wlock, 2⟩,
  ⟨"Pieces.Finalise", "pieces", .r, .plain, .wlock, 3⟩,
  ⟨"Pieces.Finalise", "state", .r, .plain, .wlock, 1⟩,
  ⟨"Pieces.Finalise", "state", .r, .plain, .wlock, 2⟩,
  ⟨"Pieces.Finalise", "state", .r, .plain, .wlock, 3⟩,
  ⟨"Pieces.Finalise", "state", .w, .atomic, .wlock, 1⟩,
  ⟨"Pieces.Finalise", "state", .w, .atomic, .wlock, 2⟩,
  ⟨"Pieces.Finalise", "state", .w, .atomic, .wlock, 3⟩,
  ⟨"Pieces.Hole", "*", .r, .plain, .rlock, 1⟩,
  ⟨"Pieces.Hole", "Pieces.PieceLength", .r, .call, .rlock, 1⟩,
  ⟨"Pieces.Hole", "bitmap", .r, .plain, .rlock, 1⟩,
  ⟨"Pieces.Hole", "pieces", .r, .plain, .rlock, 1⟩,
  ⟨"Pieces.Hole", "state", .r, .plain, .rlock, 1⟩,
  ⟨"Pieces.Length", "length", .r, .plain, .unlocked, 0⟩,
  ⟨"Pieces.MetadataComplete", "length", .r, .plain, .unlocked, 0⟩,
  ⟨"Pieces.MetadataComplete", "length", .w, .plain, .unlocked, 0⟩,
  ⟨"Pieces.MetadataComplete", "pieceSize", .w, .plain, .unlocked, 0⟩,
  ⟨"Pieces.MetadataComplete", "pieces", .w, .plain, .unlocked, 0⟩,
  ⟨"Pieces.Num", "pieces", .r, .plain, .unlocked, 0⟩,
  ⟨"Pieces.PieceBitmap", "Pieces.PieceLength", .r, .call, .unlocked, 0⟩,
  ⟨"Pieces.PieceBitmap", "bitmap", .r, .plain, .rlock, 1⟩,
  ⟨"Pieces.PieceBitmap", "pieces", .r, .plain, .rlock, 1⟩,
  ⟨"Pieces.PieceEmpty", "bitmap", .r, .plain, .rlock, 1⟩,
  ⟨"Pieces.PieceEmpty", "pieces", .r, .plain, .rlock, 1⟩,
  ⟨"Pieces.PieceLength", "length", .r, .plain, .unlocked, 0⟩,
  ⟨"Pieces.PieceLength", "pieceSize", .r, .plain, .unlocked, 0⟩,
  ⟨"Pieces.PieceSize", "pieceSize", .r, .plain, .unlocked, 0⟩,
  ⟨"Pieces.ReadAt", "data", .r, .plain, .rlock, 1⟩,
  ⟨"Pieces.ReadAt", "length", .r, .plain, .unlocked, 0⟩,
  ⟨"Pieces.ReadAt", "pieceSize", .r, .plain, .unlocked, 0⟩,
  ⟨"Pieces.ReadAt", "pieces", .r, .plain, .rlock, 1⟩,
  ⟨"Pieces.ReadAt", "state", .r, .plain, .rlock, 1⟩,
  ⟨"Pieces.UpdateTime", "Piece.Complete", .r, .call, .unlocked, 0⟩,
  ⟨"Pieces.UpdateTime", "Piece.SetTime", .r, .call, .unlocked, 0⟩,
  ⟨"Pieces.UpdateTime", "Piece.Time", .r, .call, .unlocked, 0⟩,
  ⟨"Pieces.UpdateTime", "pieces", .r, .plain, .unlocked, 0⟩
]

end Storrent.LockTable
