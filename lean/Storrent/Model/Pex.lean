import Storrent.Model.Wire
/-
Model of `pexState` of /repo/peer/peer.go (C11): `add`, `del`, `computePex` and the
write-failure rollback of `sendPex`, as repaired by fixes 02 (add re-appends to `sent`) and
03 (a failed write also takes the batch out of `sent` again).  `addOrig` / `rollbackOrig`
transcribe the unrepaired code (used by the refutation witnesses in Props/C11).

Ghost: `remoteKnows` — the addresses the remote has been told and not yet told to forget, by
the PEX messages that were actually queued.
-/
namespace Storrent.Pex
open Storrent Storrent.Wire

abbrev Addr := Bytes × Nat

def addrOf (p : PexPeer) : Addr := (p.ip, p.port)

/-- `pex.Find`: first entry with the same address -/
def find (p : PexPeer) (l : List PexPeer) : Option Nat :=
  l.findIdx? (fun q => addrOf q == addrOf p)

structure PexState where
  pending : List PexPeer := []
  pendingDel : List PexPeer := []
  sent : List PexPeer := []
  deriving Repr, DecidableEq

instance : Inhabited PexState := ⟨{}⟩

/-- `pexState.add` (repaired: an address whose departure was still pending goes back to `sent`) -/
def add (s : PexState) (p : PexPeer) : PexState :=
  match find p s.pendingDel with
  | some i => { s with pendingDel := s.pendingDel.eraseIdx i, sent := s.sent ++ [p] }
  | none =>
    match find p s.sent with
    | some _ => s
    | none =>
      match find p s.pending with
      | some _ => s
      | none => { s with pending := s.pending ++ [p] }

/-- the unrepaired `add`: forgets the address altogether -/
def addOrig (s : PexState) (p : PexPeer) : PexState :=
  match find p s.pendingDel with
  | some i => { s with pendingDel := s.pendingDel.eraseIdx i }
  | none =>
    match find p s.sent with
    | some _ => s
    | none =>
      match find p s.pending with
      | some _ => s
      | none => { s with pending := s.pending ++ [p] }

/-- `pexState.del` -/
def del (s : PexState) (p : PexPeer) : PexState :=
  match find p s.pending with
  | some i => { s with pending := s.pending.eraseIdx i }
  | none =>
    match find p s.sent with
    | none => s
    | some i =>
      let s1 := { s with sent := s.sent.eraseIdx i }
      match find p s1.pendingDel with
      | some _ => s1
      | none => { s1 with pendingDel := s1.pendingDel ++ [p] }

/-- `computePex`: (state, tosend, todel) -/
def compute (s : PexState) : PexState × List PexPeer × List PexPeer :=
  if s.pending.isEmpty && s.pendingDel.isEmpty then (s, [], [])
  else
    let tosend := s.pending.take 50
    let todel := s.pendingDel.take 50
    ({ pending := s.pending.drop 50, pendingDel := s.pendingDel.drop 50,
       sent := s.sent ++ tosend }, tosend, todel)

/-- the rollback of `sendPex` after a failed write (repaired: `sent` is cut back too) -/
def rollback (s : PexState) (tosend todel : List PexPeer) : PexState :=
  { pending := tosend ++ s.pending, pendingDel := todel ++ s.pendingDel,
    sent := s.sent.take (s.sent.length - tosend.length) }

def rollbackOrig (s : PexState) (tosend todel : List PexPeer) : PexState :=
  { s with pending := tosend ++ s.pending, pendingDel := todel ++ s.pendingDel }

/-- the body of `sendPex` after its guard: `ok` is the result of the write.  Returns the
    message payload when one was queued. -/
def send (s : PexState) (ok : Bool) : PexState × Option (List PexPeer × List PexPeer) :=
  let (s1, tosend, todel) := compute s
  if tosend.isEmpty && todel.isEmpty then (s1, none)
  else if ok then (s1, some (tosend, todel))
  else (rollback s1 tosend todel, none)

/-! ### the PEX machine with its ghost -/

inductive Op where
  | add (p : PexPeer)
  | del (p : PexPeer)
  | send (ok : Bool)
  deriving Repr, DecidableEq

structure G where
  st : PexState := {}
  /-- ghost: what the remote knows -/
  rk : List Addr := []

def rkUpdate (rk : List Addr) (added dropped : List PexPeer) : List Addr :=
  (rk.filter (fun a => !(dropped.map addrOf).contains a)) ++ added.map addrOf

def step (g : G) : Op → G × Option (List PexPeer × List PexPeer)
  | .add p => ({ g with st := add g.st p }, none)
  | .del p => ({ g with st := del g.st p }, none)
  | .send ok =>
    match send g.st ok with
    | (s', none) => ({ g with st := s' }, none)
    | (s', some (a, d)) => ({ st := s', rk := rkUpdate g.rk a d }, some (a, d))

/-- runs a history; returns the final state and, for every queued message, the ghost
    `remoteKnows` just before it together with the message -/
def run : G → List Op → G × List (List Addr × List PexPeer × List PexPeer)
  | g, [] => (g, [])
  | g, op :: ops =>
    let (g1, m) := step g op
    let (g2, tr) := run g1 ops
    match m with
    | none => (g2, tr)
    | some (a, d) => (g2, (g.rk, a, d) :: tr)

end Storrent.Pex
