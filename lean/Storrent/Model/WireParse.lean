import Storrent.Model.WireCanon
/- Parser of the canonical message syntax with full-hex payloads (op lines of the C06,
   C05, C11, C16 streams). Inverse of `canon` on unabbreviated payloads. -/
namespace Storrent.Wire
open Storrent

def kvVal (key : String) (w : String) : Option String :=
  if w.startsWith (key ++ "=") then some ((w.drop (key.length + 1)).toString) else none

def stripBrackets (s : String) : Option String :=
  if s.startsWith "[" && s.endsWith "]" then some (((s.drop 1).dropEnd 1).toString) else none

def parsePeer (s : String) : Option PexPeer :=
  match s.splitOn ":" with
  | [ip, port, flags] => do
    let ipb ← ofHex ip
    let p ← port.toNat?
    let f ← flags.toNat?
    pure ⟨ipb, p, f⟩
  | _ => none

def parsePeers (s : String) : Option (List PexPeer) := do
  let inner ← stripBrackets s
  if inner.isEmpty then pure [] else (inner.splitOn ",").mapM parsePeer

def parseMEntry (s : String) : Option (Bytes × Nat) :=
  match s.splitOn ":" with
  | [k, v] => do
    let kb ← ofHex k
    let n ← v.toNat?
    pure (kb, n)
  | _ => none

def parseM (s : String) : Option (List (Bytes × Nat)) := do
  let inner ← stripBrackets s
  if inner.isEmpty then pure [] else (inner.splitOn ";").mapM parseMEntry

def optHexParse (s : String) : Option (Option Bytes) :=
  if s == "-" then some none else (ofHex s).map some

def parseMsg (ws : List String) : Option Msg :=
  match ws with
  | ["KeepAlive"] => some .keepAlive
  | ["Choke"] => some .choke
  | ["Unchoke"] => some .unchoke
  | ["Interested"] => some .interested
  | ["NotInterested"] => some .notInterested
  | ["HaveAll"] => some .haveAll
  | ["HaveNone"] => some .haveNone
  | ["Have", i] => i.toNat?.map .have
  | ["Bitfield", h] => (ofHex h).map .bitfield
  | ["Request", i, b, l] => do pure (.request (← i.toNat?) (← b.toNat?) (← l.toNat?))
  | ["Cancel", i, b, l] => do pure (.cancel (← i.toNat?) (← b.toNat?) (← l.toNat?))
  | ["Reject", i, b, l] => do pure (.reject (← i.toNat?) (← b.toNat?) (← l.toNat?))
  | ["Piece", i, b, h] => do pure (.piece (← i.toNat?) (← b.toNat?) (← ofHex h))
  | ["Port", p] => p.toNat?.map .port
  | ["Suggest", i] => i.toNat?.map .suggest
  | ["AllowedFast", i] => i.toNat?.map .allowedFast
  | ["Ext0", v, p, reqq, ipv4, ipv6, ms, m, uo, e] => do
    let v ← (kvVal "v" v).bind ofHex
    let p ← (kvVal "p" p).bind String.toNat?
    let reqq ← (kvVal "reqq" reqq).bind String.toNat?
    let ipv4 ← (kvVal "ipv4" ipv4).bind optHexParse
    let ipv6 ← (kvVal "ipv6" ipv6).bind optHexParse
    let ms ← (kvVal "ms" ms).bind String.toNat?
    let m ← (kvVal "m" m).bind parseM
    let uo ← (kvVal "uo" uo).bind String.toNat?
    let e ← (kvVal "e" e).bind String.toNat?
    pure (.ext0 { version := v, port := p, reqq := reqq, ipv4 := ipv4, ipv6 := ipv6,
                  metadataSize := ms, messages := m, uploadOnly := uo != 0, encrypt := e != 0 })
  | ["Pex", sub, a, d] => do
    let a ← (kvVal "a" a).bind parsePeers
    let d ← (kvVal "d" d).bind parsePeers
    pure (.pex (← sub.toNat?) a d)
  | ["Meta", sub, t, p, tot, h] => do
    pure (.metadata (← sub.toNat?) (← t.toNat?) (← p.toNat?) (← tot.toNat?) (← ofHex h))
  | ["DontHave", sub, i] => do pure (.dontHave (← sub.toNat?) (← i.toNat?))
  | ["UploadOnly", sub, v] => do pure (.uploadOnly (← sub.toNat?) ((← v.toNat?) != 0))
  | ["ExtUnknown", sub] => sub.toNat?.map .extUnknown
  | ["Unknown", t] => t.toNat?.map .unknown
  | _ => none

/-- decode a whole stream: messages until the bytes run out or an error occurs -/
def decodeAll (tbl : List GuardRow) (cap : Nat) (bd : BDec) : Nat → Bytes → List Res
  | 0, _ => []
  | fuel+1, bs =>
    if bs.isEmpty then []
    else
      let o := decodeWith tbl cap bd bs
      match o.res with
      | .msg m => .msg m :: decodeAll tbl cap bd fuel (bs.drop o.consumed)
      | r => [r]

end Storrent.Wire
