import Storrent.Model.Handshake
/-
Executable SHA-1, RC4 and 768-bit modular exponentiation, written from FIPS 180-4, the
RC4 description and the MSE specification — NOT from the Go code.  They instantiate the
`MseCrypto` parameter in the drivers, which makes the Lean model an independent MSE
implementation: every byte the real client/server writes is compared with what this
model computes from the secrets (C07 correspondence, C08 keys).
Core-only (links into the drivers).
-/
namespace Storrent.MseCrypto
open Storrent

/-! ### SHA-1 (FIPS 180-4) -/

def rotl (x : UInt32) (n : UInt32) : UInt32 := (x <<< n) ||| (x >>> (32 - n))

def be64 (n : Nat) : Bytes := be32 (n / 4294967296) ++ be32 (n % 4294967296)

def sha1Pad (msg : Bytes) : Bytes :=
  msg ++ [0x80] ++ List.replicate ((119 - msg.length % 64) % 64) 0 ++ be64 (msg.length * 8)

def word (a b c d : UInt8) : UInt32 :=
  (a.toUInt32 <<< 24) ||| (b.toUInt32 <<< 16) ||| (c.toUInt32 <<< 8) ||| d.toUInt32

def blockWords : Bytes → Array UInt32 → Array UInt32
  | a :: b :: c :: d :: rest, acc => blockWords rest (acc.push (word a b c d))
  | _, acc => acc

def extend (w : Array UInt32) : Nat → Array UInt32
  | 0 => w
  | fuel + 1 =>
    let t := w.size
    let x := w.getD (t - 3) 0 ^^^ w.getD (t - 8) 0 ^^^ w.getD (t - 14) 0 ^^^ w.getD (t - 16) 0
    extend (w.push (rotl x 1)) fuel

structure H5 where
  a : UInt32
  b : UInt32
  c : UInt32
  d : UInt32
  e : UInt32

def round (w : Array UInt32) (t : Nat) (s : H5) : H5 :=
  let (f, k) :=
    if t < 20 then ((s.b &&& s.c) ||| ((~~~ s.b) &&& s.d), (0x5A827999 : UInt32))
    else if t < 40 then (s.b ^^^ s.c ^^^ s.d, (0x6ED9EBA1 : UInt32))
    else if t < 60 then ((s.b &&& s.c) ||| (s.b &&& s.d) ||| (s.c &&& s.d), (0x8F1BBCDC : UInt32))
    else (s.b ^^^ s.c ^^^ s.d, (0xCA62C1D6 : UInt32))
  let tmp := rotl s.a 5 + f + s.e + k + w.getD t 0
  ⟨tmp, s.a, rotl s.b 30, s.c, s.d⟩

def rounds (w : Array UInt32) : Nat → Nat → H5 → H5
  | 0, _, s => s
  | fuel + 1, t, s => rounds w fuel (t + 1) (round w t s)

def compress (h : H5) (block : Bytes) : H5 :=
  let w := extend (blockWords block #[]) 64
  let s := rounds w 80 0 h
  ⟨h.a + s.a, h.b + s.b, h.c + s.c, h.d + s.d, h.e + s.e⟩

def blocks : Nat → Bytes → H5 → H5
  | 0, _, h => h
  | fuel + 1, bs, h => if bs.isEmpty then h else blocks fuel (bs.drop 64) (compress h (bs.take 64))

def w32 (x : UInt32) : Bytes := be32 x.toNat

def sha1 (msg : Bytes) : Bytes :=
  let p := sha1Pad msg
  let h := blocks (p.length / 64 + 1) p ⟨0x67452301, 0xEFCDAB89, 0x98BADCFE, 0x10325476, 0xC3D2E1F0⟩
  w32 h.a ++ w32 h.b ++ w32 h.c ++ w32 h.d ++ w32 h.e

/-! ### RC4 -/

structure Rc4 where
  s : Array UInt8
  i : Nat
  j : Nat

def swap (s : Array UInt8) (i j : Nat) : Array UInt8 :=
  let a := s.getD i 0
  let b := s.getD j 0
  (s.setIfInBounds i b).setIfInBounds j a

def ksa (key : Array UInt8) : Nat → Nat → Nat → Array UInt8 → Array UInt8
  | 0, _, _, s => s
  | fuel + 1, i, j, s =>
    let j' := (j + (s.getD i 0).toNat + (key.getD (i % key.size) 0).toNat) % 256
    ksa key fuel (i + 1) j' (swap s i j')

def rc4Init (key : Bytes) : Rc4 :=
  let s0 : Array UInt8 := Array.ofFn (n := 256) (fun i => UInt8.ofNat i.val)
  ⟨ksa key.toArray 256 0 0 s0, 0, 0⟩

def prga : Nat → Rc4 → Array UInt8 → Array UInt8
  | 0, _, out => out
  | fuel + 1, r, out =>
    let i := (r.i + 1) % 256
    let j := (r.j + (r.s.getD i 0).toNat) % 256
    let s := swap r.s i j
    let k := s.getD (((s.getD i 0).toNat + (s.getD j 0).toNat) % 256) 0
    prga fuel ⟨s, i, j⟩ (out.push k)

/-- the first `n` keystream bytes of RC4 under `key` -/
def rc4Stream (key : Bytes) (n : Nat) : Array UInt8 :=
  if key.isEmpty then Array.replicate n 0 else prga n (rc4Init key) (Array.mkEmpty n)

/-! ### Diffie-Hellman in the MSE group -/

def P : Nat := 0xFFFFFFFFFFFFFFFFC90FDAA22168C234C4C6628B80DC1CD129024E088A67CC74020BBEA63B139B22514A08798E3404DDEF9519B3CD3A431B302B0A6DF25F14374FE1356D6D51C245E485B576625E7EC6F44C42E9A63A36210000000000090563

def powModAux : Nat → Nat → Nat → Nat → Nat → Nat
  | 0, _, _, _, acc => acc
  | fuel + 1, b, e, m, acc =>
    if e = 0 then acc
    else powModAux fuel (b * b % m) (e / 2) m (if e % 2 = 1 then acc * b % m else acc)

def powMod (b e m : Nat) : Nat := powModAux (e.log2 + 1) (b % m) e m (1 % m)

/-- big.Int.FillBytes into `n` bytes (big-endian) -/
def fillBytes : Nat → Nat → Bytes
  | 0, _ => []
  | n + 1, v => fillBytes n (v / 256) ++ [UInt8.ofNat (v % 256)]

/-- the real algorithms; `n` = keystream bytes to precompute per key -/
def real (n : Nat) : Handshake.MseCrypto where
  pub := fun x => fillBytes 96 (powMod 2 (rdBE x) P)
  dh := fun x y => fillBytes 96 (powMod (rdBE y) (rdBE x) P)
  trivial := fun y => let v := rdBE y; v == 0 || v == 1 || v == P - 1
  hash := sha1
  ks := fun key => rc4Stream key n

end Storrent.MseCrypto
