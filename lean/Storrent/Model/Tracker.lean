import Storrent.Util
/-
Model of /repo/tracker (tracker.go, udp.go, http.go) for property C15.  Core-only.

* `Base` = `tracker.base` (time, interval, err, locked) + the static fact "nurl.Parse of the
  tracker URL fails" (`urlBad`, never changed by any step).
* Times and durations are `Int` nanoseconds.  `time.Duration` is an int64: every place where
  the Go code *multiplies* is wrapped explicitly with `wrap64`
  (`time.Duration(interval) * time.Second`, `time.Duration(min) * time.Minute`); the UDP
  product `time.Duration(uint32) * time.Second` is < 2^32·10^9 < 2^63 and needs no wrap
  (`C15_udp_interval_no_wrap`).  `tracker.time.Add(interval).Before(now)` is modelled as
  `time + interval < now` over unbounded `Int`: Go's `Time.Add` keeps seconds since year 1 in
  an int64 and nanoseconds separately, saturating only if `sec + d/1e9` leaves int64 — with
  `|d| < 2^63 ns` (292 years) and any real clock reading (|sec| < 2^62) that cannot happen,
  so `Add` is exact; a lost monotonic reading only makes `Before` compare wall clocks.
  The zero `time.Time{}` (year 1) is the constant `zeroTime`, far below every clock reading.
* Every Go panic is an explicit outcome: `unlock` of an unlocked tracker (`none`),
  `panic("eek")` in udpRequestReply (`RR.panic`), index faults of the compact-peer loops
  (`none` of `compactLoop`).
* The parameter `fixed : Bool` of `rrLoop` selects the repaired code (`true`: the foreign
  transaction id branch sets `err` before `continue`) or the code as found (`false`).
* External things are inputs: the clock (`now`, plus `lag` = how much later the second
  `time.Now()` of Announce reads), the per-attempt behaviour of the socket (`Attempt`), the
  dial result, the zeebo/bencode decoding results of an HTTP reply (`HttpReply`: decoded
  fields and the results of the two `DecodeBytes` attempts on `peers`), `strconv.Atoi` and
  `netip.ParseAddr` results, and the order in which the two HTTP family goroutines write
  `tracker.interval` (`sixLast`).
-/
namespace Storrent.Tracker
open Storrent

/-! ### durations -/
def second : Int := 1000000000
def minute : Int := 60000000000
def hour : Int := 3600000000000
def two63 : Int := 9223372036854775808
def two64 : Int := 18446744073709551616

/-- Go int64 wrap-around of a mathematical integer -/
def wrap64 (x : Int) : Int := (x + two63) % two64 - two63

/-- `time.Time{}`: 1 January year 1, as nanoseconds relative to any clock origin in use -/
def zeroTime : Int := -1180591620717411303424   -- -(2^70)

/-! ### errors (classes; the two message-carrying errors keep their text) -/
inductive Err
  | nil | notReady | parse | wr | rd | ctx | deadline | eof | ueof
  | actionMismatch | tidMismatch
  | trackerMsg (m : Bytes)   -- UDP action 3: errors.New(string(message))
  | failure (m : Bytes)      -- HTTP failure reason
  | dial | status | bdec | url
  deriving DecidableEq, Repr

/-! ### base -/
structure Base where
  time : Int
  interval : Int
  err : Err
  locked : Bool
  urlBad : Bool
  deriving Repr

def Base.fresh (urlBad : Bool) : Base :=
  { time := zeroTime, interval := 0, err := .nil, locked := false, urlBad := urlBad }

/-- `tryLock`: CAS 0→1 -/
def tryLock (b : Base) : Base × Bool :=
  if b.locked then (b, false) else ({ b with locked := true }, true)

/-- `unlock`: CAS 1→0, `none` = panic("unlocking unlocked torrent") -/
def unlock (b : Base) : Option Base :=
  if b.locked then some { b with locked := false } else none

/-- the interval `ready()` really waits for -/
def effInterval (i : Int) : Int :=
  let i := if i ≤ 0 then 30 * minute else i
  if i < 5 * minute then 5 * minute else i

def ready (b : Base) (now : Int) : Bool := b.time + effInterval b.interval < now

inductive State | busy | idle | ready | error
  deriving DecidableEq, Repr

/-- `GetState`; `none` = the unlock panic -/
def getState (b : Base) (now : Int) : Option (Base × State × Err) :=
  match tryLock b with
  | (_, false) => some (b, .busy, .nil)
  | (b1, true) =>
    let r := ready b1 now
    match unlock b1 with
    | none => none
    | some b2 =>
      if r then some (b2, .ready, .nil)
      else if b2.err ≠ .nil then some (b2, .error, b2.err)
      else some (b2, .idle, .nil)

def updateInterval (b : Base) (interval : Int) (err : Err) : Base :=
  let b := { b with err := err }
  if interval > minute then { b with interval := interval }
  else if b.interval < 15 * minute then { b with interval := 15 * minute }
  else b

/-! ### peers -/
structure Peer where
  addr : Bytes
  port : Nat
  deriving DecidableEq, Repr

/-- `netip.AddrFromSlice(rec[:alen])`, `256*uint16(rec[alen]) + uint16(rec[alen+1])` -/
def mkPeer (alen : Nat) (rec : Bytes) : Peer :=
  { addr := rec.take alen,
    port := ((rec.drop alen).headD 0).toNat * 256 + ((rec.drop (alen + 1)).headD 0).toNat }

/-- the `for i := 0; i < len(p); i += alen+2 { p[i:i+alen]; p[i+alen]; p[i+alen+1] }` loops of
    announceHTTP.  `none` = Go slice/index fault (a trailing partial record). -/
def compactLoop (alen : Nat) : Nat → Bytes → Option (List Peer)
  | 0, _ => some []
  | fuel + 1, bs =>
    if bs.length = 0 then some []
    else if bs.length < alen + 2 then none
    else match compactLoop alen fuel (bs.drop (alen + 2)) with
      | none => none
      | some ps => some (mkPeer alen (bs.take (alen + 2)) :: ps)

/-- the `io.ReadFull(r, buf)` loop of announceUDP: EOF at a record boundary → nil,
    a partial record → io.ErrUnexpectedEOF; complete records are delivered on the way. -/
def readFullLoop (alen : Nat) : Nat → Bytes → List Peer × Err
  | 0, _ => ([], .nil)
  | fuel + 1, bs =>
    if bs.length = 0 then ([], .nil)
    else if bs.length < alen + 2 then ([], .ueof)
    else
      let r := readFullLoop alen fuel (bs.drop (alen + 2))
      (mkPeer alen (bs.take (alen + 2)) :: r.1, r.2)

/-! ### udpRequestReply -/
inductive Attempt
  | ctxTop      -- ctx.Err() != nil at the top of the iteration
  | deadline    -- conn.SetDeadline fails
  | writeFail   -- conn.Write fails
  | ctxMid      -- ctx.Err() != nil after the write
  | readFail    -- conn.Read fails (timeout, ICMP error, …)
  | bytes (bs : Bytes)   -- a datagram arrives
  deriving Repr

inductive RR
  | reader (rest : Bytes)   -- bytes.Reader positioned after action and transaction id
  | err (e : Err)
  | panic                   -- panic("eek")
  deriving DecidableEq, Repr

/-- `binary.Read(r, BigEndian, &uint32)` on a bytes.Reader -/
def rd32 (bs : Bytes) : Except Err (Nat × Bytes) :=
  if bs.length = 0 then .error .eof
  else if bs.length < 4 then .error .ueof
  else .ok (rdBE (bs.take 4), bs.drop 4)

/-- the loop of udpRequestReply: `i` iterations left, `err` = the Go variable `err`.
    A script shorter than the number of iterations continues with read failures. -/
def rrLoop (fixed : Bool) (min action tid : Nat) : Nat → Err → List Attempt → RR
  | 0, err, _ => if err = .nil then .panic else .err err
  | i + 1, _, atts =>
    let a := atts.headD .readFail
    let rest := atts.tail
    match a with
    | .ctxTop => .err .ctx
    | .deadline => .err .deadline
    | .writeFail => rrLoop fixed min action tid i .wr rest
    | .ctxMid => .err .ctx
    | .readFail => rrLoop fixed min action tid i .rd rest
    | .bytes bs =>
      let d := bs.take 4096            -- buf := make([]byte, 4096)
      if d.length < min then rrLoop fixed min action tid i .parse rest
      else match rd32 d with
        | .error e => rrLoop fixed min action tid i e rest
        | .ok (a, r1) =>
          match rd32 r1 with
          | .error e => rrLoop fixed min action tid i e rest
          | .ok (t, r2) =>
            if t ≠ tid then
              rrLoop fixed min action tid i (if fixed then .tidMismatch else .nil) rest
            else if a = 3 then .err (.trackerMsg r2)
            else if a ≠ action then .err .actionMismatch
            else .reader r2

def udpRequestReply (fixed : Bool) (min action tid : Nat) (atts : List Attempt) : RR :=
  rrLoop fixed min action tid 4 .nil atts

/-! ### announceUDP (one family) -/
inductive Fam | v4 | v6
  deriving DecidableEq, Repr

def Fam.alen : Fam → Nat
  | .v4 => 4
  | .v6 => 16

structure UdpFam where
  dialOk : Bool
  tidC : Nat                 -- rand.Uint32() of the connect request
  connect : List Attempt
  tidA : Nat                 -- rand.Uint32() of the announce request
  announce : List Attempt
  deriving Repr

inductive FamOut
  | done (interval : Int) (err : Err) (peers : List Peer)
  | panic
  deriving DecidableEq, Repr

/-- the part of announceUDP after the announce reply was accepted -/
def parseAnnounce (fam : Fam) (r : Bytes) : Int × Err × List Peer :=
  match rd32 r with
  | .error e => (0, e, [])
  | .ok (intvl, r1) =>
    let interval : Int := (intvl : Int) * second
    match rd32 r1 with
    | .error e => (0, e, [])
    | .ok (_, r2) =>
      match rd32 r2 with
      | .error e => (0, e, [])
      | .ok (_, r3) =>
        let (ps, e) := readFullLoop fam.alen (r3.length + 1) r3
        (interval, e, ps)

def announceUDP (fixed : Bool) (fam : Fam) (f : UdpFam) : FamOut :=
  if !f.dialOk then .done 0 .dial []
  else match udpRequestReply fixed 16 0 f.tidC f.connect with
    | .panic => .panic
    | .err e => .done 0 e []
    | .reader r =>
      -- binary.Read(r, BigEndian, &cid)
      if r.length = 0 then .done 0 .eof []
      else if r.length < 8 then .done 0 .ueof []
      else match udpRequestReply fixed 20 1 f.tidA f.announce with
        | .panic => .panic
        | .err e => .done 0 e []
        | .reader r =>
          let (i, e, ps) := parseAnnounce fam r
          .done i e ps

/-! ### announceHTTP (one family), after the bencode decoding -/
inductive Retry
  | empty              -- RetryIn == ""
  | never
  | num (n : Int)      -- strconv.Atoi succeeded
  | bad                -- strconv.Atoi failed
  deriving Repr

structure DictPeer where
  ip : Option Bytes    -- netip.ParseAddr(p.IP): address bytes, or none
  port : Nat
  deriving Repr

structure HttpReply where
  failure : Bytes
  retry : Retry
  interval : Int                     -- reply.Interval (Go int)
  dec1 : Option Bytes                -- DecodeBytes(reply.Peers, &[]byte)
  dec2 : Option (List DictPeer)      -- DecodeBytes(reply.Peers, &[]peer)
  peers6 : Bytes
  deriving Repr

inductive HttpFam
  | transport (e : Err)   -- url parse, client, Do, status != 200, Decode: (0, err), no effect
  | reply (r : HttpReply)
  deriving Repr

structure HttpOut where
  interval : Int
  err : Err
  peers : List Peer
  setInterval : Option Int    -- `tracker.interval = retry`
  deriving Repr

def retryOf : Retry → Int
  | .never => 2400 * hour
  | .num n => if n > 0 then wrap64 (n * minute) else 0
  | _ => 0

def dictPeers : List DictPeer → List Peer
  | [] => []
  | p :: ps => match p.ip with
    | some a => { addr := a, port := p.port } :: dictPeers ps
    | none => dictPeers ps

/-- `none` = index fault in one of the compact loops -/
def httpPost (r : HttpReply) : Option HttpOut :=
  if r.failure.length ≠ 0 then
    some { interval := 0, err := .failure r.failure, peers := [], setInterval := some (retryOf r.retry) }
  else
    let p1 : Option (List Peer) :=
      match r.dec1 with
      | some p =>
        if p.length % 6 = 0 then compactLoop 4 p.length p
        else (match r.dec2 with | some l => some (dictPeers l) | none => some [])
      | none => (match r.dec2 with | some l => some (dictPeers l) | none => some [])
    match p1 with
    | none => none
    | some ps =>
      let p6 : Option (List Peer) :=
        if r.peers6.length % 18 = 0 then compactLoop 16 r.peers6.length r.peers6 else some []
      match p6 with
      | none => none
      | some ps6 => some { interval := r.interval, err := .nil, peers := ps ++ ps6, setInterval := none }

def announceHTTP (f : HttpFam) : Option HttpOut :=
  match f with
  | .transport e => some { interval := 0, err := e, peers := [], setInterval := none }
  | .reply r => httpPost r

/-! ### Announce -/
inductive AnnRes
  | done (b : Base) (ret : Err) (contacted : Bool) (p4 p6 : List Peer)
  | panic
  deriving Repr

/-- the deferred `tracker.unlock()` -/
def finish (b : Base) (ret : Err) (contacted : Bool) (p4 p6 : List Peer) : AnnRes :=
  match unlock b with
  | none => .panic
  | some b' => .done b' ret contacted p4 p6

def merge (e4 e6 : Err) : Err := if e4 ≠ .nil ∧ e6 ≠ .nil then e4 else .nil

def applySet (b : Base) : Option Int → Base
  | none => b
  | some i => { b with interval := i }

/-- `(*UDP).Announce` -/
def announceUDPAll (fixed : Bool) (b : Base) (now : Int) (lag : Nat) (f4 f6 : UdpFam) : AnnRes :=
  match tryLock b with
  | (_, false) => .done b .notReady false [] []
  | (b1, true) =>
    if !ready b1 now then finish b1 .notReady false [] []
    else if b1.urlBad then finish (updateInterval b1 0 .url) .url false [] []
    else
      let b2 := { b1 with time := now + lag }
      match announceUDP fixed .v4 f4, announceUDP fixed .v6 f6 with
      | .done i4 e4 p4, .done i6 e6 p6 =>
        let err := merge e4 e6
        let interval := if i4 < i6 then i6 else i4
        finish (updateInterval b2 interval err) err true p4 p6
      | _, _ => .panic

/-- `(*HTTP).Announce`; with `proxy` only `f4` is used (the single `announceHTTP(ctx, "", …)`) -/
def announceHTTPAll (b : Base) (now : Int) (lag : Nat) (proxy : Bool) (f4 f6 : HttpFam)
    (sixLast : Bool) : AnnRes :=
  match tryLock b with
  | (_, false) => .done b .notReady false [] []
  | (b1, true) =>
    if !ready b1 now then finish b1 .notReady false [] []
    else
      let b2 := { b1 with time := now + lag }
      if proxy then
        match announceHTTP f4 with
        | none => .panic
        | some o =>
          let b3 := applySet b2 o.setInterval
          finish (updateInterval b3 (wrap64 (o.interval * second)) o.err) o.err true o.peers []
      else
        match announceHTTP f4, announceHTTP f6 with
        | some o4, some o6 =>
          let b3 := if sixLast then applySet (applySet b2 o4.setInterval) o6.setInterval
                    else applySet (applySet b2 o6.setInterval) o4.setInterval
          let err := merge o4.err o6.err
          let interval := if o4.interval < o6.interval then o6.interval else o4.interval
          finish (updateInterval b3 (wrap64 (interval * second)) err) err true o4.peers o6.peers
        | _, _ => .panic

/-! ### histories -/
inductive Op
  | getState (now : Int)
  | annHTTP (now : Int) (lag : Nat) (proxy : Bool) (f4 f6 : HttpFam) (sixLast : Bool)
  | annUDP (now : Int) (lag : Nat) (f4 f6 : UdpFam)
  deriving Repr

/-- what a history step shows: did it touch the network, and at what (stamped) time -/
structure StepObs where
  contacted : Bool
  stamp : Int
  deriving Repr

/-- one public call on the repaired code; `none` = some panic -/
def step (b : Base) : Op → Option (Base × StepObs)
  | .getState now => match getState b now with
    | none => none
    | some (b', _, _) => some (b', { contacted := false, stamp := now })
  | .annHTTP now lag proxy f4 f6 sl => match announceHTTPAll b now lag proxy f4 f6 sl with
    | .panic => none
    | .done b' _ c _ _ => some (b', { contacted := c, stamp := now + lag })
  | .annUDP now lag f4 f6 => match announceUDPAll true b now lag f4 f6 with
    | .panic => none
    | .done b' _ c _ _ => some (b', { contacted := c, stamp := now + lag })

/-- the network contacts of a history: (time of the contact, the interval stored by it) -/
def contacts (b : Base) : List Op → Option (List (Int × Int))
  | [] => some []
  | op :: ops => match step b op with
    | none => none
    | some (b', o) => match contacts b' ops with
      | none => none
      | some cs => some (if o.contacted then (o.stamp, b'.interval) :: cs else cs)

/-! ### trackerAnnounce (tor/tor.go): the tier walk of one slow tick

`tn := t.rand.Perm(len(t.trackers))` is an input (`perm`); what `GetState` answers for each
tracker is an input too (`TState`; for real trackers it is `getState` above, see `tierStates`).
The walk is transcribed with its control flow: `return` after the `go trackerAnnounceSingle`,
`break` to the next tier on any state other than Error.  It yields the trackers whose
`GetState` was called, in order, and the announces started. -/

inductive TState | disabled | error | busy | idle | ready
  deriving DecidableEq, Repr

structure Walk where
  visited : List (Nat × Nat) := []     -- (tier, position) of every GetState call, in order
  started : List (Nat × Nat) := []     -- announces started (`go trackerAnnounceSingle`)
  returned : Bool := false             -- the function returned
  deriving Repr

/-- `for _, tr := range tl { … }` from position `j` of tier `ti` -/
def walkTier (ti : Nat) : Nat → List TState → Walk
  | _, [] => {}
  | j, s :: rest =>
    if s = .ready then { visited := [(ti, j)], started := [(ti, j)], returned := true }
    else if s ≠ .error then { visited := [(ti, j)] }                         -- skip to next tier
    else
      let w := walkTier ti (j + 1) rest
      { w with visited := (ti, j) :: w.visited }

/-- `for _, i := range tn { tl := t.trackers[i]; … }`; `none` = index out of range -/
def walkTiers (tiers : List (List TState)) : List Nat → Option Walk
  | [] => some {}
  | i :: perm =>
    match tiers[i]? with
    | none => none
    | some tl =>
      let w := walkTier i 0 tl
      if w.returned then some w
      else match walkTiers tiers perm with
        | none => none
        | some w' => some { visited := w.visited ++ w'.visited, started := w.started ++ w'.started,
                            returned := w'.returned }

/-- what `GetState` of a modelled tracker answers at time `now` -/
def stateOf (b : Base) (now : Int) : TState :=
  match getState b now with
  | some (_, .ready, _) => .ready
  | some (_, .busy, _) => .busy
  | some (_, .error, _) => .error
  | some (_, .idle, _) => .idle
  | none => .busy

def tierStates (tiers : List (List Base)) (now : Int) : List (List TState) :=
  tiers.map fun tl => tl.map fun b => stateOf b now

end Storrent.Tracker
