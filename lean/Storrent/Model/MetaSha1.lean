import Storrent.Util
/-
Executable SHA-1 (FIPS 180-4), core-only, used by the C12/C13 drivers so that the Lean
side decides "sha1 Info = Hash" and computes info-hashes by itself.  The theorems of
C12/C13 quantify over the hash function (a parameter); this file is only executed.
Checked against Go's crypto/sha1 on every run by the correspondence streams.
-/
namespace Storrent.Sha1
open Storrent

@[inline] def rotl (x : UInt32) (n : UInt32) : UInt32 := (x <<< n) ||| (x >>> (32 - n))

def be64 (n : Nat) : Bytes := be32 (n / 4294967296) ++ be32 (n % 4294967296)

/-- message ++ 0x80 ++ zeros ++ 64-bit big-endian bit length; length ≡ 0 (mod 64) -/
def pad (msg : Bytes) : Bytes :=
  let l := msg.length
  let k := (119 - l % 64) % 64
  msg ++ [0x80] ++ List.replicate k 0 ++ be64 (l * 8)

@[inline] def word (p : ByteArray) (i : Nat) : UInt32 :=
  ((p.get! i).toUInt32 <<< 24) ||| ((p.get! (i+1)).toUInt32 <<< 16) |||
  ((p.get! (i+2)).toUInt32 <<< 8) ||| (p.get! (i+3)).toUInt32

structure St where
  a : UInt32
  b : UInt32
  c : UInt32
  d : UInt32
  e : UInt32

def schedule (p : ByteArray) (off : Nat) : Array UInt32 := Id.run do
  let mut w : Array UInt32 := Array.mkEmpty 80
  for t in [0:16] do
    w := w.push (word p (off + 4 * t))
  for t in [16:80] do
    w := w.push (rotl (w[t-3]! ^^^ w[t-8]! ^^^ w[t-14]! ^^^ w[t-16]!) 1)
  return w

def block (p : ByteArray) (off : Nat) (h : St) : St := Id.run do
  let w := schedule p off
  let mut a := h.a
  let mut b := h.b
  let mut c := h.c
  let mut d := h.d
  let mut e := h.e
  for t in [0:80] do
    let (f, k) : UInt32 × UInt32 :=
      if t < 20 then ((b &&& c) ||| ((~~~ b) &&& d), 0x5A827999)
      else if t < 40 then (b ^^^ c ^^^ d, 0x6ED9EBA1)
      else if t < 60 then ((b &&& c) ||| (b &&& d) ||| (c &&& d), 0x8F1BBCDC)
      else (b ^^^ c ^^^ d, 0xCA62C1D6)
    let tmp := rotl a 5 + f + e + k + w[t]!
    e := d
    d := c
    c := rotl b 30
    b := a
    a := tmp
  return ⟨h.a + a, h.b + b, h.c + c, h.d + d, h.e + e⟩

def sha1 (msg : Bytes) : Bytes :=
  let p := ByteArray.mk (pad msg).toArray
  let n := p.size / 64
  let h := (List.range n).foldl (fun st i => block p (i * 64) st)
    ⟨0x67452301, 0xEFCDAB89, 0x98BADCFE, 0x10325476, 0xC3D2E1F0⟩
  be32 h.a.toNat ++ be32 h.b.toNat ++ be32 h.c.toNat ++ be32 h.d.toNat ++ be32 h.e.toNat

end Storrent.Sha1
