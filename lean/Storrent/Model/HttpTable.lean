import Storrent.Util
/-
Shape of the facts the Go-AST/type extractor (harness/cmd/extract/httpsites.go) regenerates
from http/*.go on every run (Gen/HttpSites.lean): the route table of `Serve` and every
output site of the package with the class of each formatted argument.  `Props/C19` decides
its theorems over the *regenerated* tables, so a source edit that drops a `checkLocal`
guard, registers another handler, removes an `html.EscapeString`, or adds an output site
printing an unescaped string changes the table and the theorem no longer checks.
-/
namespace Storrent.Http

/-- syntactic/type class of one formatted argument -/
inductive ArgClass where
  | escaped                 -- html.EscapeString(…), or a variable only assigned from it / constants
  | pathescaped             -- pathUrl(…) (url.PathEscape per component)
  | hex                     -- hash.Hash (String() = hex.EncodeToString, or the literal "<nil>")
  | number                  -- integers, floats, len, approxBytes/approxRate, time.Duration
  | addr                    -- netip.AddrPort / netip.Addr / net.IP rendering
  | const                   -- string literals, fixed strings chosen from literals, const stringers
  | request (e : String)    -- a string field of the *http.Request itself (r.Host): not torrent/peer controlled
  | raw (e : String)        -- anything else (fail-closed)
  deriving Repr, DecidableEq, BEq

inductive SiteKind where
  | fprintf     -- written to the response (http.ResponseWriter / io.Writer)
  | bufprintf   -- written to a local bytes.Buffer that is later printed
  | sprintf     -- fmt.Sprintf: the result is classified where it is used
  | httpError   -- http.Error: text/plain; charset=utf-8 + X-Content-Type-Options: nosniff
  deriving Repr, DecidableEq, BEq

/-- quoting context of a formatting verb, from a small HTML tokenizer run by the extractor
    over the constant format strings of a function's output sites in source order -/
inductive Ctx where
  | text        -- element text (including <title>)
  | attrDq      -- inside a double-quoted attribute value
  | attrSq      -- inside a single-quoted attribute value
  | attrUnq     -- unquoted attribute value
  | tag         -- inside a tag, outside any attribute value
  | script      -- inside <script>…</script>
  | style       -- inside <style>…</style>
  | comment     -- inside <!-- … -->
  | unknown     -- after an output whose text the extractor cannot see (fail-closed)
  deriving Repr, DecidableEq, BEq

structure Site where
  loc  : String          -- file:line
  fn   : String          -- enclosing function
  kind : SiteKind
  fmt  : String          -- format string ("" for http.Error)
  args : List ArgClass
  ctxs : List Ctx        -- one per argument for fprintf/bufprintf sites, [] otherwise
  deriving Repr, DecidableEq, BEq

structure Route where
  pattern : String
  handler : String       -- prefixed with "?" when not a plain function registered by Serve on the default mux
  guarded : Bool         -- first statement of the handler is `if !checkLocal(w, r) { return }`
  deriving Repr, DecidableEq, BEq

/-- an import spec of package http: `name` is "" (plain), "_" (blank: imported for its side
    effects only), "." or an alias -/
structure Import where
  path : String
  name : String
  deriving Repr, DecidableEq, BEq

/-- packages whose init registers handlers on http.DefaultServeMux -/
def sideEffectPkgs : List String := ["net/http/pprof", "expvar", "golang.org/x/net/trace"]

/-- the three routes of `Serve` (and of `VerifMux`, which the harness drives) -/
def expectedRoutes : List Route := [
  ⟨"/{$}", "rootHandler", true⟩,
  ⟨"/{file}", "torRootHandler", true⟩,
  ⟨"/{hash}/{path...}", "torHandler", true⟩ ]

/-- functions that write a playlist (application/vnd.apple.mpegurl), not HTML: their
    arguments are governed by the `m3uentry` model and `C19_m3u_lines`. -/
def playlistFns : List String := ["m3uentry", "playlist"]

/-- functions that write HTML pages; the table must contain sites in each of them
    (guards against an extractor that silently finds nothing). -/
def htmlFns : List String :=
  ["header", "footer", "torrentFile", "torrentDir", "torrentEntry", "torrents", "peers", "hpeer", "hknown"]

def ArgClass.htmlSafe : ArgClass → Bool
  | .escaped | .pathescaped | .hex | .number | .addr | .const => true
  | .request _ => true      -- r.Host: outside the property (not torrent/peer controlled); noted in the report
  | .raw _ => false

/-- an HTML output site: printed to the response or to a buffer that is, outside the
    playlist functions -/
def Site.isHtml (s : Site) : Bool :=
  (s.kind == .fprintf || s.kind == .bufprintf) && !(playlistFns.contains s.fn)

def Site.htmlSafe (s : Site) : Bool := !s.isHtml || s.args.all ArgClass.htmlSafe

/-- which classes may be printed in which context.  Escaped / path-escaped strings are safe
    as element text and inside double-quoted attribute values only; inside a tag, an unquoted
    value, a comment or a style block only constants, numbers and hex; inside a script block
    additionally the request's own Host (noted: not torrent/peer controlled) — never a
    torrent-, tracker- or peer-controlled string, escaped or not -/
def ctxOK : Ctx → ArgClass → Bool
  | .text, a | .attrDq, a =>
    (match a with | .escaped | .pathescaped | .hex | .number | .addr | .const => true | _ => false)
  | .attrSq, a =>
    (match a with | .escaped | .hex | .number | .addr | .const => true | _ => false)
  | .tag, a | .attrUnq, a | .style, a | .comment, a =>
    (match a with | .hex | .number | .const => true | _ => false)
  | .script, a =>
    (match a with | .hex | .number | .const | .request _ => true | _ => false)
  | .unknown, a => (match a with | .const => true | _ => false)

def allCtxOK : List Ctx → List ArgClass → Bool
  | [], [] => true
  | c :: cs, a :: as => ctxOK c a && allCtxOK cs as
  | _, _ => false          -- a context for every argument

def Site.contextSafe (s : Site) : Bool := !s.isHtml || allCtxOK s.ctxs s.args

/-- the raw arguments of the HTML sites: the counter-examples, naming file:line and expression -/
def rawHtmlArgs (t : List Site) : List (String × ArgClass) :=
  t.flatMap fun s => if s.isHtml then (s.args.filter (fun a => !a.htmlSafe)).map (fun a => (s.loc, a)) else []

end Storrent.Http
