import Storrent.Util
/-
Model of /repo/bitmap/bitmap.go — `type Bitmap []uint8`, bit i lives in byte i/8 under the
mask `1 << (7 - i%8)` (MSB first, the BitTorrent bitfield layout).

Core-only (links into the native drivers).  A Go `nil` bitmap and an empty one are both `[]`
(every method of bitmap.go treats them alike).  Indices are `Nat`: a negative Go `int` index
faults in Go and is outside the domain of this model (callers convert from `uint32`).
Transcription notes (DESIGN Appendix B): `Extend(i)` grows to `i/8+1` bytes (room for bit i
*inclusive*), so `SetMultiple(n)` over-allocates one byte when `8 ∣ n`; `All(n)` compares
the partial byte with `0xFF << (8 - n%8)` truncated to uint8 (so a stray bit ≥ n in that
byte makes it false); `Len` is highest set bit + 1; `Get` beyond the end is false; `Reset`
beyond the end is a no-op; `Count` counts all set bits.
-/
namespace Storrent.Bitmap

abbrev Bitmap := List UInt8

/-- `1 << (7 - uint8(i&7))` -/
def mask (i : Nat) : UInt8 := (1 : UInt8) <<< UInt8.ofNat (7 - i % 8)

/-- bit `i%8` (MSB first) of one byte -/
def getByte (x : UInt8) (i : Nat) : Bool := (x &&& mask i) != 0

/-- `bitmap.New(length)` -/
def new (length : Nat) : Bitmap := List.replicate ((length + 7) / 8) 0

/-- `b.Get(i)`: false for nil / beyond the end -/
def get (b : Bitmap) (i : Nat) : Bool :=
  match b[i / 8]? with
  | none => false
  | some x => getByte x i

/-- `b.Extend(i)`: at least `i/8+1` bytes -/
def extend (b : Bitmap) (i : Nat) : Bitmap :=
  if i / 8 ≥ b.length then b ++ List.replicate (i / 8 + 1 - b.length) 0 else b

/-- `b.Set(i)` -/
def set (b : Bitmap) (i : Nat) : Bitmap :=
  (extend b i).modify (i / 8) (· ||| mask i)

/-- `b.Reset(i)` -/
def reset (b : Bitmap) (i : Nat) : Bitmap :=
  if i / 8 ≥ b.length then b else b.modify (i / 8) (· &&& ~~~ mask i)

/-- `b.Copy()` -/
def copy (b : Bitmap) : Bitmap := b

/-- `b.SetMultiple(n)`: Extend(n); bytes 0..n/8-1 := 0xFF; Set(i) for n&^7 ≤ i < n -/
def setMultiple (b : Bitmap) (n : Nat) : Bitmap :=
  let b1 := extend b n
  let b2 := List.replicate (n / 8) (0xFF : UInt8) ++ b1.drop (n / 8)
  (List.range' (n / 8 * 8) (n % 8)).foldl set b2

/-- `b.Empty()` -/
def empty (b : Bitmap) : Bool := b.all (· == 0)

/-- `b.All(n)` -/
def all (b : Bitmap) (n : Nat) : Bool :=
  if n == 0 then true
  else if b.length < n / 8 then false
  else if !(b.take (n / 8)).all (· == 0xFF) then false
  else if n % 8 == 0 then true
  else match b[n / 8]? with
    | none => false
    | some x => x == (0xFF : UInt8) <<< UInt8.ofNat (8 - n % 8)

/-- `bits.OnesCount8` -/
def popcount8 (x : UInt8) : Nat :=
  (List.range 8).countP (getByte x)

/-- `b.Count()` -/
def count (b : Bitmap) : Nat := (b.map popcount8).sum

/-- `bits.TrailingZeros8` (8 for 0) -/
def tz8 (x : UInt8) : Nat :=
  if x &&& 1 != 0 then 0 else if x &&& 2 != 0 then 1 else if x &&& 4 != 0 then 2
  else if x &&& 8 != 0 then 3 else if x &&& 16 != 0 then 4 else if x &&& 32 != 0 then 5
  else if x &&& 64 != 0 then 6 else if x &&& 128 != 0 then 7 else 8

def lenGo (idx acc : Nat) : Bitmap → Nat
  | [] => acc
  | x :: xs => lenGo (idx + 1) (if x != 0 then idx * 8 + 8 - tz8 x else acc) xs

/-- `b.Len()`: index of the highest set bit, plus one (the last non-zero byte decides) -/
def len (b : Bitmap) : Nat := lenGo 0 0 b

/-- `b.Range(f)` with `f` never stopping: the set indices in increasing order -/
def indices (b : Bitmap) : List Nat := (List.range (8 * b.length)).filter (get b)

/-- `b1.EqualValue(b2)` -/
def equalValue (b1 b2 : Bitmap) : Bool :=
  let n := min b1.length b2.length
  b1.take n == b2.take n && (b1.drop n).all (· == 0) && (b2.drop n).all (· == 0)

/-- the abstraction used by the refinement lemmas -/
abbrev bits (b : Bitmap) (i : Nat) : Bool := get b i

end Storrent.Bitmap
