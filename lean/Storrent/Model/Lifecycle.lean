import Storrent.Model.BlockingTable
/-
C17 model.  One API call on a torrent against the torrent's event loop and its teardown.

* The loop goroutine: `tear = 0` running; then, in the order of the deferred statements
  (Gen.teardown): 1 = `close(t.Done)`, 2 = `t.Pieces.Del()`, 3 = `del(t.Hash)` (unlisted),
  4 = `close(t.Deleted)`.  It can leave `tear = 0` at any moment (context cancelled, TorGoAway,
  handler error) EXCEPT while it is blocked in the bare, unbuffered reply send `c.Ch <- v`.
* The caller is a list of phases (what `select`s it goes through), each with the exit
  alternatives the SOURCE gives it (taken from the regenerated table Gen.blocking).
* A transition is a `Label`; `step` is a partial function (none = not enabled).  "All
  interleavings" = all lists of labels.
-/
namespace Storrent.Lifecycle

inductive Phase where
  | lookup                                -- `tor.Get(hash)`: fails once the torrent is unlisted
  | send (alts : List Alt)                -- `select { case t.Event <- cmd: …; alts }`
  | reply (sel : Bool) (alts : List Alt)  -- receive the loop's answer on the unbuffered reply channel
  | signal (alts : List Alt)              -- wait for a channel the loop closes later (piece complete)
  | deleted (alts : List Alt)             -- wait for `t.Deleted`
  deriving Repr, DecidableEq

structure Spec where
  phases      : List Phase
  goAway      : Bool := false   -- the command is TorGoAway: the loop exits when it handles it
  carriesConn : Bool := false   -- NewPeer: the command carries a connection the loop must adopt
  doneAlt     : Alt := .tDone   -- the alternative that means "the serving loop has exited"
  deriving Repr, DecidableEq

inductive Res where
  | ok | dead | ctx | gone
  deriving Repr, DecidableEq

/-- where the caller's command is -/
inductive Cmd where
  | notSent
  | queued (ahead : Nat)   -- in t.Event behind `ahead` other commands
  | atLoop                 -- dequeued; the loop is blocked in `c.Ch <- v`
  | handled
  deriving Repr, DecidableEq

structure Cfg where
  tear  : Nat
  ctx   : Bool            -- the caller's context is cancelled
  room  : Bool            -- t.Event has room
  ahead : Nat             -- commands already queued when the caller's send happens
  todo  : List Phase      -- remaining phases of the caller
  res   : Option Res      -- some r once the call has returned
  cmd   : Cmd
  sig   : Bool            -- the awaited signal channel has been closed
  deriving Repr, DecidableEq

inductive Label where
  -- caller
  | lookupOk | lookupGone | enqueue | recvReply | recvSignal | recvDeleted | retDead | retCtx
  -- loop / environment
  | dequeueOther | dequeueMine | closeSig | cancelCtx | exit | tearNext | drain
  deriving Repr, DecidableEq

def callerLabels : List Label :=
  [.lookupOk, .lookupGone, .enqueue, .recvReply, .recvSignal, .recvDeleted, .retDead, .retCtx]

def envLabels : List Label :=
  [.dequeueOther, .dequeueMine, .closeSig, .cancelCtx, .exit, .tearNext, .drain]

def allLabels : List Label := callerLabels ++ envLabels

def Label.isCaller : Label → Bool
  | .lookupOk | .lookupGone | .enqueue | .recvReply | .recvSignal | .recvDeleted | .retDead
  | .retCtx => true
  | _ => false

def Phase.alts : Phase → List Alt
  | .lookup => []
  | .send a => a
  | .reply _ a => a
  | .signal a => a
  | .deleted a => a

def Phase.isReply : Phase → Bool
  | .reply _ _ => true
  | _ => false

def Spec.hasReply (sp : Spec) : Bool := sp.phases.any Phase.isReply

def init (sp : Spec) (ctx room : Bool) (ahead : Nat) : Cfg :=
  { tear := 0, ctx := ctx, room := room, ahead := ahead, todo := sp.phases,
    res := if sp.phases.isEmpty then some .ok else none, cmd := .notSent, sig := false }

/-- the caller passed its current phase -/
def advance (c : Cfg) (rest : List Phase) : Cfg :=
  { c with todo := rest, res := if rest.isEmpty then some .ok else none }

def finish (c : Cfg) (r : Res) : Cfg := { c with todo := [], res := some r }

def step (sp : Spec) (c : Cfg) : Label → Option Cfg
  | .lookupOk =>
    match c.res, c.todo with
    | none, .lookup :: rest => if c.tear < 3 then some (advance c rest) else none
    | _, _ => none
  | .lookupGone =>
    match c.res, c.todo with
    | none, .lookup :: _ => if 3 ≤ c.tear then some (finish c .gone) else none
    | _, _ => none
  | .enqueue =>
    match c.res, c.todo with
    | none, .send _ :: rest =>
      if c.room then some { advance c rest with cmd := .queued c.ahead } else none
    | _, _ => none
  | .recvReply =>
    match c.res, c.todo with
    | none, .reply _ _ :: rest =>
      if c.cmd = .atLoop then some { advance c rest with cmd := .handled } else none
    | _, _ => none
  | .recvSignal =>
    match c.res, c.todo with
    | none, .signal _ :: rest => if c.sig then some (advance c rest) else none
    | _, _ => none
  | .recvDeleted =>
    match c.res, c.todo with
    | none, .deleted _ :: rest => if 4 ≤ c.tear then some (advance c rest) else none
    | _, _ => none
  | .retDead =>
    match c.res, c.todo with
    | none, p :: _ =>
      if p.alts.contains sp.doneAlt && decide (1 ≤ c.tear) then some (finish c .dead) else none
    | _, _ => none
  | .retCtx =>
    match c.res, c.todo with
    | none, p :: _ =>
      if p.alts.contains .ctxDone && c.ctx then some (finish c .ctx) else none
    | _, _ => none
  | .dequeueOther =>
    match c.cmd with
    | .queued (k + 1) => if c.tear = 0 then some { c with cmd := .queued k } else none
    | _ => none
  | .dequeueMine =>
    match c.cmd with
    | .queued 0 =>
      if c.tear = 0 then
        if sp.goAway then some { c with cmd := .handled, tear := 1 }
        else if sp.hasReply then some { c with cmd := .atLoop }
        else some { c with cmd := .handled }
      else none
    | _ => none
  | .closeSig =>
    if c.tear = 0 ∧ c.cmd = .handled ∧ c.sig = false then some { c with sig := true } else none
  | .cancelCtx => if c.ctx then none else some { c with ctx := true }
  | .exit => if c.tear = 0 ∧ c.cmd ≠ .atLoop then some { c with tear := 1 } else none
  | .tearNext => if 1 ≤ c.tear ∧ c.tear < 4 then some { c with tear := c.tear + 1 } else none
  | .drain =>
    if c.tear = 0 ∧ c.cmd ≠ .atLoop ∧ c.room = false then some { c with room := true } else none

/-- run a list of labels; none if one of them is not enabled -/
def run (sp : Spec) : Cfg → List Label → Option Cfg
  | c, [] => some c
  | c, l :: ls => match step sp c l with
    | some c' => run sp c' ls
    | none => none

/-- reachable configurations: any initial parameters, any interleaving -/
inductive Reach (sp : Spec) : Cfg → Prop where
  | init (ctx room : Bool) (ahead : Nat) : Reach sp (init sp ctx room ahead)
  | step {c c' : Cfg} (l : Label) : Reach sp c → step sp c l = some c' → Reach sp c'

def callerEnabled (sp : Spec) (c : Cfg) : Bool :=
  callerLabels.any (fun l => (step sp c l).isSome)

def anyEnabled (sp : Spec) (c : Cfg) : Bool :=
  allLabels.any (fun l => (step sp c l).isSome)

/-- the caller's progress measure: strictly decreases with every caller step -/
def measure (c : Cfg) : Nat := c.todo.length + (if c.res.isNone then 1 else 0)

/-! ### guardedness of a spec (what `C17_points_guarded` establishes for the source) -/

def Phase.guarded (d : Alt) : Phase → Bool
  | .lookup => true
  | .send a => a.contains d
  | .reply sel a => sel && a.contains d
  | .signal a => a.contains d
  | .deleted _ => true       -- t.Deleted is closed by the teardown itself

/-- a reply receive must have no alternative other than "loop exited": the loop's reply
    send is bare, so the receiver must not be able to walk away while the loop runs -/
def Phase.replySafe (d : Alt) : Phase → Bool
  | .reply _ a => a.all (· == d)
  | _ => true

def Spec.guarded (sp : Spec) : Bool := sp.phases.all (Phase.guarded sp.doneAlt)

/-- the reply receive directly follows the send of the command -/
def replyFollowsSend : List Phase → Bool
  | [] => true
  | p :: rest =>
    (match p, rest with
     | .send _, .reply _ _ :: _ => true
     | .send _, _ => false
     | _, _ => true) && replyFollowsSend rest

def Spec.replySafe (sp : Spec) : Bool :=
  sp.phases.all (Phase.replySafe sp.doneAlt) && sp.doneAlt != .ctxDone
  && (!sp.hasReply || replyFollowsSend sp.phases)

/-! ### specs of the operations, read off the table -/

def findPoint (tbl : List Point) (fn : String) (d : Dir) (ch : String) : Option Point :=
  tbl.find? (fun p => p.fn == fn && p.dir == d && p.ch == ch)

def sendPhase (tbl : List Point) (fn ch : String) : Option Phase :=
  (findPoint tbl fn .send ch).map (fun p => .send p.alts)

def replyPhase (tbl : List Point) (fn : String) : Option Phase :=
  (findPoint tbl fn .recv "made#1").map (fun p => .reply p.sel p.alts)

def fireSpec (tbl : List Point) (fn : String) : Option Spec := do
  let s ← sendPhase tbl fn "t.Event"
  pure { phases := [s] }

def rpcSpec (tbl : List Point) (fn : String) : Option Spec := do
  let s ← sendPhase tbl fn "t.Event"
  let r ← replyPhase tbl fn
  pure { phases := [s, r] }

def peerRpcSpec (tbl : List Point) (fn : String) : Option Spec := do
  let s ← sendPhase tbl fn "peer.Event"
  let r ← replyPhase tbl fn
  pure { phases := [s, r], doneAlt := .pDone }

def rpcOps : List String :=
  ["GetStats", "GetAvailable", "DropPeer", "GetPeer", "GetPeers", "GetKnown", "GetKnowns",
   "GetConf", "SetConf", "Request"]
def fireOps : List String := ["AddKnown", "BadPeer", "Have"]
def peerOps : List String :=
  ["PeerGetStatus", "PeerGetPex", "PeerGetStats", "PeerGetBitmap", "PeerGetHave"]
def otherOps : List String :=
  ["NewPeer", "Announce", "RequestNoWait", "WriterClose", "Kill", "KillCtx", "ReaderRead"]
def allOps : List String := rpcOps ++ fireOps ++ peerOps ++ otherOps

def specOf (tbl : List Point) (op : String) : Option Spec :=
  if rpcOps.contains op then rpcSpec tbl ("tor.Torrent." ++ op)
  else if fireOps.contains op then fireSpec tbl ("tor.Torrent." ++ op)
  else if peerOps.contains op then peerRpcSpec tbl ("peer.Peer." ++ (op.drop 4).toString)
  else if op == "NewPeer" then
    (fireSpec tbl "tor.Torrent.NewPeer").map (fun s => { s with carriesConn := true })
  else if op == "Announce" then
    (sendPhase tbl "tor.Announce" "Get(h).Event").map (fun s => { phases := [.lookup, s] })
  else if op == "RequestNoWait" then fireSpec tbl "tor.Torrent.Request"
  else if op == "WriterClose" then
    (sendPhase tbl "tor.writer.writeEvent" "w.t.Event").map (fun s => { phases := [s] })
  else if op == "Kill" || op == "KillCtx" then do
    let s ← sendPhase tbl "tor.Torrent.Kill" "t.Event"
    let d ← findPoint tbl "tor.Torrent.Kill" .recv "t.Deleted"
    pure { phases := [s, .deleted d.alts], goAway := true }
  else if op == "ReaderRead" then do
    let r ← rpcSpec tbl "tor.Torrent.Request"
    let w ← findPoint tbl "tor.Reader.Read" .recv "local"
    pure { r with phases := r.phases ++ [.signal w.alts] }
  else none

/-! ### exhaustive exploration (used by the driver for the correspondence, and by examples) -/

structure Term where
  res  : Option Res   -- none = the caller is stuck for ever
  cmd  : Cmd
  tear : Nat
  deriving Repr, DecidableEq

def insertNew (t : Term) (ts : List Term) : List Term := if ts.contains t then ts else t :: ts

/-- terminal configurations of all maximal runs whose labels satisfy `allow` -/
def explore (sp : Spec) (allow : Cfg → Label → Bool) : Nat → Cfg → List Term → List Term
  | 0, c, acc => insertNew ⟨c.res, c.cmd, 99⟩ acc
  | n + 1, c, acc =>
    let succs := allLabels.filterMap (fun l => if allow c l then step sp c l else none)
    if succs.isEmpty then insertNew ⟨c.res, c.cmd, c.tear⟩ acc
    else succs.foldl (fun a c' => explore sp allow n c' a) acc

inductive Stop where
  | live | before | inqueueGoaway | inqueueCancel | answering | fullGoaway | fullComplete
  deriving Repr, DecidableEq

def Stop.ofString : String → Option Stop
  | "live" => some .live
  | "before" => some .before
  | "inqueue-goaway" => some .inqueueGoaway
  | "inqueue-cancel" => some .inqueueCancel
  | "answering" => some .answering
  | "full-goaway" => some .fullGoaway
  | "full-complete" => some .fullComplete
  -- a *Torrent refused by AddTorrent as a duplicate: Done and Deleted closed, nobody dequeues
  | "never-ran-refused" => some .before
  -- the loop parked longer than any caller-side timeout while tor.Expire queries it, then released
  | "expire-parked" => some .live
  | _ => none

def headIsSignal (c : Cfg) : Bool :=
  match c.todo with
  | .signal _ :: _ => true
  | _ => false

/-- which environment steps the harness's way of stopping the loop permits -/
def stopAllow (s : Stop) (c : Cfg) (l : Label) : Bool :=
  if l.isCaller then true else
  let started := c.cmd != .notSent || c.res.isSome
  match s, l with
  | _, .tearNext => true
  | _, .cancelCtx => headIsSignal c && c.cmd == .handled   -- the reader's own context (live stops)
  | .live, .dequeueOther | .live, .dequeueMine => true
  | .answering, .dequeueOther | .answering, .dequeueMine => true
  | .inqueueGoaway, .exit => started
  | .inqueueCancel, .exit | .inqueueCancel, .dequeueMine | .inqueueCancel, .dequeueOther => started
  -- queue full, a TorGoAway at its head: the loop frees one slot (drain) and exits
  | .fullGoaway, .exit | .fullGoaway, .drain => true
  -- queue full, pieces completing, callers parked: the loop keeps running and works it off
  | .fullComplete, .drain | .fullComplete, .dequeueOther | .fullComplete, .dequeueMine => true
  | _, _ => false

def stopInit (sp : Spec) (s : Stop) (ctx : Bool) : Cfg :=
  match s with
  | .before => { init sp ctx true 0 with tear := 4 }
  | .inqueueGoaway => init sp ctx true 1
  | .answering => init sp ctx true 1
  | .fullGoaway => init sp ctx false 511
  | .fullComplete => init sp ctx false 5
  | _ => init sp ctx true 0

def outcomes (sp : Spec) (s : Stop) (ctx : Bool) : List Term :=
  explore sp (stopAllow s) 24 (stopInit sp s ctx) []

/-! ### deletion: teardown + peers + blocked readers -/

structure Del where
  tear    : Nat
  peers   : List Bool          -- per peer: its loop has exited and closed the connection
  readers : List (Option Res)  -- readers blocked in Read's select: none = still blocked
  deriving Repr, DecidableEq

inductive DLabel where
  | exit | tearNext | peerExit (i : Nat) | readerWake (i : Nat)
  deriving Repr, DecidableEq

/-- facts about the source the deletion model depends on (read off the Gen tables) -/
structure DelFacts where
  peerWatchesTorDone : Bool   -- every select of peer.Run's loop and exit path has `<-peer.torDone`
  peerDoneAlways     : Bool   -- peer.Done is closed on every return path of Run
  readerWatchesDone  : Bool   -- Reader.Read's wait has `<-t.Done`
  deriving Repr, DecidableEq

def dstep (f : DelFacts) (d : Del) : DLabel → Option Del
  | .exit => if d.tear = 0 then some { d with tear := 1 } else none
  | .tearNext => if 1 ≤ d.tear ∧ d.tear < 4 then some { d with tear := d.tear + 1 } else none
  | .peerExit i =>
    if f.peerWatchesTorDone ∧ 1 ≤ d.tear ∧ d.peers[i]? = some false then
      some { d with peers := d.peers.set i true } else none
  | .readerWake i =>
    if f.readerWatchesDone ∧ 1 ≤ d.tear ∧ d.readers[i]? = some none then
      some { d with readers := d.readers.set i (some .dead) } else none

inductive DReach (f : DelFacts) (n r : Nat) : Del → Prop where
  | init : DReach f n r ⟨0, List.replicate n false, List.replicate r none⟩
  | step {d d' : Del} (l : DLabel) : DReach f n r d → dstep f d l = some d' → DReach f n r d'

def doneClosed (order : List String) (d : Del) : Bool := order.idxOf "close(t.Done)" < d.tear
def piecesFreed (order : List String) (d : Del) : Bool := order.idxOf "t.Pieces.Del()" < d.tear
def unlisted (order : List String) (d : Del) : Bool := order.idxOf "del(t.Hash)" < d.tear
def deletedClosed (order : List String) (d : Del) : Bool := order.idxOf "close(t.Deleted)" < d.tear

def delFactsOf (tbl : List Point) (peerDoneDefer : Bool) : DelFacts :=
  { peerWatchesTorDone :=
      let rows := tbl.filter (fun p => p.fn == "peer.Run")
      !rows.isEmpty && rows.all (fun p => p.sel && p.alts.contains .tDone),
    peerDoneAlways := peerDoneDefer,
    readerWatchesDone :=
      match findPoint tbl "tor.Reader.Read" .recv "local" with
      | some p => p.sel && p.alts.contains .tDone
      | none => false }

/-! ### the life of a connection handed to the torrent (NewPeer → TorAddPeer → peer.Run) -/

/-- circumstances of the hand-over (the classes the harness exercises) -/
inductive Branch where
  | normal | duplicateId | ownId | simultaneous | tooMany | remoteClosed | localClosed
  | noExtensions | afterGoaway | dying | dead
  deriving Repr, DecidableEq

def allBranches : List Branch :=
  [.normal, .duplicateId, .ownId, .simultaneous, .tooMany, .remoteClosed, .localClosed,
   .noExtensions, .afterGoaway, .dying, .dead]

def Branch.ofString : String → Option Branch
  | "normal" => some .normal | "duplicate-id" => some .duplicateId | "own-id" => some .ownId
  | "simultaneous" => some .simultaneous | "too-many" => some .tooMany
  | "remote-closed" => some .remoteClosed | "local-closed" => some .localClosed
  | "no-extensions" => some .noExtensions | "after-goaway" => some .afterGoaway
  | "dying" => some .dying | "dead" => some .dead
  | _ => none

/-- what the source does with the connection (read off the regenerated table) -/
structure ConnFacts where
  handlerAlwaysRuns : Bool   -- case TorAddPeer: `go peer.Run` unconditionally, no exit before it
  newPeerClosesElse : Bool   -- every return of NewPeer but the one after the send follows conn.Close()
  runClosesConn     : Bool   -- peer.Run's first defer closes the connection, whatever the exit
  deriving Repr, DecidableEq

def connFactsOf (runs : Bool) (exits : Nat) (rets : List (String × Bool)) (runCloses : Bool) :
    ConnFacts :=
  { handlerAlwaysRuns := runs && exits == 0,
    newPeerClosesElse := !rets.isEmpty && rets.all (fun r => r.2 || r.1 == "nil")
      && (rets.filter (fun r => r.1 == "nil")).length == 1,
    runClosesConn := runCloses }

inductive ConnSt where
  | caller    -- still with the caller of NewPeer
  | queued    -- inside a TorAddPeer event in t.Event
  | owned     -- a peer.Run goroutine owns it
  | dropped   -- nobody owns it and Close was not called: leaked
  | closed
  deriving Repr, DecidableEq

structure CC where
  tear : Nat            -- 0 = loop running (as in Cfg)
  conn : ConnSt
  res  : Option Res     -- NewPeer's result
  deriving Repr, DecidableEq

inductive CLabel where
  | send | refuseDead | take | peerExit | exit | tearNext
  deriving Repr, DecidableEq

def allCLabels : List CLabel := [.send, .refuseDead, .take, .peerExit, .exit, .tearNext]

/-- A handler that does not run the peer unconditionally may refuse this hand-over; the model
    is fail-closed: such a refusal is assumed not to close the connection. -/
def handlerRuns (f : ConnFacts) (_ : Branch) : Bool := f.handlerAlwaysRuns

def cstep (f : ConnFacts) (b : Branch) (c : CC) : CLabel → Option CC
  | .send =>        -- `case t.Event <- TorAddPeer{p, init}: return nil` (ready even after Done closed)
    if c.conn = .caller then some { c with conn := .queued, res := some .ok } else none
  | .refuseDead =>  -- `case <-t.Done: conn.Close(); return ErrTorrentDead`
    if c.conn = .caller ∧ 1 ≤ c.tear then
      some { c with conn := if f.newPeerClosesElse then .closed else .dropped, res := some .dead }
    else none
  | .take =>        -- the loop dequeues the event and handles it
    if c.conn = .queued ∧ c.tear = 0 then
      some { c with conn := if handlerRuns f b then .owned else .dropped }
    else none
  | .peerExit =>    -- peer.Run returns (remote closed, error, torrent's Done, …): its first defer
    if c.conn = .owned then
      some { c with conn := if f.runClosesConn then .closed else .dropped }
    else none
  | .exit => if c.tear = 0 then some { c with tear := 1 } else none
  | .tearNext => if 1 ≤ c.tear ∧ c.tear < 4 then some { c with tear := c.tear + 1 } else none

def cinit : CC := ⟨0, .caller, none⟩

inductive CReach (f : ConnFacts) (b : Branch) : CC → Prop where
  | init : CReach f b cinit
  | step {c c' : CC} (l : CLabel) : CReach f b c → cstep f b c l = some c' → CReach f b c'

def cterminal (f : ConnFacts) (b : Branch) (c : CC) : Bool :=
  allCLabels.all (fun l => (cstep f b c l).isNone)

/-- the event sits in the queue of a loop that has exited: nobody will ever dequeue it -/
def stranded (c : CC) : Bool := c.conn == .queued && decide (1 ≤ c.tear)

def crun (f : ConnFacts) (b : Branch) : CC → List CLabel → Option CC
  | c, [] => some c
  | c, l :: ls => match cstep f b c l with
    | some c' => crun f b c' ls
    | none => none

/-- which steps of the environment the harness's way of stopping the loop permits -/
def cstopAllow (s : Stop) (c : CC) : CLabel → Bool
  | .send | .refuseDead | .peerExit | .tearNext => true
  | .take => s != .inqueueGoaway && s != .fullGoaway
  | .exit =>
    match s with
    | .live | .answering | .fullComplete => c.conn == .owned || c.conn == .closed || c.conn == .dropped
    | .before => false
    | _ => c.conn != .caller

def cexplore (f : ConnFacts) (b : Branch) (s : Stop) : Nat → CC → List CC → List CC
  | 0, c, acc => if acc.contains c then acc else c :: acc
  | n + 1, c, acc =>
    let succs := allCLabels.filterMap (fun l => if cstopAllow s c l then cstep f b c l else none)
    if succs.isEmpty then (if acc.contains c then acc else c :: acc)
    else succs.foldl (fun a c' => cexplore f b s n c' a) acc

def connOutcomes (f : ConnFacts) (b : Branch) (s : Stop) : List CC :=
  cexplore f b s 12 (if s == .before then { cinit with tear := 4 } else cinit) []

end Storrent.Lifecycle
