import Storrent.Util
/-
Shape of the facts the Go-AST extractor (extract/) regenerates from protocol/reader.go and
protocol/writer.go on every run (Gen/WireTable.lean), and the hand-written expectation the
proofs are carried out against.  `Props/C04` proves `Gen.wireGuards = expectedGuards` by
`decide`; a source edit that changes a guard, the value returned when a guard fails, or the
frame cap changes the generated table and that theorem no longer checks.
-/
namespace Storrent.Wire

inductive GuardKind where
  | ne (k : Nat)      -- `if length != k { return … }`
  | lt (k : Nat)      -- `if length <  k { return … }`
  | subNe (k : Nat)   -- `if length-2 != k { return … }` (extended sub-messages)
  | none              -- no length guard before the first read
  deriving Repr, DecidableEq, BEq

inductive FailRet where
  | errParse          -- `return nil, ErrParse`
  | bareErr           -- `return nil, err` with the outer (nil) err: a (nil, nil) return
  | other
  deriving Repr, DecidableEq, BEq

structure GuardRow where
  id    : Nat
  sub   : Option Nat        -- extended sub-id for id 20 (none = the id-level guard)
  guard : GuardKind
  fail  : FailRet
  deriving Repr, DecidableEq, BEq

/-- per-case guards of `protocol.Read`, sorted by (id, sub-id) (source order is irrelevant) -/
def expectedGuards : List GuardRow := [
  ⟨0, none, (.ne 1), .errParse⟩,
  ⟨1, none, (.ne 1), .errParse⟩,
  ⟨2, none, (.ne 1), .errParse⟩,
  ⟨3, none, (.ne 1), .errParse⟩,
  ⟨4, none, (.ne 5), .errParse⟩,
  ⟨5, none, (.lt 1), .errParse⟩,
  ⟨6, none, (.ne 13), .errParse⟩,
  ⟨7, none, (.lt 9), .errParse⟩,
  ⟨8, none, (.ne 13), .errParse⟩,
  ⟨9, none, (.ne 3), .errParse⟩,
  ⟨13, none, (.ne 5), .errParse⟩,
  ⟨14, none, (.ne 1), .errParse⟩,
  ⟨15, none, (.ne 1), .errParse⟩,
  ⟨16, none, (.ne 13), .errParse⟩,
  ⟨17, none, (.ne 5), .errParse⟩,
  ⟨20, none, (.lt 2), .errParse⟩,
  ⟨20, some 0, .none, .other⟩,
  ⟨20, some 1, .none, .other⟩,
  ⟨20, some 2, .none, .other⟩,
  ⟨20, some 3, (.subNe 4), .errParse⟩,
  ⟨20, some 4, (.subNe 1), .errParse⟩ ]

def expectedFrameCap : Nat := 1048576

/-- (message constructor name, wire id, fixed payload arity in 32-bit words or none) of
    `protocol.Write`, sorted by name -/
structure WriterRow where
  name : String
  id   : Nat
  deriving Repr, DecidableEq, BEq

def expectedWriter : List WriterRow := [
  ⟨"AllowedFast", 17⟩,
  ⟨"Bitfield", 5⟩,
  ⟨"Cancel", 8⟩,
  ⟨"Choke", 0⟩,
  ⟨"Extended0", 20⟩,
  ⟨"ExtendedDontHave", 20⟩,
  ⟨"ExtendedMetadata", 20⟩,
  ⟨"ExtendedPex", 20⟩,
  ⟨"Have", 4⟩,
  ⟨"HaveAll", 14⟩,
  ⟨"HaveNone", 15⟩,
  ⟨"Interested", 2⟩,
  ⟨"KeepAlive", 0⟩,
  ⟨"NotInterested", 3⟩,
  ⟨"Piece", 7⟩,
  ⟨"Port", 9⟩,
  ⟨"RejectRequest", 16⟩,
  ⟨"Request", 6⟩,
  ⟨"SuggestPiece", 13⟩,
  ⟨"Unchoke", 1⟩ ]

def findGuard (t : List GuardRow) (id : Nat) (sub : Option Nat) : Option GuardRow :=
  t.find? (fun r => r.id == id && r.sub == sub)

end Storrent.Wire
