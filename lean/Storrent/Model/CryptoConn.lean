import Storrent.Model.Chunked
/-
crypto.Conn (crypto/conn.go): Write through the 32 KiB staging buffer with the sticky
error, Read decrypting in place, over an abstract keystream `ks : Nat → UInt8`
(rc4.Cipher = a keystream and a position).  Core-only.
-/
namespace Storrent.CryptoConn
open Storrent Storrent.Chunked

inductive WErr where
  | under (code : Nat)    -- the error returned by the underlying conn.Write
  | shortWrite            -- io.ErrShortWrite
  deriving DecidableEq, Repr

structure Conn where
  encPos : Nat            -- bytes of keystream `enc` has produced
  decPos : Nat
  err : Option WErr       -- c.err
  deriving DecidableEq, Repr

/-- what the underlying `conn.Write(buf[:m])` answers: `l` bytes accepted, error or nil -/
structure WResp where
  l : Nat
  err : Option Nat
  deriving DecidableEq, Repr

/-- len(buf) of the pooled staging buffer -/
def stage : Nat := 32768

structure WOut where
  n : Nat                 -- returned count
  err : Option WErr       -- returned error
  conn : Conn
  wire : Bytes            -- bytes the underlying connection accepted during this call
  env : List WResp        -- answers not yet used
  deriving DecidableEq, Repr

/-- the `for n < len(b)` loop of Conn.Write; `rem = b[n:]`.  An exhausted `env` means the
    underlying connection accepts everything. -/
def writeLoop (ks : Nat → UInt8) : Nat → Conn → Bytes → Nat → List WResp → Bytes → WOut
  | 0, c, _, n, env, wire => ⟨n, none, c, wire, env⟩
  | fuel + 1, c, rem, n, env, wire =>
    if rem.isEmpty then ⟨n, none, c, wire, env⟩
    else
      let m := min rem.length stage
      let ct := xorAt ks c.encPos (rem.take m)       -- c.enc.XORKeyStream(buf[:m], b[n:n+m])
      let c1 : Conn := { c with encPos := c.encPos + m }
      let r : WResp := env.headD ⟨m, none⟩
      let l := min r.l m                              -- l, err = c.conn.Write(buf[:m])
      let wire' := wire ++ ct.take l
      let err : Option WErr :=
        match r.err with
        | some e => some (.under e)
        | none => if l < m then some .shortWrite else none
      match err with
      | some e => ⟨n + l, some e, { c1 with err := some e }, wire', env.tail⟩
      | none => writeLoop ks fuel c1 (rem.drop m) (n + l) env.tail wire'

/-- Conn.Write(b) -/
def write (ks : Nat → UInt8) (c : Conn) (b : Bytes) (env : List WResp) : WOut :=
  match c.err with
  | some e => ⟨0, some e, c, [], env⟩
  | none => writeLoop ks (b.length + 1) c b 0 env []

/-- a sequence of Write calls: results per call, and everything that reached the wire -/
def writeAll (ks : Nat → UInt8) : Conn → List Bytes → List WResp → List (Nat × Option WErr) × Conn × Bytes
  | c, [], _ => ([], c, [])
  | c, b :: bs, env =>
    let o := write ks c b env
    let (rs, c', w) := writeAll ks o.conn bs o.env
    ((o.n, o.err) :: rs, c', o.wire ++ w)

/-- Conn.Read(b), len(b) = k: underlying read, then `c.dec.XORKeyStream(b[:n], b[:n])` -/
def read (ks : Nat → UInt8) (c : Conn) (k : Nat) (src : Src) : Option (Bytes × Conn × Src) :=
  match Chunked.read k src with
  | none => none
  | some (got, src') => some (xorAt ks c.decPos got, { c with decPos := c.decPos + got.length }, src')

/-- a sequence of Read calls with the given buffer sizes (stops at EOF) -/
def readAll (ks : Nat → UInt8) : Conn → List Nat → Src → List Bytes × Conn × Src
  | c, [], src => ([], c, src)
  | c, k :: ks', src =>
    match read ks c k src with
    | none => ([], c, src)
    | some (got, c', src') =>
      let (gs, c'', s'') := readAll ks c' ks' src'
      (got :: gs, c'', s'')

/-! ### reads that deliver bytes TOGETHER WITH an error

`io.Reader`: "Callers should always process the n > 0 bytes returned before considering
the error."  An underlying connection may return `(n > 0, err)`: the last bytes with io.EOF,
bytes arriving as a read deadline expires (reading may continue afterwards), or any other
error.  A chunk of the source now carries an optional error code that is reported by the
read that delivers the chunk's last byte. -/

abbrev ESrc := List (Bytes × Option Nat)

/-- one underlying `conn.Read(b)`, `len(b) = k`: bytes, error (nil or the chunk's error when
    its last byte is delivered), rest; `none` = `(0, io.EOF)` at the end of the stream -/
def readE (k : Nat) : ESrc → Option (Bytes × Option Nat × ESrc)
  | [] => none
  | (c, e) :: cs =>
    if c.length ≤ k then some (c, e, cs) else some (c.take k, none, (c.drop k, e) :: cs)

/-- Conn.Read(b): `n, err = c.conn.Read(b); c.dec.XORKeyStream(b[:n], b[:n]); return` — the
    keystream is consumed for exactly the `n` bytes returned, whatever `err` is -/
def readErr (ks : Nat → UInt8) (c : Conn) (k : Nat) (src : ESrc) :
    Option (Bytes × Option Nat × Conn × ESrc) :=
  match readE k src with
  | none => none
  | some (got, e, src') =>
    some (xorAt ks c.decPos got, e, { c with decPos := c.decPos + got.length }, src')

/-- a sequence of Read calls; the caller goes on reading after an error that came with or
    without bytes, and stops at the end of the stream -/
def readAllErr (ks : Nat → UInt8) : Conn → List Nat → ESrc → List (Bytes × Option Nat) × Conn × ESrc
  | c, [], src => ([], c, src)
  | c, k :: ks', src =>
    match readErr ks c k src with
    | none => ([], c, src)
    | some (got, e, c', src') =>
      let (gs, c'', s'') := readAllErr ks c' ks' src'
      ((got, e) :: gs, c'', s'')

/-- the bytes of the wire still to be read -/
def ESrc.bytes (s : ESrc) : Bytes := (s.map (·.1)).flatten

end Storrent.CryptoConn
