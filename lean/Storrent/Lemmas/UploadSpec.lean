import Storrent.Lemmas.UploadRun
/- What each handler can put on the wire / allocate / fault on: only the upload tick queues a
   Piece, allocates a buffer, or reads the store. -/
namespace Storrent.Upload
open Storrent Storrent.Wire

def NoPiece (ms : List Msg) : Prop := ∀ i b d, Msg.piece i b d ∉ ms

theorem NoPiece.nil : NoPiece [] := fun _ _ _ h => by cases h

theorem reject_eq_nopiece {fast : Bool} {r : Req} {w w' : WEnv} {e : WR} {ms : List Msg}
    (h : reject fast r w = (e, ms, w')) : NoPiece ms := by
  intro i b d hm
  rcases reject_cases fast r w with h1 | ⟨_, _, h1⟩ <;> rw [h] at h1 <;> simp only at h1 <;>
    rw [h1] at hm <;> simp at hm

theorem nopiece_of_rejects {ms : List Msg} (h : ∀ m ∈ ms, IsReject m) : NoPiece ms := by
  intro i b d hm
  exact h _ hm

theorem unchokeCore_nopiece (p : Peer) (num : Int) (u : Bool) (w : WEnv) (pre : String) :
    NoPiece (unchokeCore p num u w pre).msgs := by
  unfold unchokeCore
  split
  · exact NoPiece.nil
  · split
    · split
      · intro i b d hm; simp at hm
      · exact NoPiece.nil
    · split
      · rename_i w' _
        split
        rename_i e ms w'' hr
        intro i b d hm
        simp only [List.mem_cons] at hm
        rcases hm with hm | hm
        · cases hm
        · have := rejectAll_rejects p.canFast p.requested w'
          rw [hr] at this
          exact this _ hm
      · exact NoPiece.nil

/-- handlers other than the upload tick: no Piece, no buffer, and the only possible fault is
    the "NumUnchoking is negative" panic of the exit path -/
structure Quiet (p : Peer) (num : Int) (r : Res) : Prop where
  nopiece : NoPiece r.msgs
  alloc : r.alloc = 0
  panic : r.panic = true → p.amUnchoking = true ∧ num - 1 < 0

theorem mkRes_quiet (p q : Peer) (num n2 : Int) (ms : List Msg) (e : Err) (t : String)
    (h : NoPiece ms) : Quiet p num (mkRes q n2 ms e t) :=
  ⟨h, rfl, fun hh => by simp [mkRes] at hh⟩

theorem onRequest_quiet (st : Store) (p : Peer) (num : Int) (m : Req) (w : WEnv) :
    Quiet p num (onRequest st p num m w) := by
  unfold onRequest
  repeat' split
  all_goals
    apply mkRes_quiet
    first
      | exact NoPiece.nil
      | (apply reject_eq_nopiece; assumption)

theorem onCancel_quiet (p : Peer) (num : Int) (m : Req) (w : WEnv) :
    Quiet p num (onCancel p num m w) := by
  unfold onCancel
  repeat' split
  all_goals
    apply mkRes_quiet
    first
      | exact NoPiece.nil
      | (apply reject_eq_nopiece; assumption)

theorem onNotInterested_quiet (p : Peer) (num : Int) (w : WEnv) :
    Quiet p num (onNotInterested p num w) := by
  unfold onNotInterested unchoke
  exact mkRes_quiet _ _ _ _ _ _ _ (unchokeCore_nopiece _ _ _ _ _)

theorem onPeerUnchoke_quiet (p : Peer) (num : Int) (b : Bool) (w : WEnv) :
    Quiet p num (onPeerUnchoke p num b w) := by
  unfold onPeerUnchoke unchoke
  simp only
  repeat' split
  all_goals exact mkRes_quiet _ _ _ _ _ _ _ (unchokeCore_nopiece _ _ _ _ _)

theorem onExit_quiet (p : Peer) (num : Int) : Quiet p num (onExit p num) := by
  unfold onExit
  split
  · rename_i hu
    exact ⟨NoPiece.nil, rfl, fun hh => ⟨hu, by simpa using hh⟩⟩
  · exact mkRes_quiet _ _ _ _ _ _ _ NoPiece.nil

inductive IsTick : Op → Prop
  | mk (k : Nat) (cong : Bool) (lim : Nat → Bool) (w : WEnv) : IsTick (.tick k cong lim w)

theorem handle_quiet (st : Store) (p : Peer) (num : Int) (op : Op) (h : ¬ IsTick op) :
    Quiet p num (handle st p num op) := by
  cases op with
  | tick k cong lim w => exact absurd (IsTick.mk k cong lim w) h
  | newPeer f i => exact mkRes_quiet _ _ _ _ _ _ _ NoPiece.nil
  | storeAdd k => exact mkRes_quiet _ _ _ _ _ _ _ NoPiece.nil
  | storeEvict k => exact mkRes_quiet _ _ _ _ _ _ _ NoPiece.nil
  | unchoke k b w => exact onPeerUnchoke_quiet p num b w
  | gotMeta k =>
    simp only [handle, onMeta]
    split <;> exact mkRes_quiet _ _ _ _ _ _ _ NoPiece.nil
  | exit k => exact onExit_quiet p num
  | recv k m w =>
    cases m with
    | request i b l => exact onRequest_quiet st p num ⟨i, b, l⟩ w
    | cancel i b l => exact onCancel_quiet p num ⟨i, b, l⟩ w
    | interested => exact mkRes_quiet _ _ _ _ _ _ _ NoPiece.nil
    | notInterested => exact onNotInterested_quiet p num w
    | _ => exact mkRes_quiet _ _ _ _ _ _ _ NoPiece.nil

/-- the upload tick: either nothing is served (no message, no buffer), or the head request
    `q` was admitted by the limiter on an uncongested writer of an unchoked peer, a buffer of
    exactly `q.l` bytes was obtained, and the only Piece that can be queued is
    `Piece q.i q.b d` where `d` is what `ReadAt` returned and has the full length -/
theorem onTick_spec (st : Store) (p : Peer) (num : Int) (cong : Bool) (lim : Nat → Bool) (w : WEnv) :
    ((onTick st p num cong lim w).msgs = [] ∧ (onTick st p num cong lim w).alloc = 0 ∧
      (onTick st p num cong lim w).panic = false) ∨
    ∃ q rest, p.amUnchoking = true ∧ p.requested = q :: rest ∧ cong = false ∧ lim q.l = true ∧
      (onTick st p num cong lim w).alloc = q.l ∧
      ((readAt st q.l (offInt64 q.i st.ps q.b) = .panic ∧ (onTick st p num cong lim w).msgs = []) ∨
       ∃ d, readAt st q.l (offInt64 q.i st.ps q.b) = .data d ∧
         (onTick st p num cong lim w).panic = false ∧
         ((d.length ≠ q.l ∧ NoPiece (onTick st p num cong lim w).msgs) ∨
          (d.length = q.l ∧ ((onTick st p num cong lim w).msgs = [.piece q.i q.b d] ∨
            (onTick st p num cong lim w).msgs = [])))) := by
  generalize hR : onTick st p num cong lim w = R
  unfold onTick at hR
  by_cases hU : (!p.amUnchoking) = true
  · simp only [hU, if_true] at hR; subst hR; exact Or.inl ⟨rfl, rfl, rfl⟩
  · simp only [hU] at hR
    have hu : p.amUnchoking = true := by cases hh : p.amUnchoking <;> simp_all
    cases hq : p.requested with
    | nil =>
      simp only [hq, Bool.false_eq_true, if_false] at hR; subst hR; exact Or.inl ⟨rfl, rfl, rfl⟩
    | cons r rest =>
      simp only [hq, Bool.false_eq_true, if_false] at hR
      by_cases hc : cong = true
      · simp only [hc, if_true] at hR; subst hR; exact Or.inl ⟨rfl, rfl, rfl⟩
      · have hcf : cong = false := by cases hh : cong <;> simp_all
        simp only [hcf, Bool.false_eq_true, if_false] at hR
        by_cases hL : (!lim r.l) = true
        · simp only [hL, if_true] at hR; subst hR; exact Or.inl ⟨rfl, rfl, rfl⟩
        · have hlim : lim r.l = true := by cases hh : lim r.l <;> simp_all
          simp only [hlim, Bool.not_true, Bool.false_eq_true, if_false] at hR
          cases hrd : readAt st r.l (offInt64 r.i st.ps r.b) with
          | panic =>
            simp only [hrd] at hR; subst hR
            exact Or.inr ⟨r, rest, hu, rfl, hcf, hlim, rfl, Or.inl ⟨hrd, rfl⟩⟩
          | data d =>
            simp only [hrd] at hR
            by_cases hd : d.length ≠ r.l
            · rw [if_pos hd] at hR
              rcases hr : reject p.canFast r w with ⟨e, ms, w'⟩
              have hnp := reject_eq_nopiece hr
              rw [hr] at hR
              cases e <;> simp only at hR <;> subst hR <;>
                exact Or.inr ⟨r, rest, hu, rfl, hcf, hlim, rfl, Or.inr ⟨d, hrd, rfl, Or.inl ⟨hd, hnp⟩⟩⟩
            · rw [if_neg hd] at hR
              have hdl : d.length = r.l := by
                cases Nat.decEq d.length r.l with
                | isTrue hh => exact hh
                | isFalse hh => exact absurd hh hd
              rcases hn : w.next with ⟨e, w'⟩
              rw [hn] at hR
              cases e <;> simp only at hR <;> subst hR
              · exact Or.inr ⟨r, rest, hu, rfl, hcf, hlim, rfl,
                  Or.inr ⟨d, hrd, rfl, Or.inr ⟨hdl, Or.inl rfl⟩⟩⟩
              · exact Or.inr ⟨r, rest, hu, rfl, hcf, hlim, rfl,
                  Or.inr ⟨d, hrd, rfl, Or.inr ⟨hdl, Or.inr rfl⟩⟩⟩
              · exact Or.inr ⟨r, rest, hu, rfl, hcf, hlim, rfl,
                  Or.inr ⟨d, hrd, rfl, Or.inr ⟨hdl, Or.inr rfl⟩⟩⟩

/-! ### queue length -/

/-- a Request whose head-drop reject could not be written (`req-headkeep`) -/
def headKeep (p : Peer) : Op → Bool
  | .recv _ (.request _ _ l) w =>
    p.canFast && p.hasInfo && p.amUnchoking && decide (l ≤ maxReqLen) &&
      decide (p.requested.length ≥ reqQ) && decide (w.next.1 ≠ .ok)
  | _ => false

theorem length_erase_le (q : List Req) (m : Req) : (q.erase m).length ≤ q.length := by
  rw [List.length_erase]; split <;> omega

theorem unchokeCore_len (p : Peer) (num : Int) (u : Bool) (w : WEnv) (pre : String) :
    (unchokeCore p num u w pre).p.requested.length ≤ p.requested.length := by
  unfold unchokeCore
  repeat' split
  all_goals simp

/-- one handler invocation: the queue grows by at most one, and not at all from 250 up
    unless the head-drop reject could not be written -/
theorem handle_len (st : Store) (p : Peer) (num : Int) (op : Op) :
    (handle st p num op).p.requested.length ≤
      max p.requested.length reqQ + (if headKeep p op then 1 else 0) ∧
    (handle st p num op).p.requested.length ≤ p.requested.length + 1 := by
  have same : ∀ (ms : List Msg) (e : Err) (t : String),
      (mkRes p num ms e t).p.requested.length ≤
        max p.requested.length reqQ + (if headKeep p op then 1 else 0) ∧
      (mkRes p num ms e t).p.requested.length ≤ p.requested.length + 1 := by
    intro ms e t; rw [mkRes_p]; constructor <;> omega
  have le : ∀ (r : Res), r.p.requested.length ≤ p.requested.length →
      r.p.requested.length ≤ max p.requested.length reqQ + (if headKeep p op then 1 else 0) ∧
      r.p.requested.length ≤ p.requested.length + 1 := by
    intro r h; constructor <;> omega
  cases op with
  | newPeer f i => exact same _ _ _
  | storeAdd k => exact same _ _ _
  | storeEvict k => exact same _ _ _
  | gotMeta k =>
    apply le; simp only [handle, onMeta]; split <;> simp [mkRes_p]
  | exit k =>
    apply le; simp only [handle, onExit]; split <;> simp [mkRes_p]
  | unchoke k b w =>
    apply le
    have := fun pre => unchokeCore_len p num (b && p.interested) w pre
    simp only [handle, onPeerUnchoke, unchoke]
    repeat' split
    all_goals simpa [mkRes_p, Upload.startStop] using this _
  | tick k cong lim w =>
    apply le
    simp only [handle, onTick]
    repeat' split
    all_goals simp_all [mkRes_p, Upload.startStop]
    all_goals omega
  | recv k m w =>
    cases m with
    | interested => apply le; simp [handle, onInterested, mkRes_p]
    | notInterested =>
      apply le
      have := unchokeCore_len { p with interested := false } num (false && false) w ""
      simpa [handle, onNotInterested, unchoke, mkRes_p] using this
    | cancel i b l =>
      apply le
      have := length_erase_le p.requested ⟨i, b, l⟩
      simp only [handle, onCancel]
      repeat' split
      all_goals simpa [mkRes_p, Upload.startStop] using this
    | request i b l =>
      generalize hR : handle st p num (.recv k (.request i b l) w) = R
      simp only [handle, onRequest] at hR
      by_cases hA : (!p.hasInfo || !p.amUnchoking) = true
      · simp only [hA, if_true] at hR; subst hR; exact same _ _ _
      · simp only [hA, Bool.false_eq_true, if_false] at hR
        have hi : p.hasInfo = true := by cases hh : p.hasInfo <;> simp_all
        have hu : p.amUnchoking = true := by cases hh : p.amUnchoking <;> simp_all
        by_cases hB : l > maxReqLen
        · simp only [hB, if_true] at hR; subst hR; exact same _ _ _
        · simp only [hB, if_false] at hR
          have hl : l ≤ maxReqLen := by omega
          by_cases hG : i ≥ st.numPieces
          · simp only [hG, if_true] at hR; subst hR; exact same _ _ _
          simp only [hG, if_false] at hR
          by_cases hC : p.requested.length ≥ reqQ
          · simp only [hC, if_true] at hR
            cases hq : p.requested with
            | nil => rw [hq] at hC; simp [reqQ] at hC
            | cons r rest =>
              simp only [hq] at hR
              rcases hr : reject p.canFast r w with ⟨e, ms, w'⟩
              rw [hr] at hR
              cases e
              · simp only at hR; subst hR
                simp only [mkRes_p, Upload.startStop, List.length_append, List.length_cons,
                  List.length_nil]
                constructor
                · have : 0 ≤ (if headKeep p (.recv k (.request i b l) w) = true then 1 else 0) := by
                    split <;> omega
                  omega
                · omega
              all_goals
                -- the reject failed: the peer is Fast and the write was refused
                have hf : p.canFast = true ∧ w.next.1 ≠ .ok := by
                  unfold reject at hr
                  cases hcf : p.canFast
                  · rw [hcf] at hr; simp at hr
                  · rw [hcf] at hr
                    simp only [if_true] at hr
                    rcases hn : w.next with ⟨e1, w1⟩
                    rw [hn] at hr
                    cases e1 <;> simp at hr <;> simp
                have hk : headKeep p (.recv k (.request i b l) w) = true := by
                  simp only [headKeep, hf.1, hi, hu, hl, hC, hf.2, Bool.and_self, decide_true,
                    ne_eq, not_false_eq_true]
                simp only at hR; subst hR
                simp only [mkRes_p, Upload.startStop, List.length_append, List.length_cons,
                  List.length_nil, hk, if_true]
                constructor <;> omega
          · simp only [hC, if_false] at hR; subst hR
            simp only [mkRes_p, Upload.startStop, List.length_append, List.length_cons,
              List.length_nil]
            have : 0 ≤ (if headKeep p (.recv k (.request i b l) w) = true then 1 else 0) := by
              split <;> omega
            constructor <;> omega
    | _ => exact same _ _ _

/-! ### what one handler invocation hands to the writer -/

theorem reject_eq_len {fast : Bool} {r : Req} {w w' : WEnv} {e : WR} {ms : List Msg}
    (h : reject fast r w = (e, ms, w')) : ms.length ≤ 1 := by
  rcases reject_cases fast r w with h1 | ⟨_, _, h1⟩ <;> rw [h] at h1 <;> simp only at h1 <;>
    rw [h1] <;> simp

theorem reject_len (fast : Bool) (r : Req) (w : WEnv) : (reject fast r w).2.1.length ≤ 1 := by
  rcases reject_cases fast r w with h1 | ⟨_, _, h1⟩ <;> rw [h1] <;> simp

theorem reject_eq_len' {fast : Bool} {r : Req} {w w' : WEnv} {e : WR} {ms : List Msg} (n : Nat)
    (h : reject fast r w = (e, ms, w')) : ms.length ≤ n + 1 := by
  have := reject_eq_len h; omega

theorem rejectAll_len (fast : Bool) (rs : List Req) (w : WEnv) :
    (rejectAll fast rs w).2.1.length ≤ rs.length := by
  induction rs generalizing w with
  | nil => simp [rejectAll]
  | cons r rs ih =>
    unfold rejectAll
    rcases h : reject fast r w with ⟨e, ms, w'⟩
    have h1 := reject_eq_len h
    cases e
    · simp only
      rcases h2 : rejectAll fast rs w' with ⟨e2, ms2, w2⟩
      have := ih w'
      rw [h2] at this
      simp only [List.length_append, List.length_cons] at this ⊢
      omega
    all_goals (simp only [List.length_cons]; omega)

theorem unchokeCore_outlen (p : Peer) (num : Int) (u : Bool) (w : WEnv) (pre : String) :
    (unchokeCore p num u w pre).msgs.length ≤ p.requested.length + 1 := by
  unfold unchokeCore
  split
  · simp
  · split
    · split <;> simp
    · split
      · rename_i w' _
        split
        rename_i e ms w'' hr
        have := rejectAll_len p.canFast p.requested w'
        rw [hr] at this
        simp only [List.length_cons] at this ⊢
        omega
      · simp

/-- one handler invocation queues at most one message on the writer, except a choke, which
    queues the Choke and one Reject per queued request -/
theorem handle_outlen (st : Store) (p : Peer) (num : Int) (op : Op) :
    (handle st p num op).msgs.length ≤ p.requested.length + 1 := by
  have nil : ∀ (q : Peer) (n : Int) (e : Err) (t : String),
      (mkRes q n [] e t).msgs.length ≤ p.requested.length + 1 := by
    intro q n e t; simp [mkRes_msgs]
  cases op with
  | newPeer f i => exact nil _ _ _ _
  | storeAdd k => exact nil _ _ _ _
  | storeEvict k => exact nil _ _ _ _
  | gotMeta k => simp only [handle, onMeta]; split <;> exact nil _ _ _ _
  | exit k => simp only [handle, onExit]; split <;> simp [mkRes_msgs]
  | unchoke k b w =>
    have := unchokeCore_outlen p num (b && p.interested) w
    simp only [handle, onPeerUnchoke, unchoke]
    repeat' split
    all_goals (rw [mkRes_msgs]; exact this _)
  | tick k cong lim w =>
    simp only [handle, onTick]
    repeat' split
    all_goals
      first
        | (simp [mkRes]; done)
        | (simp only [mkRes]; apply reject_eq_len'; assumption)
  | recv k m w =>
    cases m with
    | interested => exact nil _ _ _ _
    | notInterested =>
      have := unchokeCore_outlen { p with interested := false } num (false && false) w ""
      simpa [handle, onNotInterested, unchoke, mkRes_msgs] using this
    | cancel i b l =>
      simp only [handle, onCancel]
      repeat' split
      all_goals
        first
          | (simp [mkRes_msgs]; done)
          | (rw [mkRes_msgs]; apply reject_eq_len'; assumption)
          | (rw [mkRes_msgs]; exact Nat.le_trans (reject_len _ _ _) (by omega))
    | request i b l =>
      simp only [handle, onRequest]
      repeat' split
      all_goals
        first
          | (simp [mkRes_msgs]; done)
          | (rw [mkRes_msgs]; apply reject_eq_len'; assumption)
          | (rw [mkRes_msgs]; exact Nat.le_trans (reject_len _ _ _) (by omega))
    | _ => exact nil _ _ _ _

end Storrent.Upload
