import Storrent.Model.PexFeed
/- The invariant of the torrent-side PEX feed: what an observer that is connected all along
   holds (as a set) is exactly the set of (connection, port) of the connections that are
   there and whose port is known. -/
namespace Storrent.PexFeed

/-- the addresses of the live connections whose port is known -/
def Live (s : Feed) (x : Nat × Nat) : Prop := ∃ p, p ∈ s.peers ∧ p.port > 0 ∧ x = (p.id, p.port)

structure FInv (s : Feed) (v : List (Nat × Nat)) : Prop where
  nd : (s.peers.map (·.id)).Nodup
  vw : ∀ x, x ∈ v ↔ Live s x

theorem FInv_init : FInv {} [] := ⟨by simp, by intro x; simp [Live]⟩

theorem view_append (e1 : List Ev) : ∀ (v : List (Nat × Nat)) (e2 : List Ev),
    view v (e1 ++ e2) = view (view v e1) e2 := by
  induction e1 with
  | nil => intro v e2; rfl
  | cons e es ih =>
    intro v e2
    cases e <;> simp only [List.cons_append, view, ih]

theorem find_none {s : Feed} {id : Nat} (h : find s id = none) : ∀ q, q ∈ s.peers → q.id ≠ id := by
  unfold find at h
  rw [List.find?_eq_none] at h
  intro q hq e
  exact h q hq (by simp [e])

theorem find_some {s : Feed} {id : Nat} {p : FPeer} (h : find s id = some p) :
    p ∈ s.peers ∧ p.id = id := by
  unfold find at h
  exact ⟨List.mem_of_find?_eq_some h, by simpa using List.find?_some h⟩

/-- with distinct ids, the connection with a given id is unique -/
theorem uniq {l : List FPeer} (hn : (l.map (·.id)).Nodup) {p q : FPeer} (hp : p ∈ l) (hq : q ∈ l)
    (e : p.id = q.id) : p = q := by
  induction l with
  | nil => cases hp
  | cons x xs ih =>
    simp only [List.map_cons, List.nodup_cons, List.mem_map, not_exists, not_and] at hn
    simp only [List.mem_cons] at hp hq
    rcases hp with rfl | hp <;> rcases hq with rfl | hq
    · rfl
    · exact absurd e.symm (hn.1 q hq)
    · exact absurd e (hn.1 p hp)
    · exact ih hn.2 hp hq

theorem mem_view_add {v : List (Nat × Nat)} {id port fl : Nat} {x : Nat × Nat} :
    x ∈ view v [.add id port fl] ↔ x ∈ v ∨ x = (id, port) := by
  simp only [view]
  split
  · rename_i h
    have := List.contains_iff_mem.1 h
    constructor
    · exact Or.inl
    · rintro (h | rfl)
      · exact h
      · exact this
  · simp only [List.mem_cons]
    constructor
    · rintro (h | h)
      · exact Or.inr h
      · exact Or.inl h
    · rintro (h | h)
      · exact Or.inr h
      · exact Or.inl h

theorem mem_view_del {v : List (Nat × Nat)} {id port : Nat} {x : Nat × Nat} :
    x ∈ view v [.del id port] ↔ x ∈ v ∧ x ≠ (id, port) := by
  simp [view, List.mem_filter]

theorem FInv_leaveP {s : Feed} {v : List (Nat × Nat)} (h : FInv s v) (id : Nat) :
    FInv (leaveP s id).1 (view v (leaveP s id).2) ∧
    (∀ i p, Ev.del i p ∈ (leaveP s id).2 → (i, p) ∈ v) ∧
    (∀ i p f, Ev.add i p f ∉ (leaveP s id).2) := by
  unfold leaveP
  cases hf : find s id with
  | none => exact ⟨h, by simp, by simp⟩
  | some p =>
    obtain ⟨hp, hid⟩ := find_some hf
    simp only
    have hnd : ((s.peers.filter (fun q => q.id != id)).map (·.id)).Nodup :=
      List.Nodup.sublist (List.Sublist.map _ List.filter_sublist) h.nd
    have hlive : ∀ x, Live { peers := s.peers.filter (fun q => q.id != id) } x ↔
        Live s x ∧ ¬ (p.port > 0 ∧ x = (p.id, p.port)) := by
      intro x
      unfold Live
      simp only [List.mem_filter, bne_iff_ne, ne_eq]
      constructor
      · rintro ⟨q, ⟨hq, hne⟩, hpos, rfl⟩
        refine ⟨⟨q, hq, hpos, rfl⟩, ?_⟩
        rintro ⟨_, e⟩
        simp only [Prod.mk.injEq] at e
        exact hne (e.1.trans hid)
      · rintro ⟨⟨q, hq, hpos, rfl⟩, hn⟩
        refine ⟨q, ⟨hq, ?_⟩, hpos, rfl⟩
        intro e
        have : q = p := uniq h.nd hq hp (e.trans hid.symm)
        subst this
        exact hn ⟨hpos, rfl⟩
    by_cases hpos : p.port > 0
    · simp only [hpos, if_true]
      refine ⟨⟨hnd, ?_⟩, ?_, by simp⟩
      · intro x
        rw [mem_view_del, h.vw x, hlive x]
        constructor
        · rintro ⟨hl, hne⟩; exact ⟨hl, fun ⟨_, e⟩ => hne e⟩
        · rintro ⟨hl, hn⟩; exact ⟨hl, fun e => hn ⟨hpos, e⟩⟩
      · intro i pp hm
        simp only [List.mem_singleton, Ev.del.injEq] at hm
        rw [hm.1, hm.2]
        exact (h.vw _).2 ⟨p, hp, hpos, rfl⟩
    · simp only [hpos, if_false]
      refine ⟨⟨hnd, ?_⟩, by simp, by simp⟩
      intro x
      simp only [view]
      rw [h.vw x, hlive x]
      constructor
      · intro hl; exact ⟨hl, fun ⟨hp', _⟩ => hpos hp'⟩
      · exact fun hl => hl.1

theorem map_id_replace {l : List FPeer} {id : Nat} {p' : FPeer} (hid : p'.id = id) :
    (l.map (fun q => if q.id == id then p' else q)).map (·.id) = l.map (·.id) := by
  induction l with
  | nil => rfl
  | cons x xs ih =>
    simp only [List.map_cons, ih, List.cons.injEq, and_true]
    by_cases e : x.id = id
    · simp [e, hid]
    · simp [e]

theorem FInv_step {s : Feed} {v : List (Nat × Nat)} (h : FInv s v) (op : Op) :
    FInv (step s op).1 (view v (step s op).2) ∧
    (∀ i p, Ev.del i p ∈ (step s op).2 → (i, p) ∈ v) := by
  cases op with
  | join id port incoming =>
    simp only [step]
    cases hf : find s id with
    | some p => simp only [Option.isSome_some, if_true]; exact ⟨h, by simp⟩
    | none =>
      simp only [Option.isSome_none, Bool.false_eq_true, if_false]
      have hne := find_none hf
      obtain ⟨np, hnp⟩ : ∃ np : FPeer,
          np = FPeer.mk id (if incoming = true then 0 else port) incoming false := ⟨_, rfl⟩
      have hnpid : np.id = id := by rw [hnp]
      rw [← hnp]
      have hnd : ((s.peers ++ [np]).map (·.id)).Nodup := by
        simp only [List.map_append, List.map_cons, List.map_nil]
        rw [List.nodup_append]
        refine ⟨h.nd, by simp, ?_⟩
        intro a ha b hb
        simp only [List.mem_singleton] at hb
        subst hb
        obtain ⟨q, hq, rfl⟩ := List.mem_map.1 ha
        rw [hnpid]
        exact hne q hq
      unfold getPex
      split
      · rename_i hpos
        refine ⟨⟨hnd, ?_⟩, by simp⟩
        intro x
        rw [mem_view_add, h.vw x]
        unfold Live
        simp only [List.mem_append, List.mem_singleton]
        constructor
        · rintro (⟨q, hq, hp, rfl⟩ | rfl)
          · exact ⟨q, Or.inl hq, hp, rfl⟩
          · exact ⟨np, Or.inr rfl, hpos, rfl⟩
        · rintro ⟨q, hq | rfl, hp, rfl⟩
          · exact Or.inl ⟨q, hq, hp, rfl⟩
          · exact Or.inr rfl
      · rename_i hpos
        refine ⟨⟨hnd, ?_⟩, by simp⟩
        intro x
        simp only [view]
        rw [h.vw x]
        unfold Live
        simp only [List.mem_append, List.mem_singleton]
        constructor
        · rintro ⟨q, hq, hp, rfl⟩; exact ⟨q, Or.inl hq, hp, rfl⟩
        · rintro ⟨q, hq | rfl, hp, rfl⟩
          · exact ⟨q, hq, hp, rfl⟩
          · exact absurd hp hpos
  | leave id =>
    have := FInv_leaveP h id
    exact ⟨this.1, this.2.1⟩
  | ext0 id pp =>
    simp only [step]
    cases hf : find s id with
    | none => exact ⟨h, by simp⟩
    | some p =>
      obtain ⟨hp, hid⟩ := find_some hf
      simp only
      split
      · have := FInv_leaveP h id
        exact ⟨this.1, this.2.1⟩
      · -- the port changes only from "unknown"
        generalize hport : (if (pp != 0) = true then
            (if (p.port != 0 && pp != p.port) = true then p.port else pp) else p.port) = port'
        have hkeep : p.port > 0 → port' = p.port := by
          intro hpos
          rw [← hport]
          have : p.port ≠ 0 := by omega
          by_cases h1 : pp = 0
          · simp [h1]
          · by_cases h2 : pp = p.port
            · simp [h1, h2]
            · simp [h1, h2, this]
        have hnd : ((s.peers.map (fun q => if q.id == id then
            ({ p with gotExt := true, port := port' } : FPeer) else q)).map (·.id)).Nodup := by
          rw [map_id_replace (by exact hid)]; exact h.nd
        have hlive : ∀ x, Live { peers := s.peers.map (fun q => if q.id == id then
            ({ p with gotExt := true, port := port' } : FPeer) else q) } x ↔
            (Live s x ∧ ¬ (p.port > 0 ∧ x = (p.id, p.port))) ∨ (port' > 0 ∧ x = (p.id, port')) := by
          intro x
          unfold Live
          simp only [List.mem_map]
          constructor
          · rintro ⟨q', ⟨q, hq, rfl⟩, hpos, rfl⟩
            by_cases e : q.id = id
            · simp only [e, beq_self_eq_true, if_true] at hpos ⊢
              exact Or.inr ⟨hpos, by simp⟩
            · have e' : (q.id == id) = false := by simpa using e
              simp only [e', Bool.false_eq_true, if_false] at hpos ⊢
              refine Or.inl ⟨⟨q, hq, hpos, rfl⟩, ?_⟩
              rintro ⟨_, e2⟩
              simp only [Prod.mk.injEq] at e2
              exact e (e2.1.trans hid)
          · rintro (⟨⟨q, hq, hpos, rfl⟩, hn⟩ | ⟨hpos, rfl⟩)
            · have e : q.id ≠ id := by
                intro e
                have : q = p := uniq h.nd hq hp (e.trans hid.symm)
                subst this
                exact hn ⟨hpos, rfl⟩
              have e' : (q.id == id) = false := by simpa using e
              exact ⟨q, ⟨q, hq, by simp [e']⟩, hpos, rfl⟩
            · refine ⟨{ p with gotExt := true, port := port' }, ⟨p, hp, by simp [hid]⟩, hpos, rfl⟩
        unfold getPex
        simp only
        by_cases hpos' : port' > 0
        · simp only [hpos', if_true]
          refine ⟨⟨hnd, ?_⟩, by simp⟩
          intro x
          rw [mem_view_add, h.vw x, hlive x]
          constructor
          · rintro (hl | rfl)
            · by_cases hx : p.port > 0 ∧ x = (p.id, p.port)
              · right
                obtain ⟨hpp, rfl⟩ := hx
                rw [hkeep hpp]
                exact ⟨hpp, rfl⟩
              · exact Or.inl ⟨hl, hx⟩
            · exact Or.inr ⟨hpos', rfl⟩
          · rintro (⟨hl, _⟩ | ⟨_, rfl⟩)
            · exact Or.inl hl
            · exact Or.inr rfl
        · simp only [hpos', if_false]
          refine ⟨⟨hnd, ?_⟩, by simp⟩
          intro x
          simp only [view]
          rw [h.vw x, hlive x]
          have hp0 : ¬ p.port > 0 := fun hpp => hpos' (by rw [hkeep hpp]; exact hpp)
          constructor
          · intro hl; exact Or.inl ⟨hl, fun ⟨hpp, _⟩ => hp0 hpp⟩
          · rintro (⟨hl, _⟩ | ⟨hpp, _⟩)
            · exact hl
            · exact absurd hpp hpos'

theorem FInv_run : ∀ (ops : List Op) (s : Feed) (v : List (Nat × Nat)), FInv s v →
    FInv (run s ops).1 (view v (run s ops).2)
  | [], s, v, h => h
  | op :: ops, s, v, h => by
    simp only [run]
    rw [view_append]
    exact FInv_run ops _ _ (FInv_step h op).1

end Storrent.PexFeed
