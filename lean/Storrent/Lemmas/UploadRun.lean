import Storrent.Lemmas.UploadInv
/- The global invariant over all histories: counter = number of live unchoked peers, and
   every peer's wire trace is accepted by the stream oracle in a ghost state that matches
   the peer's state. -/
namespace Storrent.Upload
open Storrent Storrent.Wire

def recvOf : Op → List Ev
  | .recv _ m _ => [.recv m]
  | _ => []

theorem other_ok (p : Peer) (num : Int) (o : OSt) (m : Msg) (h : PInv p o)
    (hm : scan1 o (Ev.recv m) = some o) :
    HOK p num o [Ev.recv m] (mkRes p num [] .none "other") :=
  ⟨by simp [mkRes_num, mkRes_p], ⟨o, by simp [mkRes_msgs, scan_one, hm], h⟩, rfl⟩

theorem handle_ok (st : Store) (p : Peer) (num : Int) (op : Op) (o : OSt)
    (hl : p.live = true) (h : PInv p o) : HOK p num o (recvOf op) (handle st p num op) := by
  have nothing : HOK p num o [] (mkRes p num [] .none "other") :=
    ⟨by simp [mkRes_num, mkRes_p], ⟨o, by simp [mkRes_msgs, scan], h⟩, rfl⟩
  cases op with
  | newPeer f i => exact nothing
  | storeAdd k => exact nothing
  | storeEvict k => exact nothing
  | unchoke k b w => exact onPeerUnchoke_ok p num b w o hl h
  | tick k cong lim w => exact onTick_ok st p num cong lim w o h
  | gotMeta k => exact onMeta_ok p num o h
  | exit k => exact onExit_ok p num o hl h
  | recv k m w =>
    cases m with
    | request i b l => exact onRequest_ok st p num ⟨i, b, l⟩ w o h
    | cancel i b l => exact onCancel_ok p num ⟨i, b, l⟩ w o h
    | interested => exact onInterested_ok p num o h
    | notInterested => exact onNotInterested_ok p num w o hl h
    | _ => exact other_ok p num o _ h rfl

/-! ### the counter -/

theorem cnt_append (ps : List Peer) (q : Peer) : cnt (ps ++ [q]) = cnt ps + ind q := by
  induction ps with
  | nil => simp [cnt, ind]
  | cons a as ih => simp only [List.cons_append, cnt, ih]; omega

theorem cnt_set (ps : List Peer) (k : Nat) (p q : Peer) (h : ps[k]? = some p) :
    cnt (ps.set k q) = cnt ps - ind p + ind q := by
  induction ps generalizing k with
  | nil => simp at h
  | cons a as ih =>
    cases k with
    | zero =>
      simp only [List.getElem?_cons_zero, Option.some.injEq] at h
      subst h
      simp only [List.set_cons_zero, cnt, ind]; omega
    | succ k =>
      simp only [List.getElem?_cons_succ] at h
      simp only [List.set_cons_succ, cnt, ih k h]; omega

theorem ind_nonneg (p : Peer) : 0 ≤ ind p := by unfold ind; split <;> omega

theorem cnt_nonneg (ps : List Peer) : 0 ≤ cnt ps := by
  induction ps with
  | nil => simp [cnt]
  | cons a as ih => simp only [cnt]; split <;> omega

theorem ind_le_cnt (ps : List Peer) (k : Nat) (p : Peer) (h : ps[k]? = some p) : ind p ≤ cnt ps := by
  induction ps generalizing k with
  | nil => simp at h
  | cons a as ih =>
    cases k with
    | zero =>
      simp only [List.getElem?_cons_zero, Option.some.injEq] at h
      subst h
      have := cnt_nonneg as
      simp only [cnt, ind]; omega
    | succ k =>
      simp only [List.getElem?_cons_succ] at h
      have := ih k h
      simp only [cnt]; split <;> omega

/-! ### one step of the system -/

theorem step_nopeer (s : State) (op : Op) (k : Nat) (ht : op.target = some k)
    (h : s.peers[k]? = none) : (step s op).1 = s ∧ opEvents s op (step s op).2 = [] := by
  cases op <;> simp_all [step, Op.target, opEvents]

theorem step_dead (s : State) (op : Op) (k : Nat) (p : Peer) (ht : op.target = some k)
    (h : s.peers[k]? = some p) (hl : p.live = false) :
    (step s op).1 = s ∧ opEvents s op (step s op).2 = [] := by
  cases op <;> simp_all [step, Op.target, opEvents]

theorem step_nopeer_out (s : State) (op : Op) (k : Nat) (ht : op.target = some k)
    (h : s.peers[k]? = none) :
    (step s op).2.msgs = [] ∧ (step s op).2.alloc = 0 ∧ (step s op).2.panic = false := by
  cases op <;> simp_all [step, Op.target]

theorem step_dead_out (s : State) (op : Op) (k : Nat) (p : Peer) (ht : op.target = some k)
    (h : s.peers[k]? = some p) (hl : p.live = false) :
    (step s op).2.msgs = [] ∧ (step s op).2.alloc = 0 ∧ (step s op).2.panic = false := by
  cases op <;> simp_all [step, Op.target]

theorem step_live (s : State) (op : Op) (k : Nat) (p : Peer) (ht : op.target = some k)
    (h : s.peers[k]? = some p) (hl : p.live = true) :
    (step s op).1 = { s with peers := s.peers.set k (handle s.store p s.num op).p,
                             num := (handle s.store p s.num op).num } ∧
    (step s op).2.msgs = (handle s.store p s.num op).msgs ∧
    (step s op).2.alloc = (handle s.store p s.num op).alloc ∧
    (step s op).2.panic = (handle s.store p s.num op).panic ∧
    opEvents s op (step s op).2 =
      (recvOf op ++ (handle s.store p s.num op).msgs.map Ev.sent).map (fun e => (k, e)) := by
  cases op <;> simp_all [step, Op.target, opEvents, recvOf, Function.comp_def]

theorem step_untargeted (s : State) (op : Op) (ht : op.target = none) :
    opEvents s op (step s op).2 = [] ∧ (step s op).1.num = s.num ∧
    ((step s op).1.peers = s.peers ∨ ∃ f i, (step s op).1.peers = s.peers ++ [Peer.fresh f i]) ∧
    (step s op).2.msgs = [] ∧ (step s op).2.alloc = 0 ∧ (step s op).2.panic = false := by
  cases op with
  | newPeer f i => exact ⟨rfl, rfl, Or.inr ⟨f, i, rfl⟩, rfl, rfl, rfl⟩
  | storeAdd k => exact ⟨rfl, rfl, Or.inl rfl, rfl, rfl, rfl⟩
  | storeEvict k => exact ⟨rfl, rfl, Or.inl rfl, rfl, rfl, rfl⟩
  | _ => simp [Op.target] at ht

theorem proj_append (k : Nat) (a b : List (Nat × Ev)) : proj k (a ++ b) = proj k a ++ proj k b := by
  simp [proj, List.filterMap_append]

theorem proj_map_same (k : Nat) (evs : List Ev) : proj k (evs.map (fun e => (k, e))) = evs := by
  induction evs with
  | nil => rfl
  | cons e es ih => simp only [List.map_cons, proj, List.filterMap_cons, if_true]; exact congrArg _ ih

theorem proj_map_other (k k' : Nat) (evs : List Ev) (h : k ≠ k') :
    proj k' (evs.map (fun e => (k, e))) = [] := by
  induction evs with
  | nil => rfl
  | cons e es ih =>
    simp only [List.map_cons, proj, List.filterMap_cons, h, if_false]; exact ih

structure GInv (s : State) (tr : List (Nat × Ev)) : Prop where
  num : s.num = cnt s.peers
  none : ∀ k, s.peers.length ≤ k → proj k tr = []
  peers : ∀ k p, s.peers[k]? = some p → ∃ o, scan OSt.init (proj k tr) = some o ∧ PInv p o

theorem PInv_fresh (f i : Bool) : PInv (Peer.fresh f i) OSt.init :=
  ⟨rfl, Sub.nil _, fun _ => ⟨rfl, rfl⟩, fun _ => rfl, (fun r hr => by cases hr),
    fun _ hh => absurd rfl hh⟩

theorem GInv_init (st : Store) : GInv (State.init st) [] :=
  ⟨rfl, fun _ _ => rfl, fun k p h => by simp [State.init] at h⟩

theorem GInv_step (s : State) (tr : List (Nat × Ev)) (op : Op) (h : GInv s tr) :
    GInv (step s op).1 (tr ++ opEvents s op (step s op).2) := by
  cases ht : op.target with
  | none =>
    rcases step_untargeted s op ht with ⟨h1, h2, h3, _⟩
    rw [h1, List.append_nil]
    rcases h3 with h3 | ⟨f, i, h3⟩
    · exact ⟨by rw [h2, h3]; exact h.num, by rw [h3]; exact h.none, by rw [h3]; exact h.peers⟩
    · refine ⟨?_, ?_, ?_⟩
      · rw [h2, h3, cnt_append, h.num]; simp [ind, Peer.fresh]
      · rw [h3]; intro k hk; apply h.none; simp at hk; omega
      · rw [h3]; intro k p hp
        by_cases hk : k < s.peers.length
        · rw [List.getElem?_append_left hk] at hp; exact h.peers k p hp
        · have hk' : s.peers.length ≤ k := by omega
          rw [List.getElem?_append_right hk'] at hp
          have : k - s.peers.length = 0 := by
            cases hh : k - s.peers.length with
            | zero => rfl
            | succ n => rw [hh] at hp; simp at hp
          rw [this] at hp
          simp only [List.getElem?_cons_zero, Option.some.injEq] at hp
          subst hp
          exact ⟨OSt.init, by rw [h.none k hk']; rfl, PInv_fresh f i⟩
  | some k =>
    cases hp : s.peers[k]? with
    | none =>
      rcases step_nopeer s op k ht hp with ⟨h1, h2⟩
      rw [h1, h2, List.append_nil]; exact h
    | some p =>
      cases hl : p.live with
      | false =>
        rcases step_dead s op k p ht hp hl with ⟨h1, h2⟩
        rw [h1, h2, List.append_nil]; exact h
      | true =>
        rcases step_live s op k p ht hp hl with ⟨h1, _, _, _, h2⟩
        rcases h.peers k p hp with ⟨o, ho, hinv⟩
        have hok := handle_ok s.store p s.num op o hl hinv
        have hklt : k < s.peers.length := by
          rcases Nat.lt_or_ge k s.peers.length with hh | hh
          · exact hh
          · rw [List.getElem?_eq_none hh] at hp; cases hp
        rw [h1, h2]
        refine ⟨?_, ?_, ?_⟩
        · simp only
          rw [cnt_set s.peers k p _ hp, hok.num, h.num]
        · intro k' hk'
          simp only [List.length_set] at hk'
          rw [proj_append, h.none k' hk', proj_map_other k k' _ (by omega)]; rfl
        · intro k' p' hp'
          simp only at hp'
          rw [List.getElem?_set] at hp'
          by_cases hkk : k = k'
          · subst hkk
            simp only [if_true, hklt, Option.some.injEq] at hp'
            subst hp'
            rcases hok.inv with ⟨o', h3, h4⟩
            refine ⟨o', ?_, h4⟩
            rw [proj_append, proj_map_same, scan_append, ho]
            exact h3
          · simp only [hkk, if_false] at hp'
            rcases h.peers k' p' hp' with ⟨o', h3, h4⟩
            refine ⟨o', ?_, h4⟩
            rw [proj_append, proj_map_other k k' _ hkk, List.append_nil]
            exact h3

theorem runT_cons (s : State) (op : Op) (ops : List Op) :
    runT s (op :: ops) = ((runT (step s op).1 ops).1,
      opEvents s op (step s op).2 ++ (runT (step s op).1 ops).2) := rfl

theorem GInv_runT (ops : List Op) : ∀ (s : State) (tr : List (Nat × Ev)), GInv s tr →
    GInv (runT s ops).1 (tr ++ (runT s ops).2) := by
  induction ops with
  | nil => intro s tr h; simpa [runT] using h
  | cons op ops ih =>
    intro s tr h
    rw [runT_cons]
    simp only
    rw [← List.append_assoc]
    exact ih _ _ (GInv_step s tr op h)

/-- every state reachable from the empty process satisfies the invariant -/
theorem GInv_reach (st : Store) (ops : List Op) :
    GInv (run (State.init st) ops) (runT (State.init st) ops).2 := by
  have := GInv_runT ops (State.init st) [] (GInv_init st)
  simpa [run] using this

end Storrent.Upload
