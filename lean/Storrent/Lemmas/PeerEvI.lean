import Storrent.Lemmas.PeerMsgCases
/- the torrent's own commands (`peer.handleEvent`) and the exit path keep `Inv` and never fault -/
namespace Storrent.PeerMsg
open Storrent Storrent.RequestsI Storrent.Wire

attribute [local irreducible] get modify emit charge chargeStore tagAs throw fault failTag write
  isCongested writeEvent failW fromChunk toChunk chunkSize numPieces drop dropAll reject docancel
  active startStopUpload rejectAll unchoke maybeInterested maybeRequestLoop maybeRequest pexAdd pexDrop

macro "spec_leaf" : tactic => `(tactic| first
  | exact spec_pure _ | exact spec_writeEvent _ | exact spec_write _ | exact spec_isCongested
  | exact spec_reject _ _ _ | exact spec_chunkSize _ | exact spec_failW _ | exact spec_throw _
  | exact spec_failTag _ _ | exact spec_tagAs _ | exact spec_charge _ | exact spec_chargeStore _
  | exact spec_unchoke _ | exact spec_maybeInterested | exact spec_startStopUpload
  | exact spec_pexAdd _ | exact spec_pexDrop _ | exact spec_active | exact spec_rejectAll _
  | assumption
  | frame_modify)

macro "spec_auto2" : tactic => `(tactic| repeat' (first
  | spec_leaf
  | (exfalso; simp_all [uploadQ]; done)
  | (refine spec_get_bind (fun _ => ?_)) | (refine spec_bind ?_ (fun _ => ?_)) | split | (dsimp only)))

macro "specg_auto" : tactic => `(tactic| repeat' (first
  | exact specG_numPieces | exact specG_toChunk _ _ | exact specG_fromChunk _ | exact specG_drop _
  | exact specG_dropAll _ | exact specG_docancel _ | exact specG_maybeRequest
  | assumption
  | exact specG_of_spec (by spec_leaf)
  | (refine specG_get_bind (fun _ => ?_)) | (refine specG_bind ?_ (fun _ => ?_)) | split | (dsimp only)))


theorem specG_enqueueAll (l : List Nat) : SpecG (enqueueAll l) := by
  induction l with
  | nil => exact specG_of_spec (spec_pure ())
  | cons ch l ih =>
    intro c hi hinfo
    unfold enqueueAll
    rw [ok_bind, ok_get]
    dsimp only
    refine ok_step_specG (specG_fromChunk ch) hi hinfo ?_
    intro a c1 hg1 hinfo1
    split
    · have hc := enqueue_consistent hi.cons ch
      generalize enqueue c.s.requests ch = en at hc
      obtain ⟨rs, ok, al⟩ := en
      dsimp only at hc ⊢
      have hinv2 : Inv { c1.s with requests := rs } := inv_setReq hg1.2 hinfo1 hc
      refine ok_step_modify ⟨rfl, rfl, rfl⟩ hinv2 ?_
      refine (?_ : SpecG _) _ hinv2 hinfo1
      specg_auto
    · refine (?_ : SpecG _) _ hg1.2 hinfo1
      specg_auto

theorem specG_cancelChunk (ch : Nat) : SpecG (cancelChunk ch) := by
  intro c hi hinfo
  unfold cancelChunk
  rw [ok_bind, ok_get]
  dsimp only
  have hcc := (cancel_consistent hi.cons ch).1
  generalize RequestsI.cancel c.s.requests ch = cn at hcc
  obtain ⟨rs, f, cnl⟩ := cn
  dsimp only at hcc ⊢
  split
  · have hinv2 : Inv { c.s with requests := rs } := inv_setReq hi hinfo hcc
    refine ok_step_modify ⟨rfl, rfl, rfl⟩ hinv2 ?_
    refine (?_ : SpecG _) _ hinv2 hinfo
    specg_auto
  · obtain ⟨rs', q, r, hd, hc, -⟩ := del_consistent hi.cons ch false
    rw [hd]
    dsimp only
    have hinv2 : Inv { c.s with requests := rs' } := inv_setReq hi hinfo hc
    refine ok_step_modify ⟨rfl, rfl, rfl⟩ hinv2 ?_
    refine (?_ : SpecG _) _ hinv2 hinfo
    specg_auto

theorem specG_cancelRange (base n : Nat) : SpecG (cancelRange base n) := by
  induction n with
  | zero => exact specG_of_spec (spec_pure ())
  | succ k ih => unfold cancelRange; exact specG_bind ih (fun _ => specG_cancelChunk _)

macro "specg_auto3" : tactic => `(tactic| repeat' (first
  | exact specG_numPieces | exact specG_toChunk _ _ | exact specG_fromChunk _ | exact specG_drop _
  | exact specG_dropAll _ | exact specG_docancel _ | exact specG_maybeRequest
  | exact specG_enqueueAll _ | exact specG_cancelChunk _ | exact specG_cancelRange _ _
  | assumption
  | exact specG_of_spec (by spec_leaf)
  | (refine specG_get_bind (fun _ => ?_)) | (refine specG_bind ?_ (fun _ => ?_)) | split | (dsimp only)))

/-- the geometry a `PeerMetadataComplete` may announce (what tor.MetadataComplete accepts) -/
def PEv.Valid : PEv → Prop
  | .metadataComplete _ ps _ => CS ≤ ps
  | _ => True


theorem tG_pev (e : PEv) (h : ∀ il ps len, e ≠ .metadataComplete il ps len) : SpecG (handleEventM e) := by
  unfold handleEventM
  refine specG_get_bind (fun s => ?_)
  cases e with
  | metadataComplete il ps len => exact absurd rfl (h il ps len)
  | request l => dsimp only; specg_auto3
  | «have» i b => dsimp only; specg_auto3
  | cancel ch => dsimp only; specg_auto3
  | cancelPiece i => dsimp only; specg_auto3
  | interested b => dsimp only; specg_auto3
  | getMetadata i => dsimp only; specg_auto3
  | unchoke b => dsimp only; specg_auto3
  | done => dsimp only; specg_auto3

theorem t_pev_noinfo (e : PEv) (h : ∀ il ps len, e ≠ .metadataComplete il ps len) (c : Ctx) (hi : Inv c.s)
    (hinfo : c.s.info = false) : Ok (handleEventM e) c (fun _ c' => Good c c') := by
  unfold handleEventM
  rw [ok_bind, ok_get]
  cases e with
  | metadataComplete il ps len => exact absurd rfl (h il ps len)
  | request l => dsimp only; simp only [hinfo, Bool.not_false, ↓reduceIte, ok_bind, ok_failTag]; exact hi
  | cancel ch => dsimp only; simp only [hinfo, Bool.not_false, ↓reduceIte, ok_bind, ok_failTag]; exact hi
  | cancelPiece i => dsimp only; simp only [hinfo, Bool.not_false, ↓reduceIte, ok_bind, ok_failTag]; exact hi
  | «have» i b => dsimp only; refine (?_ : Spec _) c hi; spec_auto2
  | interested b => dsimp only; refine (?_ : Spec _) c hi; spec_auto2
  | getMetadata i => dsimp only; refine (?_ : Spec _) c hi; spec_auto2
  | unchoke b => dsimp only; refine (?_ : Spec _) c hi; spec_auto2
  | done => dsimp only; refine (?_ : Spec _) c hi; spec_auto2

/-- `PeerMetadataComplete` with a usable geometry: the metadata becomes known -/
theorem t_pev_meta (il ps len : Nat) (hps : CS ≤ ps) (c : Ctx) (hi : Inv c.s) :
    Ok (handleEventM (.metadataComplete il ps len)) c (fun _ c' => Inv c'.s) := by
  unfold handleEventM
  rw [ok_bind, ok_get]
  dsimp only
  split
  · simp only [ok_bind, ok_failTag]; exact hi
  rename_i hinf
  have h0 : c.s.info = false := by simpa using hinf
  obtain ⟨hq, hr⟩ := hi.noinfo h0
  have hinv1 : Inv { c.s with info := true, infoLen := il, pieceSize := ps, length := len } :=
    ⟨fun _ => hps, hi.cons, fun h => by simp at h⟩
  rw [ok_bind, ok_modify]
  refine ok_mono ((?_ : SpecG _) _ hinv1 rfl) (fun _ _ h => h.2)
  specg_auto3

end Storrent.PeerMsg
