import Storrent.Model.PeerOut
/- The uint32 chunk arithmetic of peer.go against the geometry. -/
namespace Storrent.PeerOut
open Storrent

/-- what `tor.MetadataComplete` enforces -/
structure GeomOK (ps : UInt32) (length : Nat) : Prop where
  psMin : 16384 ≤ ps.toNat
  psMul : ps.toNat % 16384 = 0
  lenPos : 0 < length
  chunks : (length + 16383) / 16384 < 4294967296

def nChunks (length : Nat) : Nat := (length + 16383) / 16384

theorem chunkSz_toNat : chunkSz.toNat = 16384 := by decide

theorem fromChunk_spec {ps : UInt32} (h1 : 16384 ≤ ps.toNat) {c : Nat} (hc : c < 4294967296) :
    ∃ i b, fromChunk ps (UInt32.ofNat c) = some (i, b) ∧
      i.toNat = c / (ps.toNat / 16384) ∧ b.toNat = c % (ps.toNat / 16384) * 16384 := by
  have hk : (ps / chunkSz).toNat = ps.toNat / 16384 := by
    rw [UInt32.toNat_div, chunkSz_toNat]
  have hkpos : 0 < ps.toNat / 16384 := by omega
  have hne : ¬ (ps / chunkSz = 0) := by
    intro e
    rw [e] at hk
    simp at hk
    omega
  have hcn : (UInt32.ofNat c).toNat = c := UInt32.toNat_ofNat_of_lt' hc
  refine ⟨UInt32.ofNat c / (ps / chunkSz), UInt32.ofNat c % (ps / chunkSz) * chunkSz, ?_, ?_, ?_⟩
  · unfold fromChunk
    simp only [hne, if_false]
  · rw [UInt32.toNat_div, hk, hcn]
  · rw [UInt32.toNat_mul, UInt32.toNat_mod, hk, hcn, chunkSz_toNat]
    apply Nat.mod_eq_of_lt
    have := Nat.mod_lt c hkpos
    have hps := ps.toNat_lt
    omega

theorem chunkSize_spec {length c : Nat} (hch : (length + 16383) / 16384 < 4294967296)
    (hc : c < nChunks length) :
    (chunkSize length (UInt32.ofNat c)).toNat = min 16384 (length - c * 16384) := by
  unfold nChunks at hc
  have hc32 : c < 4294967296 := by omega
  have hcn : (UInt32.ofNat c).toNat = c := UInt32.toNat_ofNat_of_lt' hc32
  unfold chunkSize
  by_cases hfull : length / 16384 < 4294967296
  · have hl : (UInt32.ofNat (length / 16384)).toNat = length / 16384 :=
      UInt32.toNat_ofNat_of_lt' hfull
    by_cases hlt : c < length / 16384
    · have : UInt32.ofNat c < UInt32.ofNat (length / 16384) := by
        rw [UInt32.lt_iff_toNat_lt, hcn, hl]; exact hlt
      simp only [this, if_true, chunkSz_toNat]
      omega
    · have : ¬ UInt32.ofNat c < UInt32.ofNat (length / 16384) := by
        rw [UInt32.lt_iff_toNat_lt, hcn, hl]; exact hlt
      simp only [this, if_false]
      rw [UInt32.toNat_ofNat_of_lt' (by have : UInt32.size = 4294967296 := rfl; omega)]
      omega
  · -- length / 16384 = 2^32 exactly: uint32(l/CS) wraps to 0, every chunk gets `l % CS` = 0
    exfalso
    omega

/-- position and length of an existing chunk -/
theorem chunk_wf {ps : UInt32} {length : Nat} (hg : GeomOK ps length) {c : Nat}
    (hc : c < nChunks length) :
    ∃ i b, fromChunk ps (UInt32.ofNat c) = some (i, b) ∧
      i.toNat * ps.toNat + b.toNat = c * 16384 ∧
      b.toNat % 16384 = 0 ∧ b.toNat < ps.toNat ∧
      i.toNat * ps.toNat + b.toNat < length ∧
      i.toNat < numPiecesOf ps length ∧
      (chunkSize length (UInt32.ofNat c)).toNat =
        min 16384 (length - (i.toNat * ps.toNat + b.toNat)) := by
  have hc32 : c < 4294967296 := by have := hg.chunks; unfold nChunks at hc; omega
  obtain ⟨i, b, hf, hi, hb⟩ := fromChunk_spec hg.psMin hc32
  obtain ⟨k, hkdef⟩ : ∃ k, k = ps.toNat / 16384 := ⟨_, rfl⟩
  rw [← hkdef] at hi hb
  have hk : 0 < k := by have := hg.psMin; omega
  have hps : ps.toNat = k * 16384 := by have := hg.psMul; omega
  have hmod := Nat.mod_lt c hk
  have hdm := Nat.div_add_mod c k
  have hlt : c * 16384 < length := by unfold nChunks at hc; omega
  have hpos : i.toNat * ps.toNat + b.toNat = c * 16384 := by
    rw [hi, hb, hps]
    have e : c / k * (k * 16384) = (k * (c / k)) * 16384 := by
      rw [← Nat.mul_assoc, Nat.mul_comm (c / k) k]
    rw [e]
    generalize k * (c / k) = m at hdm
    generalize c % k = r at hdm
    omega
  have hbm : b.toNat % 16384 = 0 := by rw [hb]; exact Nat.mul_mod_left _ _
  have hbl : b.toNat < ps.toNat := by
    rw [hb, hps]
    exact Nat.mul_lt_mul_of_pos_right hmod (by omega)
  refine ⟨i, b, hf, hpos, hbm, hbl, by omega, ?_, ?_⟩
  · unfold numPiecesOf
    have hpspos : 0 < ps.toNat := by have := hg.psMin; omega
    have h1 : i.toNat * ps.toNat < length := by omega
    have h2 : (i.toNat + 1) * ps.toNat ≤ length + ps.toNat - 1 := by
      rw [Nat.add_mul, Nat.one_mul]
      generalize i.toNat * ps.toNat = x at h1
      omega
    exact (Nat.le_div_iff_mul_le hpspos).2 h2
  · rw [chunkSize_spec hg.chunks hc, hpos]

end Storrent.PeerOut
