import Storrent.Lemmas.CostCases
/- the cost of a Choke: every queued (for a peer without Fast: also every sent) request is
   dropped, paid for by the potential they held; a Fast peer's membership bitmap is rebuilt -/
namespace Storrent.PeerMsg
open Storrent Storrent.RequestsI Storrent.Wire

theorem bSet_length_le (b : List Bool) (i n : Nat) (hb : b.length ≤ n) (hi : i < n) : (bSet b i).length ≤ n := by
  unfold bSet bExtend
  split <;> simp <;> omega

theorem foldSet_length_le (l : List Req) (b : List Bool) (n : Nat) (hb : b.length ≤ n)
    (hl : ∀ r, r ∈ l → r.index < n) : (l.foldl (fun b r => bSet b r.index) b).length ≤ n := by
  induction l generalizing b with
  | nil => simpa using hb
  | cons r l ih =>
    simp only [List.foldl_cons]
    exact ih _ (bSet_length_le b r.index n hb (hl r (by simp))) (fun r' hr' => hl r' (by simp [hr']))

theorem rebuilt_le {rs : Requests} (hc : Consistent rs) :
    bBytes (rs.requested.foldl (fun b r => bSet b r.index) []) ≤ bBytes rs.bits := by
  have := foldSet_length_le rs.requested [] rs.bits.length (by simp) (fun r hr => by
    apply bGet_lt
    apply (hc.2 r.index).mpr
    exact List.mem_append_right _ (List.mem_map_of_mem hr))
  unfold bBytes; omega

def kChoke (s : PeerState) : Nat := evCost + bBytes s.requests.bits

theorem tail_cost (N : Nat) (dropped : List Nat) :
    CSpecG N (do dropAll dropped; writeEvent (.peerUnchoke false)) (evCost * dropped.length + evCost) := by
  refine cspecG_bind (K1 := evCost * dropped.length) (specG_dropAll _) (cspecG_dropAll _) (fun _ => ?_) (by omega)
  exact cspecG_of_cspec (cspec_mono (by simp [torCost]) (cspec_writeEvent _))

theorem tail_cost_nil : CSpec (do dropAll []; writeEvent (.peerUnchoke false)) evCost := by
  refine cspec_bind (K1 := 0) spec_dropAll_nil cspec_dropAll_nil (fun _ => ?_) (by omega)
  exact cspec_mono (by simp [torCost]) (cspec_writeEvent _)

/-- what `Clear(both)` leaves and returns -/
theorem clear_facts {rs : Requests} (hc : Consistent rs) (both : Bool) :
    (clear rs both).1.queue = [] ∧
    (both = true → (clear rs both).1.requested = [] ∧
      (clear rs both).2.1.length = rs.requested.length + rs.queue.length ∧ (clear rs both).2.2 = 0) ∧
    (both = false → (clear rs both).1.requested = rs.requested ∧ (clear rs both).2.1 = rs.queue ∧
      (clear rs both).2.2 ≤ bBytes rs.bits) := by
  cases both with
  | true => simp [clear]
  | false =>
    refine ⟨by simp [clear], by simp, fun _ => ⟨by simp [clear], by simp [clear], ?_⟩⟩
    simp only [clear, Bool.false_eq_true, ↓reduceIte]
    exact rebuilt_le hc

theorem c_choke (ae) (c : Ctx) (hi : Inv c.s) : CostOut (handleWire .choke ae c) c (kChoke c.s) := by
  unfold handleWire
  rw [bindE, get_eval]
  dsimp only
  rw [bindE, tagAs_eval]
  dsimp only
  rw [bindE, modify_eval]
  dsimp only
  obtain ⟨hq0, hboth, hnot⟩ := clear_facts hi.cons (!c.s.canFast)
  obtain ⟨hcc, hdrop, hmem⟩ := clear_consistent hi.cons (!c.s.canFast)
  generalize clear c.s.requests (!c.s.canFast) = cl at hq0 hboth hnot hcc hdrop hmem
  obtain ⟨rs, dropped, a⟩ := cl
  dsimp only at hq0 hboth hnot hcc hdrop hmem ⊢
  rw [bindE, modify_eval]
  dsimp only
  rw [bindE, charge_eval]
  dsimp only
  -- the context in which the drops start
  have hinv3 : Inv ({ c.s with unchoked := false, requests := rs }) := by
    refine ⟨hi.geom, hcc, ?_⟩
    intro h
    have hm := members_nil_of_noinfo hi h
    have : members rs = [] := by
      cases hr : members rs with
      | nil => rfl
      | cons x xs => have := hmem x (by rw [hr]; simp); rw [hm] at this; cases this
    simpa [members] using this
  -- arithmetic: what was released pays for the drops
  have harith : a + evCost * dropped.length + potA * rs.queue.length + potB * rs.requested.length ≤
      potA * c.s.requests.queue.length + potB * c.s.requests.requested.length + bBytes c.s.requests.bits := by
    cases hb : (!c.s.canFast) with
    | true =>
      obtain ⟨h1, h2, h3⟩ := hboth hb
      rw [hq0, h1, h2, h3]
      simp only [List.length_nil, potA, potB, evCost, Nat.mul_add]; omega
    | false =>
      obtain ⟨h1, h2, h3⟩ := hnot hb
      rw [hq0, h1, h2]
      simp only [List.length_nil, potA, potB, evCost]; omega
  by_cases hinfo : c.s.info = true
  · have key := tail_cost (npOf c.s) dropped
      { c with s := { c.s with unchoked := false, requests := rs }, alloc := c.alloc + a,
               tag := if c.tag.isEmpty then "Choke" else c.tag ++ "+" ++ "Choke" } hinv3 hinfo rfl
    refine CostOut.credit (D := evCost * dropped.length + evCost) ?_ key (Nat.le_refl _)
    simp only [Psi, Pot, kChoke]
    omega
  · have h0 : c.s.info = false := by simpa using hinfo
    have hm := members_nil_of_noinfo hi h0
    have hd : dropped = [] := by
      cases hd : dropped with
      | nil => rfl
      | cons x xs => have := hdrop x (by rw [hd]; simp); rw [hm] at this; cases this
    subst hd
    have key := tail_cost_nil
      { c with s := { c.s with unchoked := false, requests := rs }, alloc := c.alloc + a,
               tag := if c.tag.isEmpty then "Choke" else c.tag ++ "+" ++ "Choke" } hinv3
    refine CostOut.credit (D := evCost) ?_ key (Nat.le_refl _)
    simp only [Psi, Pot, kChoke, List.length_nil] at harith ⊢
    omega

end Storrent.PeerMsg
